// Correspondence + direct harness for the methods of fp.Try / fp.Option / fp.Either and the
// hand-written cores of packages try, option, either (C01, C02).
package main

import (
	"flag"
	"fmt"
	"os"
	"strings"
	"verifharness/historychk"

	"github.com/csgura/fp"
	"github.com/csgura/fp/either"
	"github.com/csgura/fp/option"
	"github.com/csgura/fp/try"
	. "verifharness/common"
)

func tOf(s *Sx) fp.Try[any] {
	switch s.Head() {
	case "succ":
		return fp.Success[any](s.List[1].Int())
	case "fail":
		return fp.Failure[any](E(s.List[1].Int()))
	case "zero":
		return fp.Try[any]{}
	}
	panic("bad T")
}

func oOf(s *Sx) fp.Option[any] {
	if s.Head() == "some" {
		return fp.Some[any](s.List[1].Int())
	}
	return fp.None[any]()
}

func eOf(s *Sx) fp.Either[any, any] {
	if s.Head() == "right" {
		return fp.Right[any, any](s.List[1].Int())
	}
	return fp.Left[any, any](s.List[1].Int())
}

// handlers
func hErr(s *Sx) func(error) any {
	id, c := s.List[1].Int(), s.List[2].Int()
	if s.Head() == "hpanic" {
		return func(e error) any { Emit("h%d:%s", id, ShowErr(e)); panic(c) }
	}
	return func(e error) any { Emit("h%d:%s", id, ShowErr(e)); return c }
}
func hErrT(s *Sx) func(error) fp.Try[any] {
	id, t := s.List[1].Int(), tOf(s.List[2])
	return func(e error) fp.Try[any] { Emit("h%d:%s", id, ShowErr(e)); return t }
}
func pErr(s *Sx) func(error) bool {
	id, c := s.List[1].Int(), s.List[2].Int()
	return func(e error) bool { Emit("pe%d:%s", id, ShowErr(e)); return e == E(c) }
}

// suppliers: (sup id (ret n)) | (sup id (panic p)) | (sup id (reterr n e))
func sup(s *Sx) func() any {
	id, b := s.List[1].Int(), s.List[2]
	return func() any {
		Emit("s%d", id)
		if b.Head() == "panic" {
			panic(b.List[1].Int())
		}
		return b.List[1].Int()
	}
}
func sup2(s *Sx) func() (any, error) {
	id, b := s.List[1].Int(), s.List[2]
	return func() (any, error) {
		Emit("s%d", id)
		switch b.Head() {
		case "panic":
			panic(b.List[1].Int())
		case "reterr":
			return b.List[1].Int(), E(b.List[2].Int())
		}
		return b.List[1].Int(), nil
	}
}

func koOf(s *Sx) func(any) fp.Option[any] {
	k := KTOf(s)
	return func(x any) fp.Option[any] {
		t := k(x)
		if t.IsSuccess() {
			return fp.Some(t.Get())
		}
		return fp.None[any]()
	}
}

// transformer operands: (tsome n) (tnone) (tseq n...) (tfail e) (tsomenil)
func toOf(s *Sx) fp.Try[fp.Option[any]] {
	switch s.Head() {
	case "tsome":
		return fp.Success(fp.Some[any](s.List[1].Int()))
	case "tsomenil":
		return fp.Success(fp.Some[any](nil))
	case "tnone":
		return fp.Success(fp.None[any]())
	}
	return fp.Failure[fp.Option[any]](E(s.List[1].Int()))
}

func tsOf(s *Sx) fp.Try[fp.Seq[any]] {
	if s.Head() == "tseq" {
		xs := fp.Seq[any]{}
		for _, x := range s.List[1:] {
			xs = append(xs, x.Int())
		}
		return fp.Success(xs)
	}
	return fp.Failure[fp.Seq[any]](E(s.List[1].Int()))
}

func ktoOf(s *Sx) func(any) fp.Try[fp.Option[any]] {
	k := KTOf(s)
	return func(x any) fp.Try[fp.Option[any]] {
		t := k(x)
		if t.IsSuccess() {
			if Emod(AsInt(t.Get()), 2) == 0 {
				return fp.Success(fp.None[any]())
			}
			return fp.Success(fp.Some(t.Get()))
		}
		return fp.Failure[fp.Option[any]](t.Failed().Get())
	}
}

func ktsOf(s *Sx) func(any) fp.Try[fp.Seq[any]] {
	k := KTOf(s)
	return func(x any) fp.Try[fp.Seq[any]] {
		t := k(x)
		if t.IsSuccess() {
			return fp.Success(fp.Seq[any]{t.Get(), x})
		}
		return fp.Failure[fp.Seq[any]](t.Failed().Get())
	}
}

func runOp(op *Sx) string {
	a := op.List
	switch op.Head() {
	// try.OptionT
	case "optT.pure":
		return Show(try.PureOptionT[any](a[1].Int()))
	case "optT.lift":
		return Show(try.LiftOptionT(tOf(a[1])))
	case "optT.map":
		return Show(try.MapOptionT(toOf(a[1]), F1Of(a[2])))
	case "optT.subFlatMap":
		return Show(try.SubFlatMapOptionT(toOf(a[1]), koOf(a[2])))
	case "optT.traverse":
		return Show(try.TraverseOptionT(toOf(a[1]), KTOf(a[2])))
	case "optT.flatMap":
		return Show(try.FlatMapOptionT(toOf(a[1]), ktoOf(a[2])))
	case "optT.filter":
		return Show(try.FilterOptionT(toOf(a[1]), P1Of(a[2])))
	case "optT.orElse":
		return Show(try.OrElseOptionT(toOf(a[1]), any(a[2].Int())))
	case "optT.orElseGet":
		return Show(try.OrElseGetOptionT(toOf(a[1]), sup(a[2])))
	case "optT.or":
		o2 := oOf(a[3])
		id := a[2].Int()
		return Show(try.OrOptionT(toOf(a[1]), func() fp.Option[any] { Emit("s%d", id); return o2 }))
	case "optT.orOption":
		return Show(try.OrOptionOptionT(toOf(a[1]), oOf(a[2])))
	case "optT.recover":
		return Show(try.RecoverOptionT(toOf(a[1]), sup(a[2])))
	case "optT.fold":
		return Show(try.FoldOptionT(toOf(a[1]), any(a[2].Int()), F2Of(a[3])))
	// try.SeqT
	case "seqT.pure":
		return Show(try.PureSeqT[any](a[1].Int()))
	case "seqT.lift":
		return Show(try.LiftSeqT(tOf(a[1])))
	case "seqT.map":
		return Show(try.MapSeqT(tsOf(a[1]), F1Of(a[2])))
	case "seqT.subFlatMap":
		f := F1Of(a[2])
		return Show(try.SubFlatMapSeqT(tsOf(a[1]), func(x any) fp.Seq[any] { return fp.Seq[any]{f(x), x} }))
	case "seqT.traverse":
		return Show(try.TraverseSeqT(tsOf(a[1]), KTOf(a[2])))
	case "seqT.flatMap":
		return Show(try.FlatMapSeqT(tsOf(a[1]), ktsOf(a[2])))
	case "seqT.filter":
		return Show(try.FilterSeqT(tsOf(a[1]), P1Of(a[2])))
	case "seqT.filterNot":
		return Show(try.FilterNotSeqT(tsOf(a[1]), P1Of(a[2])))
	case "seqT.exists":
		return Show(try.ExistsSeqT(tsOf(a[1]), P1Of(a[2])))
	case "seqT.forAll":
		return Show(try.ForAllSeqT(tsOf(a[1]), P1Of(a[2])))
	case "seqT.find":
		return Show(try.FindSeqT(tsOf(a[1]), P1Of(a[2])))
	case "seqT.add":
		return Show(try.AddSeqT(tsOf(a[1]), any(a[2].Int())))
	case "seqT.take":
		return Show(try.TakeSeqT(tsOf(a[1]), a[2].Int()))
	case "seqT.drop":
		return Show(try.DropSeqT(tsOf(a[1]), a[2].Int()))
	case "seqT.head":
		return Show(try.HeadSeqT(tsOf(a[1])))
	case "seqT.last":
		return Show(try.LastSeqT(tsOf(a[1])))
	case "seqT.tail":
		return Show(try.TailSeqT(tsOf(a[1])))
	case "seqT.init":
		return Show(try.InitSeqT(tsOf(a[1])))
	case "seqT.reverse":
		return Show(try.ReverseSeqT(tsOf(a[1])))
	case "seqT.size":
		return Show(try.SizeSeqT(tsOf(a[1])))
	case "seqT.fold":
		return Show(try.FoldSeqT(tsOf(a[1]), any(a[2].Int()), F2Of(a[3])))
	// fp.Try methods
	case "t.map":
		return Show(tOf(a[1]).Map(F1Of(a[2])))
	case "t.flatMap":
		return Show(tOf(a[1]).FlatMap(KTOf(a[2])))
	case "t.mapError":
		id := a[2].Int()
		return Show(tOf(a[1]).MapError(func(e error) error { Emit("me%d:%s", id, ShowErr(e)); return E(id + 10) }))
	case "t.orElse":
		return Show(tOf(a[1]).OrElse(a[2].Int()))
	case "t.orElseGet":
		return Show(tOf(a[1]).OrElseGet(sup(a[2])))
	case "t.or":
		t2 := tOf(a[3])
		id := a[2].Int()
		return Show(tOf(a[1]).Or(func() fp.Try[any] { Emit("s%d", id); return t2 }))
	case "t.orTry":
		return Show(tOf(a[1]).OrTry(tOf(a[2])))
	case "t.recover":
		return Show(tOf(a[1]).Recover(hErr(a[2])))
	case "t.recoverWith":
		return Show(tOf(a[1]).RecoverWith(hErrT(a[2])))
	case "t.recoverCase":
		return Show(tOf(a[1]).RecoverCase(pErr(a[2]), hErr(a[3])))
	case "t.recoverCaseWith":
		return Show(tOf(a[1]).RecoverCaseWith(pErr(a[2]), hErrT(a[3])))
	case "t.get":
		return Show(tOf(a[1]).Get())
	case "t.foreach":
		tOf(a[1]).Foreach(func(v any) { Emit("fe:%s", Show(v)) })
		return "unit"
	case "t.toSeq":
		return Show(tOf(a[1]).ToSeq())
	case "t.isSuccess":
		return Show(tOf(a[1]).IsSuccess())
	// package try
	case "try.fromOption":
		return Show(try.FromOption(oOf(a[1])))
	case "try.of":
		return Show(try.Of(sup(a[1])))
	case "try.call":
		return Show(try.Call(sup2(a[1])))
	case "try.callUnit":
		f := sup2(a[1])
		return Show(try.CallUnit(func() error { _, e := f(); return e }))
	case "try.apply":
		if a[2].Int() == 0 {
			return Show(try.Apply[any](a[1].Int(), nil))
		}
		return Show(try.Apply[any](a[1].Int(), E(a[2].Int())))
	case "try.composeOption":
		return Show(try.ComposeOption(koOf(a[1]), KTOf(a[2]))(any(a[3].Int())))
	case "try.composePure":
		return Show(try.ComposePure(F1Of(a[1]))(any(a[2].Int())))
	case "try.fold":
		return Show(try.Fold(tOf(a[1]), any(a[2].Int()), F2Of(a[3])))
	case "try.toSeq":
		return Show(try.ToSeq(tOf(a[1])))
	case "try.flatMap":
		return Show(try.FlatMap(tOf(a[1]), KTOf(a[2])))
	// fp.Option methods
	case "o.filter":
		return Show(oOf(a[1]).Filter(P1Of(a[2])))
	case "o.filterNot":
		return Show(oOf(a[1]).FilterNot(P1Of(a[2])))
	case "o.map":
		return Show(oOf(a[1]).Map(F1Of(a[2])))
	case "o.flatMap":
		return Show(oOf(a[1]).FlatMap(koOf(a[2])))
	case "o.orElse":
		return Show(oOf(a[1]).OrElse(a[2].Int()))
	case "o.orElseGet":
		return Show(oOf(a[1]).OrElseGet(sup(a[2])))
	case "o.or":
		o2 := oOf(a[3])
		id := a[2].Int()
		return Show(oOf(a[1]).Or(func() fp.Option[any] { Emit("s%d", id); return o2 }))
	case "o.orOption":
		return Show(oOf(a[1]).OrOption(oOf(a[2])))
	case "o.recover":
		return Show(oOf(a[1]).Recover(sup(a[2])))
	case "o.exists":
		return Show(oOf(a[1]).Exists(P1Of(a[2])))
	case "o.forAll":
		return Show(oOf(a[1]).ForAll(P1Of(a[2])))
	case "o.get":
		return Show(oOf(a[1]).Get())
	case "o.toSeq":
		return Show(oOf(a[1]).ToSeq())
	case "option.fromTry":
		return Show(option.FromTry(tOf(a[1])))
	case "option.fold":
		return Show(option.Fold(oOf(a[1]), any(a[2].Int()), F2Of(a[3])))
	case "option.flatMap":
		return Show(option.FlatMap(oOf(a[1]), koOf(a[2])))
	// fp.Either
	case "either.swap":
		return Show(either.Swap(eOf(a[1])))
	case "either.fold":
		return Show(either.Fold(eOf(a[1]), F1Of(a[2]), F1Of(a[3])))
	case "either.orElse":
		return Show(either.OrElse(eOf(a[1]), any(a[2].Int())))
	case "either.orElseGet":
		return Show(either.OrElseGet(eOf(a[1]), sup(a[2])))
	case "either.exists":
		return Show(either.Exists(eOf(a[1]), P1Of(a[2])))
	case "either.forAll":
		return Show(either.ForAll(eOf(a[1]), P1Of(a[2])))
	case "e.get":
		return Show(eOf(a[1]).Get())
	case "e.left":
		return Show(eOf(a[1]).Left())
	case "e.recover":
		return Show(eOf(a[1]).Recover(sup(a[2])))
	}
	return "bad-op"
}

func genT(r *Rng) *Sx {
	switch r.Intn(7) {
	case 0, 1, 2:
		return L(A("fail"), I(r.Range(1, 5)))
	case 3:
		if r.Intn(3) == 0 {
			return L(A("zero"))
		}
	}
	return L(A("succ"), I(r.Range(-3, 9)))
}
func genO(r *Rng) *Sx {
	if r.Intn(3) == 0 {
		return L(A("none"))
	}
	return L(A("some"), I(r.Range(-3, 9)))
}
func genE(r *Rng) *Sx {
	if r.Intn(3) == 0 {
		return L(A("left"), I(r.Range(1, 9)))
	}
	return L(A("right"), I(r.Range(-3, 9)))
}
func genSup(r *Rng, kinds int) *Sx {
	id := NewID()
	switch r.Intn(kinds) {
	case 1:
		return L(A("sup"), I(id), L(A("panic"), I(r.Range(1, 9))))
	case 2:
		return L(A("sup"), I(id), L(A("reterr"), I(r.Range(0, 9)), I(r.Range(1, 9))))
	}
	return L(A("sup"), I(id), L(A("ret"), I(r.Range(0, 9))))
}
func genH(r *Rng) *Sx {
	if r.Intn(8) == 0 {
		return L(A("hpanic"), I(NewID()), I(r.Range(1, 9)))
	}
	return L(A("h"), I(NewID()), I(r.Range(0, 9)))
}

var tops = []string{"optT.pure", "optT.lift", "optT.map", "optT.subFlatMap", "optT.traverse", "optT.flatMap", "optT.filter", "optT.orElse",
	"optT.orElseGet", "optT.or", "optT.orOption", "optT.recover", "optT.fold", "seqT.pure", "seqT.lift", "seqT.map", "seqT.subFlatMap",
	"seqT.traverse", "seqT.flatMap", "seqT.filter", "seqT.filterNot", "seqT.exists", "seqT.forAll", "seqT.find", "seqT.add", "seqT.take",
	"seqT.drop", "seqT.head", "seqT.last", "seqT.tail", "seqT.init", "seqT.reverse", "seqT.size", "seqT.fold"}

func genTO(r *Rng) *Sx {
	switch r.Intn(8) {
	case 0, 1:
		return L(A("tnone"))
	case 2:
		return L(A("tfail"), I(r.Range(1, 5)))
	case 3:
		if r.Intn(3) == 0 {
			return L(A("tsomenil"))
		}
	}
	return L(A("tsome"), I(r.Range(-3, 9)))
}

func genTS(r *Rng) *Sx {
	if r.Intn(6) == 0 {
		return L(A("tfail"), I(r.Range(1, 5)))
	}
	xs := []*Sx{A("tseq")}
	for i, n := 0, r.Intn(5); i < n; i++ {
		xs = append(xs, I(r.Range(-3, 9)))
	}
	return L(xs...)
}

func genTOp(r *Rng) *Sx {
	n := Pick(r, tops...)
	switch n {
	case "optT.pure", "seqT.pure":
		return L(A(n), I(r.Range(-3, 9)))
	case "optT.lift", "seqT.lift":
		return L(A(n), genT(r))
	case "optT.map":
		return L(A(n), genTO(r), GenF1(r, true))
	case "optT.subFlatMap", "optT.traverse", "optT.flatMap":
		return L(A(n), genTO(r), GenKT(r, true))
	case "optT.filter":
		return L(A(n), genTO(r), GenP1(r, true))
	case "optT.orElse":
		return L(A(n), genTO(r), I(r.Range(0, 9)))
	case "optT.orElseGet", "optT.recover":
		return L(A(n), genTO(r), genSup(r, 2))
	case "optT.or":
		return L(A(n), genTO(r), I(NewID()), genO(r))
	case "optT.orOption":
		return L(A(n), genTO(r), genO(r))
	case "optT.fold":
		return L(A(n), genTO(r), I(r.Range(0, 9)), GenF2(r, true))
	case "seqT.map", "seqT.subFlatMap":
		return L(A(n), genTS(r), GenF1(r, true))
	case "seqT.traverse", "seqT.flatMap":
		return L(A(n), genTS(r), GenKT(r, true))
	case "seqT.filter", "seqT.filterNot", "seqT.exists", "seqT.forAll", "seqT.find":
		return L(A(n), genTS(r), GenP1(r, true))
	case "seqT.add", "seqT.take", "seqT.drop":
		return L(A(n), genTS(r), I(r.Range(0, 5)))
	case "seqT.fold":
		return L(A(n), genTS(r), I(r.Range(0, 9)), GenF2(r, true))
	default:
		return L(A(n), genTS(r))
	}
}

var ops = []string{"t.map", "t.flatMap", "t.mapError", "t.orElse", "t.orElseGet", "t.or", "t.orTry", "t.recover", "t.recoverWith",
	"t.recoverCase", "t.recoverCaseWith", "t.get", "t.foreach", "t.toSeq", "t.isSuccess", "try.fromOption", "try.of", "try.call", "try.callUnit",
	"try.apply", "try.composeOption", "try.composePure", "try.fold", "try.toSeq", "try.flatMap", "o.filter", "o.filterNot", "o.map", "o.flatMap",
	"o.orElse", "o.orElseGet", "o.or", "o.orOption", "o.recover", "o.exists", "o.forAll", "o.get", "o.toSeq", "option.fromTry", "option.fold",
	"option.flatMap", "either.swap", "either.fold", "either.orElse", "either.orElseGet", "either.exists", "either.forAll", "e.get", "e.left", "e.recover"}

func genOp(r *Rng) *Sx {
	ResetIDs()
	if r.Intn(3) == 0 {
		return genTOp(r)
	}
	n := Pick(r, ops...)
	switch n {
	case "t.map":
		return L(A(n), genT(r), GenF1(r, true))
	case "t.flatMap", "try.flatMap":
		return L(A(n), genT(r), GenKT(r, true))
	case "t.mapError":
		return L(A(n), genT(r), I(NewID()))
	case "t.orElse":
		return L(A(n), genT(r), I(r.Range(0, 9)))
	case "t.orElseGet":
		return L(A(n), genT(r), genSup(r, 2))
	case "t.or":
		return L(A(n), genT(r), I(NewID()), genT(r))
	case "t.orTry":
		return L(A(n), genT(r), genT(r))
	case "t.recover":
		return L(A(n), genT(r), genH(r))
	case "t.recoverWith":
		return L(A(n), genT(r), L(A("ht"), I(NewID()), genT(r)))
	case "t.recoverCase":
		return L(A(n), genT(r), L(A("pe"), I(NewID()), I(r.Range(1, 5))), genH(r))
	case "t.recoverCaseWith":
		return L(A(n), genT(r), L(A("pe"), I(NewID()), I(r.Range(1, 5))), L(A("ht"), I(NewID()), genT(r)))
	case "t.get", "t.foreach", "t.toSeq", "t.isSuccess", "try.toSeq", "option.fromTry":
		return L(A(n), genT(r))
	case "try.fromOption", "o.get", "o.toSeq":
		return L(A(n), genO(r))
	case "try.of":
		return L(A(n), genSup(r, 2))
	case "try.call", "try.callUnit":
		return L(A(n), genSup(r, 3))
	case "try.apply":
		return L(A(n), I(r.Range(0, 9)), I(Pick(r, 0, 0, r.Range(1, 9))))
	case "try.composeOption":
		return L(A(n), GenKT(r, true), GenKT(r, true), I(r.Range(-3, 9)))
	case "try.composePure":
		return L(A(n), GenF1(r, true), I(r.Range(-3, 9)))
	case "try.fold":
		return L(A(n), genT(r), I(r.Range(0, 9)), GenF2(r, true))
	case "o.filter", "o.filterNot", "o.exists", "o.forAll":
		return L(A(n), genO(r), GenP1(r, true))
	case "o.map":
		return L(A(n), genO(r), GenF1(r, true))
	case "o.flatMap", "option.flatMap":
		return L(A(n), genO(r), GenKT(r, true))
	case "o.orElse":
		return L(A(n), genO(r), I(r.Range(0, 9)))
	case "o.orElseGet", "o.recover":
		return L(A(n), genO(r), genSup(r, 2))
	case "o.or":
		return L(A(n), genO(r), I(NewID()), genO(r))
	case "o.orOption":
		return L(A(n), genO(r), genO(r))
	case "option.fold":
		return L(A(n), genO(r), I(r.Range(0, 9)), GenF2(r, true))
	case "either.swap", "e.get", "e.left":
		return L(A(n), genE(r))
	case "either.fold":
		return L(A(n), genE(r), GenF1(r, true), GenF1(r, true))
	case "either.orElse":
		return L(A(n), genE(r), I(r.Range(0, 9)))
	case "either.orElseGet", "e.recover":
		return L(A(n), genE(r), genSup(r, 2))
	default: // either.exists, either.forAll
		return L(A(n), genE(r), GenP1(r, true))
	}
}

func runCase(op *Sx) string { return Outcome(func() string { return runOp(op) }) }

// direct: C02's statements evaluated on the implementation
var prop = "C02"

func direct(r *Rng, sink *Sink, n int) int {
	checks := 0
	if prop == "C02" {
		// traverse functions of elements AFTER a failing element must not be invoked (C02)
		for i := 0; i < n/10+2; i++ {
			m := r.Range(2, 5)
			at := r.Intn(m)
			xs := fp.Seq[any]{}
			for j := 0; j < m; j++ {
				xs = append(xs, j)
			}
			later := 0
			f := func(x any) fp.Try[any] {
				if AsInt(x) > at {
					later++
				}
				if AsInt(x) == at {
					return fp.Failure[any](E(7))
				}
				return fp.Success(x)
			}
			type tr struct {
				name string
				run  func() fp.Try[fp.Seq[any]]
			}
			for _, t := range []tr{
				{"try.TraverseSeq", func() fp.Try[fp.Seq[any]] { return try.TraverseSeq(xs, f) }},
				{"try.TraverseSeqT", func() fp.Try[fp.Seq[any]] { return try.TraverseSeqT(fp.Success(xs), f) }},
				{"try.FlatMapSeqT", func() fp.Try[fp.Seq[any]] {
					return try.FlatMapSeqT(fp.Success(xs), func(x any) fp.Try[fp.Seq[any]] {
						return try.Map(f(x), func(v any) fp.Seq[any] { return fp.Seq[any]{v} })
					})
				}},
			} {
				later = 0
				res := t.run()
				checks++
				if res.IsSuccess() || res.Failed().Get() != E(7) {
					sink.DirectFail(t.name+"/first-failure", fmt.Sprintf("(law traverse-short-circuit n=%d failAt=%d)", m, at), "result "+Show(res))
				}
				if later != 0 && at < m-1 {
					sink.DirectFail(t.name+"/later-functions-invoked", fmt.Sprintf("(law traverse-short-circuit n=%d failAt=%d)", m, at),
						fmt.Sprintf("the traverse function was invoked on %d element(s) positioned after the failing one", later))
				}
			}
		}
	}
	if prop == "C02" {
		// FoldM / Traverse / SequenceIterator over an ITERATOR source: after the first failed step no further
		// element is pulled and the source is not even asked again (C02: "returns at the first failed step
		// without pulling further elements")
		for i := 0; i < n/10+2; i++ {
			m := r.Range(2, 6)
			at := r.Intn(m)
			type probe struct {
				name string
				run  func(it fp.Iterator[any], failed func(any) bool) bool // returns "the result is a failure"
			}
			isAt := func(x any) bool { return AsInt(x) == at }
			probes := []probe{
				{"option.FoldM", func(it fp.Iterator[any], bad func(any) bool) bool {
					return option.FoldM(it, 0, func(acc int, x any) fp.Option[int] {
						if bad(x) {
							return fp.None[int]()
						}
						return fp.Some(acc + 1)
					}).IsEmpty()
				}},
				{"option.Traverse", func(it fp.Iterator[any], bad func(any) bool) bool {
					return option.Traverse(it, func(x any) fp.Option[any] {
						if bad(x) {
							return fp.None[any]()
						}
						return fp.Some(x)
					}).IsEmpty()
				}},
				{"option.SequenceIterator", func(it fp.Iterator[any], bad func(any) bool) bool {
					return option.SequenceIterator(fp.MakeIterator(it.HasNext, func() fp.Option[any] {
						x := it.Next()
						if bad(x) {
							return fp.None[any]()
						}
						return fp.Some(x)
					})).IsEmpty()
				}},
				{"try.FoldM", func(it fp.Iterator[any], bad func(any) bool) bool {
					return try.FoldM(it, 0, func(acc int, x any) fp.Try[int] {
						if bad(x) {
							return fp.Failure[int](E(7))
						}
						return fp.Success(acc + 1)
					}).IsFailure()
				}},
				{"try.Traverse", func(it fp.Iterator[any], bad func(any) bool) bool {
					return try.Traverse(it, func(x any) fp.Try[any] {
						if bad(x) {
							return fp.Failure[any](E(7))
						}
						return fp.Success(x)
					}).IsFailure()
				}},
				{"try.Traverse_", func(it fp.Iterator[any], bad func(any) bool) bool {
					return try.Traverse_(it, func(x any) fp.Try[any] {
						if bad(x) {
							return fp.Failure[any](E(7))
						}
						return fp.Success(x)
					}) != nil
				}},
				{"try.SequenceIterator", func(it fp.Iterator[any], bad func(any) bool) bool {
					return try.SequenceIterator(fp.MakeIterator(it.HasNext, func() fp.Try[any] {
						x := it.Next()
						if bad(x) {
							return fp.Failure[any](E(7))
						}
						return fp.Success(x)
					})).IsFailure()
				}},
				{"either.FoldM", func(it fp.Iterator[any], bad func(any) bool) bool {
					return either.FoldM(it, 0, func(acc int, x any) fp.Either[string, int] {
						if bad(x) {
							return either.Left[string, int]("l")
						}
						return either.Right[string](acc + 1)
					}).IsLeft()
				}},
				{"either.Traverse", func(it fp.Iterator[any], bad func(any) bool) bool {
					return either.Traverse(it, func(x any) fp.Either[string, any] {
						if bad(x) {
							return either.Left[string, any]("l")
						}
						return either.Right[string](x)
					}).IsLeft()
				}},
			}
			for _, p := range probes {
				pos, nexts, hasAfterFail, failedSeen := 0, 0, 0, false
				it := fp.MakeIterator(func() bool {
					if failedSeen {
						hasAfterFail++
					}
					return pos < m
				}, func() any {
					x := pos
					pos++
					nexts++
					if x == at {
						failedSeen = true
					}
					return x
				})
				failed := p.run(it, isAt)
				checks++
				if !failed {
					sink.DirectFail(p.name+"/first-failure", fmt.Sprintf("(law iterator-short-circuit n=%d failAt=%d)", m, at), "the result is not a failure")
				}
				if nexts != at+1 || hasAfterFail != 0 {
					sink.DirectFail(p.name+"/pulls-after-failure", fmt.Sprintf("(law iterator-short-circuit n=%d failAt=%d)", m, at),
						fmt.Sprintf("source advanced %d times (expected %d); HasNext asked %d time(s) after the failing element was delivered", nexts, at+1, hasAfterFail))
				}
			}
		}
	}
	for i := 0; i < n; i++ {
		v, e, p := r.Range(-5, 50), r.Range(1, 9), r.Range(1, 99)
		calls := 0
		h := func(error) any { calls++; return 0 }
		// successes pass through Recover*/Or* untouched, handlers are not run
		s := fp.Success[any](v)
		outs := []fp.Try[any]{s.Recover(h), s.RecoverWith(func(error) fp.Try[any] { calls++; return s }),
			s.RecoverCase(func(error) bool { calls++; return true }, h), s.Or(func() fp.Try[any] { calls++; return s }), s.OrTry(fp.Failure[any](E(e)))}
		for j, o := range outs {
			checks++
			if !o.IsSuccess() || o.Get() != any(v) || calls != 0 {
				sink.DirectFail("fp.Try.Recover/Or", fmt.Sprintf("(law success-untouched variant=%d v=%d)", j, v), fmt.Sprintf("got %s, handler calls %d", Show(o), calls))
			}
		}
		// failures: handler exactly once with that very error
		f := fp.Failure[any](E(e))
		var seen error
		calls = 0
		o := f.Recover(func(err error) any { calls++; seen = err; return v })
		checks++
		if calls != 1 || seen != E(e) || !o.IsSuccess() || o.Get() != any(v) {
			sink.DirectFail("fp.Try.Recover", fmt.Sprintf("(law failure-handled e=%d v=%d)", e, v), fmt.Sprintf("got %s calls=%d seen=%v", Show(o), calls, seen))
		}
		// FlatMap on a failure: same error value, continuation not invoked
		calls = 0
		o2 := try.FlatMap(f, func(any) fp.Try[any] { calls++; return s })
		checks++
		if calls != 0 || o2.IsSuccess() || o2.Failed().Get() != E(e) {
			sink.DirectFail("try.FlatMap", fmt.Sprintf("(law failure-short-circuit e=%d)", e), fmt.Sprintf("got %s calls=%d", Show(o2), calls))
		}
		// try.Of: panic -> Failure exposing the panic value; normal return -> Success
		po := try.Of(func() any { panic(p) })
		checks++
		if pe, ok := po.Failed().OrElse(nil).(interface{ Panic() any }); po.IsSuccess() || !ok || pe.Panic() != any(p) {
			sink.DirectFail("try.Of", fmt.Sprintf("(law of-panic p=%d)", p), "got "+Show(po))
		}
		no := try.Of(func() any { return v })
		checks++
		if !no.IsSuccess() || no.Get() != any(v) {
			sink.DirectFail("try.Of", fmt.Sprintf("(law of-normal v=%d)", v), "got "+Show(no))
		}
		co := try.Call(func() (any, error) { return v, nil })
		ce := try.Call(func() (any, error) { return v, E(e) })
		cp := try.Call(func() (any, error) { panic(p) })
		checks += 3
		if !co.IsSuccess() || co.Get() != any(v) || ce.IsSuccess() || ce.Failed().Get() != E(e) || cp.IsSuccess() {
			sink.DirectFail("try.Call", fmt.Sprintf("(law call v=%d e=%d p=%d)", v, e, p), Show(co)+" "+Show(ce)+" "+Show(cp))
		}
	}
	return checks
}

var hist = map[string]int{}

func main() {
	seed := flag.Uint64("seed", 1, "PRNG seed")
	n := flag.Int("n", 2000, "number of generated cases")
	out := flag.String("out", ".", "output directory")
	replay := flag.String("replay", "", "run one op line")
	opsFile := flag.String("ops", "", "run the op lines of this file")
	flag.StringVar(&prop, "prop", "C02", "which property's direct checks to run (C01 | C02)")
	flag.Parse()
	if *replay != "" {
		op, err := Parse(*replay)
		if err != nil {
			fmt.Println("bad-op")
			os.Exit(2)
		}
		fmt.Println(runCase(op))
		return
	}
	r := NewRng(*seed)
	sink := NewSink(*out)
	if *opsFile != "" {
		for _, line := range ReadLines(*opsFile) {
			if op, err := Parse(line); err == nil {
				sink.Case(line, func() string { return runCase(op) })
			}
		}
		sink.Close()
		fmt.Printf("{\"cases\": %d}\n", sink.N)
		return
	}
	for i := 0; i < *n; i++ {
		op := genOp(r)
		hist[op.Head()]++
		sink.Case(op.String(), func() string { return runCase(op) })
	}
	nd := direct(r, sink, *n/10+10)
	nd += historychk.Run(sink, prop)
	sink.Close()
	parts := []string{}
	for k, v := range hist {
		parts = append(parts, fmt.Sprintf("%q: %d", k, v))
	}
	fmt.Printf("{\"cases\": %d, \"direct_checks\": %d, \"direct_failures\": %d, \"histogram\": {%s}}\n", sink.N, nd, sink.DirectFailures, strings.Join(parts, ", "))
}
