// seq2lean: a small Go -> Lean 4 translator for the EAGER Seq functions
//
//	seq/seq_op.go (package seq)      seq.go (package fp: the methods of fp.Seq and the package functions of that file)
//
// Tie A of DESIGN.md for properties C12 / C01 / C11: on every run the function bodies found in the WORKING TREE are
// translated, function by function, into Lean definitions over the effect monad GoM (FpVerif/Gen/SeqGen.lean, never under
// version control); the committed theorems of FpVerif/Spec/C12SeqGen.lean state that each translated definition computes
// the Lean list function the C12 / C01 / C11 theorems use as the eager reference.
//
// THE FRAGMENT (semantics: FpVerif/Model/GoSemM.lean)
//
//	types       type parameters; int (Int), bool, string, error (Option Err); []T / fp.Seq[T] / ...T (List T);
//	            fp.Option[T]; fp.Try[T]; fp.Tuple2[A,B] (A × B); func(A..) B and fp.Func1[A,B] (A → … → GoM B);
//	            fp.Monoid[T] (MonoidM), fp.Ord[T] (OrdM), lazy.Eval[T] (a suspended GoM T); result tuples.
//	            Anything else (Go maps, fp.Iterator, fp.Future, fp.Hashable, fp.Map/Set, pointers, mutable.Set) is
//	            outside: the function is reported as untranslated with the reason.
//	statements  x := e; x = e; x, y := f(); var x = e; var x T; a[i] = e (setIdxM); copy(dst, src); f(x) as a statement;
//	            if c { … } [else { … }] (the statements after the `if` are the continuation of every branch that does not
//	            return); return e…; and ONE loop schema (GoSemM.loopM) for
//	              for _, v := range s | for i, v := range s | for i := range s | for i := 0; i < n; i++
//	            where the variables of the enclosing function that the body assigns are the loop state, `return` inside the
//	            body leaves the function, the ranged slice / the bound n are not assigned in the body and n is built from
//	            len / Size / variables / literals only (it is evaluated once).  `continue` is accepted; break, goto, labels,
//	            `for cond {}`, switch, defer, go, select, range over maps / channels / iterators are rejected.
//	expressions variables, int / bool literals, nil (the zero value of the expected type), + - * < <= > >= == != on ints,
//	            ! && || (the right operand only runs when needed), e != nil / e == nil on `error`, a[i] (idxM), a[lo:hi]
//	            (sliceM), len, append (++), make (makeSliceM; `make(T, 0, c)` is the empty list), conversions to slice types
//	            (identity), composite literals of Seq / []T / Option, closures, calls of the other translated functions,
//	            calls of callbacks (parameters of function type; Monoid.Empty / Combine; Ord.Less) — every call is bound in
//	            Go's evaluation order (callee arguments left to right, then the call), the methods IsDefined / IsEmpty / Get
//	            of Option and IsSuccess / IsFailure / Get of Try, the builtins min / max on ints, and the externs fp.Min, fp.Max, fp.Some, fp.None, fp.Success,
//	            fp.Compose, product.Tuple2, option.ToSeq, lazy.Done, lazy.TailCall.
//	recursion   a self-recursive function gets a fuel parameter (length of its first slice parameter + 1; running out of
//	            fuel panics — the theorem shows that it does not).
//
// usage: seq2lean <repo> <out.lean>      last stdout line: JSON summary
package main

import (
	"encoding/json"
	"fmt"
	"go/ast"
	"go/parser"
	"go/token"
	"os"
	"path/filepath"
	"sort"
	"strconv"
	"strings"
)

var files = []struct{ file, pkg string }{{"seq.go", "fp"}, {"seq/seq_op.go", "seq"}}

type unsupported struct{ msg string }

func fail(format string, a ...any) { panic(unsupported{fmt.Sprintf(format, a...)}) }

type fn struct {
	pkg, name, recv string // recv: "" or "Seq"
	key             string // e.g. seq.Map, fp.Seq.Map, fp.IteratorOfSeq
	lean            string // e.g. seq.Map, fp.Seq_Map
	decl            *ast.FuncDecl
	tparams         []string
	params          []param
	results         []ast.Expr
	variadic        bool
	deps            map[string]bool
	selfRec         bool
	text            string
	reason          string
}

type param struct {
	name string
	ty   ast.Expr
}

var table = map[string]*fn{}

// ---------------------------------------------------------------------------------------------------------------- types

func sel(e ast.Expr) (string, string, bool) {
	if s, ok := e.(*ast.SelectorExpr); ok {
		if id, ok := s.X.(*ast.Ident); ok {
			return id.Name, s.Sel.Name, true
		}
	}
	return "", "", false
}

// head name of a (possibly instantiated, possibly qualified) type and its type arguments
func tyHead(t ast.Expr) (string, []ast.Expr) {
	var args []ast.Expr
	switch x := t.(type) {
	case *ast.IndexExpr:
		args = []ast.Expr{x.Index}
		t = x.X
	case *ast.IndexListExpr:
		args = x.Indices
		t = x.X
	}
	if p, n, ok := sel(t); ok {
		return p + "." + n, args
	}
	if id, ok := t.(*ast.Ident); ok {
		return id.Name, args
	}
	return "", nil
}

type tyctx struct {
	tps map[string]bool
	pkg string
}

func (c *tyctx) kind(t ast.Expr) string {
	switch x := t.(type) {
	case nil:
		return "unit"
	case *ast.ArrayType:
		if x.Len == nil {
			return "seq"
		}
	case *ast.Ellipsis:
		return "seq"
	case *ast.FuncType:
		return "func"
	case *ast.ParenExpr:
		return c.kind(x.X)
	case *ast.MapType:
		return "other:Go map"
	case *ast.StarExpr:
		return "other:pointer"
	}
	h, _ := tyHead(t)
	if c.pkg == "fp" && !strings.Contains(h, ".") && !c.tps[h] {
		switch h {
		case "Seq", "Option", "Try", "Tuple2", "Func1", "Monoid", "Ord":
			h = "fp." + h
		}
	}
	switch h {
	case "int":
		return "int"
	case "bool":
		return "bool"
	case "string":
		return "string"
	case "error":
		return "err"
	case "fp.Seq":
		return "seq"
	case "fp.Option":
		return "option"
	case "fp.Try":
		return "try"
	case "fp.Tuple2":
		return "tuple"
	case "fp.Func1":
		return "func"
	case "fp.Monoid":
		return "monoid"
	case "fp.Ord":
		return "ord"
	case "lazy.Eval":
		return "eval"
	}
	if c.tps[h] {
		return "tparam"
	}
	return "other:" + h
}

func (c *tyctx) lean(t ast.Expr) string {
	switch x := t.(type) {
	case *ast.ArrayType:
		if x.Len == nil {
			return "(List " + c.lean(x.Elt) + ")"
		}
	case *ast.Ellipsis:
		return "(List " + c.lean(x.Elt) + ")"
	case *ast.ParenExpr:
		return c.lean(x.X)
	case *ast.FuncType:
		var ps []string
		for _, f := range x.Params.List {
			n := len(f.Names)
			if n == 0 {
				n = 1
			}
			for i := 0; i < n; i++ {
				ps = append(ps, c.lean(f.Type))
			}
		}
		if len(ps) == 0 {
			ps = []string{"Unit"}
		}
		return "(" + strings.Join(ps, " → ") + " → GoM " + c.leanResults(x.Results) + ")"
	}
	h, args := tyHead(t)
	k := c.kind(t)
	arg := func(i int) string {
		if i >= len(args) {
			fail("type %s: missing type argument", h)
		}
		return c.lean(args[i])
	}
	switch k {
	case "int":
		return "Int"
	case "bool":
		return "Bool"
	case "string":
		return "String"
	case "err":
		return "(Option Err)"
	case "seq":
		return "(List " + arg(0) + ")"
	case "option":
		return "(Option " + arg(0) + ")"
	case "try":
		return "(Try " + arg(0) + ")"
	case "tuple":
		return "(" + arg(0) + " × " + arg(1) + ")"
	case "func":
		return "(" + arg(0) + " → GoM " + arg(1) + ")"
	case "monoid":
		return "(MonoidM " + arg(0) + ")"
	case "ord":
		return "(OrdM " + arg(0) + ")"
	case "eval":
		return "(EvalM " + arg(0) + ")"
	case "tparam":
		return h
	}
	fail("type outside the fragment: %s", strings.TrimPrefix(k, "other:"))
	return ""
}

func (c *tyctx) leanResults(r *ast.FieldList) string {
	ts := flatten(r)
	switch len(ts) {
	case 0:
		return "Unit"
	case 1:
		return c.lean(ts[0])
	}
	var s []string
	for _, t := range ts {
		s = append(s, c.lean(t))
	}
	return "(" + strings.Join(s, " × ") + ")"
}

func flatten(r *ast.FieldList) []ast.Expr {
	var ts []ast.Expr
	if r == nil {
		return nil
	}
	for _, f := range r.List {
		n := len(f.Names)
		if n == 0 {
			n = 1
		}
		for i := 0; i < n; i++ {
			ts = append(ts, f.Type)
		}
	}
	return ts
}

// ---------------------------------------------------------------------------------------------------------------- translation context

type vinfo struct {
	kind string
	ty   ast.Expr // when known (parameters, closure parameters)
	res  []string // kinds of the results when kind == func and known
}

type ctx struct {
	f     *fn
	ty    *tyctx
	env   []map[string]vinfo
	tmp   int
	ret   []func(string) string // how `return e` is rendered (function / closure level: pure e ; loop body: pure (Step.ret e))
	fall  []string              // what falling off the end of the current statement list means ("" = unreachable)
	fuel  bool                  // inside a self-recursive function: calls of itself go to the _fuel definition
	depth int
}

func (c *ctx) push()                  { c.env = append(c.env, map[string]vinfo{}) }
func (c *ctx) pop()                   { c.env = c.env[:len(c.env)-1] }
func (c *ctx) bind(n string, v vinfo) { c.env[len(c.env)-1][n] = v }
func (c *ctx) fresh() string          { c.tmp++; return "t_" + strconv.Itoa(c.tmp) }
func (c *ctx) lookup(n string) (vinfo, bool) {
	for i := len(c.env) - 1; i >= 0; i-- {
		if v, ok := c.env[i][n]; ok {
			return v, true
		}
	}
	return vinfo{}, false
}

func (c *ctx) infoOfType(t ast.Expr) vinfo {
	v := vinfo{kind: c.ty.kind(t), ty: t}
	if ft, ok := t.(*ast.FuncType); ok {
		for _, r := range flatten(ft.Results) {
			v.res = append(v.res, c.ty.kind(r))
		}
	} else if v.kind == "func" {
		_, args := tyHead(t)
		if len(args) == 2 {
			v.res = []string{c.ty.kind(args[1])}
		}
	}
	return v
}

var leanKeywords = map[string]bool{"end": true, "from": true, "at": true, "fun": true, "open": true, "then": true, "do": true, "in": true,
	"show": true, "have": true, "with": true, "match": true, "let": true, "instance": true, "type": true, "def": true, "by": true, "if": true,
	"else": true, "at_": true, "theorem": true, "where": true, "λ": true, "Type": true, "Prop": true, "Sort": true, "variable": true, "mut": true, "for": true, "return": true}

func name(n string) string {
	if n == "_" {
		return "_"
	}
	if leanKeywords[n] {
		return "«" + n + "»"
	}
	return n
}

type line = string

// kinds of the results of an expression (best effort; "" = unknown)
func (c *ctx) kinds(e ast.Expr) []string {
	switch x := e.(type) {
	case *ast.ParenExpr:
		return c.kinds(x.X)
	case *ast.Ident:
		if v, ok := c.lookup(x.Name); ok {
			return []string{v.kind}
		}
		if x.Name == "true" || x.Name == "false" {
			return []string{"bool"}
		}
	case *ast.BasicLit:
		if x.Kind == token.INT {
			return []string{"int"}
		}
	case *ast.CompositeLit:
		return []string{c.ty.kind(x.Type)}
	case *ast.SliceExpr:
		return []string{"seq"}
	case *ast.BinaryExpr:
		switch x.Op {
		case token.ADD, token.SUB, token.MUL:
			return []string{"int"}
		default:
			return []string{"bool"}
		}
	case *ast.CallExpr:
		fun := x.Fun
		if ie, ok := fun.(*ast.IndexExpr); ok && !c.isValue(ie.X) {
			// explicit instantiation or a conversion to an instantiated type
			if k := c.ty.kind(fun); !strings.HasPrefix(k, "other:") && k != "tparam" {
				return []string{k}
			}
			fun = ie.X
		}
		if at, ok := fun.(*ast.ArrayType); ok {
			return []string{c.ty.kind(at)}
		}
		if id, ok := fun.(*ast.Ident); ok {
			if v, ok := c.lookup(id.Name); ok {
				return v.res
			}
			switch id.Name {
			case "len", "min", "max":
				return []string{"int"}
			case "append", "make":
				return []string{"seq"}
			}
			if g, ok := table[c.f.pkg+"."+id.Name]; ok {
				return c.resKinds(g)
			}
			if id.Name == "Some" || id.Name == "None" {
				return []string{"option"}
			}
		}
		if s, ok := fun.(*ast.SelectorExpr); ok {
			if p, n, ok := sel(fun); ok {
				if _, isVar := c.lookup(p); !isVar {
					switch p + "." + n {
					case "fp.Some", "fp.None":
						return []string{"option"}
					case "fp.Success":
						return []string{"try"}
					case "fp.Min", "fp.Max":
						return []string{"int"}
					case "product.Tuple2":
						return []string{"tuple"}
					case "lazy.Done", "lazy.TailCall":
						return []string{"eval"}
					}
					if g, ok := table[p+"."+n]; ok {
						return c.resKinds(g)
					}
					return []string{""}
				}
			}
			rk := c.kinds(s.X)
			if len(rk) == 1 {
				switch rk[0] {
				case "seq":
					if g, ok := table["fp.Seq."+s.Sel.Name]; ok {
						return c.resKinds(g)
					}
				case "option", "try":
					switch s.Sel.Name {
					case "IsDefined", "IsEmpty", "IsSuccess", "IsFailure":
						return []string{"bool"}
					}
				case "ord":
					return []string{"bool"}
				}
			}
		}
	}
	return []string{""}
}

func (c *ctx) resKinds(g *fn) []string {
	tc := &tyctx{tps: map[string]bool{}, pkg: g.pkg}
	for _, p := range g.tparams {
		tc.tps[p] = true
	}
	var ks []string
	for _, r := range g.results {
		ks = append(ks, tc.kind(r))
	}
	return ks
}

func (c *ctx) kind1(e ast.Expr) string {
	ks := c.kinds(e)
	if len(ks) == 1 {
		return ks[0]
	}
	return ""
}

func (c *ctx) isValue(e ast.Expr) bool {
	if id, ok := e.(*ast.Ident); ok {
		_, ok := c.lookup(id.Name)
		return ok
	}
	return false
}

// ---------------------------------------------------------------------------------------------------------------- expressions

// expr translates e to a PURE Lean term; the calls it contains are bound, in evaluation order, by the lines appended to out
func (c *ctx) expr(e ast.Expr, out *[]line) string {
	switch x := e.(type) {
	case *ast.ParenExpr:
		return c.expr(x.X, out)
	case *ast.Ident:
		switch x.Name {
		case "nil":
			return "GoZero.zero"
		case "true", "false":
			return x.Name
		}
		if _, ok := c.lookup(x.Name); ok {
			return name(x.Name)
		}
		fail("identifier %s is not a local variable", x.Name)
	case *ast.BasicLit:
		if x.Kind == token.INT {
			return "(" + x.Value + " : Int)"
		}
		fail("literal %s", x.Value)
	case *ast.UnaryExpr:
		switch x.Op {
		case token.NOT:
			return "(!" + c.expr(x.X, out) + ")"
		case token.SUB:
			return "(-" + c.expr(x.X, out) + ")"
		}
		fail("unary operator %s", x.Op)
	case *ast.BinaryExpr:
		return c.binary(x, out)
	case *ast.IndexExpr:
		a := c.expr(x.X, out)
		i := c.expr(x.Index, out)
		t := c.fresh()
		*out = append(*out, fmt.Sprintf("let %s ← idxM %s %s", t, a, i))
		return t
	case *ast.SliceExpr:
		if x.Slice3 {
			fail("3-index slice")
		}
		a := c.expr(x.X, out)
		lo, hi := "(0 : Int)", "(len "+a+")"
		if x.Low != nil {
			lo = c.expr(x.Low, out)
		}
		if x.High != nil {
			hi = c.expr(x.High, out)
		}
		t := c.fresh()
		*out = append(*out, fmt.Sprintf("let %s ← sliceM %s %s %s", t, a, lo, hi))
		return t
	case *ast.CompositeLit:
		switch c.ty.kind(x.Type) {
		case "seq":
			var es []string
			for _, el := range x.Elts {
				if _, ok := el.(*ast.KeyValueExpr); ok {
					fail("keyed slice literal")
				}
				es = append(es, c.expr(el, out))
			}
			return "([" + strings.Join(es, ", ") + "] : " + c.ty.lean(x.Type) + ")"
		case "option":
			if len(x.Elts) == 0 {
				return "(none : " + c.ty.lean(x.Type) + ")"
			}
		}
		fail("composite literal of %s", c.ty.kind(x.Type))
	case *ast.FuncLit:
		return c.closure(x)
	case *ast.CallExpr:
		return c.call(x, out)
	case *ast.SelectorExpr:
		if p, n, ok := sel(x); ok && !c.isValue(x.X) {
			if p+"."+n == "option.ToSeq" {
				return "optionToSeqM"
			}
			fail("function value %s.%s", p, n)
		}
		fail("field access")
	}
	fail("expression %T", e)
	return ""
}

func (c *ctx) binary(x *ast.BinaryExpr, out *[]line) string {
	isNil := func(e ast.Expr) bool { id, ok := e.(*ast.Ident); return ok && id.Name == "nil" && !c.isValue(e) }
	switch x.Op {
	case token.LAND, token.LOR:
		l := c.expr(x.X, out)
		var sub []line
		r := c.expr(x.Y, &sub)
		op := map[token.Token]string{token.LAND: "&&", token.LOR: "||"}[x.Op]
		if len(sub) == 0 {
			return "(" + l + " " + op + " " + r + ")"
		}
		t := c.fresh()
		inner := "(do " + strings.Join(sub, "; ") + "; pure " + r + ")"
		if x.Op == token.LAND {
			*out = append(*out, fmt.Sprintf("let %s ← (if %s then %s else pure false)", t, l, inner))
		} else {
			*out = append(*out, fmt.Sprintf("let %s ← (if %s then pure true else %s)", t, l, inner))
		}
		return t
	case token.EQL, token.NEQ:
		if isNil(x.Y) || isNil(x.X) {
			o := x.X
			if isNil(x.X) {
				o = x.Y
			}
			if c.kind1(o) != "err" {
				fail("comparison with nil of a value that is not an `error`")
			}
			if x.Op == token.EQL {
				return "(" + c.expr(o, out) + ").isNone"
			}
			return "(" + c.expr(o, out) + ").isSome"
		}
	}
	kl, kr := c.kind1(x.X), c.kind1(x.Y)
	l := c.expr(x.X, out)
	r := c.expr(x.Y, out)
	switch x.Op {
	case token.ADD, token.SUB, token.MUL:
		if kl != "int" && kr != "int" {
			fail("arithmetic on operands not known to be int")
		}
		return "(" + l + " " + x.Op.String() + " " + r + ")"
	case token.LSS, token.LEQ, token.GTR, token.GEQ, token.EQL, token.NEQ:
		if kl != "int" && kr != "int" {
			fail("comparison of operands not known to be int")
		}
		op := map[token.Token]string{token.LSS: "<", token.LEQ: "≤", token.GTR: ">", token.GEQ: "≥", token.EQL: "=", token.NEQ: "≠"}[x.Op]
		return "(decide (" + l + " " + op + " " + r + "))"
	}
	fail("binary operator %s", x.Op)
	return ""
}

func (c *ctx) closure(x *ast.FuncLit) string {
	c.push()
	defer c.pop()
	var ps []string
	for _, f := range x.Type.Params.List {
		if len(f.Names) == 0 {
			fail("closure with unnamed parameter")
		}
		for _, n := range f.Names {
			c.bind(n.Name, c.infoOfType(f.Type))
			ps = append(ps, "("+name(n.Name)+" : "+c.ty.lean(f.Type)+")")
		}
	}
	if len(ps) == 0 {
		ps = []string{"(_ : Unit)"}
	}
	rt := c.ty.leanResults(x.Type.Results)
	c.ret = append(c.ret, func(s string) string { return "pure " + s })
	fall := ""
	if x.Type.Results == nil {
		fall = "pure ()"
	}
	c.fall = append(c.fall, fall)
	c.depth += 2
	body := c.block(x.Body.List)
	c.depth -= 2
	c.ret = c.ret[:len(c.ret)-1]
	c.fall = c.fall[:len(c.fall)-1]
	return "(fun " + strings.Join(ps, " ") + " => (" + body + " : GoM " + rt + "))"
}

func (c *ctx) args(g *fn, args []ast.Expr, spread bool, out *[]line) []string {
	var as []string
	np := len(g.params)
	if g.recv != "" {
		np--
	}
	if g.variadic {
		for i := 0; i < np-1; i++ {
			if i >= len(args) {
				fail("too few arguments for %s", g.key)
			}
			as = append(as, c.expr(args[i], out))
		}
		if spread {
			as = append(as, c.expr(args[len(args)-1], out))
		} else {
			var es []string
			for _, a := range args[np-1:] {
				es = append(es, c.expr(a, out))
			}
			as = append(as, "["+strings.Join(es, ", ")+"]")
		}
		return as
	}
	if len(args) != np {
		fail("argument count for %s", g.key)
	}
	for _, a := range args {
		as = append(as, c.expr(a, out))
	}
	return as
}

func (c *ctx) callFn(g *fn, recv string, args []ast.Expr, spread bool, out *[]line) string {
	if g.reason != "" {
		fail("calls %s, which is not translated", g.key)
	}
	var as []string
	if recv != "" {
		as = append(as, recv)
	}
	as = append(as, c.args(g, args, spread, out)...)
	callee := g.lean
	if g == c.f {
		c.f.selfRec = true
		callee = g.lean + "_fuel fuel"
	} else {
		c.f.deps[g.key] = true
	}
	t := c.fresh()
	*out = append(*out, fmt.Sprintf("let %s ← %s %s", t, callee, strings.Join(as, " ")))
	return t
}

func (c *ctx) call(x *ast.CallExpr, out *[]line) string {
	fun := x.Fun
	spread := x.Ellipsis.IsValid()
	// conversions and explicit instantiations
	if ie, ok := fun.(*ast.IndexExpr); ok && !c.isValue(ie.X) {
		if c.ty.kind(fun) == "seq" {
			if len(x.Args) != 1 {
				fail("conversion with %d arguments", len(x.Args))
			}
			return c.expr(x.Args[0], out)
		}
		fun = ie.X
	}
	if il, ok := fun.(*ast.IndexListExpr); ok {
		fun = il.X
	}
	if at, ok := fun.(*ast.ArrayType); ok && at.Len == nil {
		return c.expr(x.Args[0], out)
	}
	if p, ok := fun.(*ast.ParenExpr); ok {
		fun = p.X
	}
	switch f := fun.(type) {
	case *ast.Ident:
		if v, ok := c.lookup(f.Name); ok {
			if v.kind != "func" {
				fail("call of %s, which is not of function type", f.Name)
			}
			return c.callback(name(f.Name), x.Args, out)
		}
		switch f.Name {
		case "len":
			if k := c.kind1(x.Args[0]); k != "seq" {
				fail("len of a value that is not a slice")
			}
			return "(len " + c.expr(x.Args[0], out) + ")"
		case "append":
			a := c.expr(x.Args[0], out)
			if spread {
				if len(x.Args) != 2 {
					fail("append with spread and %d arguments", len(x.Args))
				}
				return "(" + a + " ++ " + c.expr(x.Args[1], out) + ")"
			}
			var es []string
			for _, e := range x.Args[1:] {
				es = append(es, c.expr(e, out))
			}
			return "(" + a + " ++ [" + strings.Join(es, ", ") + "])"
		case "make":
			if c.ty.kind(x.Args[0]) != "seq" {
				fail("make of %s", c.ty.kind(x.Args[0]))
			}
			if len(x.Args) < 2 {
				fail("make without length")
			}
			if lit, ok := x.Args[1].(*ast.BasicLit); ok && lit.Value == "0" {
				if len(x.Args) == 3 {
					var scratch []line
					c.expr(x.Args[2], &scratch) // the capacity must be in the fragment; its value is not observable
					if len(scratch) > 0 {
						// a call in the capacity expression would be an observable effect
						for _, s := range scratch {
							if !strings.Contains(s, "fp.Seq_Size") {
								fail("make: effectful capacity expression")
							}
						}
						*out = append(*out, scratch...)
					}
				}
				return "([] : " + c.ty.lean(x.Args[0]) + ")"
			}
			n := c.expr(x.Args[1], out)
			t := c.fresh()
			*out = append(*out, fmt.Sprintf("let %s ← (makeSliceM %s : GoM %s)", t, n, c.ty.lean(x.Args[0])))
			return t
		case "Some":
			if c.f.pkg == "fp" {
				return "(some " + c.expr(x.Args[0], out) + ")"
			}
		case "None":
			if c.f.pkg == "fp" {
				return "none"
			}
		case "min", "max":
			if len(x.Args) != 2 || (c.kind1(x.Args[0]) != "int" && c.kind1(x.Args[1]) != "int") {
				fail("builtin %s on operands not known to be two ints", f.Name)
			}
			a := c.expr(x.Args[0], out)
			b := c.expr(x.Args[1], out)
			return "(" + f.Name + " " + a + " " + b + ")"
		case "copy", "panic", "recover", "new", "delete", "cap", "print", "println", "clear":
			fail("builtin %s in expression position", f.Name)
		}
		if g, ok := table[c.f.pkg+"."+f.Name]; ok {
			return c.callFn(g, "", x.Args, spread, out)
		}
		if c.ty.tps[f.Name] {
			fail("conversion to the type parameter %s", f.Name)
		}
		fail("call of unknown function %s", f.Name)
	case *ast.SelectorExpr:
		if p, n, ok := sel(f); ok && !c.isValue(f.X) {
			q := p + "." + n
			arg := func(i int) string { return c.expr(x.Args[i], out) }
			switch q {
			case "fp.Min":
				a, b := arg(0), arg(1)
				return "(min " + a + " " + b + ")"
			case "fp.Max":
				a, b := arg(0), arg(1)
				return "(max " + a + " " + b + ")"
			case "fp.Some":
				return "(some " + arg(0) + ")"
			case "fp.None":
				return "none"
			case "fp.Success":
				return "(Try.success " + arg(0) + ")"
			case "product.Tuple2":
				a, b := arg(0), arg(1)
				return "(" + a + ", " + b + ")"
			case "fp.Compose":
				a, b := arg(0), arg(1)
				return "(composeM " + a + " " + b + ")"
			case "lazy.Done":
				return "(evalDone " + arg(0) + ")"
			case "lazy.TailCall":
				return "(evalTailCall " + arg(0) + ")"
			}
			if g, ok := table[q]; ok && g.recv == "" {
				return c.callFn(g, "", x.Args, spread, out)
			}
			fail("call of %s (outside the translated files)", q)
		}
		// method call: receiver first
		rk := c.kind1(f.X)
		m := f.Sel.Name
		switch rk {
		case "seq":
			recv := c.expr(f.X, out)
			g, ok := table["fp.Seq."+m]
			if !ok {
				fail("unknown Seq method %s", m)
			}
			return c.callFn(g, recv, x.Args, spread, out)
		case "option":
			recv := c.expr(f.X, out)
			switch m {
			case "IsDefined":
				return recv + ".isSome"
			case "IsEmpty":
				return recv + ".isNone"
			case "Get":
				t := c.fresh()
				*out = append(*out, fmt.Sprintf("let %s ← optGetM %s", t, recv))
				return t
			}
			fail("Option method %s", m)
		case "try":
			recv := c.expr(f.X, out)
			switch m {
			case "IsSuccess":
				return recv + ".isSuccess"
			case "IsFailure":
				return "(!" + recv + ".isSuccess)"
			case "Get":
				t := c.fresh()
				*out = append(*out, fmt.Sprintf("let %s ← tryGetM %s", t, recv))
				return t
			}
			fail("Try method %s", m)
		case "monoid":
			recv := c.expr(f.X, out)
			switch m {
			case "Empty":
				t := c.fresh()
				*out = append(*out, fmt.Sprintf("let %s ← %s.empty", t, recv))
				return t
			case "Combine":
				return c.callback(recv+".combine", x.Args, out)
			}
			fail("Monoid method %s", m)
		case "ord":
			recv := c.expr(f.X, out)
			if m == "Less" {
				return c.callback(recv+".less", x.Args, out)
			}
			fail("Ord method %s", m)
		}
		fail("method %s on a receiver of kind %q", m, rk)
	case *ast.FuncLit:
		fail("immediately applied closure")
	}
	fail("call of %T", fun)
	return ""
}

func (c *ctx) callback(callee string, args []ast.Expr, out *[]line) string {
	var as []string
	for _, a := range args {
		as = append(as, c.expr(a, out))
	}
	if len(as) == 0 {
		as = []string{"()"}
	}
	t := c.fresh()
	*out = append(*out, fmt.Sprintf("let %s ← %s %s", t, callee, strings.Join(as, " ")))
	return t
}

// ---------------------------------------------------------------------------------------------------------------- statements

func terminates(stmts []ast.Stmt) bool {
	if len(stmts) == 0 {
		return false
	}
	switch s := stmts[len(stmts)-1].(type) {
	case *ast.ReturnStmt:
		return true
	case *ast.BranchStmt:
		return s.Tok == token.CONTINUE
	case *ast.BlockStmt:
		return terminates(s.List)
	case *ast.IfStmt:
		if s.Else == nil {
			return false
		}
		var el []ast.Stmt
		switch e := s.Else.(type) {
		case *ast.BlockStmt:
			el = e.List
		case *ast.IfStmt:
			el = []ast.Stmt{e}
		}
		return terminates(s.Body.List) && terminates(el)
	}
	return false
}

func (c *ctx) ind() string { return strings.Repeat(" ", c.depth) }

// block renders a statement list as ONE Lean term `(do … )` of the current monadic result type
func (c *ctx) block(stmts []ast.Stmt) string {
	c.push()
	defer c.pop()
	c.depth += 2
	defer func() { c.depth -= 2 }()
	var lines []line
	term := c.stmts(stmts, &lines)
	in := c.ind()
	var b strings.Builder
	b.WriteString("(do\n")
	for _, l := range lines {
		b.WriteString(in + l + "\n")
	}
	b.WriteString(in + term + ")")
	return b.String()
}

func tuple(ns []string) string {
	switch len(ns) {
	case 0:
		return "()"
	case 1:
		return ns[0]
	}
	return "(" + strings.Join(ns, ", ") + ")"
}

// stmts appends the let-lines of the straight-line prefix to lines and returns the terminal term
func (c *ctx) stmts(stmts []ast.Stmt, lines *[]line) string {
	if len(stmts) == 0 {
		fall := c.fall[len(c.fall)-1]
		if fall == "" {
			return "goPanic \"unreachable: missing return\""
		}
		return fall
	}
	rest := stmts[1:]
	switch s := stmts[0].(type) {
	case *ast.ReturnStmt:
		var es []string
		for _, r := range s.Results {
			es = append(es, c.expr(r, lines))
		}
		return c.ret[len(c.ret)-1](tuple(es))
	case *ast.BranchStmt:
		if s.Tok == token.CONTINUE && s.Label == nil && c.fall[len(c.fall)-1] != "" && strings.Contains(c.fall[len(c.fall)-1], "Step.next") {
			return c.fall[len(c.fall)-1]
		}
		fail("%s statement", s.Tok)
	case *ast.BlockStmt:
		if len(rest) == 0 {
			return c.stmts(s.List, lines)
		}
		fail("nested block followed by statements")
	case *ast.DeclStmt:
		gd, ok := s.Decl.(*ast.GenDecl)
		if !ok || gd.Tok != token.VAR {
			fail("declaration statement")
		}
		for _, sp := range gd.Specs {
			vs := sp.(*ast.ValueSpec)
			if len(vs.Names) != 1 || len(vs.Values) > 1 {
				fail("multi-variable var declaration")
			}
			n := vs.Names[0].Name
			if len(vs.Values) == 1 {
				k := c.kind1(vs.Values[0])
				v := c.expr(vs.Values[0], lines)
				*lines = append(*lines, fmt.Sprintf("let %s := %s", name(n), v))
				c.bind(n, vinfo{kind: k})
			} else {
				*lines = append(*lines, fmt.Sprintf("let %s : %s := GoZero.zero", name(n), c.ty.lean(vs.Type)))
				c.bind(n, c.infoOfType(vs.Type))
			}
		}
		return c.stmts(rest, lines)
	case *ast.ExprStmt:
		call, ok := s.X.(*ast.CallExpr)
		if !ok {
			fail("expression statement")
		}
		if id, ok := call.Fun.(*ast.Ident); ok && id.Name == "copy" && !c.isValue(id) {
			dst, ok := call.Args[0].(*ast.Ident)
			if !ok || !c.isValue(dst) {
				fail("copy into something that is not a local variable")
			}
			src := c.expr(call.Args[1], lines)
			*lines = append(*lines, fmt.Sprintf("let %s := goCopy %s %s", name(dst.Name), name(dst.Name), src))
			return c.stmts(rest, lines)
		}
		c.expr(call, lines)
		return c.stmts(rest, lines)
	case *ast.IncDecStmt:
		fail("++ / -- outside a loop header")
	case *ast.AssignStmt:
		c.assign(s, lines)
		return c.stmts(rest, lines)
	case *ast.IfStmt:
		if s.Init != nil {
			fail("if with an init statement")
		}
		cond := c.expr(s.Cond, lines)
		branch := func(b []ast.Stmt) string {
			all := b
			if !terminates(b) {
				all = append(append([]ast.Stmt{}, b...), rest...)
			}
			return c.block(all)
		}
		var el []ast.Stmt
		switch e := s.Else.(type) {
		case *ast.BlockStmt:
			el = e.List
		case *ast.IfStmt:
			el = []ast.Stmt{e}
		}
		in := c.ind()
		return "if " + cond + " then\n" + in + "  " + branch(s.Body.List) + "\n" + in + "else\n" + in + "  " + branch(el)
	case *ast.RangeStmt:
		return c.loop(s, nil, rest, lines)
	case *ast.ForStmt:
		return c.loop(nil, s, rest, lines)
	}
	fail("statement %T", stmts[0])
	return ""
}

func (c *ctx) assign(s *ast.AssignStmt, lines *[]line) {
	if s.Tok != token.DEFINE && s.Tok != token.ASSIGN {
		fail("assignment operator %s", s.Tok)
	}
	if len(s.Lhs) > 1 && len(s.Rhs) == 1 {
		ks := c.kinds(s.Rhs[0])
		v := c.expr(s.Rhs[0], lines)
		var ns []string
		for i, l := range s.Lhs {
			id, ok := l.(*ast.Ident)
			if !ok {
				fail("destructuring into something that is not a variable")
			}
			ns = append(ns, name(id.Name))
			k := ""
			if i < len(ks) {
				k = ks[i]
			}
			if id.Name != "_" {
				if s.Tok == token.DEFINE || !c.isValue(id) {
					c.bind(id.Name, vinfo{kind: k})
				}
			}
		}
		*lines = append(*lines, fmt.Sprintf("let %s := %s", tuple(ns), v))
		return
	}
	if len(s.Lhs) != len(s.Rhs) {
		fail("assignment count")
	}
	if len(s.Lhs) > 1 {
		fail("parallel assignment")
	}
	switch l := s.Lhs[0].(type) {
	case *ast.Ident:
		k := c.kind1(s.Rhs[0])
		var res []string
		if fl, ok := s.Rhs[0].(*ast.FuncLit); ok {
			k = "func"
			for _, r := range flatten(fl.Type.Results) {
				res = append(res, c.ty.kind(r))
			}
		}
		v := c.expr(s.Rhs[0], lines)
		if l.Name == "_" {
			return
		}
		*lines = append(*lines, fmt.Sprintf("let %s := %s", name(l.Name), v))
		if s.Tok == token.DEFINE {
			c.bind(l.Name, vinfo{kind: k, res: res})
		} else if old, ok := c.lookup(l.Name); !ok {
			fail("assignment to %s, which is not a local variable", l.Name)
		} else if old.kind == "" && k != "" {
			c.bind(l.Name, vinfo{kind: k})
		}
	case *ast.IndexExpr:
		a, ok := l.X.(*ast.Ident)
		if !ok || !c.isValue(a) || s.Tok != token.ASSIGN {
			fail("index assignment to something that is not a local slice")
		}
		if k := c.kind1(a); k != "seq" {
			fail("index assignment to a value of kind %q", k)
		}
		// Go evaluates the index operands, then the right-hand side, then performs the (possibly panicking) store
		i := c.expr(l.Index, lines)
		v := c.expr(s.Rhs[0], lines)
		*lines = append(*lines, fmt.Sprintf("let %s ← setIdxM %s %s %s", name(a.Name), name(a.Name), i, v))
	default:
		fail("assignment to %T", s.Lhs[0])
	}
}

// the local variables of the enclosing scopes that a statement list assigns (in order of first assignment)
func (c *ctx) assigned(body []ast.Stmt) []string {
	var order []string
	seen := map[string]bool{}
	local := map[string]bool{}
	add := func(n string) {
		if n == "_" || local[n] || seen[n] {
			return
		}
		if _, ok := c.lookup(n); ok {
			seen[n] = true
			order = append(order, n)
		}
	}
	var walk func(n ast.Node) bool
	walk = func(n ast.Node) bool {
		switch x := n.(type) {
		case *ast.FuncLit:
			// assignments inside a closure to variables of the enclosing function: captured mutable state
			ast.Inspect(x.Body, func(m ast.Node) bool {
				if as, ok := m.(*ast.AssignStmt); ok && as.Tok == token.ASSIGN {
					for _, l := range as.Lhs {
						if id, ok := l.(*ast.Ident); ok {
							if _, isOuter := c.lookup(id.Name); isOuter {
								fail("closure assigns the captured variable %s", id.Name)
							}
						}
					}
				}
				return true
			})
			return false
		case *ast.AssignStmt:
			for _, l := range x.Lhs {
				switch t := l.(type) {
				case *ast.Ident:
					if x.Tok == token.DEFINE {
						local[t.Name] = true
					} else {
						add(t.Name)
					}
				case *ast.IndexExpr:
					if id, ok := t.X.(*ast.Ident); ok {
						add(id.Name)
					}
				}
			}
		case *ast.IncDecStmt:
			if id, ok := x.X.(*ast.Ident); ok {
				add(id.Name)
			}
		case *ast.ExprStmt:
			if call, ok := x.X.(*ast.CallExpr); ok {
				if id, ok := call.Fun.(*ast.Ident); ok && id.Name == "copy" {
					if d, ok := call.Args[0].(*ast.Ident); ok {
						add(d.Name)
					}
				}
			}
		case *ast.RangeStmt:
			for _, e := range []ast.Expr{x.Key, x.Value} {
				if id, ok := e.(*ast.Ident); ok {
					local[id.Name] = true
				}
			}
		case *ast.DeclStmt:
			if gd, ok := x.Decl.(*ast.GenDecl); ok {
				for _, sp := range gd.Specs {
					if vs, ok := sp.(*ast.ValueSpec); ok {
						for _, n := range vs.Names {
							local[n.Name] = true
						}
					}
				}
			}
		}
		return true
	}
	for _, s := range body {
		ast.Inspect(s, walk)
	}
	return order
}

func mentions(e ast.Expr, names []string) bool {
	found := false
	ast.Inspect(e, func(n ast.Node) bool {
		if id, ok := n.(*ast.Ident); ok {
			for _, m := range names {
				if id.Name == m {
					found = true
				}
			}
		}
		return true
	})
	return found
}

// a loop bound: literals, variables, len(x), x.Size(), + and -
func (c *ctx) pureBound(e ast.Expr) bool {
	switch x := e.(type) {
	case *ast.Ident:
		return c.isValue(x)
	case *ast.BasicLit:
		return x.Kind == token.INT
	case *ast.ParenExpr:
		return c.pureBound(x.X)
	case *ast.BinaryExpr:
		return (x.Op == token.ADD || x.Op == token.SUB) && c.pureBound(x.X) && c.pureBound(x.Y)
	case *ast.CallExpr:
		if id, ok := x.Fun.(*ast.Ident); ok && id.Name == "len" && len(x.Args) == 1 {
			return c.pureBound(x.Args[0])
		}
		if s, ok := x.Fun.(*ast.SelectorExpr); ok && s.Sel.Name == "Size" && len(x.Args) == 0 && c.kind1(s.X) == "seq" {
			return c.pureBound(s.X)
		}
	}
	return false
}

func (c *ctx) loop(rs *ast.RangeStmt, fs *ast.ForStmt, rest []ast.Stmt, lines *[]line) string {
	var body []ast.Stmt
	var items, pat string
	var binds []struct {
		n string
		v vinfo
	}
	if rs != nil {
		body = rs.Body.List
		if rs.Tok != token.DEFINE {
			fail("range loop assigning to existing variables")
		}
		if c.kind1(rs.X) != "seq" {
			fail("range over a value that is not a slice (kind %q)", c.kind1(rs.X))
		}
		st := c.assigned(body)
		if mentions(rs.X, st) {
			fail("the ranged slice is assigned in the loop body")
		}
		var pre []line
		xs := c.expr(rs.X, &pre)
		*lines = append(*lines, pre...)
		key, val := "_", "_"
		if id, ok := rs.Key.(*ast.Ident); ok {
			key = id.Name
		} else if rs.Key != nil {
			fail("range key")
		}
		if id, ok := rs.Value.(*ast.Ident); ok {
			val = id.Name
		} else if rs.Value != nil {
			fail("range value")
		}
		switch {
		case key == "_" && val == "_":
			items, pat = xs, "_"
		case key == "_":
			items, pat = xs, name(val)
			binds = append(binds, struct {
				n string
				v vinfo
			}{val, vinfo{kind: ""}})
		case val == "_":
			items, pat = "(indexRange (len "+xs+"))", name(key)
			binds = append(binds, struct {
				n string
				v vinfo
			}{key, vinfo{kind: "int"}})
		default:
			items, pat = "(enumI "+xs+")", "("+name(key)+", "+name(val)+")"
			binds = append(binds, struct {
				n string
				v vinfo
			}{key, vinfo{kind: "int"}}, struct {
				n string
				v vinfo
			}{val, vinfo{kind: ""}})
		}
	} else {
		body = fs.Body.List
		// for i := 0; i < n; i++
		init, ok := fs.Init.(*ast.AssignStmt)
		if !ok || init.Tok != token.DEFINE || len(init.Lhs) != 1 || len(init.Rhs) != 1 {
			fail("for loop that is not `for i := 0; i < n; i++`")
		}
		iv, ok := init.Lhs[0].(*ast.Ident)
		lit, ok2 := init.Rhs[0].(*ast.BasicLit)
		if !ok || !ok2 || lit.Value != "0" {
			fail("for loop that does not start at 0")
		}
		cond, ok := fs.Cond.(*ast.BinaryExpr)
		if !ok || cond.Op != token.LSS {
			fail("for loop whose condition is not `i < n`")
		}
		if id, ok := cond.X.(*ast.Ident); !ok || id.Name != iv.Name {
			fail("for loop whose condition is not `i < n`")
		}
		post, ok := fs.Post.(*ast.IncDecStmt)
		if !ok || post.Tok != token.INC {
			fail("for loop whose post statement is not `i++`")
		}
		if id, ok := post.X.(*ast.Ident); !ok || id.Name != iv.Name {
			fail("for loop whose post statement is not `i++`")
		}
		st := c.assigned(body)
		if !c.pureBound(cond.Y) || mentions(cond.Y, st) {
			fail("loop bound is not loop-invariant (allowed: len / Size / variables not assigned in the body / literals)")
		}
		c.push()
		c.bind(iv.Name, vinfo{kind: "int"})
		for _, n := range c.assignedIn(body, iv.Name) {
			_ = n
			fail("the loop variable %s is assigned in the body", iv.Name)
		}
		c.pop()
		n := c.expr(cond.Y, lines)
		items, pat = "(indexRange "+n+")", name(iv.Name)
		binds = append(binds, struct {
			n string
			v vinfo
		}{iv.Name, vinfo{kind: "int"}})
	}
	st := c.assigned(body)
	var stn []string
	for _, n := range st {
		stn = append(stn, name(n))
	}
	stPat := tuple(stn)
	// the body
	c.push()
	for _, b := range binds {
		if b.n != "_" {
			c.bind(b.n, b.v)
		}
	}
	c.ret = append(c.ret, func(s string) string { return "pure (Step.ret " + s + ")" })
	c.fall = append(c.fall, "pure (Step.next "+stPat+")")
	c.depth += 2
	bodyTerm := c.block(body)
	c.ret = c.ret[:len(c.ret)-1]
	c.fall = c.fall[:len(c.fall)-1]
	c.pop()
	restTerm := c.block(rest)
	c.depth -= 2
	in := c.ind()
	return "loopM " + items + " " + stPat + "\n" + in + "  (fun " + pat + " " + stPat + " => " + bodyTerm + ")\n" + in + "  (fun " + stPat + " => " + restTerm + ")"
}

func (c *ctx) assignedIn(body []ast.Stmt, v string) []string {
	var r []string
	for _, n := range c.assigned(body) {
		if n == v {
			r = append(r, n)
		}
	}
	return r
}

// ---------------------------------------------------------------------------------------------------------------- functions

func translate(f *fn) (err string) {
	defer func() {
		if r := recover(); r != nil {
			if u, ok := r.(unsupported); ok {
				err = u.msg
				return
			}
			panic(r)
		}
	}()
	tc := &tyctx{tps: map[string]bool{}, pkg: f.pkg}
	for _, p := range f.tparams {
		tc.tps[p] = true
	}
	c := &ctx{f: f, ty: tc}
	c.push()
	var ps []string
	firstSeq := ""
	for _, p := range f.params {
		if p.name == "_" {
			fail("unnamed parameter")
		}
		c.bind(p.name, c.infoOfType(p.ty))
		ps = append(ps, "("+name(p.name)+" : "+tc.lean(p.ty)+")")
		if firstSeq == "" && tc.kind(p.ty) == "seq" {
			firstSeq = name(p.name)
		}
	}
	rt := "Unit"
	switch len(f.results) {
	case 0:
	case 1:
		rt = tc.lean(f.results[0])
	default:
		var s []string
		for _, r := range f.results {
			s = append(s, tc.lean(r))
		}
		rt = "(" + strings.Join(s, " × ") + ")"
	}
	if f.decl.Type.Results != nil {
		for _, fld := range f.decl.Type.Results.List {
			if len(fld.Names) > 0 {
				fail("named results")
			}
		}
	}
	c.ret = append(c.ret, func(s string) string { return "pure " + s })
	fall := ""
	if len(f.results) == 0 {
		fall = "pure ()"
	}
	c.fall = append(c.fall, fall)
	c.depth = 0
	body := c.block(f.decl.Body.List)
	var tp string
	if len(f.tparams) > 0 {
		tp = " {" + strings.Join(f.tparams, " ") + " : Type}"
		for _, p := range f.tparams {
			tp += " [GoZero " + p + "]"
		}
	}
	var args []string
	for _, p := range f.params {
		args = append(args, name(p.name))
	}
	var b strings.Builder
	pos := fmt.Sprintf("/-- `%s` -/\n", f.key)
	if f.selfRec {
		if firstSeq == "" {
			fail("recursive function without a slice parameter to measure")
		}
		fmt.Fprintf(&b, "%sdef %s_fuel%s : (fuel : Nat) → %s → GoM %s\n", pos, f.lean, tp, strings.Join(typesOf(ps), " → "), rt)
		fmt.Fprintf(&b, "  | 0, %s => goPanic \"out of fuel\"\n", strings.Repeat("_, ", len(ps)-1)+"_")
		fmt.Fprintf(&b, "  | fuel + 1, %s => %s\n\n", strings.Join(args, ", "), body)
		fmt.Fprintf(&b, "def %s%s %s : GoM %s :=\n  %s_fuel (%s.length + 1) %s\n", f.lean, tp, strings.Join(ps, " "), rt, f.lean, firstSeq, strings.Join(args, " "))
	} else {
		fmt.Fprintf(&b, "%sdef %s%s %s : GoM %s :=\n  %s\n", pos, f.lean, tp, strings.Join(ps, " "), rt, body)
	}
	f.text = b.String()
	return ""
}

func typesOf(ps []string) []string {
	var ts []string
	for _, p := range ps {
		i := strings.Index(p, " : ")
		ts = append(ts, strings.TrimSuffix(p[i+3:], ")"))
	}
	return ts
}

type result struct {
	Found        []string          `json:"found"`
	Translated   []string          `json:"translated"`
	Untranslated map[string]string `json:"untranslated"`
	ParseErrors  []string          `json:"parse_errors,omitempty"`
}

func main() {
	repo, out := os.Args[1], os.Args[2]
	res := result{Untranslated: map[string]string{}}
	fset := token.NewFileSet()
	var keys []string
	for _, fl := range files {
		af, err := parser.ParseFile(fset, filepath.Join(repo, fl.file), nil, 0)
		if err != nil {
			res.ParseErrors = append(res.ParseErrors, err.Error())
			continue
		}
		for _, d := range af.Decls {
			fd, ok := d.(*ast.FuncDecl)
			if !ok || fd.Body == nil || !ast.IsExported(fd.Name.Name) {
				continue
			}
			f := &fn{pkg: fl.pkg, name: fd.Name.Name, decl: fd, deps: map[string]bool{}}
			if fd.Recv != nil {
				rt := fd.Recv.List[0].Type
				if st, ok := rt.(*ast.StarExpr); ok {
					rt = st.X
				}
				h, args := tyHead(rt)
				if !ast.IsExported(h) {
					continue // methods of unexported types are not part of the exported surface
				}
				f.recv = h
				for _, a := range args {
					if id, ok := a.(*ast.Ident); ok {
						f.tparams = append(f.tparams, id.Name)
					}
				}
				rn := "r"
				if len(fd.Recv.List[0].Names) == 1 {
					rn = fd.Recv.List[0].Names[0].Name
				}
				f.params = append(f.params, param{rn, fd.Recv.List[0].Type})
			}
			if fd.Type.TypeParams != nil {
				for _, fld := range fd.Type.TypeParams.List {
					for _, n := range fld.Names {
						f.tparams = append(f.tparams, n.Name)
					}
				}
			}
			for _, fld := range fd.Type.Params.List {
				if _, ok := fld.Type.(*ast.Ellipsis); ok {
					f.variadic = true
				}
				if len(fld.Names) == 0 {
					f.params = append(f.params, param{"_", fld.Type})
				}
				for _, n := range fld.Names {
					f.params = append(f.params, param{n.Name, fld.Type})
				}
			}
			f.results = flatten(fd.Type.Results)
			if f.recv != "" {
				f.key = f.pkg + "." + f.recv + "." + f.name
				f.lean = f.pkg + "." + f.recv + "_" + f.name
			} else {
				f.key = f.pkg + "." + f.name
				f.lean = f.pkg + "." + f.name
			}
			table[f.key] = f
			keys = append(keys, f.key)
		}
	}
	sort.Strings(keys)
	// translate in dependency order: repeat until nothing changes (a function that calls a not-yet-translated one is retried)
	done := map[string]bool{}
	var order []string
	for _, k := range keys {
		table[k].reason = "pending"
	}
	for changed := true; changed; {
		changed = false
		for _, k := range keys {
			if done[k] {
				continue
			}
			f := table[k]
			f.deps = map[string]bool{}
			f.selfRec = false
			f.reason = ""
			msg := translate(f)
			if msg == "" {
				done[k] = true
				order = append(order, k)
				changed = true
			} else {
				f.reason = msg
			}
		}
	}
	var b strings.Builder
	b.WriteString("import FpVerif.Model.GoSemM\n")
	b.WriteString("/-! GENERATED by harness/cmd/seq2lean from seq.go and seq/seq_op.go of the working tree — do not edit, do not commit. -/\n")
	b.WriteString("set_option linter.unusedVariables false\n")
	b.WriteString("namespace FpVerif.Gen.SeqGen\nopen FpVerif FpVerif.GoSem FpVerif.GoSemM\n\n")
	for _, k := range order {
		b.WriteString(table[k].text)
		b.WriteString("\n")
	}
	q := func(ss []string) string {
		var r []string
		for _, s := range ss {
			r = append(r, strconv.Quote(s))
		}
		return "[" + strings.Join(r, ", ") + "]"
	}
	var tr, un []string
	var flags []string
	for _, k := range keys {
		if done[k] {
			tr = append(tr, k)
			flags = append(flags, "("+strconv.Quote(k)+", true)")
		} else {
			un = append(un, k)
			res.Untranslated[k] = table[k].reason
			flags = append(flags, "("+strconv.Quote(k)+", false)")
		}
	}
	fmt.Fprintf(&b, "/-- every exported function / method (of an exported type) with a body in the two files, with the flag `translated` -/\ndef foundFlags : List (String × Bool) := [%s]\n\n", strings.Join(flags, ", "))
	fmt.Fprintf(&b, "def found : List String := %s\n\ndef translated : List String := %s\n\n", q(keys), q(tr))
	b.WriteString("/-- outside the fragment, with the translator's reason -/\ndef untranslated : List (String × String) := [")
	for i, k := range un {
		if i > 0 {
			b.WriteString(",\n  ")
		}
		b.WriteString("(" + strconv.Quote(k) + ", " + strconv.Quote(table[k].reason) + ")")
	}
	b.WriteString("]\n\nend FpVerif.Gen.SeqGen\n")
	if err := os.WriteFile(out, []byte(b.String()), 0o644); err != nil {
		fmt.Fprintln(os.Stderr, err)
		os.Exit(1)
	}
	res.Found, res.Translated = keys, tr
	if res.Translated == nil {
		res.Translated = []string{}
	}
	j, _ := json.Marshal(res)
	fmt.Println(string(j))
}
