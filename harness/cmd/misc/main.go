// Correspondence + direct harness for the NON-INDEXED conversions and adapters of C14 (and the monoid
// adapters of C11): as.PartialFunc/SeqNonNil/Ptr/Interface/Any/InstanceOf/Named/NamedWithTag/MapEntry/Left/
// Right/Generic/Supplier/Predicate, product.FromHNil/MapKey/MapValue/LiftKey/LiftValue/Split, hlist.Unapply,
// fp.Predicate.Negate/And/Or, fp.Not/And/Or, fp.PartialFunc.Unapply/OrElse, fp.ConvertNumber, fp.IsInstanceOf,
// fp.ConstS/With/Test/TestWith/Max, fp.RuntimeNamed accessors, fp.SemigroupFunc.Empty/Curried,
// fp.monoid.ToMonoid/Curried, monoid.monoid.ToMonoid/Curried, unit.Failure.
//
// Every op is run on the REAL library (impls), answered by the Lean oracle (Oracle/Misc.lean running
// Model/Misc.lean) and, model-free, compared with its defining equation written out natively (wants).
package main

import (
	"flag"
	"fmt"
	"math/big"
	"os"
	"reflect"
	"runtime"
	"sort"
	"strconv"
	"strings"
	"unsafe"

	"github.com/csgura/fp"
	"github.com/csgura/fp/as"
	"github.com/csgura/fp/hlist"
	"github.com/csgura/fp/monoid"
	"github.com/csgura/fp/product"
	"github.com/csgura/fp/unit"
	. "verifharness/common"
)

// NV: a named int implementing fp.Named (and nothing else)
type NV int

func (n NV) Name() string { return "n" + strconv.Itoa(int(n)) }

// ------------------------------------------------------------------------------------ dynamic values

// (dyn int n) | (dyn str n) | (dyn nv n) | (dyn err n) | (dyn unit) | (dyn nil)
func dynOf(s *Sx) any {
	switch s.List[1].Atom {
	case "int":
		return s.List[2].Int()
	case "str":
		return "s" + strconv.Itoa(s.List[2].Int())
	case "nv":
		return NV(s.List[2].Int())
	case "err":
		return CodeErr(s.List[2].Int())
	case "unit":
		return fp.Unit{}
	case "nil":
		return nil
	}
	panic("bad dyn " + s.String())
}

func showDyn(v any) string {
	switch x := v.(type) {
	case nil:
		return "nil"
	case int:
		return "int:" + strconv.Itoa(x)
	case string:
		return "str:" + x
	case NV:
		return "nv:" + strconv.Itoa(int(x))
	case CodeErr:
		return "err:" + strconv.Itoa(int(x))
	case fp.Unit:
		return "unit"
	}
	return fmt.Sprintf("?%T", v)
}

// which (dynamic kind, target type) pairs a type assertion accepts: written out as a table, NOT computed with Go's
// type assertion (the defining side must not use the mechanism under test)
var implTable = map[string]map[string]bool{
	"int":  {"int": true, "any": true},
	"str":  {"str": true, "any": true},
	"nv":   {"nv": true, "Named": true, "any": true},
	"err":  {"err": true, "error": true, "any": true},
	"unit": {"unit": true, "any": true},
	"nil":  {},
}

var targets = []string{"int", "str", "nv", "err", "unit", "Named", "error", "any"}

// typeAssertGuard turns the runtime's TypeAssertionError into the canonical panic value "typeassert"
func typeAssertGuard(f func() string) string {
	defer func() {
		if p := recover(); p != nil {
			if _, ok := p.(*runtime.TypeAssertionError); ok {
				panic("typeassert")
			}
			panic(p)
		}
	}()
	return f()
}

func instanceOf(target string, v any) any {
	switch target {
	case "int":
		return as.InstanceOf[int](v)
	case "str":
		return as.InstanceOf[string](v)
	case "nv":
		return as.InstanceOf[NV](v)
	case "err":
		return as.InstanceOf[CodeErr](v)
	case "unit":
		return as.InstanceOf[fp.Unit](v)
	case "Named":
		return as.InstanceOf[fp.Named](v)
	case "error":
		return as.InstanceOf[error](v)
	case "any":
		return as.InstanceOf[any](v)
	}
	panic("bad target " + target)
}

func isInstanceOf(target string, v any) bool {
	switch target {
	case "int":
		return fp.IsInstanceOf[int](v)
	case "str":
		return fp.IsInstanceOf[string](v)
	case "nv":
		return fp.IsInstanceOf[NV](v)
	case "err":
		return fp.IsInstanceOf[CodeErr](v)
	case "unit":
		return fp.IsInstanceOf[fp.Unit](v)
	case "Named":
		return fp.IsInstanceOf[fp.Named](v)
	case "error":
		return fp.IsInstanceOf[error](v)
	case "any":
		return fp.IsInstanceOf[any](v)
	}
	panic("bad target " + target)
}

func ifaceT[T any](v T, target string) any {
	switch target {
	case "int":
		return as.Interface[T, int](v)
	case "str":
		return as.Interface[T, string](v)
	case "nv":
		return as.Interface[T, NV](v)
	case "err":
		return as.Interface[T, CodeErr](v)
	case "unit":
		return as.Interface[T, fp.Unit](v)
	case "Named":
		return as.Interface[T, fp.Named](v)
	case "error":
		return as.Interface[T, error](v)
	case "any":
		return as.Interface[T, any](v)
	}
	panic("bad target " + target)
}

// as.Interface at the STATIC type of the value (a nil value has the static type error resp. any)
func ifaceOf(d *Sx, target string) any {
	switch d.List[1].Atom {
	case "int":
		return ifaceT(d.List[2].Int(), target)
	case "str":
		return ifaceT("s"+strconv.Itoa(d.List[2].Int()), target)
	case "nv":
		return ifaceT(NV(d.List[2].Int()), target)
	case "err":
		return ifaceT(CodeErr(d.List[2].Int()), target)
	case "unit":
		return ifaceT(fp.Unit{}, target)
	case "nil":
		if len(d.List) > 2 {
			var e error
			return ifaceT(e, target)
		}
		var a any
		return ifaceT(a, target)
	}
	panic("bad dyn")
}

func anyOf(d *Sx) any {
	switch d.List[1].Atom {
	case "int":
		return as.Any(d.List[2].Int())
	case "str":
		return as.Any("s" + strconv.Itoa(d.List[2].Int()))
	case "nv":
		return as.Any(NV(d.List[2].Int()))
	case "err":
		return as.Any(CodeErr(d.List[2].Int()))
	case "unit":
		return as.Any(fp.Unit{})
	}
	return as.Any[any](nil)
}

// ------------------------------------------------------------------------------------ helpers

// hlistSlice reads the (unexported) head/tail fields of hlist.Cons values: the contents, head first.
func hlistSlice(v any) []any {
	out := []any{}
	for {
		if _, ok := v.(hlist.Nil); ok {
			return out
		}
		rv := reflect.ValueOf(v)
		if rv.Kind() != reflect.Struct || rv.NumField() != 2 {
			return append(out, "?"+fmt.Sprintf("%T", v))
		}
		cp := reflect.New(rv.Type()).Elem()
		cp.Set(rv)
		h := cp.Field(0)
		t := cp.Field(1)
		out = append(out, reflect.NewAt(h.Type(), unsafe.Pointer(h.UnsafeAddr())).Elem().Interface())
		v = reflect.NewAt(t.Type(), unsafe.Pointer(t.UnsafeAddr())).Elem().Interface()
	}
}

func ints(xs []*Sx) []any {
	out := make([]any, len(xs))
	for i, x := range xs {
		out[i] = x.Int()
	}
	return out
}

func tupStr(xs ...any) string {
	parts := make([]string, len(xs))
	for i, x := range xs {
		parts[i] = Show(x)
	}
	return "(" + strings.Join(parts, ",") + ")"
}

// binary predicates (p2lt id) | (p2eq id) | (p2panic id p): log q<id>:a,b
func P2Of(s *Sx) func(any, any) bool {
	id := s.List[1].Int()
	switch s.Head() {
	case "p2lt":
		return func(a, b any) bool { Emit("q%d:%s,%s", id, Show(a), Show(b)); return AsInt(a) < AsInt(b) }
	case "p2eq":
		return func(a, b any) bool { Emit("q%d:%s,%s", id, Show(a), Show(b)); return AsInt(a) == AsInt(b) }
	case "p2panic":
		p := s.List[2].Int()
		return func(a, b any) bool { Emit("q%d:%s,%s", id, Show(a), Show(b)); panic(p) }
	}
	panic("bad P2 " + s.String())
}

func genP2(r *Rng, allowPanic bool) *Sx {
	id := NewID()
	switch k := r.Intn(8); {
	case k == 0 && allowPanic:
		return L(A("p2panic"), I(id), I(r.Range(1, 9)))
	case k < 5:
		return L(A("p2lt"), I(id))
	}
	return L(A("p2eq"), I(id))
}

func fields(r fp.RuntimeNamed[any]) []any { return []any{r.I1, r.I2, r.I3} }

func errOf(n int) error {
	if n == 0 {
		return nil
	}
	return E(n)
}

// integer kinds of fp.ConvertNumber
type ikind struct {
	bits   uint
	signed bool
}

var ikinds = map[string]ikind{"i8": {8, true}, "i16": {16, true}, "i32": {32, true}, "i64": {64, true}, "int": {64, true},
	"u8": {8, false}, "u16": {16, false}, "u32": {32, false}, "u64": {64, false}, "uint": {64, false}}
var ikindNames = []string{"i8", "i16", "i32", "i64", "int", "u8", "u16", "u32", "u64", "uint"}

func convTo[F fp.ImplicitNum](f F, to string) any {
	switch to {
	case "i8":
		return fp.ConvertNumber[F, int8](f)
	case "i16":
		return fp.ConvertNumber[F, int16](f)
	case "i32":
		return fp.ConvertNumber[F, int32](f)
	case "i64":
		return fp.ConvertNumber[F, int64](f)
	case "int":
		return fp.ConvertNumber[F, int](f)
	case "u8":
		return fp.ConvertNumber[F, uint8](f)
	case "u16":
		return fp.ConvertNumber[F, uint16](f)
	case "u32":
		return fp.ConvertNumber[F, uint32](f)
	case "u64":
		return fp.ConvertNumber[F, uint64](f)
	case "uint":
		return fp.ConvertNumber[F, uint](f)
	}
	panic("bad kind " + to)
}

func convFromTo(from, to string, x int) any {
	switch from {
	case "i8":
		return convTo(int8(x), to)
	case "i16":
		return convTo(int16(x), to)
	case "i32":
		return convTo(int32(x), to)
	case "i64":
		return convTo(int64(x), to)
	case "int":
		return convTo(x, to)
	case "u8":
		return convTo(uint8(x), to)
	case "u16":
		return convTo(uint16(x), to)
	case "u32":
		return convTo(uint32(x), to)
	case "u64":
		return convTo(uint64(x), to)
	case "uint":
		return convTo(uint(x), to)
	}
	panic("bad kind " + from)
}

// the value of x reduced into the range of an integer type (two's complement), with big integers
func wrapBig(x int, k ikind) string {
	m := new(big.Int).Lsh(big.NewInt(1), k.bits)
	v := new(big.Int).Mod(big.NewInt(int64(x)), m) // Euclidean: 0 <= v < m
	if k.signed {
		half := new(big.Int).Lsh(big.NewInt(1), k.bits-1)
		if v.Cmp(half) >= 0 {
			v.Sub(v, m)
		}
	}
	return v.String()
}

func inRange(x int, k ikind) bool { return wrapBig(x, k) == strconv.Itoa(x) }

type toMonoider[T any] interface {
	ToMonoid(fp.EmptyFunc[T]) fp.Monoid[T]
}
type currier[T any] interface {
	Curried() func(T) func(T) T
}

func hcons(x []any) any {
	switch len(x) {
	case 1:
		return hlist.Concat(x[0], hlist.Empty())
	case 2:
		return hlist.Concat(x[0], hlist.Concat(x[1], hlist.Empty()))
	case 3:
		return hlist.Concat(x[0], hlist.Concat(x[1], hlist.Concat(x[2], hlist.Empty())))
	}
	return hlist.Concat(x[0], hlist.Concat(x[1], hlist.Concat(x[2], hlist.Concat(x[3], hlist.Empty()))))
}

func hunapply(x []any) (any, any) {
	switch len(x) {
	case 1:
		return hlist.Unapply(hlist.Concat(x[0], hlist.Empty()))
	case 2:
		return hlist.Unapply(hlist.Concat(x[0], hlist.Concat(x[1], hlist.Empty())))
	case 3:
		return hlist.Unapply(hlist.Concat(x[0], hlist.Concat(x[1], hlist.Concat(x[2], hlist.Empty()))))
	}
	return hlist.Unapply(hlist.Concat(x[0], hlist.Concat(x[1], hlist.Concat(x[2], hlist.Concat(x[3], hlist.Empty())))))
}

func preds(xs []*Sx) []func(any) bool {
	out := []func(any) bool{}
	for _, s := range xs {
		out = append(out, P1Of(s))
	}
	return out
}

func sgEmpty(kind string) any {
	switch kind {
	case "int":
		return fp.SemigroupFunc[int](func(a, b int) int { Emit("never"); return a + b }).Empty()
	case "str":
		return fp.SemigroupFunc[string](func(a, b string) string { Emit("never"); return a + b }).Empty()
	}
	return fp.SemigroupFunc[any](func(a, b any) any { Emit("never"); return a }).Empty()
}

// ------------------------------------------------------------------------------------ the implementation

var impls = map[string]func(a []*Sx) string{
	"as.PartialFunc": func(a []*Sx) string {
		x := any(a[2].Int())
		pf := as.PartialFunc(P1Of(a[0]), F1Of(a[1]))
		d, ap := pf.Unapply()
		return Show([]any{pf.IsDefinedAt(x), pf.Apply(x), d(x), ap(x)})
	},
	"pf.OrElse": func(a []*Sx) string {
		x := any(a[4].Int())
		q := as.PartialFunc(P1Of(a[0]), F1Of(a[1])).OrElse(as.PartialFunc(P1Of(a[2]), F1Of(a[3])))
		return Show([]any{q.IsDefinedAt(x), q.Apply(x)})
	},
	"as.SeqNonNil": func(a []*Sx) string {
		ps := []*any{}
		for _, e := range a {
			if e.Atom == "nil" {
				ps = append(ps, nil)
			} else {
				v := any(e.Int())
				ps = append(ps, &v)
			}
		}
		res := as.SeqNonNil(ps)
		before := Show(res)
		if res == nil {
			before = "nilslice"
		}
		for _, p := range ps { // the result holds copies of the pointees
			if p != nil {
				*p = 999
			}
		}
		return before + ";" + Show(res)
	},
	"as.Ptr": func(a []*Sx) string {
		v := any(a[0].Int())
		p := as.Ptr(v)
		q := as.Ptr(v)
		*q = a[1].Int()
		return Show([]any{*p, *q, p != q})
	},
	"as.Any": func(a []*Sx) string { return showDyn(anyOf(a[0])) },
	"as.InstanceOf": func(a []*Sx) string {
		return typeAssertGuard(func() string { return showDyn(instanceOf(a[1].Atom, dynOf(a[0]))) })
	},
	"as.Interface": func(a []*Sx) string {
		return typeAssertGuard(func() string { return showDyn(ifaceOf(a[0], a[1].Atom)) })
	},
	"fp.IsInstanceOf": func(a []*Sx) string { return Show(isInstanceOf(a[1].Atom, dynOf(a[0]))) },
	"as.Named": func(a []*Sx) string {
		return Show(fields(as.Named[any]("n"+a[0].Atom, a[1].Int())))
	},
	"as.NamedWithTag": func(a []*Sx) string {
		return Show(fields(as.NamedWithTag[any]("n"+a[0].Atom, a[1].Int(), "t"+a[2].Atom)))
	},
	"named.acc": func(a []*Sx) string {
		r := as.NamedWithTag[any]("n"+a[0].Atom, a[1].Int(), "t"+a[2].Atom)
		var nf fp.NamedField[any] = r
		return Show([]any{nf.Name(), nf.Value(), nf.Tag(), fields(r.WithValue(a[3].Int())), fields(r.WithTag("t" + a[4].Atom))})
	},
	"as.MapEntry": func(a []*Sx) string { return Show(as.MapEntry(F1Of(a[0]))(any(a[1].Int()))) },
	"as.Left":     func(a []*Sx) string { return Show(as.Left[fp.Either[any, any]](any(a[0].Int()))) },
	"as.Right":    func(a []*Sx) string { return Show(as.Right[fp.Either[any, any]](any(a[0].Int()))) },
	"as.Generic": func(a []*Sx) string {
		x := any(a[2].Int())
		g := as.Generic("T"+a[2].Atom, fp.GenericKindStruct, F1Of(a[0]), F1Of(a[1]))
		return Show([]any{g.Type, g.Kind, g.To(x), g.From(x), g.From(g.To(x))})
	},
	"as.Supplier": func(a []*Sx) string {
		s := as.Supplier(any(a[0].Int()))
		return Show([]any{s(), s()})
	},
	"as.Predicate":     func(a []*Sx) string { return Show(as.Predicate(P1Of(a[0]))(any(a[1].Int()))) },
	"product.FromHNil": func(a []*Sx) string { return Show(product.FromHNil(hlist.Empty())) },
	"product.MapKey": func(a []*Sx) string {
		return Show(product.MapKey(as.Tuple2(any(a[1].Int()), any(a[2].Int())), F1Of(a[0])))
	},
	"product.MapValue": func(a []*Sx) string {
		return Show(product.MapValue(as.Tuple2(any(a[1].Int()), any(a[2].Int())), F1Of(a[0])))
	},
	"product.LiftKey": func(a []*Sx) string {
		return Show(product.LiftKey(F2Of(a[0]))(as.Tuple2(any(a[1].Int()), any(a[2].Int()))))
	},
	"product.LiftValue": func(a []*Sx) string {
		return Show(product.LiftValue(F2Of(a[0]))(as.Tuple2(any(a[1].Int()), any(a[2].Int()))))
	},
	"product.Split": func(a []*Sx) string {
		return Show(product.Split(F1Of(a[0]), F1Of(a[1]))(any(a[2].Int())))
	},
	"hlist.Unapply": func(a []*Sx) string {
		h, t := hunapply(ints(a))
		return Show([]any{h, hlistSlice(t)})
	},
	"pred.Negate": func(a []*Sx) string { return Show(fp.Predicate[any](P1Of(a[0])).Negate()(any(a[1].Int()))) },
	"pred.And": func(a []*Sx) string {
		return Show(fp.Predicate[any](P1Of(a[0])).And(P1Of(a[1]))(any(a[2].Int())))
	},
	"pred.Or": func(a []*Sx) string {
		return Show(fp.Predicate[any](P1Of(a[0])).Or(P1Of(a[1]))(any(a[2].Int())))
	},
	"fp.Not": func(a []*Sx) string { return Show(fp.Not(P1Of(a[0]))(any(a[1].Int()))) },
	"fp.And": func(a []*Sx) string { return Show(fp.And(preds(a[1:])...)(any(a[0].Int()))) },
	"fp.Or":  func(a []*Sx) string { return Show(fp.Or(preds(a[1:])...)(any(a[0].Int()))) },
	"fp.ConvertNumber": func(a []*Sx) string {
		return Show(convFromTo(a[0].Atom, a[1].Atom, a[2].Int()))
	},
	"fp.ConstS": func(a []*Sx) string {
		id, v := a[0].Int(), a[1].Int()
		f := fp.ConstS[any](func() any { Emit("s%d", id); return v })
		Emit("built")
		return Show([]any{f(any(a[2].Int())), f(any(a[3].Int()))})
	},
	"fp.With": func(a []*Sx) string { return Show(fp.With(F2Of(a[0]), any(a[1].Int()))(any(a[2].Int()))) },
	"fp.Test": func(a []*Sx) string { return Show(fp.Test(P2Of(a[0]), any(a[1].Int()))(any(a[2].Int()))) },
	"fp.TestWith": func(a []*Sx) string {
		return Show(fp.TestWith(F1Of(a[0]))(P1Of(a[1]))(any(a[2].Int())))
	},
	"fp.Max": func(a []*Sx) string { return Show(fp.Max(a[0].Int(), a[1].Int())) },
	"fp.MaxStr": func(a []*Sx) string {
		return Show(fp.Max("s"+a[0].Atom, "s"+a[1].Atom))
	},
	"sg.Empty": func(a []*Sx) string { return Show(sgEmpty(a[0].Atom)) },
	"ef.Empty": func(a []*Sx) string {
		id, v := a[0].Int(), a[1].Int()
		ef := fp.EmptyFunc[any](func() any { Emit("e%d", id); return v })
		Emit("built")
		return Show([]any{ef.Empty(), ef.Empty()})
	},
	"sg.Curried": func(a []*Sx) string {
		sg := fp.SemigroupFunc[any](F2Of(a[0]))
		x, y := any(a[1].Int()), any(a[2].Int())
		c := sg.Curried()
		Emit("built")
		return Show([]any{c(x)(y), sg.Combine(x, y)})
	},
	"fpmonoid.ToMonoid": func(a []*Sx) string {
		id, e, x, y := a[0].Int(), a[1].Int(), a[2].Int(), a[3].Int()
		p := fp.Product[int]()
		m := p.(toMonoider[int]).ToMonoid(func() int { Emit("e%d", id); return e })
		Emit("built")
		return Show([]any{m.Empty(), m.Combine(x, y), m.(currier[int]).Curried()(x)(y), p.Empty(), p.(currier[int]).Curried()(x)(y)})
	},
	"monoid.ToMonoid": func(a []*Sx) string {
		id, e := a[1].Int(), any(a[2].Int())
		x, y := any(a[3].Int()), any(a[4].Int())
		m0 := monoid.New(func() any { Emit("z%d", id); return 0 }, F2Of(a[0]))
		m := m0.(toMonoider[any]).ToMonoid(func() any { Emit("e%d", id); return e })
		Emit("built")
		return Show([]any{m.Empty(), m.Combine(x, y), m.(currier[any]).Curried()(x)(y), m0.Empty(), m0.(currier[any]).Curried()(x)(y)})
	},
	"unit.Failure": func(a []*Sx) string { return Show(unit.Failure(errOf(a[0].Int()))) },
}

// ------------------------------------------------------------------------------------ the defining equations, natively

func orB(p func() bool, q func() bool) bool {
	if p() {
		return true
	}
	return q()
}

var wants = map[string]func(a []*Sx) string{
	"as.PartialFunc": func(a []*Sx) string {
		x := any(a[2].Int())
		p, f := P1Of(a[0]), F1Of(a[1])
		return Show([]any{p(x), f(x), p(x), f(x)})
	},
	"pf.OrElse": func(a []*Sx) string {
		x := any(a[4].Int())
		p1, f1, p2, f2 := P1Of(a[0]), F1Of(a[1]), P1Of(a[2]), F1Of(a[3])
		d := orB(func() bool { return p1(x) }, func() bool { return p2(x) })
		var r any
		if p1(x) {
			r = f1(x)
		} else {
			r = f2(x) // also when p2 is NOT defined at x: fp.PartialFunc.Apply does not check
		}
		return Show([]any{d, r})
	},
	"as.SeqNonNil": func(a []*Sx) string {
		out := []any{}
		for _, e := range a {
			if e.Atom != "nil" {
				out = append(out, e.Int())
			}
		}
		return Show(out) + ";" + Show(out)
	},
	"as.Ptr": func(a []*Sx) string { return Show([]any{a[0].Int(), a[1].Int(), true}) },
	"as.Any": func(a []*Sx) string { return showDyn(dynOf(a[0])) },
	"as.InstanceOf": func(a []*Sx) string {
		if !implTable[a[0].List[1].Atom][a[1].Atom] {
			panic("typeassert")
		}
		return showDyn(dynOf(a[0]))
	},
	"as.Interface": func(a []*Sx) string {
		if !implTable[a[0].List[1].Atom][a[1].Atom] {
			panic("typeassert")
		}
		return showDyn(dynOf(a[0]))
	},
	"fp.IsInstanceOf": func(a []*Sx) string { return Show(implTable[a[0].List[1].Atom][a[1].Atom]) },
	"as.Named":        func(a []*Sx) string { return Show([]any{"n" + a[0].Atom, a[1].Int(), ""}) },
	"as.NamedWithTag": func(a []*Sx) string { return Show([]any{"n" + a[0].Atom, a[1].Int(), "t" + a[2].Atom}) },
	"named.acc": func(a []*Sx) string {
		n, v, t := "n"+a[0].Atom, a[1].Int(), "t"+a[2].Atom
		return Show([]any{n, v, t, []any{n, a[3].Int(), t}, []any{n, v, "t" + a[4].Atom}})
	},
	"as.MapEntry": func(a []*Sx) string { x := any(a[1].Int()); return tupStr(F1Of(a[0])(x), x) },
	"as.Left":     func(a []*Sx) string { return "Left(" + Show(a[0].Int()) + ")" },
	"as.Right":    func(a []*Sx) string { return "Right(" + Show(a[0].Int()) + ")" },
	"as.Generic": func(a []*Sx) string {
		x := any(a[2].Int())
		to, from := F1Of(a[0]), F1Of(a[1])
		return Show([]any{"T" + a[2].Atom, "Struct", to(x), from(x), from(to(x))})
	},
	"as.Supplier":      func(a []*Sx) string { return Show([]any{a[0].Int(), a[0].Int()}) },
	"as.Predicate":     func(a []*Sx) string { return Show(P1Of(a[0])(any(a[1].Int()))) },
	"product.FromHNil": func(a []*Sx) string { return "unit" },
	"product.MapKey":   func(a []*Sx) string { return tupStr(F1Of(a[0])(any(a[1].Int())), a[2].Int()) },
	"product.MapValue": func(a []*Sx) string { return tupStr(a[1].Int(), F1Of(a[0])(any(a[2].Int()))) },
	"product.LiftKey": func(a []*Sx) string {
		return tupStr(F2Of(a[0])(any(a[1].Int()), any(a[2].Int())), a[2].Int())
	},
	"product.LiftValue": func(a []*Sx) string {
		return tupStr(a[1].Int(), F2Of(a[0])(any(a[1].Int()), any(a[2].Int())))
	},
	"product.Split": func(a []*Sx) string {
		x := any(a[2].Int())
		k := F1Of(a[0])(x)
		v := F1Of(a[1])(x)
		return tupStr(k, v)
	},
	"hlist.Unapply": func(a []*Sx) string { x := ints(a); return Show([]any{x[0], x[1:]}) },
	"pred.Negate":   func(a []*Sx) string { return Show(!P1Of(a[0])(any(a[1].Int()))) },
	"pred.And": func(a []*Sx) string {
		x := any(a[2].Int())
		if !P1Of(a[0])(x) {
			return "false"
		}
		return Show(P1Of(a[1])(x))
	},
	"pred.Or": func(a []*Sx) string {
		x := any(a[2].Int())
		if P1Of(a[0])(x) {
			return "true"
		}
		return Show(P1Of(a[1])(x))
	},
	"fp.Not": func(a []*Sx) string { return Show(!P1Of(a[0])(any(a[1].Int()))) },
	"fp.And": func(a []*Sx) string {
		x := any(a[0].Int())
		for _, p := range a[1:] { // left to right, stop at the first false
			if !P1Of(p)(x) {
				return "false"
			}
		}
		return "true"
	},
	"fp.Or": func(a []*Sx) string {
		x := any(a[0].Int())
		for _, p := range a[1:] {
			if P1Of(p)(x) {
				return "true"
			}
		}
		return "false"
	},
	"fp.ConvertNumber": func(a []*Sx) string { return wrapBig(a[2].Int(), ikinds[a[1].Atom]) },
	"fp.ConstS": func(a []*Sx) string {
		Emit("built")
		Emit("s%d", a[0].Int())
		Emit("s%d", a[0].Int())
		return Show([]any{a[1].Int(), a[1].Int()})
	},
	"fp.With":     func(a []*Sx) string { return Show(F2Of(a[0])(any(a[2].Int()), any(a[1].Int()))) },
	"fp.Test":     func(a []*Sx) string { return Show(P2Of(a[0])(any(a[2].Int()), any(a[1].Int()))) },
	"fp.TestWith": func(a []*Sx) string { return Show(P1Of(a[1])(F1Of(a[0])(any(a[2].Int())))) },
	"fp.Max": func(a []*Sx) string {
		x, y := a[0].Int(), a[1].Int()
		if x >= y {
			return Show(x)
		}
		return Show(y)
	},
	"fp.MaxStr": func(a []*Sx) string {
		x, y := "s"+a[0].Atom, "s"+a[1].Atom
		if strings.Compare(x, y) >= 0 {
			return Show(x)
		}
		return Show(y)
	},
	"sg.Empty": func(a []*Sx) string {
		return map[string]string{"int": "0", "str": "\"\"", "any": "nil"}[a[0].Atom]
	},
	"ef.Empty": func(a []*Sx) string {
		Emit("built")
		Emit("e%d", a[0].Int())
		Emit("e%d", a[0].Int())
		return Show([]any{a[1].Int(), a[1].Int()})
	},
	"sg.Curried": func(a []*Sx) string {
		g := F2Of(a[0])
		x, y := any(a[1].Int()), any(a[2].Int())
		Emit("built")
		return Show([]any{g(x, y), g(x, y)})
	},
	"fpmonoid.ToMonoid": func(a []*Sx) string {
		id, e, x, y := a[0].Int(), a[1].Int(), a[2].Int(), a[3].Int()
		Emit("built")
		Emit("e%d", id)
		return Show([]any{e, x * y, x * y, 1, x * y})
	},
	"monoid.ToMonoid": func(a []*Sx) string {
		id, e := a[1].Int(), a[2].Int()
		g := F2Of(a[0])
		x, y := any(a[3].Int()), any(a[4].Int())
		Emit("built")
		Emit("e%d", id)
		r1 := g(x, y)
		r2 := g(x, y)
		Emit("z%d", id)
		r3 := g(x, y)
		return Show([]any{e, r1, r2, 0, r3})
	},
	"unit.Failure": func(a []*Sx) string {
		if a[0].Int() == 0 {
			return "Failure(ErrNotInit)"
		}
		return "Failure(e" + a[0].Atom + ")"
	},
}

// ------------------------------------------------------------------------------------ generator

var hist = map[string]int{}

// marker values: distinct per argument position; later passes add random digits, signs, small values
func mark(r *Rng, pos int, pass int) *Sx {
	switch {
	case pass == 0:
		return I(10 * (pos + 1))
	case pass%4 == 3:
		return I(r.Range(-5, 5))
	case pass%4 == 2:
		return I(-(10*(pos+1) + r.Intn(10)))
	}
	return I(10*(pos+1) + r.Intn(10))
}

func small(r *Rng, pass int) *Sx {
	if pass == 0 {
		return I(4)
	}
	return I(r.Range(-3, 9))
}

func genDyn(r *Rng, pass int) *Sx {
	k := Pick(r, "int", "str", "nv", "err", "unit", "nil")
	hist["dyn:"+k]++
	switch k {
	case "unit":
		return L(A("dyn"), A("unit"))
	case "nil":
		if r.Bool() {
			return L(A("dyn"), A("nil"), A("error"))
		}
		return L(A("dyn"), A("nil"))
	case "err":
		return L(A("dyn"), A(k), I(r.Range(1, 9)))
	}
	return L(A("dyn"), A(k), I(r.Range(0, 99)))
}

func f1(r *Rng, pass int) *Sx { return GenF1(r, pass > 0) }
func p1(r *Rng, pass int) *Sx { return GenP1(r, pass > 0) }
func f2(r *Rng, pass int) *Sx { return GenF2(r, pass > 0) }

func genConv(r *Rng, pass int) []*Sx {
	from, to := Pick(r, ikindNames...), Pick(r, ikindNames...)
	k := ikinds[from]
	// a value in the range of `from` (as far as an int can hold it): boundaries and random
	var lo, hi int
	if k.signed {
		if k.bits == 64 {
			lo, hi = -1<<63, 1<<63-1
		} else {
			lo, hi = -(1 << (k.bits - 1)), 1<<(k.bits-1)-1
		}
	} else {
		if k.bits == 64 {
			lo, hi = 0, 1<<63-1
		} else {
			lo, hi = 0, 1<<k.bits-1
		}
	}
	var x int
	switch r.Intn(8) {
	case 0:
		x = lo
	case 1:
		x = hi
	case 2:
		x = 0
	case 3:
		if k.signed {
			x = -1
		} else {
			x = hi - 1
		}
	case 4:
		x = hi/2 + 1
	case 5:
		x = r.Range(0, 300)
		if x > hi {
			x = hi
		}
	default:
		x = int(r.Next() >> 1)
		if k.signed && r.Bool() {
			x = -x
		}
		if x < lo || x > hi {
			span := new(big.Int).Sub(big.NewInt(int64(hi)), big.NewInt(int64(lo)))
			span.Add(span, big.NewInt(1))
			v := new(big.Int).Mod(big.NewInt(int64(x)), span)
			v.Add(v, big.NewInt(int64(lo)))
			x = int(v.Int64())
		}
	}
	if inRange(x, ikinds[to]) {
		hist["conv:fits"]++
	} else {
		hist["conv:wraps"]++
	}
	return []*Sx{A(from), A(to), I(x)}
}

var gens = map[string]func(r *Rng, pass int) []*Sx{
	"as.PartialFunc": func(r *Rng, p int) []*Sx { return []*Sx{p1(r, p), f1(r, p), small(r, p)} },
	"pf.OrElse": func(r *Rng, p int) []*Sx {
		return []*Sx{p1(r, p), f1(r, p), p1(r, p), f1(r, p), small(r, p)}
	},
	"as.SeqNonNil": func(r *Rng, p int) []*Sx {
		n := 3
		if p > 0 {
			n = r.Range(0, 6)
		}
		out := []*Sx{}
		for i := 0; i < n; i++ {
			if (p == 0 && i == 1) || (p > 0 && r.Intn(3) == 0) {
				out = append(out, A("nil"))
				hist["seqnonnil:nil"]++
			} else {
				out = append(out, mark(r, i, p))
			}
		}
		hist[fmt.Sprintf("seqnonnil:len%d", n)]++
		return out
	},
	"as.Ptr":          func(r *Rng, p int) []*Sx { return []*Sx{mark(r, 0, p), mark(r, 1, p)} },
	"as.Any":          func(r *Rng, p int) []*Sx { return []*Sx{genDyn(r, p)} },
	"as.InstanceOf":   func(r *Rng, p int) []*Sx { return []*Sx{genDyn(r, p), A(Pick(r, targets...))} },
	"as.Interface":    func(r *Rng, p int) []*Sx { return []*Sx{genDyn(r, p), A(Pick(r, targets...))} },
	"fp.IsInstanceOf": func(r *Rng, p int) []*Sx { return []*Sx{genDyn(r, p), A(Pick(r, targets...))} },
	"as.Named":        func(r *Rng, p int) []*Sx { return []*Sx{mark(r, 0, p), mark(r, 1, p)} },
	"as.NamedWithTag": func(r *Rng, p int) []*Sx { return []*Sx{mark(r, 0, p), mark(r, 1, p), mark(r, 2, p)} },
	"named.acc": func(r *Rng, p int) []*Sx {
		return []*Sx{mark(r, 0, p), mark(r, 1, p), mark(r, 2, p), mark(r, 3, p), mark(r, 4, p)}
	},
	"as.MapEntry":       func(r *Rng, p int) []*Sx { return []*Sx{f1(r, p), mark(r, 0, p)} },
	"as.Left":           func(r *Rng, p int) []*Sx { return []*Sx{mark(r, 0, p)} },
	"as.Right":          func(r *Rng, p int) []*Sx { return []*Sx{mark(r, 0, p)} },
	"as.Generic":        func(r *Rng, p int) []*Sx { return []*Sx{f1(r, p), f1(r, p), mark(r, 0, p)} },
	"as.Supplier":       func(r *Rng, p int) []*Sx { return []*Sx{mark(r, 0, p)} },
	"as.Predicate":      func(r *Rng, p int) []*Sx { return []*Sx{p1(r, p), small(r, p)} },
	"product.FromHNil":  func(r *Rng, p int) []*Sx { return []*Sx{} },
	"product.MapKey":    func(r *Rng, p int) []*Sx { return []*Sx{f1(r, p), mark(r, 0, p), mark(r, 1, p)} },
	"product.MapValue":  func(r *Rng, p int) []*Sx { return []*Sx{f1(r, p), mark(r, 0, p), mark(r, 1, p)} },
	"product.LiftKey":   func(r *Rng, p int) []*Sx { return []*Sx{f2(r, p), mark(r, 0, p), mark(r, 1, p)} },
	"product.LiftValue": func(r *Rng, p int) []*Sx { return []*Sx{f2(r, p), mark(r, 0, p), mark(r, 1, p)} },
	"product.Split":     func(r *Rng, p int) []*Sx { return []*Sx{f1(r, p), f1(r, p), mark(r, 0, p)} },
	"hlist.Unapply": func(r *Rng, p int) []*Sx {
		n := 1 + p%4
		out := []*Sx{}
		for i := 0; i < n; i++ {
			out = append(out, mark(r, i, p))
		}
		return out
	},
	"pred.Negate": func(r *Rng, p int) []*Sx { return []*Sx{p1(r, p), small(r, p)} },
	"pred.And":    func(r *Rng, p int) []*Sx { return []*Sx{p1(r, p), p1(r, p), small(r, p)} },
	"pred.Or":     func(r *Rng, p int) []*Sx { return []*Sx{p1(r, p), p1(r, p), small(r, p)} },
	"fp.Not":      func(r *Rng, p int) []*Sx { return []*Sx{p1(r, p), small(r, p)} },
	"fp.And": func(r *Rng, p int) []*Sx {
		n := 2
		if p > 0 {
			n = r.Range(0, 4)
		}
		out := []*Sx{small(r, p)}
		for i := 0; i < n; i++ {
			out = append(out, p1(r, p))
		}
		hist[fmt.Sprintf("preds:%d", n)]++
		return out
	},
	"fp.Or": func(r *Rng, p int) []*Sx {
		n := 2
		if p > 0 {
			n = r.Range(0, 4)
		}
		out := []*Sx{small(r, p)}
		for i := 0; i < n; i++ {
			out = append(out, p1(r, p))
		}
		hist[fmt.Sprintf("preds:%d", n)]++
		return out
	},
	"fp.ConvertNumber": genConv,
	"fp.ConstS":        func(r *Rng, p int) []*Sx { return []*Sx{I(NewID()), mark(r, 0, p), mark(r, 1, p), mark(r, 2, p)} },
	"fp.With":          func(r *Rng, p int) []*Sx { return []*Sx{f2(r, p), mark(r, 0, p), mark(r, 1, p)} },
	"fp.Test":          func(r *Rng, p int) []*Sx { return []*Sx{genP2(r, p > 0), small(r, p), small(r, p+1)} },
	"fp.TestWith":      func(r *Rng, p int) []*Sx { return []*Sx{f1(r, p), p1(r, p), small(r, p)} },
	"fp.Max":           func(r *Rng, p int) []*Sx { return []*Sx{small(r, p), small(r, p+1)} },
	"fp.MaxStr":        func(r *Rng, p int) []*Sx { return []*Sx{I(r.Range(0, 120)), I(r.Range(0, 120))} },
	"sg.Empty":         func(r *Rng, p int) []*Sx { return []*Sx{A([]string{"int", "str", "any"}[p%3])} },
	"sg.Curried":       func(r *Rng, p int) []*Sx { return []*Sx{f2(r, p), mark(r, 0, p), mark(r, 1, p)} },
	"ef.Empty":         func(r *Rng, p int) []*Sx { return []*Sx{I(NewID()), mark(r, 0, p)} },
	"fpmonoid.ToMonoid": func(r *Rng, p int) []*Sx {
		return []*Sx{I(NewID()), Pick(r, I(1), I(1), I(0), small(r, p+1)), small(r, p+1), small(r, p+1)}
	},
	"monoid.ToMonoid": func(r *Rng, p int) []*Sx {
		return []*Sx{f2(r, p), I(NewID()), Pick(r, I(0), I(0), small(r, p+1)), mark(r, 0, p), mark(r, 1, p)}
	},
	"unit.Failure": func(r *Rng, p int) []*Sx { return []*Sx{I(p % 10)} },
}

// which library function(s) an op is the coverage witness of
var covers = map[string][]string{
	"as.PartialFunc": {"as.PartialFunc", "fp.PartialFunc.Unapply"}, "pf.OrElse": {"fp.PartialFunc.OrElse"},
	"named.acc":   {"fp.RuntimeNamed.Name", "fp.RuntimeNamed.Value", "fp.RuntimeNamed.WithValue", "fp.RuntimeNamed.Tag", "fp.RuntimeNamed.WithTag"},
	"pred.Negate": {"fp.Predicate.Negate"}, "pred.And": {"fp.Predicate.And"}, "pred.Or": {"fp.Predicate.Or"},
	"sg.Empty": {"fp.SemigroupFunc.Empty"}, "sg.Curried": {"fp.SemigroupFunc.Curried"}, "ef.Empty": {"fp.EmptyFunc.Empty"},
	"fpmonoid.ToMonoid": {"fp.monoid.ToMonoid", "fp.monoid.Curried", "fp.monoid.Empty"},
	"monoid.ToMonoid":   {"monoid.monoid.ToMonoid", "monoid.monoid.Curried"},
	"fp.MaxStr":         {"fp.Max"},
}

func opNames() []string {
	names := make([]string, 0, len(impls))
	for k := range impls {
		names = append(names, k)
	}
	sort.Strings(names)
	return names
}

func runImpl(op *Sx) string {
	f, ok := impls[op.Head()]
	if !ok || !op.IsL {
		return "bad-op"
	}
	return Outcome(func() string { return f(op.List[1:]) })
}

func runWant(op *Sx) string {
	f, ok := wants[op.Head()]
	if !ok {
		return "no-defining-equation"
	}
	return Outcome(func() string { return f(op.List[1:]) })
}

// extra model-free laws over the same inputs (round trips / algebraic facts), returned as failures
func extraLaws(name string, a []*Sx) (what string) {
	defer func() {
		if p := recover(); p != nil {
			what = "" // a panicking callback: the law does not apply
		}
	}()
	Log = Log[:0]
	switch name {
	case "fp.IsInstanceOf":
		// IsInstanceOf is true exactly when InstanceOf does not panic
		ok := isInstanceOf(a[1].Atom, dynOf(a[0]))
		panicked := strings.HasPrefix(Outcome(func() string { return showDyn(instanceOf(a[1].Atom, dynOf(a[0]))) }), "panic(")
		if ok == panicked {
			return fmt.Sprintf("IsInstanceOf=%v but InstanceOf panicked=%v", ok, panicked)
		}
	case "pred.And":
		// De Morgan on the VALUE (logs differ): not(p and q) == (not p) or (not q)
		x := any(a[2].Int())
		p, q := fp.Predicate[any](P1Of(a[0])), fp.Predicate[any](P1Of(a[1]))
		if p.And(q).Negate()(x) != p.Negate().Or(q.Negate())(x) {
			return "De Morgan fails"
		}
	case "fp.And":
		x := any(a[0].Int())
		ps := preds(a[1:])
		neg := []func(any) bool{}
		for _, p := range ps {
			neg = append(neg, fp.Not(p))
		}
		if fp.And(ps...)(x) != !fp.Or(neg...)(x) {
			return "And(ps) != !Or(not ps)"
		}
	case "fp.ConvertNumber":
		// identity embedding whenever the value fits the target type
		if inRange(a[2].Int(), ikinds[a[1].Atom]) && Show(convFromTo(a[0].Atom, a[1].Atom, a[2].Int())) != a[2].Atom {
			return "value fits the target type but was changed"
		}
	case "fpmonoid.ToMonoid":
		// with an identity of the product as the new empty, the identity laws hold on the sample
		if a[1].Int() == 1 {
			m := fp.Product[int]().(toMonoider[int]).ToMonoid(func() int { return 1 })
			x := a[2].Int()
			if m.Combine(m.Empty(), x) != x || m.Combine(x, m.Empty()) != x {
				return "identity law fails although empty is an identity"
			}
		}
	case "as.Generic":
		// From(To(x)) == x for a mutually inverse pair (to = lin 1 b, from = lin 1 -b)
		x := any(a[2].Int())
		g := as.Generic("T", fp.GenericKindNewType, func(v any) any { return AsInt(v) + 7 }, func(v any) any { return AsInt(v) - 7 })
		if g.From(g.To(x)) != x {
			return "From(To(x)) != x for inverse functions"
		}
	case "hlist.Unapply":
		// Concat(Unapply(l)) rebuilds l
		x := ints(a)
		h, t := hunapply(x)
		if Show(append([]any{h}, hlistSlice(t)...)) != Show(hlistSlice(hcons(x))) {
			return "head :: tail != list"
		}
	}
	return ""
}

func main() {
	seed := flag.Uint64("seed", 1, "PRNG seed")
	n := flag.Int("n", 2000, "number of generated cases (rounded up to whole passes over all ops, at least 4 passes)")
	out := flag.String("out", ".", "output directory")
	replay := flag.String("replay", "", "run one op line and print the implementation's answer")
	opsFile := flag.String("ops", "", "run the op lines of this file instead of generating")
	flag.Parse()
	if *replay != "" {
		op, err := Parse(*replay)
		if err != nil || !op.IsL {
			fmt.Println("bad-op")
			os.Exit(2)
		}
		impl := runImpl(op)
		fmt.Println(impl)
		if w := runWant(op); w != impl {
			fmt.Println("FAIL defining equation gives: " + w)
		}
		if w := extraLaws(op.Head(), op.List[1:]); w != "" {
			fmt.Println("FAIL law: " + w)
		}
		return
	}
	r := NewRng(*seed)
	sink := NewSink(*out)
	if *opsFile != "" {
		for _, line := range ReadLines(*opsFile) {
			op, err := Parse(line)
			if err != nil {
				continue
			}
			sink.Case(line, func() string { return runImpl(op) })
		}
		sink.Close()
		fmt.Printf("{\"cases\": %d}\n", sink.N)
		return
	}
	names := opNames()
	checks := 0
	for _, nm := range names {
		checks++
		if gens[nm] == nil || wants[nm] == nil {
			sink.DirectFail("coverage", nm, "op without generator or defining equation")
		}
	}
	passes := 4
	if (*n+len(names)-1)/len(names) > passes {
		passes = (*n + len(names) - 1) / len(names)
	}
	for pass := 0; pass < passes; pass++ {
		for _, nm := range names {
			ResetIDs()
			op := L(append([]*Sx{A(nm)}, gens[nm](r, pass)...)...)
			hist[nm]++
			for _, c := range covers[nm] {
				hist["fn:"+c]++
			}
			var impl string
			sink.Case(op.String(), func() string { impl = runImpl(op); return impl })
			checks++
			if strings.HasPrefix(impl, "panic(") {
				hist["outcome:panic"]++
			} else {
				hist["outcome:value"]++
			}
			if w := runWant(op); w != impl {
				sink.DirectFail(nm, op.String(), "implementation: "+impl+" defining equation: "+w)
			}
			checks++
			if w := extraLaws(nm, op.List[1:]); w != "" {
				sink.DirectFail(nm+"/law", op.String(), w)
			}
		}
	}
	sink.Close()
	keys := make([]string, 0, len(hist))
	for k := range hist {
		keys = append(keys, k)
	}
	sort.Strings(keys)
	parts := []string{}
	for _, k := range keys {
		parts = append(parts, fmt.Sprintf("%q: %d", k, hist[k]))
	}
	fmt.Printf("{\"cases\": %d, \"direct_checks\": %d, \"direct_failures\": %d, \"ops\": %d, \"passes\": %d, \"histogram\": {%s}}\n",
		sink.N, checks, sink.DirectFailures, len(names), passes, strings.Join(parts, ", "))
}
