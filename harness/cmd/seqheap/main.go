// Correspondence + direct harness for the persistence of fp.Seq values at backing-array level (C04).
// A case is a branching history over live slices that start as windows (with spare capacity, overlapping)
// into one base array. After every operation (a) every backing array ever seen is compared, over its full
// capacity, with its snapshot — any write is a direct violation — and (b) the result's alias class
// (which array, which offset) and contents are reported for comparison with the model.
package main

import (
	"flag"
	"fmt"
	"os"
	"sort"
	"strings"
	"unsafe"

	"github.com/csgura/fp"
	"github.com/csgura/fp/iterator"
	"github.com/csgura/fp/monoid"
	"github.com/csgura/fp/option"
	"github.com/csgura/fp/ord"
	"github.com/csgura/fp/seq"
	. "verifharness/common"
)

type array struct {
	base uintptr
	full []int // the whole allocation as a slice (len == cap)
	snap []int
}

type world struct {
	arrays []*array
	ids    map[uintptr]int // base pointer -> canonical id (first appearance among non-empty results)
	live   []fp.Seq[int]
	views  [][]int
}

func (w *world) findArray(s []int) (*array, int) {
	if cap(s) == 0 {
		return nil, 0
	}
	p := uintptr(unsafe.Pointer(unsafe.SliceData(s)))
	for _, a := range w.arrays {
		end := a.base + uintptr(len(a.full))*8
		if p >= a.base && p < end {
			return a, int((p - a.base) / 8)
		}
	}
	// a new allocation: remember all of it (from its data pointer to its capacity)
	full := s[:cap(s):cap(s)]
	a := &array{base: p, full: full, snap: append([]int{}, full...)}
	w.arrays = append(w.arrays, a)
	return a, 0
}

func (w *world) describe(s fp.Seq[int]) string {
	if s == nil {
		return "nil"
	}
	if len(s) == 0 {
		w.findArray(s)
		return "len0"
	}
	a, off := w.findArray(s)
	id, ok := w.ids[a.base]
	if !ok {
		id = len(w.ids)
		w.ids[a.base] = id
	}
	parts := make([]string, len(s))
	for i, x := range s {
		parts[i] = fmt.Sprint(x)
	}
	return fmt.Sprintf("a%d+%d:[%s]", id, off, strings.Join(parts, ","))
}

func (w *world) addLive(s fp.Seq[int]) string {
	d := w.describe(s)
	w.live = append(w.live, s)
	w.views = append(w.views, append([]int{}, s...))
	return d
}

// check: no backing array and no live value may have changed
func (w *world) changed() string {
	out := []string{}
	for k, a := range w.arrays {
		for j := range a.full {
			if a.full[j] != a.snap[j] {
				out = append(out, fmt.Sprintf("array#%d[%d]:%d->%d", k, j, a.snap[j], a.full[j]))
				a.snap[j] = a.full[j]
			}
		}
	}
	for i, s := range w.live {
		for j := range s {
			if j < len(w.views[i]) && s[j] != w.views[i][j] {
				out = append(out, fmt.Sprintf("live%d[%d]", i, j))
				w.views[i][j] = s[j]
			}
		}
	}
	return strings.Join(out, ",")
}

func pred(m, r int) func(int) bool { return func(x int) bool { return Emod(x, m) == r } }

func (w *world) at(j int) fp.Seq[int] {
	if j >= 0 && j < len(w.live) {
		return w.live[j]
	}
	return nil
}

// pickLive: the callback of FlatMap — the element selects one of the live slices (FpVerif: pickLive)
func (w *world) pickLive(k int) func(int) fp.Seq[int] {
	live := append([]fp.Seq[int]{}, w.live...)
	return func(v int) fp.Seq[int] {
		j := Emod(v+k, len(live))
		if j < len(live) {
			return live[j]
		}
		return nil
	}
}

func (w *world) applyOp(i int, op *Sx) []fp.Seq[int] {
	var s fp.Seq[int]
	if i < len(w.live) {
		s = w.live[i]
	}
	a := op.List
	switch op.Head() {
	case "unSeq":
		_, t := s.UnSeq()
		return []fp.Seq[int]{t}
	case "flatMap":
		return []fp.Seq[int]{s.FlatMap(w.pickLive(a[1].Int()))}
	case "flatMapPkg":
		return []fp.Seq[int]{seq.FlatMap(s, w.pickLive(a[1].Int()))}
	case "flatten":
		ss := fp.Seq[fp.Seq[int]]{}
		for _, j := range a[1:] {
			ss = append(ss, w.at(j.Int()))
		}
		return []fp.Seq[int]{seq.Flatten(ss)}
	case "ap":
		fs := fp.Seq[fp.Func1[int, int]]{}
		for _, f := range a[1:] {
			k, c := f.List[0].Int(), f.List[1].Int()
			fs = append(fs, func(x int) int { return k*x + c })
		}
		return []fp.Seq[int]{seq.Ap(fs, s)}
	case "map2":
		return []fp.Seq[int]{seq.Map2(s, w.at(a[1].Int()), func(x, y int) int { return 10*x + y })}
	case "filterMap":
		m, r := a[1].Int(), a[2].Int()
		return []fp.Seq[int]{seq.FilterMap(s, func(x int) fp.Option[int] {
			if Emod(x, m) == r {
				return fp.Some(x + 1)
			}
			return fp.None[int]()
		})}
	case "concatPkg":
		return []fp.Seq[int]{seq.Concat(a[1].Int(), s)}
	case "ofPkg":
		return []fp.Seq[int]{seq.Of(s...)}
	case "pure":
		return []fp.Seq[int]{seq.Pure(a[1].Int())}
	case "mergeCombine":
		if a[1].Atom == "slice" {
			return []fp.Seq[int]{monoid.MergeSlice[int]().Combine(s, w.at(a[2].Int()))}
		}
		return []fp.Seq[int]{monoid.MergeSeq[int]().Combine(s, w.at(a[2].Int()))}
	case "mergeEmpty":
		if a[1].Atom == "slice" {
			return []fp.Seq[int]{monoid.MergeSlice[int]().Empty()}
		}
		return []fp.Seq[int]{monoid.MergeSeq[int]().Empty()}
	case "reduceMerge":
		ss := fp.Seq[fp.Seq[int]]{}
		for _, j := range a[1:] {
			ss = append(ss, w.at(j.Int()))
		}
		return []fp.Seq[int]{seq.Reduce(ss, monoid.MergeSeq[int]())}
	case "iterToSeq":
		switch a[1].Atom {
		case "method":
			return []fp.Seq[int]{iterator.FromSeq(s).ToSeq()}
		case "slice":
			return []fp.Seq[int]{iterator.ToSlice(iterator.FromSlice(s))}
		}
		return []fp.Seq[int]{iterator.ToSeq(iterator.FromSeq(s))}
	case "optToSeq":
		if a[1].Atom == "none" {
			return []fp.Seq[int]{option.ToSeq(fp.None[int]()), fp.None[int]().ToSeq()}[:1]
		}
		if a[1].Int()%2 == 0 {
			return []fp.Seq[int]{fp.Some(a[1].Int()).ToSeq()}
		}
		return []fp.Seq[int]{option.ToSeq(fp.Some(a[1].Int()))}
	case "widen":
		return []fp.Seq[int]{s.Widen()}
	case "init":
		return []fp.Seq[int]{s.Init()}
	case "tail":
		return []fp.Seq[int]{s.Tail()}
	case "take":
		return []fp.Seq[int]{s.Take(a[1].Int())}
	case "drop":
		return []fp.Seq[int]{s.Drop(a[1].Int())}
	case "filter":
		return []fp.Seq[int]{s.Filter(pred(a[1].Int(), a[2].Int()))}
	case "filterNot":
		return []fp.Seq[int]{s.FilterNot(pred(a[1].Int(), a[2].Int()))}
	case "map":
		k, c := a[1].Int(), a[2].Int()
		return []fp.Seq[int]{s.Map(func(x int) int { return k*x + c })}
	case "mapPkg":
		k, c := a[1].Int(), a[2].Int()
		return []fp.Seq[int]{seq.Map(s, func(x int) int { return k*x + c })}
	case "add":
		return []fp.Seq[int]{s.Add(a[1].Int())}
	case "append":
		xs := []int{}
		for _, x := range a[1:] {
			xs = append(xs, x.Int())
		}
		return []fp.Seq[int]{s.Append(xs...)}
	case "concat":
		var t fp.Seq[int]
		if j := a[1].Int(); j < len(w.live) {
			t = w.live[j]
		}
		return []fp.Seq[int]{s.Concat(t)}
	case "reverse":
		return []fp.Seq[int]{s.Reverse()}
	case "sort":
		if a[1].Atom == "desc" {
			return []fp.Seq[int]{seq.Sort(s, ord.Given[int]().Reversed())}
		}
		return []fp.Seq[int]{seq.Sort(s, ord.Given[int]())}
	case "distinct":
		return []fp.Seq[int]{seq.Distinct(s)}
	case "scan":
		return []fp.Seq[int]{seq.Scan(s, a[1].Int(), func(b, x int) int { return b + x })}
	case "span":
		l, r := seq.Span(s, pred(a[1].Int(), a[2].Int()))
		return []fp.Seq[int]{l, r}
	case "partition":
		l, r := seq.Partition(s, pred(a[1].Int(), a[2].Int()))
		return []fp.Seq[int]{l, r}
	case "fold":
		_ = seq.Fold(s, 0, func(b, x int) int { return b + x })
		_ = seq.FoldTry(s, 0, func(b, x int) fp.Try[int] { return fp.Success(b + x) })
		_ = seq.Reduce(s, fp.Monoid[int](sumMonoid{}))
		_, _ = seq.Min(s, ord.Given[int]()), seq.Max(s, ord.Given[int]())
		return nil
	case "groupBy":
		g := seq.GroupBy(s, func(x int) int { return Emod(x, 3) })
		keys := []int{}
		for k := range g {
			keys = append(keys, k)
		}
		sort.Ints(keys)
		for _, k := range keys {
			w.findArray(g[k]) // register the group slices so later writes into them would be seen
		}
		_ = seq.ZipWithIndex(s)
		_ = seq.Zip(s, s)
		return nil
	case "toGoMap":
		_ = seq.ToGoSet(s)
		_ = iterator.FromSeq(s).ToSeq()
		_ = iterator.Sort(iterator.FromSeq(s), ord.Given[int]())
		return nil
	case "collect":
		return []fp.Seq[int]{seq.Collect(iterator.FromSeq(s))}
	case "flatten2":
		return []fp.Seq[int]{seq.Flatten(fp.Seq[fp.Seq[int]]{s, s})}
	}
	panic("bad op " + op.String())
}

type sumMonoid struct{}

func (sumMonoid) Empty() int           { return 0 }
func (sumMonoid) Combine(a, b int) int { return a + b }

func runHistory(h *Sx, sink *Sink) string {
	w := &world{ids: map[uintptr]int{}}
	a := h.List
	base := []int{}
	for _, x := range a[1].List[1:] {
		base = append(base, x.Int())
	}
	out := []string{}
	if len(base) > 0 {
		w.arrays = append(w.arrays, &array{base: uintptr(unsafe.Pointer(unsafe.SliceData(base))), full: base, snap: append([]int{}, base...)})
	}
	idx := 2
	for ; idx < len(a) && a[idx].Head() == "slice"; idx++ {
		off, ln, cp := a[idx].List[1].Int(), a[idx].List[2].Int(), a[idx].List[3].Int()
		out = append(out, w.addLive(fp.Seq[int](base[off:off+ln:off+cp])))
	}
	for ; idx < len(a); idx++ {
		st := a[idx]
		i, op := st.List[0].Int(), st.List[1]
		res := w.applyOp(i, op)
		ds := []string{}
		for _, r := range res {
			ds = append(ds, w.addLive(r))
		}
		ch := w.changed()
		if ch != "" && sink != nil {
			sink.DirectFail("persistence/"+op.Head(), h.String(), fmt.Sprintf("step %d (%s on live %d) modified existing storage: %s", idx-2, op.String(), i, ch))
		}
		out = append(out, strings.Join(ds, " ")+"!"+ch)
	}
	return strings.Join(out, " ; ")
}

var hist = map[string]int{}

func genIdx(r *Rng, nlive int) *Sx { return I(r.Intn(nlive + 1)) }

func genOp(r *Rng, nlive int) *Sx {
	if r.Intn(5) < 2 {
		// the long tail: FlatMap family, merge monoids, iterator / option conversions
		switch r.Intn(17) {
		case 0:
			return L(A("unSeq"))
		case 1:
			return L(A("flatMap"), I(r.Range(0, 5)))
		case 2, 3:
			return L(A("flatMapPkg"), I(r.Range(0, 5)))
		case 4:
			xs := []*Sx{A("flatten")}
			for k, n := 0, r.Intn(4); k < n; k++ {
				xs = append(xs, genIdx(r, nlive))
			}
			return L(xs...)
		case 5:
			xs := []*Sx{A("ap")}
			for k, n := 0, r.Intn(3); k < n; k++ {
				xs = append(xs, L(I(r.Range(-2, 3)), I(r.Range(-3, 3))))
			}
			return L(xs...)
		case 6:
			return L(A("map2"), genIdx(r, nlive))
		case 7:
			m := r.Range(2, 3)
			return L(A("filterMap"), I(m), I(r.Intn(m)))
		case 8:
			return L(A("concatPkg"), I(r.Range(-9, 9)))
		case 9:
			return L(A("ofPkg"))
		case 10:
			return L(A("pure"), I(r.Range(-9, 9)))
		case 11, 12, 13:
			return L(A("mergeCombine"), A(Pick(r, "seq", "slice")), genIdx(r, nlive))
		case 14:
			if r.Bool() {
				return L(A("mergeEmpty"), A(Pick(r, "seq", "slice")))
			}
			xs := []*Sx{A("reduceMerge")}
			for k, n := 0, r.Intn(4); k < n; k++ {
				xs = append(xs, genIdx(r, nlive))
			}
			return L(xs...)
		case 15:
			return L(A("iterToSeq"), A(Pick(r, "method", "seq", "slice")))
		}
		if r.Intn(3) == 0 {
			return L(A("optToSeq"), A("none"))
		}
		return L(A("optToSeq"), I(r.Range(-9, 9)))
	}
	switch r.Intn(26) {
	case 0:
		return L(A("widen"))
	case 1:
		return L(A("init"))
	case 2:
		return L(A("tail"))
	case 3, 4:
		return L(A("take"), I(r.Range(0, 6)))
	case 5, 6:
		return L(A("drop"), I(r.Range(0, 6)))
	case 7:
		m := r.Range(2, 3)
		return L(A("filter"), I(m), I(r.Intn(m)))
	case 8:
		m := r.Range(2, 3)
		return L(A("filterNot"), I(m), I(r.Intn(m)))
	case 9:
		return L(A("map"), I(r.Range(-2, 3)), I(r.Range(-3, 3)))
	case 10:
		return L(A("mapPkg"), I(r.Range(-2, 3)), I(r.Range(-3, 3)))
	case 11:
		return L(A("add"), I(r.Range(-9, 9)))
	case 12:
		xs := []*Sx{A("append")}
		for k, n := 0, r.Intn(4); k < n; k++ {
			xs = append(xs, I(r.Range(-9, 9)))
		}
		return L(xs...)
	case 13, 14:
		return L(A("concat"), I(r.Intn(nlive+1)))
	case 15:
		return L(A("reverse"))
	case 16, 17, 18:
		return L(A("sort"), A(Pick(r, "asc", "desc")))
	case 19:
		return L(A("distinct"))
	case 20:
		return L(A("scan"), I(r.Range(-3, 3)))
	case 21:
		m := r.Range(2, 3)
		return L(A(Pick(r, "span", "partition")), I(m), I(r.Intn(m)))
	case 22:
		return L(A("fold"))
	case 23:
		return L(A("groupBy"))
	case 24:
		return L(A(Pick(r, "toGoMap", "collect")))
	}
	return L(A("flatten2"))
}

func genHistory(r *Rng) *Sx {
	n := r.Range(0, 10)
	arr := []*Sx{A("arr")}
	for i := 0; i < n; i++ {
		arr = append(arr, I(r.Range(-9, 20)))
	}
	out := []*Sx{A("hist"), L(arr...)}
	nlive := 0
	for k, m := 0, r.Range(1, 3); k < m; k++ {
		off := r.Intn(n + 1)
		ln := r.Intn(n - off + 1)
		cp := ln + r.Intn(n-off-ln+1)
		out = append(out, L(A("slice"), I(off), I(ln), I(cp)))
		nlive++
	}
	for k, m := 0, r.Range(1, 12); k < m; k++ {
		op := genOp(r, nlive)
		hist[op.Head()]++
		out = append(out, L(I(r.Intn(nlive+1)), op))
		switch op.Head() {
		case "fold", "groupBy", "toGoMap":
		case "span", "partition":
			nlive += 2
		default:
			nlive++
		}
	}
	return L(out...)
}

func main() {
	seed := flag.Uint64("seed", 1, "PRNG seed")
	n := flag.Int("n", 2000, "cases")
	out := flag.String("out", ".", "output directory")
	replay := flag.String("replay", "", "run one op line")
	opsFile := flag.String("ops", "", "run op lines of this file")
	flag.Parse()
	if *replay != "" {
		op, err := Parse(*replay)
		if err != nil {
			fmt.Println("bad-op")
			os.Exit(2)
		}
		fmt.Println(Outcome(func() string { return runHistory(op, nil) }))
		return
	}
	r := NewRng(*seed)
	sink := NewSink(*out)
	run := func(line string, op *Sx) {
		sink.Case(line, func() string { return Outcome(func() string { return runHistory(op, sink) }) })
	}
	if *opsFile != "" {
		for _, line := range ReadLines(*opsFile) {
			if op, err := Parse(line); err == nil {
				run(line, op)
			}
		}
		sink.Close()
		fmt.Printf("{\"cases\": %d}\n", sink.N)
		return
	}
	steps := 0
	for i := 0; i < *n; i++ {
		op := genHistory(r)
		steps += len(op.List) - 2
		run(op.String(), op)
	}
	sink.Close()
	parts := []string{}
	for k, v := range hist {
		parts = append(parts, fmt.Sprintf("%q: %d", k, v))
	}
	fmt.Printf("{\"cases\": %d, \"direct_checks\": %d, \"direct_failures\": %d, \"histogram\": {%s}}\n", sink.N, steps, sink.DirectFailures, strings.Join(parts, ", "))
}
