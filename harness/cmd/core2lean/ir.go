package main

import "strings"

// Node: monadic normal form of a Go statement list.
//
//	ret   Val                 pure v            (value v in pure mode)
//	tail  Val                 an effectful computation in tail position
//	throw Val                 throw v
//	bind  Pat Rhs Body        let pat ← rhs; body
//	let   Pat Rhs Body        let pat := rhs; body
//	match Val Arms            match v with | pat => body …
//	if    Val Then Else
//	catch Pat Then Else       tryCatch (then) (fun pat => else)
type Node struct {
	K    string
	Pat  string
	Rhs  string
	Val  string
	Body *Node
	Arms []arm
	Then *Node
	Else *Node
}
type arm struct {
	Pat  string
	Body *Node
}

type pre struct {
	pat, rhs string
	bind     bool
}

func wrap(ps []pre, n *Node) *Node {
	for i := len(ps) - 1; i >= 0; i-- {
		k := "let"
		if ps[i].bind {
			k = "bind"
		}
		n = &Node{K: k, Pat: ps[i].pat, Rhs: ps[i].rhs, Body: n}
	}
	return n
}

func isEff(n *Node) bool {
	switch n.K {
	case "ret", "rec":
		return false
	case "tail", "throw", "bind", "catch":
		return true
	case "let":
		return isEff(n.Body)
	case "match":
		for _, a := range n.Arms {
			if isEff(a.Body) {
				return true
			}
		}
		return false
	case "if":
		return isEff(n.Then) || isEff(n.Else)
	}
	return true
}

func ind(s string, k int) string {
	return strings.ReplaceAll(s, "\n", "\n"+strings.Repeat(" ", k))
}

func paren(s string) string {
	if strings.Contains(s, "\n") || strings.HasPrefix(s, "match ") || strings.HasPrefix(s, "do") || strings.HasPrefix(s, "if ") ||
		strings.HasPrefix(s, "let ") || strings.HasPrefix(s, "fun ") {
		return "(" + s + ")"
	}
	return s
}

// pr prints a node starting at relative column 0; continuation lines are relative too.
func pr(n *Node, eff bool) string {
	switch n.K {
	case "ret":
		if eff {
			return "pure " + ind(n.Val, 4)
		}
		return n.Val
	case "tail", "rec":
		return ind(n.Val, 4)
	case "throw":
		return "throw " + ind(n.Val, 4)
	case "bind", "let":
		if !eff {
			// term-mode let chain (pure function)
			if n.K == "bind" {
				return "«effect in a pure function»"
			}
			return "let " + n.Pat + " := " + ind(n.Rhs, 4) + "\n" + pr(n.Body, eff)
		}
		var b strings.Builder
		b.WriteString("do")
		cur := n
		for cur.K == "bind" || cur.K == "let" {
			op := " ← "
			if cur.K == "let" {
				op = " := "
			}
			b.WriteString("\n  " + ind("let "+cur.Pat+op+ind(cur.Rhs, 4), 2))
			cur = cur.Body
		}
		b.WriteString("\n  " + ind(pr(cur, eff), 2))
		return b.String()
	case "match":
		var b strings.Builder
		b.WriteString("match " + n.Val + " with")
		for _, a := range n.Arms {
			b.WriteString("\n| " + a.Pat + " => " + ind(paren(pr(a.Body, eff)), 2))
		}
		return b.String()
	case "if":
		return "if " + n.Val + " then\n  " + ind(paren(pr(n.Then, eff)), 2) + "\nelse\n  " + ind(paren(pr(n.Else, eff)), 2)
	case "catch":
		return "tryCatch\n  (" + ind(pr(n.Then, true), 4) + ")\n  (fun " + n.Pat + " => " + ind(paren(pr(n.Else, true)), 4) + ")"
	}
	return "«node " + n.K + "»"
}
