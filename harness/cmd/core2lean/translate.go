package main

import (
	"fmt"
	"go/ast"
	"go/token"
	"sort"
	"strconv"
	"strings"
)

type param struct {
	name string
	ty   *Ty
}

type fn struct {
	pkg, file, recv, name string
	line                  int
	decl                  *ast.FuncDecl
	key, lean             string
	tparams               []string
	explicitTps           bool
	params                []param // receiver first
	result                *Ty
	named                 []string
	synth                 bool // the dispatch function of the interface fp.Either
	state                 int  // 0 untouched 1 in progress 2 done 3 failed
	eff                   bool
	extra                 []param
	code                  string
	errs                  []string
}

type gen struct {
	table map[string]*fn
	keys  []string // in source order
	out   []string // emitted definitions, dependency order
}

type refine struct{ ctor, val string }
type binding struct {
	ty   *Ty
	term string
	ref  *refine
	head string // loop variable: the element `Next()` yields
	zero bool   // `var zero T`: materialised (as an extra parameter of the definition) only when used
}
type env struct {
	m     map[string]*binding
	order []string
}

func (e *env) with(name string, b *binding) *env {
	n := &env{m: map[string]*binding{}, order: e.order}
	for k, v := range e.m {
		n.m[k] = v
	}
	if _, ok := n.m[name]; !ok {
		n.order = append(append([]string{}, e.order...), name)
	}
	n.m[name] = b
	return n
}

type tr struct {
	g     *gen
	f     *fn
	tps   map[string]bool
	errs  []string
	fresh int
	aux   []string
	extra []param
	// identifiers that occur inside a closure of this function (the deferred recover closure excepted): an assignment `x = e` to one of
	// them is rejected — the translation reads `=` as a re-binding, which a closure that captured the variable would not see
	captured map[string]bool
	goIdents map[string]bool
}

func (t *tr) fail(why string) string {
	t.errs = append(t.errs, why)
	return "«untranslatable»"
}
func (t *tr) failN(why string) *Node { t.fail(why); return &Node{K: "ret", Val: "«untranslatable»"} }

func (t *tr) freshName(base string) string {
	t.fresh++
	return t.gen(base + strconv.Itoa(t.fresh))
}

// gen: a name introduced by the translator must not be an identifier of the Go function (it could capture it)
func (t *tr) gen(n string) string {
	if t.goIdents[n] {
		t.fail("generated name " + n + " clashes with an identifier of the function")
	}
	return n
}

var leanKeywords = map[string]bool{"then": true, "at": true, "fun": true, "from": true, "end": true, "match": true, "do": true, "let": true,
	"if": true, "else": true, "in": true, "by": true, "have": true, "show": true, "open": true, "with": true, "instance": true, "where": true,
	"try": true, "catch": true, "finally": true, "return": true, "for": true, "unless": true, "mut": true, "def": true, "theorem": true,
	"structure": true, "class": true, "namespace": true, "section": true, "variable": true, "universe": true, "import": true, "type": true,
	"Type": true, "Prop": true, "Sort": true, "this": true, "using": true, "exists": true, "forall": true, "nomatch": true, "calc": true, "suffices": true, "opaque": true, "abbrev": true, "example": true, "axiom": true, "macro": true, "syntax": true, "notation": true, "infix": true, "prefix": true, "postfix": true, "deriving": true, "mutual": true, "private": true, "protected": true, "partial": true, "unsafe": true, "noncomputable": true, "local": true, "scoped": true, "attribute": true, "set_option": true, "export": true, "extends": true, "inductive": true, "termination_by": true, "decreasing_by": true, "pure": true, "throw": true, "some": true, "none": true}

func san(n string) string {
	if leanKeywords[n] {
		return n + "_"
	}
	return n
}

func pkgNs(p string) string {
	if p == "try" {
		return "try_"
	}
	return p
}

// ------------------------------------------------------------------------------------------------ variables

func (t *tr) varTerm(b *binding) string {
	if b.zero {
		return t.zeroOf(b.ty)
	}
	if b.ref == nil {
		return b.term
	}
	ty := t.leanTy(b.ty)
	switch b.ref.ctor {
	case "success":
		return "(Try.success " + b.ref.val + " : " + ty + ")"
	case "failure":
		return "(Try.failure " + b.ref.val + " : " + ty + ")"
	case "some":
		return "(some " + b.ref.val + " : " + ty + ")"
	case "none":
		return "(none : " + ty + ")"
	case "left":
		return "(Either.left " + b.ref.val + " : " + ty + ")"
	case "right":
		return "(Either.right " + b.ref.val + " : " + ty + ")"
	}
	return t.fail("refinement " + b.ref.ctor)
}

type guard struct{ kind, yes, no string }

var guards = map[string]guard{
	"IsSuccess": {"Try", "success", "failure"}, "IsFailure": {"Try", "failure", "success"},
	"IsDefined": {"Option", "some", "none"}, "IsEmpty": {"Option", "none", "some"},
	"IsLeft": {"Either", "left", "right"}, "IsRight": {"Either", "right", "left"},
}

func ctorPat(ctor, v string) (pat, val string) {
	switch ctor {
	case "success":
		return ".success " + v + "_v", v + "_v"
	case "failure":
		return ".failure " + v + "_e", v + "_e"
	case "some":
		return "some " + v + "_v", v + "_v"
	case "none":
		return "none", ""
	case "left":
		return ".left " + v + "_l", v + "_l"
	case "right":
		return ".right " + v + "_r", v + "_r"
	}
	return "_", ""
}

var ctorOrder = map[string][2]string{"Try": {"success", "failure"}, "Option": {"some", "none"}, "Ptr": {"some", "none"}, "Either": {"left", "right"}}

// caseOn: match on the constructor of the variable `name`; yes = the constructor for which `th` runs.
func (t *tr) caseOn(name string, b *binding, yes string, e *env, th, el func(*env) *Node) *Node {
	if b.ref != nil {
		if b.ref.ctor == yes {
			return th(e)
		}
		return el(e)
	}
	ord := ctorOrder[b.ty.K]
	n := &Node{K: "match", Val: b.term}
	for _, c := range ord {
		pat, val := ctorPat(c, san(name))
		if val != "" {
			t.gen(val)
		}
		e2 := e.with(name, &binding{ty: b.ty, term: b.term, ref: &refine{c, val}})
		var body *Node
		if c == yes {
			body = th(e2)
		} else {
			body = el(e2)
		}
		n.Arms = append(n.Arms, arm{pat, body})
	}
	return n
}

func isNil(x ast.Expr) bool {
	id, ok := x.(*ast.Ident)
	return ok && id.Name == "nil"
}

func (t *tr) cond(c ast.Expr, e *env, th, el func(*env) *Node) *Node {
	switch x := c.(type) {
	case *ast.ParenExpr:
		return t.cond(x.X, e, th, el)
	case *ast.UnaryExpr:
		if x.Op == token.NOT {
			return t.cond(x.X, e, el, th)
		}
	case *ast.BinaryExpr:
		switch x.Op {
		case token.LAND:
			return t.cond(x.X, e, func(e2 *env) *Node { return t.cond(x.Y, e2, th, el) }, el)
		case token.LOR:
			return t.cond(x.X, e, th, func(e2 *env) *Node { return t.cond(x.Y, e2, th, el) })
		case token.EQL, token.NEQ:
			other := x.X
			if isNil(x.X) {
				other = x.Y
			} else if !isNil(x.Y) {
				break
			}
			if x.Op == token.NEQ {
				th, el = el, th
			}
			// now: th runs when other == nil
			if id, ok := other.(*ast.Ident); ok {
				if b, ok := e.m[id.Name]; ok {
					switch b.ty.K {
					case "Ptr":
						return t.caseOn(id.Name, b, "none", e, th, el)
					case "Err":
						return &Node{K: "if", Val: t.varTerm(b) + " = Err.nil", Then: th(e), Else: el(e)}
					}
					return t.failN("comparison of a " + b.ty.K + " with nil")
				}
			}
			var ps []pre
			term, ty := t.expr(other, e, &ps, nil)
			if ty.K == "Err" {
				return wrap(ps, &Node{K: "if", Val: term + " = Err.nil", Then: th(e), Else: el(e)})
			}
			return t.failN("comparison with nil of a " + ty.K)
		}
	case *ast.CallExpr:
		if s, ok := x.Fun.(*ast.SelectorExpr); ok && len(x.Args) == 0 {
			if g, ok := guards[s.Sel.Name]; ok {
				if id, ok := s.X.(*ast.Ident); ok {
					if b, ok := e.m[id.Name]; ok && b.ty.K == g.kind {
						return t.caseOn(id.Name, b, g.yes, e, th, el)
					}
				}
			}
		}
	}
	var ps []pre
	term, _ := t.expr(c, e, &ps, mk("Bool"))
	return wrap(ps, &Node{K: "if", Val: term, Then: th(e), Else: el(e)})
}

// ------------------------------------------------------------------------------------------------ statements

func terminates(ss []ast.Stmt) bool {
	if len(ss) == 0 {
		return false
	}
	switch s := ss[len(ss)-1].(type) {
	case *ast.ReturnStmt:
		return true
	case *ast.ExprStmt:
		if c, ok := s.X.(*ast.CallExpr); ok {
			if id, ok := c.Fun.(*ast.Ident); ok && id.Name == "panic" {
				return true
			}
		}
	case *ast.IfStmt:
		if s.Else == nil {
			return false
		}
		if !terminates(s.Body.List) {
			return false
		}
		switch el := s.Else.(type) {
		case *ast.BlockStmt:
			return terminates(el.List)
		case *ast.IfStmt:
			return terminates([]ast.Stmt{el})
		}
	}
	return false
}

type fctx struct {
	result *Ty
	named  []string // named results (bare return)
}

func (t *tr) namedRet(e *env, fc *fctx) *Node {
	var vs []string
	for _, n := range fc.named {
		b, ok := e.m[n]
		if !ok {
			return t.failN("named result " + n + " is not assigned")
		}
		vs = append(vs, t.varTerm(b))
	}
	if len(vs) == 1 {
		return &Node{K: "ret", Val: vs[0]}
	}
	return &Node{K: "ret", Val: "(" + strings.Join(vs, ", ") + ")"}
}

func (t *tr) block(ss []ast.Stmt, e *env, fc *fctx, k func(*env) *Node) *Node {
	if len(ss) == 0 {
		if k != nil {
			return k(e)
		}
		if len(fc.named) > 0 {
			return t.namedRet(e, fc)
		}
		if fc.result.K == "Void" {
			return &Node{K: "ret", Val: "()"}
		}
		return t.failN("missing return")
	}
	rest := ss[1:]
	next := func(e2 *env) *Node { return t.block(rest, e2, fc, k) }
	switch s := ss[0].(type) {
	case *ast.ReturnStmt:
		if len(rest) > 0 {
			return t.failN("statements after return")
		}
		return t.ret(s, e, fc)
	case *ast.IfStmt:
		if s.Init != nil {
			return t.failN("if with an init statement")
		}
		if terminates([]ast.Stmt{s}) && len(rest) > 0 {
			return t.failN("statements after a terminating if/else")
		}
		th := func(e2 *env) *Node { return t.block(s.Body.List, e2, fc, next) }
		el := next
		switch x := s.Else.(type) {
		case *ast.BlockStmt:
			el = func(e2 *env) *Node { return t.block(x.List, e2, fc, next) }
		case *ast.IfStmt:
			el = func(e2 *env) *Node { return t.block([]ast.Stmt{x}, e2, fc, next) }
		}
		return t.cond(s.Cond, e, th, el)
	case *ast.AssignStmt:
		return t.assign(s, e, next)
	case *ast.DeclStmt:
		gd, ok := s.Decl.(*ast.GenDecl)
		if ok && gd.Tok == token.VAR && len(gd.Specs) == 1 {
			vs := gd.Specs[0].(*ast.ValueSpec)
			if len(vs.Names) == 1 && len(vs.Values) == 0 {
				ty := goTy(vs.Type, t.tps)
				return next(e.with(vs.Names[0].Name, &binding{ty: ty, term: "«zero»", zero: true}))
			}
		}
		return t.failN("declaration")
	case *ast.ExprStmt:
		c, ok := s.X.(*ast.CallExpr)
		if !ok {
			return t.failN("expression statement")
		}
		if id, ok := c.Fun.(*ast.Ident); ok && id.Name == "panic" && len(c.Args) == 1 {
			if len(rest) > 0 {
				return t.failN("statements after panic")
			}
			var ps []pre
			term, ty := t.expr(c.Args[0], e, &ps, nil)
			switch ty.K {
			case "Err":
				return wrap(ps, &Node{K: "throw", Val: "(Err.toStr " + term + ")"})
			case "String":
				return wrap(ps, &Node{K: "throw", Val: term})
			}
			return t.failN("panic with a value of type " + ty.K)
		}
		var ps []pre
		term, cty, eff := t.callExpr(c, e, &ps)
		if eff && len(rest) == 0 && k == nil && fc.result.K == "Void" && len(fc.named) == 0 && cty.K == "Void" {
			// the last statement of a function without results: its (unit) value is the function's
			return wrap(ps, &Node{K: "tail", Val: term})
		}
		n := next(e)
		if eff && cty.K == "Void" && n.K == "ret" && n.Val == "()" {
			// a call without results directly before the end of a function without results: its unit value is the function's
			return wrap(ps, &Node{K: "tail", Val: term})
		}
		if eff {
			ps = append(ps, pre{"_", term, true})
		}
		return wrap(ps, n)
	case *ast.DeferStmt:
		return t.deferRecover(s, rest, e, fc)
	case *ast.ForStmt:
		return t.loop(s, nil, rest, e, fc, k)
	case *ast.RangeStmt:
		return t.loop(nil, s, rest, e, fc, k)
	}
	return t.failN(fmt.Sprintf("statement %T", ss[0]))
}

func (t *tr) zeroOf(ty *Ty) string {
	if ty.K != "Var" {
		return t.fail("zero value of a " + ty.K)
	}
	name := "zero"
	for _, p := range t.extra {
		if p.ty.N == ty.N {
			return p.name
		}
	}
	if len(t.extra) > 0 {
		name = "zero" + ty.N
	}
	t.extra = append(t.extra, param{name, ty})
	return name
}

func (t *tr) ret(s *ast.ReturnStmt, e *env, fc *fctx) *Node {
	switch len(s.Results) {
	case 0:
		if len(fc.named) > 0 {
			return t.namedRet(e, fc)
		}
		return &Node{K: "ret", Val: "()"}
	case 1:
		return t.retExpr(s.Results[0], e, fc.result)
	}
	if fc.result.K != "Tuple" || len(fc.result.A) != len(s.Results) {
		return t.failN("return arity")
	}
	var ps []pre
	var vs []string
	for i, r := range s.Results {
		v, _ := t.expr(r, e, &ps, fc.result.A[i])
		vs = append(vs, v)
	}
	return wrap(ps, &Node{K: "ret", Val: "(" + strings.Join(vs, ", ") + ")"})
}

// retExpr: `return x` — an effectful call in tail position is not re-bound; `a && b` / `a || b` are `if a then b else false` / `if a then true else b`
func (t *tr) retExpr(x ast.Expr, e *env, want *Ty) *Node {
	if p, ok := x.(*ast.ParenExpr); ok {
		return t.retExpr(p.X, e, want)
	}
	if b, ok := x.(*ast.BinaryExpr); ok && (b.Op == token.LAND || b.Op == token.LOR) {
		yes := func(e2 *env) *Node { return t.retExpr(b.Y, e2, want) }
		if b.Op == token.LAND {
			return t.cond(b.X, e, yes, func(*env) *Node { return &Node{K: "ret", Val: "false"} })
		}
		return t.cond(b.X, e, func(*env) *Node { return &Node{K: "ret", Val: "true"} }, yes)
	}
	var ps []pre
	if c, ok := x.(*ast.CallExpr); ok {
		term, _, eff := t.callExpr(c, e, &ps)
		if eff {
			return wrap(ps, &Node{K: "tail", Val: term})
		}
		return wrap(ps, &Node{K: "ret", Val: term})
	}
	term, _ := t.expr(x, e, &ps, want)
	return wrap(ps, &Node{K: "ret", Val: term})
}

func (t *tr) assign(s *ast.AssignStmt, e *env, next func(*env) *Node) *Node {
	if s.Tok != token.DEFINE && s.Tok != token.ASSIGN {
		return t.failN("assignment operator " + s.Tok.String())
	}
	if len(s.Rhs) != 1 {
		return t.failN("parallel assignment")
	}
	var ps []pre
	// field update of the receiver copy: r.v = e / r.err = e
	if len(s.Lhs) == 1 {
		if sel, ok := s.Lhs[0].(*ast.SelectorExpr); ok {
			id, ok := sel.X.(*ast.Ident)
			if !ok {
				return t.failN("assignment target")
			}
			b, ok := e.m[id.Name]
			if !ok || b.ref == nil {
				return t.failN("field assignment on an unrefined value")
			}
			okField := (sel.Sel.Name == "v" && (b.ref.ctor == "success" || b.ref.ctor == "some")) || (sel.Sel.Name == "err" && b.ref.ctor == "failure")
			if !okField {
				return t.failN("assignment to field " + sel.Sel.Name + " of a " + b.ref.ctor)
			}
			var want *Ty
			if sel.Sel.Name == "err" {
				want = mk("Err")
			} else {
				want = b.ty.A[0]
			}
			term, _ := t.expr(s.Rhs[0], e, &ps, want)
			e2 := e.with(id.Name, &binding{ty: b.ty, term: b.term, ref: &refine{b.ref.ctor, term}})
			return wrap(ps, next(e2))
		}
	}
	var names []string
	for _, l := range s.Lhs {
		id, ok := l.(*ast.Ident)
		if !ok {
			return t.failN("assignment target")
		}
		if s.Tok == token.ASSIGN && t.captured[id.Name] {
			return t.failN("assignment to " + id.Name + ", which a closure captures")
		}
		names = append(names, id.Name)
	}
	var term string
	var ty *Ty
	eff := false
	if c, ok := s.Rhs[0].(*ast.CallExpr); ok {
		term, ty, eff = t.callExpr(c, e, &ps)
	} else {
		term, ty = t.expr(s.Rhs[0], e, &ps, nil)
	}
	e2 := e
	var pat string
	if len(names) == 1 {
		pat = san(names[0])
		if names[0] == "_" {
			pat = "_"
		} else {
			e2 = e2.with(names[0], &binding{ty: ty, term: san(names[0])})
		}
	} else {
		if ty.K != "Tuple" || len(ty.A) != len(names) {
			return t.failN("destructuring of a non-tuple")
		}
		var pats []string
		for i, n := range names {
			if n == "_" {
				pats = append(pats, "_")
				continue
			}
			pats = append(pats, san(n))
			e2 = e2.with(n, &binding{ty: ty.A[i], term: san(n)})
		}
		pat = "(" + strings.Join(pats, ", ") + ")"
	}
	ps = append(ps, pre{pat, term, eff})
	return wrap(ps, next(e2))
}

// defer func() { if p := recover(); p != nil { ret = E } }()   followed by the body: the GoM catch
func (t *tr) deferRecover(d *ast.DeferStmt, rest []ast.Stmt, e *env, fc *fctx) *Node {
	bad := func() *Node {
		return t.failN("defer outside the pattern `defer func() { if p := recover(); p != nil { ret = … } }()`")
	}
	fl, ok := d.Call.Fun.(*ast.FuncLit)
	if !ok || len(d.Call.Args) != 0 || len(fl.Type.Params.List) != 0 || len(fl.Body.List) != 1 || len(fc.named) == 0 {
		return bad()
	}
	is, ok := fl.Body.List[0].(*ast.IfStmt)
	if !ok || is.Else != nil || is.Init == nil {
		return bad()
	}
	as, ok := is.Init.(*ast.AssignStmt)
	if !ok || as.Tok != token.DEFINE || len(as.Lhs) != 1 || len(as.Rhs) != 1 {
		return bad()
	}
	pid, ok := as.Lhs[0].(*ast.Ident)
	rc, ok2 := as.Rhs[0].(*ast.CallExpr)
	if !ok || !ok2 || len(rc.Args) != 0 {
		return bad()
	}
	if id, ok := rc.Fun.(*ast.Ident); !ok || id.Name != "recover" {
		return bad()
	}
	be, ok := is.Cond.(*ast.BinaryExpr)
	if !ok || be.Op != token.NEQ || !isNil(be.Y) {
		return bad()
	}
	if id, ok := be.X.(*ast.Ident); !ok || id.Name != pid.Name {
		return bad()
	}
	for _, st := range is.Body.List {
		if _, ok := st.(*ast.AssignStmt); !ok {
			return bad()
		}
	}
	body := t.block(rest, e, fc, nil)
	he := e.with(pid.Name, &binding{ty: mk("PanicVal"), term: san(pid.Name)})
	handler := t.block(is.Body.List, he, fc, func(e2 *env) *Node { return t.namedRet(e2, fc) })
	return &Node{K: "catch", Pat: san(pid.Name), Then: body, Else: handler}
}

// for s.HasNext() { … s.Next() … }  /  for _, v := range xs { … }   →  an auxiliary structurally recursive definition
func (t *tr) loop(fs *ast.ForStmt, rs *ast.RangeStmt, rest []ast.Stmt, e *env, fc *fctx, k func(*env) *Node) *Node {
	var lv string
	var body []ast.Stmt
	if fs != nil {
		if fs.Init != nil || fs.Post != nil || fs.Cond == nil {
			return t.failN("for loop shape")
		}
		c, ok := fs.Cond.(*ast.CallExpr)
		if !ok {
			return t.failN("for loop condition")
		}
		s, ok := c.Fun.(*ast.SelectorExpr)
		if !ok || s.Sel.Name != "HasNext" {
			return t.failN("for loop condition")
		}
		id, ok := s.X.(*ast.Ident)
		if !ok {
			return t.failN("for loop condition")
		}
		lv = id.Name
		body = fs.Body.List
		cnt := 0
		inLit := 0
		ast.Inspect(fs.Body, func(n ast.Node) bool {
			if _, ok := n.(*ast.FuncLit); ok {
				inLit++ // a Next() inside a closure is rejected below through the missing `head`
			}
			if c, ok := n.(*ast.CallExpr); ok {
				if s, ok := c.Fun.(*ast.SelectorExpr); ok && s.Sel.Name == "Next" {
					if id, ok := s.X.(*ast.Ident); ok && id.Name == lv {
						cnt++
					}
				}
			}
			return true
		})
		if cnt != 1 {
			return t.failN("loop body must call Next() exactly once")
		}
	} else {
		id, ok := rs.X.(*ast.Ident)
		if !ok || rs.Tok != token.DEFINE {
			return t.failN("range shape")
		}
		if k, ok := rs.Key.(*ast.Ident); !ok || k.Name != "_" {
			return t.failN("range with an index")
		}
		lv = id.Name
		body = rs.Body.List
	}
	lb, ok := e.m[lv]
	if !ok || lb.ty.K != "List" || lb.ref != nil {
		return t.failN("loop over something that is not an iterator / slice parameter")
	}
	// loop-carried variables: assigned (=) in the body, bound outside
	carriedSet := map[string]bool{}
	ast.Inspect(&ast.BlockStmt{List: body}, func(n ast.Node) bool {
		if a, ok := n.(*ast.AssignStmt); ok && a.Tok == token.ASSIGN {
			for _, l := range a.Lhs {
				if id, ok := l.(*ast.Ident); ok {
					if _, bound := e.m[id.Name]; bound {
						carriedSet[id.Name] = true
					}
				}
			}
		}
		return true
	})
	var fixed, carried []string
	for _, n := range e.order {
		b := e.m[n]
		if n == lv {
			continue
		}
		if b.ref != nil {
			return t.failN("loop in a refined context")
		}
		if carriedSet[n] {
			carried = append(carried, n)
		} else if b.term == san(n) {
			fixed = append(fixed, n)
		}
	}
	auxName := t.f.lean + "_loop"
	hd, tl := t.gen(san(lv)+"_hd"), t.gen(san(lv)+"_tl")
	recCall := func(listTerm string, e2 *env) string {
		parts := []string{auxName}
		for _, n := range fixed {
			parts = append(parts, e.m[n].term)
		}
		parts = append(parts, listTerm)
		for _, n := range carried {
			parts = append(parts, t.varTerm(e2.m[n]))
		}
		return strings.Join(parts, " ")
	}
	// body
	eb := e.with(lv, &binding{ty: lb.ty, term: tl, head: hd})
	if rs != nil {
		if v, ok := rs.Value.(*ast.Ident); ok && v.Name != "_" {
			eb = eb.with(v.Name, &binding{ty: lb.ty.A[0], term: hd})
		}
	}
	bodyN := t.block(body, eb, fc, func(e2 *env) *Node { return &Node{K: "rec", Val: recCall(tl, e2)} })
	ea := e.with(lv, &binding{ty: lb.ty, term: "[]"})
	afterN := t.block(rest, ea, fc, k)
	eff := isEff(bodyN) || isEff(afterN)
	var sig strings.Builder
	sig.WriteString("def " + auxName + t.tparamBinder())
	for _, n := range fixed {
		sig.WriteString(" (" + e.m[n].term + " : " + t.leanTy(e.m[n].ty) + ")")
	}
	sig.WriteString(" : " + t.leanTyP(lb.ty))
	pats := []string{}
	for _, n := range carried {
		sig.WriteString(" → " + t.leanTyP(e.m[n].ty))
		pats = append(pats, san(n))
	}
	rt := t.leanTyP(fc.result)
	if eff {
		rt = "GoM " + rt
	}
	sig.WriteString(" → " + rt)
	cp := ""
	if len(pats) > 0 {
		cp = ", " + strings.Join(pats, ", ")
	}
	code := fmt.Sprintf("/-- the loop of `%s` (recursion over the elements the iterator yields) -/\n%s\n  | []%s => %s\n  | %s :: %s%s => %s\n",
		t.f.key, sig.String(), cp, ind(paren(pr(afterN, eff)), 4), hd, tl, cp, ind(paren(pr(bodyN, eff)), 4))
	t.aux = append(t.aux, code)
	kind := "ret"
	if eff {
		kind = "tail"
	}
	return &Node{K: kind, Val: recCall(lb.term, e)}
}

func (t *tr) tparamBinder() string {
	if len(t.f.tparams) == 0 {
		return ""
	}
	if t.f.explicitTps {
		return " (" + strings.Join(t.f.tparams, " ") + " : Type)"
	}
	return " {" + strings.Join(t.f.tparams, " ") + " : Type}"
}

// ------------------------------------------------------------------------------------------------ definitions

func (g *gen) translate(f *fn) {
	if f.state != 0 {
		if f.state == 1 {
			f.state = 3
			f.errs = append(f.errs, "recursive call cycle")
		}
		return
	}
	f.state = 1
	if f.synth {
		g.dispatch(f)
		return
	}
	t := &tr{g: g, f: f, tps: map[string]bool{}}
	for _, p := range f.tparams {
		t.tps[p] = true
	}
	e := &env{m: map[string]*binding{}}
	var binders []string
	for i, p := range f.params {
		if i == 0 && (f.recv == "left" || f.recv == "right") {
			// the receiver struct is its payload
			payload := p.ty.A[0]
			if f.recv == "right" {
				payload = p.ty.A[1]
			}
			v := san(p.name) + "_v"
			binders = append(binders, "("+v+" : "+t.leanTy(payload)+")")
			e = e.with(p.name, &binding{ty: mk("Either", p.ty.A...), term: "«receiver»", ref: &refine{f.recv, v}})
			continue
		}
		if p.name == "_" || p.name == "" {
			binders = append(binders, "(_ : "+t.leanTy(p.ty)+")")
			continue
		}
		binders = append(binders, "("+san(p.name)+" : "+t.leanTy(p.ty)+")")
		e = e.with(p.name, &binding{ty: p.ty, term: san(p.name)})
	}
	t.captured = map[string]bool{}
	t.goIdents = map[string]bool{}
	ast.Inspect(f.decl, func(n ast.Node) bool {
		if id, ok := n.(*ast.Ident); ok {
			t.goIdents[id.Name] = true
		}
		return true
	})
	for i, st := range f.decl.Body.List {
		if _, isDefer := st.(*ast.DeferStmt); isDefer && i == 0 {
			continue
		}
		ast.Inspect(st, func(n ast.Node) bool {
			if fl, ok := n.(*ast.FuncLit); ok {
				ast.Inspect(fl.Body, func(m ast.Node) bool {
					if id, ok := m.(*ast.Ident); ok {
						t.captured[id.Name] = true
					}
					return true
				})
				return false
			}
			return true
		})
	}
	fc := &fctx{result: f.result, named: f.named}
	body := t.block(f.decl.Body.List, e, fc, nil)
	f.eff = isEff(body)
	f.extra = t.extra
	if len(t.errs) > 0 {
		f.state = 3
		f.errs = t.errs
		return
	}
	rt := t.leanTy(f.result)
	if f.eff {
		rt = "GoM " + t.leanTyP(f.result)
	}
	var xb []string
	for _, p := range f.extra {
		xb = append(xb, "("+p.name+" : "+t.leanTy(p.ty)+")")
	}
	sig := "def " + f.lean + t.tparamBinder()
	for _, b := range append(xb, binders...) {
		sig += " " + b
	}
	if len(t.errs) > 0 {
		f.state = 3
		f.errs = t.errs
		return
	}
	code := strings.Join(t.aux, "\n")
	if code != "" {
		code += "\n"
	}
	code += fmt.Sprintf("/-- translation of `%s` (%s) -/\n%s : %s :=\n  %s\n", f.key, f.file, sig, rt, ind(pr(body, f.eff), 2))
	f.code = code
	f.state = 2
	g.out = append(g.out, code)
}

// the interface fp.Either: a method call dispatches on the dynamic type (left / right)
func (g *gen) dispatch(f *fn) {
	l, r := g.table["fp.left_"+f.name], g.table["fp.right_"+f.name]
	if l == nil || r == nil {
		f.state, f.errs = 3, []string{"method " + f.name + " is not defined on both left and right"}
		return
	}
	g.translate(l)
	g.translate(r)
	if l.state != 2 || r.state != 2 {
		f.state, f.errs = 3, []string{"left/right method untranslatable"}
		return
	}
	t := &tr{g: g, f: f, tps: map[string]bool{"L": true, "R": true}}
	f.tparams = []string{"L", "R"}
	f.eff = l.eff || r.eff
	f.params = append([]param{{"e", mk("Either", &Ty{K: "Var", N: "L"}, &Ty{K: "Var", N: "R"})}}, l.params[1:]...)
	f.result = l.result
	sig := "def " + f.lean + " {L R : Type} (e : Either L R)"
	args := ""
	for _, p := range l.params[1:] {
		sig += " (" + san(p.name) + " : " + t.leanTy(p.ty) + ")"
		args += " " + san(p.name)
	}
	rt := t.leanTy(f.result)
	if f.eff {
		rt = "GoM " + t.leanTyP(f.result)
	}
	armOf := func(m *fn, v string) string {
		s := m.lean + " L R " + v + args
		if f.eff && !m.eff {
			return "pure (" + s + ")"
		}
		return s
	}
	code := fmt.Sprintf("/-- `e.%s(…)` on the interface fp.Either: dynamic dispatch on left / right (either.go) -/\n%s : %s :=\n  match e with\n  | .left v => %s\n  | .right v => %s\n",
		f.name, sig, rt, armOf(l, "v"), armOf(r, "v"))
	f.code = code
	f.state = 2
	g.out = append(g.out, code)
}

func sortedKeys(m map[string]*fn) []string {
	var ks []string
	for k := range m {
		ks = append(ks, k)
	}
	sort.Strings(ks)
	return ks
}
