package main

import (
	"go/ast"
	"strings"
)

// Ty: the translator's own (tiny) view of Go types.
//
//	Try(1) Option(1) Either(2) StateT(2) List(1) Ptr(1) Eval(1) Func(params..., result) Tuple(n) Void Err Unit Bool String Int
//	Var(N) Named(N) Any Unknown
type Ty struct {
	K string
	N string
	A []*Ty
}

func mk(k string, a ...*Ty) *Ty { return &Ty{K: k, A: a} }

var tyUnknown = &Ty{K: "Unknown"}

func (t *Ty) res() *Ty { // result of a Func
	if t == nil || t.K != "Func" || len(t.A) == 0 {
		return tyUnknown
	}
	return t.A[len(t.A)-1]
}
func (t *Ty) params() []*Ty {
	if t == nil || t.K != "Func" {
		return nil
	}
	return t.A[:len(t.A)-1]
}

func baseName(e ast.Expr) (pkg, name string) {
	switch x := e.(type) {
	case *ast.Ident:
		return "", x.Name
	case *ast.SelectorExpr:
		if id, ok := x.X.(*ast.Ident); ok {
			return id.Name, x.Sel.Name
		}
	}
	return "", ""
}

// goTy converts a Go type expression; tps = type parameters in scope.
func goTy(e ast.Expr, tps map[string]bool) *Ty {
	switch x := e.(type) {
	case nil:
		return mk("Void")
	case *ast.ParenExpr:
		return goTy(x.X, tps)
	case *ast.Ident:
		if tps[x.Name] {
			return &Ty{K: "Var", N: x.Name}
		}
		switch x.Name {
		case "error":
			return mk("Err")
		case "bool":
			return mk("Bool")
		case "string":
			return mk("String")
		case "int":
			return mk("Int")
		case "any":
			return mk("Any")
		case "Unit":
			return mk("Unit")
		}
		return &Ty{K: "Named", N: x.Name}
	case *ast.SelectorExpr:
		p, n := baseName(x)
		if p == "fp" && n == "Unit" {
			return mk("Unit")
		}
		return &Ty{K: "Named", N: p + "." + n}
	case *ast.IndexExpr:
		return generic(x.X, []ast.Expr{x.Index}, tps)
	case *ast.IndexListExpr:
		return generic(x.X, x.Indices, tps)
	case *ast.StarExpr:
		return mk("Ptr", goTy(x.X, tps))
	case *ast.ArrayType:
		if x.Len == nil {
			return mk("List", goTy(x.Elt, tps))
		}
	case *ast.Ellipsis:
		return mk("List", goTy(x.Elt, tps))
	case *ast.FuncType:
		var a []*Ty
		if x.Params != nil {
			for _, f := range x.Params.List {
				n := len(f.Names)
				if n == 0 {
					n = 1
				}
				for i := 0; i < n; i++ {
					a = append(a, goTy(f.Type, tps))
				}
			}
		}
		a = append(a, resultTy(x.Results, tps))
		return mk("Func", a...)
	}
	return tyUnknown
}

func resultTy(r *ast.FieldList, tps map[string]bool) *Ty {
	if r == nil || len(r.List) == 0 {
		return mk("Void")
	}
	var a []*Ty
	for _, f := range r.List {
		n := len(f.Names)
		if n == 0 {
			n = 1
		}
		for i := 0; i < n; i++ {
			a = append(a, goTy(f.Type, tps))
		}
	}
	if len(a) == 1 {
		return a[0]
	}
	return mk("Tuple", a...)
}

func generic(base ast.Expr, idx []ast.Expr, tps map[string]bool) *Ty {
	p, n := baseName(base)
	var a []*Ty
	for _, i := range idx {
		a = append(a, goTy(i, tps))
	}
	if p == "" || p == "fp" {
		switch {
		case n == "Try" && len(a) == 1:
			return mk("Try", a...)
		case n == "Option" && len(a) == 1:
			return mk("Option", a...)
		case n == "Either" && len(a) == 2:
			return mk("Either", a...)
		case n == "StateT" && len(a) == 2:
			return mk("StateT", a...)
		case (n == "Seq" || n == "Iterator") && len(a) == 1:
			return mk("List", a...)
		case n == "Func1" && len(a) == 2:
			return mk("Func", a...)
		case (n == "left" || n == "right") && len(a) == 2:
			return &Ty{K: "Named", N: n, A: a}
		}
	}
	if p == "lazy" && n == "Eval" && len(a) == 1 {
		return mk("Eval", a...)
	}
	return &Ty{K: "Named", N: strings.TrimPrefix(p+"."+n, "."), A: a}
}

func subst(t *Ty, m map[string]*Ty) *Ty {
	if t == nil {
		return tyUnknown
	}
	if t.K == "Var" {
		if r, ok := m[t.N]; ok && r != nil {
			return r
		}
		return t
	}
	if len(t.A) == 0 {
		return t
	}
	n := &Ty{K: t.K, N: t.N}
	for _, a := range t.A {
		n.A = append(n.A, subst(a, m))
	}
	return n
}

// unify binds the callee's type parameters (vars) occurring in p against the actual type a (best effort).
func unify(p, a *Ty, vars map[string]bool, m map[string]*Ty) {
	if p == nil || a == nil || a.K == "Unknown" {
		return
	}
	if p.K == "Var" && vars[p.N] {
		if _, ok := m[p.N]; !ok {
			m[p.N] = a
		}
		return
	}
	if p.K != a.K || len(p.A) != len(a.A) {
		return
	}
	for i := range p.A {
		unify(p.A[i], a.A[i], vars, m)
	}
}

func (t *tr) leanTy(ty *Ty) string {
	switch ty.K {
	case "Try":
		return "Try " + t.leanTyP(ty.A[0])
	case "Option", "Ptr":
		return "Option " + t.leanTyP(ty.A[0])
	case "Either":
		return "Either " + t.leanTyP(ty.A[0]) + " " + t.leanTyP(ty.A[1])
	case "StateT":
		return "StM.StT " + t.leanTyP(ty.A[0]) + " " + t.leanTyP(ty.A[1])
	case "List":
		return "List " + t.leanTyP(ty.A[0])
	case "Eval":
		return "EvalM.Eval " + t.leanTyP(ty.A[0])
	case "Func":
		var ps []string
		for _, p := range ty.params() {
			ps = append(ps, t.leanTyP(p))
		}
		if len(ps) == 0 {
			ps = []string{"Unit"}
		}
		return strings.Join(ps, " → ") + " → GoM " + t.leanTyP(ty.res())
	case "Tuple":
		var ps []string
		for _, p := range ty.A {
			ps = append(ps, t.leanTyP(p))
		}
		return strings.Join(ps, " × ")
	case "Void", "Unit":
		return "Unit"
	case "Err":
		return "Err"
	case "Bool":
		return "Bool"
	case "String":
		return "String"
	case "Int":
		return "Int"
	case "Var":
		return ty.N
	case "Unknown":
		return "_"
	}
	t.fail("type " + ty.K + " " + ty.N + " is outside the fragment")
	return "«" + ty.K + ty.N + "»"
}

func (t *tr) leanTyP(ty *Ty) string {
	s := t.leanTy(ty)
	if strings.ContainsAny(s, " ") {
		return "(" + s + ")"
	}
	return s
}
