package main

// exceptions: functions deliberately NOT translated (with the reason); mirrored in Spec/C01CoreGen.lean and checked there.
var exceptions = map[string]string{
	"fp.Try_String":           "fmt.Sprintf rendering (not part of C01/C02/C17)",
	"fp.Option_String":        "fmt.Sprintf rendering (not part of C01/C02/C17)",
	"try.PtrpanicError_Error": "internal representation of the recovered panic (Err.panicErr p in the model); fmt.Sprintf",
	"try.PtrpanicError_Stack": "internal representation of the recovered panic (the stack trace is not modelled)",
	"try.PtrpanicError_Panic": "internal representation of the recovered panic (Err.panicErr p exposes p by construction)",
	"option.Of":               "reflection (reflect.ValueOf / Kind): parameter predicates in Model/TryOptExt.lean, tied by cmd/transx",
	"option.NonZero":          "== on a comparable type parameter against fp.Zero: tied by cmd/transx",
	"option.String":           "= NonZero (see there)",
	"option.NonEmptySlice":    "nil-ness of a slice type parameter: tied by cmd/transx",
	"option.Deref":            "defined through the generated option.Map and the method value T.Deref (monad-family tie + cmd/transx)",
	"try.TraverseOption":      "defined through the generated try.Traverse and the method value fp.Iterator.NextOption (monad-family tie + cmd/transx)",
	"try.Traverse_":           "defined through iterator.FoldError (package iterator: C12 machinery)",
}

// otherTies: functions of these files that belong to another tie.
var otherTies = map[string]string{
	"fp.PtrOption_UnmarshalJSON": "C15 (JSON)",
	"fp.Option_MarshalJSON":      "C15 (JSON)",
	"fp.left_MarshalJSON":        "C15 (JSON)",
	"fp.right_MarshalJSON":       "C15 (JSON)",
}

func init() {
	// the arity-1 members of the ApplicativeFunctorN / MonadChainN builder families and of FuncN/PureN/UnitN: C14 (arity harness, Model/Arity.lean)
	for _, p := range []string{"try", "option"} {
		for _, m := range []string{"Map", "HListMap", "HListFlatMap", "FlatMap", "ApOption", "Ap", "ApOptionFunc", "ApFunc"} {
			otherTies[p+".MonadChain1_"+m] = "C14 (arity family MonadChainN)"
		}
		for _, m := range []string{"ApOption", "Ap", "ApOptionFunc", "ApFunc"} {
			otherTies[p+".ApplicativeFunctor1_"+m] = "C14 (arity family ApplicativeFunctorN)"
		}
		otherTies[p+".Chain1"] = "C14 (arity family MonadChainN)"
		otherTies[p+".Applicative1"] = "C14 (arity family ApplicativeFunctorN)"
		otherTies[p+".Pure0"] = "C14 (arity family PureN)"
	}
	for _, m := range []string{"ApTry", "ApTryFunc"} {
		otherTies["try.MonadChain1_"+m] = "C14 (arity family MonadChainN)"
		otherTies["try.ApplicativeFunctor1_"+m] = "C14 (arity family ApplicativeFunctorN)"
	}
	otherTies["try.Func0"] = "C14 (arity family FuncN)"
	otherTies["try.Unit0"] = "C14 (arity family UnitN)"
	otherTies["option.Pure1"] = "C14 (arity family PureN)"
}
