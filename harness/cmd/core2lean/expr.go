package main

import (
	"fmt"
	"go/ast"
	"go/token"
	"strconv"
	"strings"
)

var modelledPkgs = map[string]bool{"fp": true, "try": true, "option": true, "either": true, "statet": true}

func stripInst(e ast.Expr) (ast.Expr, []ast.Expr) {
	switch x := e.(type) {
	case *ast.ParenExpr:
		return stripInst(x.X)
	case *ast.IndexExpr:
		b, _ := stripInst(x.X)
		return b, []ast.Expr{x.Index}
	case *ast.IndexListExpr:
		b, _ := stripInst(x.X)
		return b, x.Indices
	}
	return e, nil
}

// expr translates a Go expression into a PURE Lean term; effectful sub-expressions are bound (in Go's evaluation order) in ps.
func (t *tr) expr(x ast.Expr, e *env, ps *[]pre, want *Ty) (string, *Ty) {
	switch v := x.(type) {
	case *ast.ParenExpr:
		return t.expr(v.X, e, ps, want)
	case *ast.Ident:
		switch v.Name {
		case "true", "false":
			return v.Name, mk("Bool")
		case "nil":
			if want != nil {
				switch want.K {
				case "List":
					return "[]", want
				case "Ptr":
					return "none", want
				case "Err":
					return "Err.nil", want
				}
			}
			return t.fail("nil of an unknown type"), tyUnknown
		}
		if b, ok := e.m[v.Name]; ok {
			return t.varTerm(b), b.ty
		}
		if t.f.pkg == "fp" {
			switch v.Name {
			case "ErrTryNotFailed":
				return "Err.tryNotFailed", mk("Err")
			case "ErrOptionEmpty":
				return "Err.optionEmpty", mk("Err")
			}
		}
		if f := t.g.table[t.f.pkg+"."+v.Name]; f != nil {
			return t.funcValue(f, nil)
		}
		if t.f.pkg == "fp" && v.Name == "Zero" {
			return t.fail("Zero without instantiation"), tyUnknown
		}
		return t.fail("identifier " + v.Name), tyUnknown
	case *ast.BasicLit:
		if v.Kind == token.STRING {
			s, err := strconv.Unquote(v.Value)
			if err == nil && !strings.ContainsAny(s, "\"\\\n") {
				return "\"" + s + "\"", mk("String")
			}
		}
		return t.fail("literal " + v.Value), tyUnknown
	case *ast.UnaryExpr:
		switch v.Op {
		case token.NOT:
			s, _ := t.expr(v.X, e, ps, mk("Bool"))
			return "(!" + s + ")", mk("Bool")
		case token.AND:
			// &r.v under the guard: a pointer to (a copy of) the payload
			if sel, ok := v.X.(*ast.SelectorExpr); ok && sel.Sel.Name == "v" {
				s, ty := t.selector(sel, e, ps)
				return "(some " + s + ")", mk("Ptr", ty)
			}
			if cl, ok := v.X.(*ast.CompositeLit); ok {
				if _, n := baseName(cl.Type); n == "panicError" && len(cl.Elts) == 2 {
					p, pty := t.expr(cl.Elts[0], e, ps, nil)
					if pty.K != "PanicVal" {
						return t.fail("panicError whose cause is not the recovered value"), tyUnknown
					}
					if c, ok := cl.Elts[1].(*ast.CallExpr); !ok || fmt.Sprint(exprStr(c.Fun)) != "debug.Stack" {
						return t.fail("panicError stack"), tyUnknown
					}
					return "(Err.panicErr " + p + ")", mk("Err")
				}
			}
		}
		return t.fail("unary " + v.Op.String()), tyUnknown
	case *ast.StarExpr:
		if id, ok := v.X.(*ast.Ident); ok {
			if b, ok := e.m[id.Name]; ok && b.ty.K == "Ptr" && b.ref != nil && b.ref.ctor == "some" {
				return b.ref.val, b.ty.A[0]
			}
		}
		return t.fail("dereference of a pointer not known to be non-nil"), tyUnknown
	case *ast.BinaryExpr:
		switch v.Op {
		case token.LAND, token.LOR:
			var ps2 []pre
			l, _ := t.expr(v.X, e, ps, mk("Bool"))
			r, _ := t.expr(v.Y, e, &ps2, mk("Bool"))
			if len(ps2) > 0 {
				return t.fail("effect under a short-circuit operator in value position"), tyUnknown
			}
			op := " && "
			if v.Op == token.LOR {
				op = " || "
			}
			return "(" + l + op + r + ")", mk("Bool")
		case token.EQL, token.NEQ:
			other := v.X
			if isNil(v.X) {
				other = v.Y
			} else if !isNil(v.Y) {
				return t.fail("comparison"), tyUnknown
			}
			s, ty := t.expr(other, e, ps, nil)
			if ty.K != "Err" {
				return t.fail("comparison of a " + ty.K + " with nil"), tyUnknown
			}
			if v.Op == token.EQL {
				return "(decide (" + s + " = Err.nil))", mk("Bool")
			}
			return "(decide (" + s + " ≠ Err.nil))", mk("Bool")
		}
		return t.fail("operator " + v.Op.String()), tyUnknown
	case *ast.SelectorExpr:
		return t.selector(v, e, ps)
	case *ast.FuncLit:
		return t.funcLit(v, e)
	case *ast.CompositeLit:
		return t.composite(v, e, ps)
	case *ast.IndexExpr, *ast.IndexListExpr:
		base, inst := stripInst(x)
		if p, n := baseName(base); n != "" {
			if p == "" {
				p = t.f.pkg
			}
			if p == "fp" && n == "Zero" && len(inst) == 1 {
				ty := goTy(inst[0], t.tps)
				return "(fun _ => pure " + t.zeroOf(ty) + ")", mk("Func", ty)
			}
			if f := t.g.table[p+"."+n]; f != nil {
				return t.funcValue(f, inst)
			}
		}
		return t.fail("instantiated function value " + exprStr(x)), tyUnknown
	case *ast.CallExpr:
		term, ty, eff := t.callExpr(v, e, ps)
		if eff {
			n := t.freshName("x")
			*ps = append(*ps, pre{n, term, true})
			return n, ty
		}
		return term, ty
	}
	return t.fail(fmt.Sprintf("expression %T", x)), tyUnknown
}

func exprStr(e ast.Expr) string {
	switch x := e.(type) {
	case *ast.Ident:
		return x.Name
	case *ast.SelectorExpr:
		return exprStr(x.X) + "." + x.Sel.Name
	case *ast.IndexExpr:
		return exprStr(x.X) + "[…]"
	case *ast.IndexListExpr:
		return exprStr(x.X) + "[…]"
	case *ast.CallExpr:
		return exprStr(x.Fun) + "(…)"
	}
	return fmt.Sprintf("%T", e)
}

func (t *tr) selector(v *ast.SelectorExpr, e *env, ps *[]pre) (string, *Ty) {
	if id, ok := v.X.(*ast.Ident); ok {
		if b, ok := e.m[id.Name]; ok {
			// field of the receiver
			switch b.ty.K {
			case "Try":
				switch v.Sel.Name {
				case "success":
					if b.ref != nil {
						return strconv.FormatBool(b.ref.ctor == "success"), mk("Bool")
					}
					return "(Try.isSuccess " + b.term + ")", mk("Bool")
				case "v":
					if b.ref != nil && b.ref.ctor == "success" {
						return b.ref.val, b.ty.A[0]
					}
				case "err":
					if b.ref != nil && b.ref.ctor == "failure" {
						return b.ref.val, mk("Err")
					}
					if b.ref != nil && b.ref.ctor == "success" {
						return "Err.nil", mk("Err")
					}
				}
			case "Option":
				switch v.Sel.Name {
				case "present":
					if b.ref != nil {
						return strconv.FormatBool(b.ref.ctor == "some"), mk("Bool")
					}
					return "(Option.isSome " + b.term + ")", mk("Bool")
				case "v":
					if b.ref != nil && b.ref.ctor == "some" {
						return b.ref.val, b.ty.A[0]
					}
				}
			case "Either":
				if v.Sel.Name == "v" && b.ref != nil {
					if b.ref.ctor == "left" {
						return b.ref.val, b.ty.A[0]
					}
					return b.ref.val, b.ty.A[1]
				}
			}
			return t.fail("field ." + v.Sel.Name + " of " + id.Name + " (not known to hold it here)"), tyUnknown
		}
		// package-level things of other packages
		switch id.Name + "." + v.Sel.Name {
		case "fp.ErrOptionEmpty":
			return "Err.optionEmpty", mk("Err")
		case "fp.ErrTryNotFailed":
			return "Err.tryNotFailed", mk("Err")
		case "unit.Success":
			return "(Try.success () : Try Unit)", mk("Try", mk("Unit"))
		}
		if modelledPkgs[id.Name] {
			if f := t.g.table[id.Name+"."+v.Sel.Name]; f != nil {
				return t.funcValue(f, nil)
			}
		}
	}
	return t.fail("selector " + exprStr(v)), tyUnknown
}

func (t *tr) composite(v *ast.CompositeLit, e *env, ps *[]pre) (string, *Ty) {
	ty := goTy(v.Type, t.tps)
	lit := func(x ast.Expr, name string) bool { id, ok := x.(*ast.Ident); return ok && id.Name == name }
	switch ty.K {
	case "Try":
		if len(v.Elts) == 3 && lit(v.Elts[0], "true") && isNil(v.Elts[2]) {
			s, _ := t.expr(v.Elts[1], e, ps, ty.A[0])
			return "(Try.success " + s + " : " + t.leanTy(ty) + ")", ty
		}
		if len(v.Elts) == 3 && lit(v.Elts[0], "false") {
			if id, ok := v.Elts[1].(*ast.Ident); !ok || e.m[id.Name] == nil || !e.m[id.Name].zero {
				return t.fail("Try literal {false, v, err} with v not the zero value"), tyUnknown
			}
			s, _ := t.expr(v.Elts[2], e, ps, mk("Err"))
			return "(Try.failure " + s + " : " + t.leanTy(ty) + ")", ty
		}
	case "Option":
		if len(v.Elts) == 2 && lit(v.Elts[0], "true") {
			s, _ := t.expr(v.Elts[1], e, ps, ty.A[0])
			return "(some " + s + " : " + t.leanTy(ty) + ")", ty
		}
		if len(v.Elts) == 0 {
			return "(none : " + t.leanTy(ty) + ")", ty
		}
	case "List":
		var es []string
		for _, el := range v.Elts {
			s, _ := t.expr(el, e, ps, ty.A[0])
			es = append(es, s)
		}
		return "[" + strings.Join(es, ", ") + "]", ty
	case "Unit":
		if len(v.Elts) == 0 {
			return "()", ty
		}
	case "Named":
		if (ty.N == "left" || ty.N == "right") && len(v.Elts) == 1 && len(ty.A) == 2 {
			et := mk("Either", ty.A...)
			i := 0
			if ty.N == "right" {
				i = 1
			}
			s, _ := t.expr(v.Elts[0], e, ps, ty.A[i])
			return "(Either." + ty.N + " " + s + " : " + t.leanTy(et) + ")", et
		}
	}
	return t.fail("composite literal " + exprStr(v.Type)), tyUnknown
}

func (t *tr) funcLit(v *ast.FuncLit, e *env) (string, *Ty) {
	ty := goTy(v.Type, t.tps)
	e2 := e
	var names []string
	for _, f := range v.Type.Params.List {
		pt := goTy(f.Type, t.tps)
		if len(f.Names) == 0 {
			names = append(names, "_")
		}
		for _, n := range f.Names {
			if n.Name == "_" {
				names = append(names, "_")
				continue
			}
			names = append(names, san(n.Name))
			e2 = e2.with(n.Name, &binding{ty: pt, term: san(n.Name)})
		}
	}
	if len(names) == 0 {
		names = []string{"_"}
	}
	var named []string
	if v.Type.Results != nil {
		for _, f := range v.Type.Results.List {
			for _, n := range f.Names {
				named = append(named, n.Name)
			}
		}
	}
	if len(named) > 0 {
		return t.fail("closure with named results"), tyUnknown
	}
	body := t.block(v.Body.List, e2, &fctx{result: ty.res()}, nil)
	return "(fun " + strings.Join(names, " ") + " => " + ind(paren(pr(body, true)), 2) + ")", ty
}

// funcValue: a package-level function used as a value (eta-expanded into the callback shape A → GoM B)
func (t *tr) funcValue(f *fn, inst []ast.Expr) (string, *Ty) {
	t.g.translate(f)
	if f.state != 2 {
		return t.fail("function value " + f.key + " (untranslatable)"), tyUnknown
	}
	if len(f.extra) > 0 {
		return t.fail("function value " + f.key + " needs a zero value"), tyUnknown
	}
	m := map[string]*Ty{}
	for i, tp := range f.tparams {
		if i < len(inst) {
			m[tp] = goTy(inst[i], t.tps)
		} else {
			m[tp] = tyUnknown
		}
	}
	var names []string
	var pts []*Ty
	for i, p := range f.params {
		names = append(names, t.gen("a"+strconv.Itoa(i+1)))
		pts = append(pts, subst(p.ty, m))
	}
	call := f.lean + " " + strings.Join(names, " ")
	if len(names) == 0 {
		names = []string{"_"}
		call = f.lean
	}
	if !f.eff {
		call = "pure (" + call + ")"
	}
	return "(fun " + strings.Join(names, " ") + " => " + call + ")", mk("Func", append(pts, subst(f.result, m))...)
}

// ------------------------------------------------------------------------------------------------ calls

func (t *tr) args(as []ast.Expr, pts []*Ty, e *env, ps *[]pre) ([]string, []*Ty) {
	var out []string
	var tys []*Ty
	// f(g()) with g returning several values
	if len(as) == 1 && len(pts) > 1 {
		if c, ok := as[0].(*ast.CallExpr); ok {
			term, ty, eff := t.callExpr(c, e, ps)
			if ty.K == "Tuple" && len(ty.A) == len(pts) {
				var ns []string
				for range pts {
					ns = append(ns, t.freshName("x"))
				}
				*ps = append(*ps, pre{"(" + strings.Join(ns, ", ") + ")", term, eff})
				return ns, ty.A
			}
			t.fail("argument spread of a non-tuple")
			return nil, nil
		}
	}
	for i, a := range as {
		var want *Ty
		if i < len(pts) {
			want = pts[i]
		}
		s, ty := t.expr(a, e, ps, want)
		out = append(out, s)
		tys = append(tys, ty)
	}
	return out, tys
}

func app(f string, as []string) string {
	if len(as) == 0 {
		return "(" + f + " ())"
	}
	return "(" + f + " " + strings.Join(as, " ") + ")"
}

func (t *tr) applyValue(term string, ty *Ty, as []ast.Expr, e *env, ps *[]pre) (string, *Ty, bool) {
	switch ty.K {
	case "Func":
		if len(as) != len(ty.params()) && !(len(as) == 1 && len(ty.params()) > 1) {
			return t.fail("call arity"), tyUnknown, true
		}
		a, _ := t.args(as, ty.params(), e, ps)
		return app(term, a), ty.res(), true
	case "StateT":
		if len(as) != 1 {
			return t.fail("StateT call arity"), tyUnknown, true
		}
		a, _ := t.args(as, []*Ty{ty.A[0]}, e, ps)
		return app(term, a), mk("Tuple", mk("Try", ty.A[1]), ty.A[0]), true
	}
	return t.fail("call of a value of type " + ty.K), tyUnknown, true
}

func (t *tr) callExpr(c *ast.CallExpr, e *env, ps *[]pre) (string, *Ty, bool) {
	fun, inst := stripInst(c.Fun)
	switch f := fun.(type) {
	case *ast.Ident:
		if b, ok := e.m[f.Name]; ok {
			return t.applyValue(t.varTerm(b), b.ty, c.Args, e, ps)
		}
		if t.f.pkg == "fp" && f.Name == "Error" && len(c.Args) == 2 {
			if l, ok := c.Args[1].(*ast.BasicLit); ok && l.Value == `"Try not initialized correctly"` && exprStr(c.Args[0]) == "http.StatusNotAcceptable" {
				return "Err.notInit", mk("Err"), false
			}
			return t.fail("fp.Error(…) other than the `Try not initialized correctly` error"), tyUnknown, false
		}
		if t.f.pkg == "fp" && f.Name == "Zero" && len(inst) == 1 && len(c.Args) == 0 {
			ty := goTy(inst[0], t.tps)
			return t.zeroOf(ty), ty, false
		}
		if g := t.g.table[t.f.pkg+"."+f.Name]; g != nil {
			return t.callFn(g, nil, c.Args, inst, e, ps)
		}
		return t.fail("call of " + f.Name), tyUnknown, false
	case *ast.SelectorExpr:
		if id, ok := f.X.(*ast.Ident); ok && e.m[id.Name] == nil {
			// pkg.Func(…)
			if modelledPkgs[id.Name] {
				if g := t.g.table[id.Name+"."+f.Sel.Name]; g != nil {
					return t.callFn(g, nil, c.Args, inst, e, ps)
				}
			}
			return t.extern(id.Name, f.Sel.Name, c.Args, inst, e, ps)
		}
		return t.method(f, c.Args, e, ps)
	case *ast.CallExpr:
		term, ty := t.expr(f, e, ps, nil)
		return t.applyValue(term, ty, c.Args, e, ps)
	}
	return t.fail("call of " + exprStr(c.Fun)), tyUnknown, false
}

func (t *tr) method(f *ast.SelectorExpr, as []ast.Expr, e *env, ps *[]pre) (string, *Ty, bool) {
	name := f.Sel.Name
	// t.Failed().Get()
	if name == "Get" && len(as) == 0 {
		if ic, ok := f.X.(*ast.CallExpr); ok {
			if is, ok := ic.Fun.(*ast.SelectorExpr); ok && is.Sel.Name == "Failed" && len(ic.Args) == 0 {
				recv, rty := t.expr(is.X, e, ps, nil)
				if rty.K == "Try" {
					return "(Try.failedGet " + recv + ")", mk("Err"), true
				}
			}
		}
	}
	if id, ok := f.X.(*ast.Ident); ok {
		if b, ok := e.m[id.Name]; ok {
			// the loop variable
			if b.ty.K == "List" && name == "Next" && len(as) == 0 {
				if b.head == "" {
					return t.fail("Next() outside the translated loop shape"), tyUnknown, false
				}
				return b.head, b.ty.A[0], false
			}
			// accessors whose outcome the enclosing guard has fixed
			if b.ref != nil && len(as) == 0 {
				switch {
				case name == "Get" && (b.ref.ctor == "success" || b.ref.ctor == "some"):
					return b.ref.val, b.ty.A[0], false
				case name == "Get" && b.ref.ctor == "right":
					return b.ref.val, b.ty.A[1], false
				case name == "Left" && b.ref.ctor == "left":
					return b.ref.val, b.ty.A[0], false
				}
			}
		}
	}
	recv, rty := t.expr(f.X, e, ps, nil)
	var key string
	switch rty.K {
	case "Try", "Option", "StateT", "Either":
		key = "fp." + rty.K + "_" + name
	default:
		return t.fail("method ." + name + " on a " + rty.K), tyUnknown, false
	}
	g := t.g.table[key]
	if g == nil {
		return t.fail("method " + key + " not found"), tyUnknown, false
	}
	return t.callFn(g, &struct {
		term string
		ty   *Ty
	}{recv, rty}, as, nil, e, ps)
}

func (t *tr) callFn(g *fn, recv *struct {
	term string
	ty   *Ty
}, as []ast.Expr, inst []ast.Expr, e *env, ps *[]pre) (string, *Ty, bool) {
	t.g.translate(g)
	if g.state != 2 {
		return t.fail("callee " + g.key + " is untranslatable"), tyUnknown, false
	}
	vars := map[string]bool{}
	m := map[string]*Ty{}
	for i, tp := range g.tparams {
		vars[tp] = true
		if i < len(inst) && recv == nil {
			m[tp] = goTy(inst[i], t.tps)
		}
	}
	params := g.params
	var terms []string
	if recv != nil {
		unify(params[0].ty, recv.ty, vars, m)
		terms = append(terms, recv.term)
		params = params[1:]
	}
	var pts []*Ty
	for _, p := range params {
		pts = append(pts, subst(p.ty, m))
	}
	if len(as) != len(pts) && !(len(as) == 1 && len(pts) > 1) {
		return t.fail("call arity of " + g.key), tyUnknown, false
	}
	a, atys := t.args(as, pts, e, ps)
	for i := range atys {
		if i < len(params) {
			unify(params[i].ty, atys[i], vars, m)
		}
	}
	terms = append(terms, a...)
	var xs []string
	for _, x := range g.extra {
		xs = append(xs, t.zeroOf(subst(x.ty, m)))
	}
	terms = append(xs, terms...)
	rty := subst(g.result, m)
	head := g.lean
	if g.explicitTps {
		return t.fail("direct call of a left/right method"), tyUnknown, false
	}
	var term string
	if len(terms) == 0 {
		term = head
	} else {
		term = head + " " + strings.Join(terms, " ")
	}
	// ascribe when the result type is fully known (type parameters that occur only in the result)
	if full(rty) {
		lt := t.leanTy(rty)
		if g.eff {
			lt = "GoM " + t.leanTyP(rty)
		}
		term = "(" + term + " : " + lt + ")"
	} else {
		term = "(" + term + ")"
	}
	return term, rty, g.eff
}

func full(t *Ty) bool {
	if t.K == "Unknown" || t.K == "Any" || t.K == "Named" {
		return false
	}
	for _, a := range t.A {
		if !full(a) {
			return false
		}
	}
	return true
}

// functions of packages outside the eight files: a small table of known meanings
func (t *tr) extern(pkg, name string, as []ast.Expr, inst []ast.Expr, e *env, ps *[]pre) (string, *Ty, bool) {
	switch pkg + "." + name {
	case "fp.Compose", "fp.Compose2":
		// func(a) { return f2(f1(a)) }
		if len(as) == 2 {
			f1, t1 := t.expr(as[0], e, ps, nil)
			f2, t2 := t.expr(as[1], e, ps, nil)
			if t1.K == "Func" && t2.K == "Func" && len(t1.params()) == 1 {
				a, b := t.freshName("c"), t.freshName("c")
				return "(fun " + a + " => do\n    let " + b + " ← " + ind(f1, 4) + " " + a + "\n    " + ind(f2, 4) + " " + b + ")", mk("Func", t1.params()[0], t2.res()), false
			}
		}
	case "fp.Const":
		// func(b) { return a }
		if len(as) == 1 {
			a, ty := t.expr(as[0], e, ps, nil)
			var bt *Ty = tyUnknown
			if len(inst) >= 1 {
				bt = goTy(inst[0], t.tps)
			}
			return "(fun _ => pure " + ind(a, 4) + ")", mk("Func", bt, ty), false
		}
	case "lazy.Done":
		if len(as) == 1 {
			a, ty := t.expr(as[0], e, ps, nil)
			return "(EvalM.done " + a + ")", mk("Eval", ty), false
		}
	case "fp.IteratorOfSeq":
		if len(as) == 1 {
			return t.expr2(as[0], e, ps)
		}
	case "fn1.Merge":
		// func(a) (B, C) { return f1(a), f2(a) }
		if len(as) == 2 {
			f1, t1 := t.expr(as[0], e, ps, nil)
			f2, t2 := t.expr(as[1], e, ps, nil)
			if t1.K == "Func" && t2.K == "Func" && len(t1.params()) == 1 {
				a, b, c := t.freshName("c"), t.freshName("c"), t.freshName("c")
				return "(fun " + a + " => do\n    let " + b + " ← " + ind(f1, 4) + " " + a + "\n    let " + c + " ← " + ind(f2, 4) + " " + a + "\n    pure (" + b + ", " + c + "))", mk("Func", t1.params()[0], mk("Tuple", t1.res(), t2.res())), false
			}
		}
	case "try.Ap":
		// generated (try_monad.go, the monad-family tie): Ap(tfab, ta)
		if len(as) == 2 {
			f, ft := t.expr(as[0], e, ps, nil)
			a, _ := t.expr(as[1], e, ps, nil)
			if ft.K == "Try" && ft.A[0].K == "Func" {
				return "(MonadFamily.ap TryM.ops (pure " + f + ") (pure " + a + "))", mk("Try", ft.A[0].res()), true
			}
		}
	case "try.LiftM2":
		// generated: LiftM2(fab) = func(a, b) { return Flatten(Map2(a, b, fab)) }
		if len(as) == 1 {
			f, ft := t.expr(as[0], e, ps, nil)
			if ft.K == "Func" && len(ft.params()) == 2 {
				a, b := t.freshName("c"), t.freshName("c")
				return "(fun " + a + " " + b + " => MonadFamily.liftM2 TryM.ops " + f + " (pure " + a + ") (pure " + b + "))", mk("Func", mk("Try", ft.params()[0]), mk("Try", ft.params()[1]), ft.res()), false
			}
		}
	case "try.Map2":
		if len(as) == 3 {
			a, _ := t.expr(as[0], e, ps, nil)
			b, _ := t.expr(as[1], e, ps, nil)
			f, ft := t.expr(as[2], e, ps, nil)
			if ft.K == "Func" {
				return "(MonadFamily.map2 TryM.ops (pure " + a + ") (pure " + b + ") " + f + ")", mk("Try", ft.res()), true
			}
		}
	}
	return t.fail("call of " + pkg + "." + name + " (a function outside the translated files)"), tyUnknown, false
}

func (t *tr) expr2(x ast.Expr, e *env, ps *[]pre) (string, *Ty, bool) {
	s, ty := t.expr(x, e, ps, nil)
	return s, ty, false
}
