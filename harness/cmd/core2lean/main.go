// core2lean: a small Go -> Lean 4 translator for the HAND-WRITTEN cores of fp.Try / fp.Option / fp.Either / fp.StateT
//
//	try.go option.go either.go state.go  try/try_op.go option/option_op.go either/either_op.go statet/statet_op.go
//
// Tie A of DESIGN.md for properties C01 / C02 / C17: on every run the function bodies found in the working tree are translated,
// function by function, into Lean definitions over the effect monad GoM of FpVerif/Base.lean (FpVerif/Gen/CoreGen.lean, never under
// version control); the committed theorems of FpVerif/Spec/C01CoreGen.lean state that each translated definition IS the hand-written
// model (Model/TryOpt.lean, TryOptExt.lean, StateT.lean, StateTExt.lean) the properties are proved about.
//
// The fragment (see REPORT.md): `if c { … }` / `if … else …` chains with early returns (the statements after an `if` are the
// continuation of both branches), `return e…`, `:=` / `=` of locals, `r.v = e` / `r.err = e` on the receiver copy, `var zero T`,
// closures, calls of user callbacks (`A → GoM B`, bound in Go's evaluation order), calls of the other translated functions,
// guards `IsSuccess/IsFailure/IsDefined/IsEmpty/IsLeft/IsRight` on a variable (a `match`; `Get()`, `Left()`, `.v`, `.err` under the
// guard are the matched payload, elsewhere they are calls of the translated, panicking, methods), `x == nil` on pointers and errors,
// `t.Failed().Get()` (= `Try.failedGet`), `panic(e)`, the `defer func() { if p := recover(); p != nil { ret = … } }()` shape
// (= `tryCatch`), `for it.HasNext() { … it.Next() … }` and `for _, v := range xs` (an auxiliary structurally recursive definition
// over the elements), struct literals of Try / Option / left / right / Seq / panicError, a few named externs (fp.Compose, fp.Const, …).
// Anything else is reported as untranslatable (the definition is missing and its theorem fails to build) unless the function is on the
// explicit exception list below (mirrored, and checked, in the Spec file).
//
// usage: core2lean <repo> <out.lean>      last stdout line: JSON summary
package main

import (
	"encoding/json"
	"fmt"
	"go/ast"
	"go/parser"
	"go/token"
	"os"
	"path/filepath"
	"sort"
	"strings"
)

var files = []struct{ file, pkg string }{
	{"try.go", "fp"}, {"option.go", "fp"}, {"either.go", "fp"}, {"state.go", "fp"},
	{"try/try_op.go", "try"}, {"option/option_op.go", "option"}, {"either/either_op.go", "either"}, {"statet/statet_op.go", "statet"},
}

type result struct {
	Translated     int                 `json:"translated"`
	Untranslatable map[string][]string `json:"untranslatable"`
	Exceptions     map[string]string   `json:"exceptions"`
	OtherTies      map[string]string   `json:"other_ties"`
	Effectful      int                 `json:"effectful"`
}

func recvInfo(fd *ast.FuncDecl) (name string, tps []string, ty ast.Expr) {
	if fd.Recv == nil || len(fd.Recv.List) != 1 {
		return "", nil, nil
	}
	ty = fd.Recv.List[0].Type
	if s, ok := ty.(*ast.StarExpr); ok {
		ty = s.X
		defer func() { name = "*" + name }()
	}
	base, inst := stripInst(ty)
	if id, ok := base.(*ast.Ident); ok {
		name = id.Name
	}
	for _, i := range inst {
		if id, ok := i.(*ast.Ident); ok {
			tps = append(tps, id.Name)
		}
	}
	return
}

func main() {
	repo, out := os.Args[1], os.Args[2]
	g := &gen{table: map[string]*fn{}}
	res := result{Untranslatable: map[string][]string{}, Exceptions: map[string]string{}, OtherTies: map[string]string{}}
	fset := token.NewFileSet()
	for _, fl := range files {
		af, err := parser.ParseFile(fset, filepath.Join(repo, fl.file), nil, 0)
		if err != nil {
			res.Untranslatable[fl.file] = []string{"parse: " + err.Error()}
			continue
		}
		for _, d := range af.Decls {
			fd, ok := d.(*ast.FuncDecl)
			if !ok || fd.Body == nil || !ast.IsExported(fd.Name.Name) {
				continue
			}
			f := &fn{pkg: fl.pkg, file: fl.file, name: fd.Name.Name, decl: fd, line: fset.Position(fd.Pos()).Line}
			rn, rtps, _ := recvInfo(fd)
			f.recv = rn
			f.tparams = append(f.tparams, rtps...)
			if fd.Type.TypeParams != nil {
				for _, fld := range fd.Type.TypeParams.List {
					for _, n := range fld.Names {
						f.tparams = append(f.tparams, n.Name)
					}
				}
			}
			tps := map[string]bool{}
			for _, p := range f.tparams {
				tps[p] = true
			}
			if fd.Recv != nil {
				rname := "r"
				if len(fd.Recv.List[0].Names) == 1 {
					rname = fd.Recv.List[0].Names[0].Name
				}
				f.params = append(f.params, param{rname, goTy(fd.Recv.List[0].Type, tps)})
			}
			for _, fld := range fd.Type.Params.List {
				pt := goTy(fld.Type, tps)
				if len(fld.Names) == 0 {
					f.params = append(f.params, param{"_", pt})
				}
				for _, n := range fld.Names {
					f.params = append(f.params, param{n.Name, pt})
				}
			}
			f.result = resultTy(fd.Type.Results, tps)
			if fd.Type.Results != nil {
				for _, fld := range fd.Type.Results.List {
					for _, n := range fld.Names {
						f.named = append(f.named, n.Name)
					}
				}
			}
			local := f.name
			if f.recv != "" {
				local = strings.TrimPrefix(f.recv, "*") + "_" + f.name
				if strings.HasPrefix(f.recv, "*") {
					local = "Ptr" + local
				}
			}
			f.key = f.pkg + "." + local
			f.lean = pkgNs(f.pkg) + "." + local
			f.explicitTps = f.recv == "left" || f.recv == "right"
			if _, dup := g.table[f.key]; dup {
				res.Untranslatable[f.key] = []string{"duplicate name"}
				continue
			}
			g.table[f.key] = f
			g.keys = append(g.keys, f.key)
		}
	}
	// the interface fp.Either: one dispatch function per method that both left and right define
	for _, k := range append([]string{}, g.keys...) {
		f := g.table[k]
		if f.recv == "left" {
			if _, ok := exceptions[k]; ok {
				continue
			}
			if _, ok := otherTies[k]; ok {
				continue
			}
			if g.table["fp.right_"+f.name] != nil {
				d := &fn{pkg: "fp", file: "either.go", name: f.name, recv: "Either", key: "fp.Either_" + f.name, lean: "fp.Either_" + f.name, synth: true, line: f.line}
				g.table[d.key] = d
				g.keys = append(g.keys, d.key)
			}
		}
	}
	var translated, effectful []string
	for _, k := range g.keys {
		f := g.table[k]
		if why, ok := exceptions[k]; ok {
			res.Exceptions[k] = why
			continue
		}
		if why, ok := otherTies[k]; ok {
			res.OtherTies[k] = why
			continue
		}
		g.translate(f)
		if f.state == 2 {
			translated = append(translated, k)
			if f.eff {
				effectful = append(effectful, k)
			}
		} else {
			res.Untranslatable[k] = f.errs
		}
	}
	for k := range exceptions {
		if g.table[k] == nil {
			res.Untranslatable[k] = []string{"listed as an exception but not found in the source"}
		}
	}
	for k := range otherTies {
		if g.table[k] == nil {
			res.Untranslatable[k] = []string{"listed under another tie but not found in the source"}
		}
	}
	res.Translated = len(translated)
	res.Effectful = len(effectful)

	var b strings.Builder
	b.WriteString("-- GENERATED by harness/cmd/core2lean from the repository's source (try.go option.go either.go state.go try/try_op.go\n-- option/option_op.go either/either_op.go statet/statet_op.go); do not edit.\n")
	b.WriteString("import FpVerif.Model.TryOptExt\nimport FpVerif.Model.StateTExt\nset_option linter.unusedVariables false\nnamespace FpVerif.Gen.CoreGen\nopen FpVerif\n\n")
	for _, c := range g.out {
		b.WriteString(c)
		b.WriteString("\n")
	}
	var bad []string
	for k := range res.Untranslatable {
		bad = append(bad, k)
	}
	sort.Strings(bad)
	for _, k := range bad {
		fmt.Fprintf(&b, "-- %s: UNTRANSLATABLE: %s\n", k, strings.Join(res.Untranslatable[k], "; "))
	}
	list := func(name, doc string, ks []string) {
		sort.Strings(ks)
		var qs []string
		for _, k := range ks {
			qs = append(qs, "\""+k+"\"")
		}
		fmt.Fprintf(&b, "\n/-- %s -/\ndef %s : List String := [%s]\n", doc, name, strings.Join(qs, ", "))
	}
	list("translated", "the functions translated above", translated)
	list("effectful", "the translated functions whose translation lives in GoM (they call user code or can panic)", effectful)
	list("untranslatable", "functions outside the fragment that are on no list (a failing obligation)", bad)
	var ex, ot []string
	for k := range res.Exceptions {
		ex = append(ex, k)
	}
	for k := range res.OtherTies {
		ot = append(ot, k)
	}
	list("exceptions", "the translator's explicit exception list", ex)
	list("otherTies", "functions that belong to another tie", ot)
	// found = translated ++ exceptions ++ otherTies ++ untranslatable (each part sorted): a partition of what the files contain
	var qs []string
	for _, part := range [][]string{translated, ex, ot, bad} {
		for _, k := range part {
			qs = append(qs, "\""+k+"\"")
		}
	}
	fmt.Fprintf(&b, "\n/-- every exported function / method with a body found in the eight files (plus the dispatch functions of the interface\n    fp.Either), in the order translated ++ exceptions ++ otherTies ++ untranslatable -/\ndef found : List String := [%s]\n", strings.Join(qs, ", "))
	if len(qs) != len(g.keys) {
		panic("found is not a partition")
	}
	b.WriteString("\nend FpVerif.Gen.CoreGen\n")
	if err := os.MkdirAll(filepath.Dir(out), 0o755); err != nil {
		panic(err)
	}
	if err := os.WriteFile(out, []byte(b.String()), 0o644); err != nil {
		panic(err)
	}
	js, _ := json.Marshal(res)
	fmt.Println(string(js))
}
