package main

// Enumeration: every exported function, method and package-level instance variable of the library
// (minus the excluded packages) whose signature mentions caller-visible memory.

import (
	"go/ast"
	"go/types"
	"sort"
	"strings"
)

// packages that are not part of the value-level library surface the frame property speaks about
var excludedPkgs = []struct{ prefix, reason string }{
	{modPath + "/mutable", "explicitly-mutable-package"},
	{modPath + "/cmd", "command"},
	{modPath + "/internal", "internal-not-importable"},
	{modPath + "/test", "test-package"},
	{modPath + "/docs", "docs"},
	{modPath + "/genfp", "codegen-tooling(go/ast,go/types)"},
	{modPath + "/metafp", "codegen-tooling(go/ast,go/types)"},
}

func excluded(path string) (string, bool) {
	for _, e := range excludedPkgs {
		if path == e.prefix || strings.HasPrefix(path, e.prefix+"/") {
			return e.reason, true
		}
	}
	return "", false
}

type entry struct {
	pkg      *types.Package
	kind     string       // func | method | ifacemethod | var
	recv     *types.Named // generic (uninstantiated) receiver type for methods
	ptrRecv  bool
	obj      types.Object // *types.Func or *types.Var
	sig      *types.Signature
	id       string // pkg.Name or pkg.Recv.Name
	mentions string // why it was enumerated (first memory-mentioning position)
}

// mentionsMem reports whether a value of type t can carry caller-visible mutable memory in its STRUCTURE
// (slice, map, pointer, channel — directly, in struct fields, in function parameter/result types, in the
// method signatures of interface types, or in the type arguments of generic types).
func mentionsMem(t types.Type, depth int, seen map[types.Type]bool) string {
	if depth > 6 || t == nil {
		return ""
	}
	if seen[t] {
		return ""
	}
	seen[t] = true
	defer delete(seen, t)
	switch x := t.(type) {
	case *types.Slice:
		return "slice"
	case *types.Map:
		return "map"
	case *types.Pointer:
		return "pointer"
	case *types.Chan:
		return "chan"
	case *types.Array:
		return mentionsMem(x.Elem(), depth+1, seen)
	case *types.Basic, *types.TypeParam:
		return ""
	case *types.Tuple:
		for i := 0; i < x.Len(); i++ {
			if m := mentionsMem(x.At(i).Type(), depth+1, seen); m != "" {
				return m
			}
		}
	case *types.Signature:
		if m := mentionsMem(x.Params(), depth+1, seen); m != "" {
			return "func-over-" + strings.TrimPrefix(m, "func-over-")
		}
		if m := mentionsMem(x.Results(), depth+1, seen); m != "" {
			return "func-over-" + strings.TrimPrefix(m, "func-over-")
		}
	case *types.Struct:
		for i := 0; i < x.NumFields(); i++ {
			if m := mentionsMem(x.Field(i).Type(), depth+1, seen); m != "" {
				return m
			}
		}
	case *types.Interface:
		for i := 0; i < x.NumMethods(); i++ {
			if m := mentionsMem(x.Method(i).Type(), depth+1, seen); m != "" {
				return "instance-over-" + strings.TrimPrefix(strings.TrimPrefix(m, "func-over-"), "instance-over-")
			}
		}
	case *types.Alias:
		return mentionsMem(types.Unalias(x), depth, seen)
	case *types.Named:
		if o := x.Obj(); o.Pkg() != nil {
			switch o.Pkg().Path() + "." + o.Name() {
			case "time.Time", "time.Duration", "reflect.Type", "reflect.Value", "sync.Once", "sync.Mutex":
				return ""
			case modPath + ".Iterator", modPath + ".List", modPath + ".ListAdaptor", modPath + ".Map", modPath + ".Set",
				modPath + ".MapBase", modPath + ".SetMinimal", modPath + ".Iterable", modPath + ".UnsafeGoMap", modPath + ".UnsafeGoSet":
				// the library's collections carry storage whatever their representation
				return "collection"
			}
		}
		if ta := x.TypeArgs(); ta != nil {
			for i := 0; i < ta.Len(); i++ {
				if m := mentionsMem(ta.At(i), depth+1, seen); m != "" {
					return m
				}
			}
		}
		return mentionsMem(x.Underlying(), depth+1, seen)
	}
	return ""
}

func sigMentions(recv types.Type, sig *types.Signature) string {
	seen := map[types.Type]bool{}
	if recv != nil {
		if m := mentionsMem(recv, 0, seen); m != "" {
			return "recv:" + m
		}
	}
	for i := 0; i < sig.Params().Len(); i++ {
		if m := mentionsMem(sig.Params().At(i).Type(), 0, seen); m != "" {
			return "param:" + m
		}
	}
	for i := 0; i < sig.Results().Len(); i++ {
		if m := mentionsMem(sig.Results().At(i).Type(), 0, seen); m != "" {
			return "result:" + m
		}
	}
	return ""
}

type enumeration struct {
	entries      []*entry
	notMentioned int            // exported functions/methods that mention no memory (not enumerated)
	excludedFns  map[string]int // reason -> number of exported functions in excluded packages (syntactic count)
	pkgs         []string
}

func countExportedSyntactic(files []*ast.File) int {
	n := 0
	for _, f := range files {
		for _, d := range f.Decls {
			if fd, ok := d.(*ast.FuncDecl); ok && fd.Name.IsExported() {
				n++
			}
		}
	}
	return n
}

func enumerate(l *loader) *enumeration {
	en := &enumeration{excludedFns: map[string]int{}}
	for _, path := range libraryDirs(l.repo) {
		if reason, ex := excluded(path); ex {
			files, name, err := l.parseDir(l.dirOf(path))
			if err == nil && name != "main" {
				en.excludedFns[reason] += countExportedSyntactic(files)
			} else if err == nil {
				en.excludedFns[reason] += 0
			}
			continue
		}
		p, err := l.load(path)
		if err != nil || p == nil {
			l.errs = append(l.errs, "load "+path+": "+errStr(err))
			continue
		}
		if p.Name() == "main" {
			continue
		}
		en.pkgs = append(en.pkgs, path)
		sc := p.Scope()
		names := sc.Names()
		sort.Strings(names)
		for _, nm := range names {
			o := sc.Lookup(nm)
			if !o.Exported() {
				continue
			}
			switch x := o.(type) {
			case *types.Func:
				sig := x.Type().(*types.Signature)
				if m := sigMentions(nil, sig); m != "" {
					en.entries = append(en.entries, &entry{pkg: p, kind: "func", obj: x, sig: sig, id: p.Name() + "." + nm, mentions: m})
				} else {
					en.notMentioned++
				}
			case *types.Var:
				// package-level instances (monoid.String, eq.Bytes, ...)
				if m := mentionsMem(x.Type(), 0, map[types.Type]bool{}); m != "" {
					en.entries = append(en.entries, &entry{pkg: p, kind: "var", obj: x, id: p.Name() + "." + nm, mentions: "var:" + m})
				}
			case *types.TypeName:
				if x.IsAlias() {
					continue
				}
				named, ok := x.Type().(*types.Named)
				if !ok {
					continue
				}
				if it, ok := named.Underlying().(*types.Interface); ok {
					for i := 0; i < it.NumMethods(); i++ {
						m := it.Method(i)
						if !m.Exported() {
							continue
						}
						sig := m.Type().(*types.Signature)
						if why := sigMentions(nil, sig); why != "" {
							en.entries = append(en.entries, &entry{pkg: p, kind: "ifacemethod", recv: named, obj: m, sig: sig,
								id: p.Name() + "." + nm + "." + m.Name(), mentions: why})
						} else {
							en.notMentioned++
						}
					}
					continue
				}
				for i := 0; i < named.NumMethods(); i++ {
					m := named.Method(i)
					if !m.Exported() {
						continue
					}
					sig := m.Type().(*types.Signature)
					_, ptr := sig.Recv().Type().(*types.Pointer)
					if why := sigMentions(sig.Recv().Type(), sig); why != "" {
						en.entries = append(en.entries, &entry{pkg: p, kind: "method", recv: named, ptrRecv: ptr, obj: m, sig: sig,
							id: p.Name() + "." + nm + "." + m.Name(), mentions: why})
					} else {
						en.notMentioned++
					}
				}
			}
		}
	}
	return en
}

func errStr(err error) string {
	if err == nil {
		return "nil package"
	}
	return err.Error()
}
