// framegen: enumerates, from the repository's CURRENT sources, every exported function, method and instance
// variable of the library (minus the explicitly mutable package and tooling) whose signature mentions
// caller-visible memory (slice, fp.Seq, Go map, pointer, or a function/iterator/instance over those), and
// generates
//
//   - harness/cmd/frame/zz_calls_gen.go : one call wrapper per entry (x instantiation variant) for the frame check,
//
//   - lean/FpVerif/Gen/FrameFacts.lean  : the enumeration + which wrapper covers each entry (Spec/C04Frame decides
//     that every entry is covered or explicitly listed as uncovered with a reason).
//
//     usage: framegen <repo> <harness/cmd/frame> <out.lean>
package main

import (
	"encoding/json"
	"fmt"
	"go/format"
	"go/types"
	"math/big"
	"os"
	"regexp"
	"sort"
	"strconv"
	"strings"
)

type wrapper struct {
	name    string // registry name = entry id [+ "@rec"]
	fn      string // Go identifier
	code    string
	weight  int
	fresh   bool
	partial bool
}

type result struct {
	e       *entry
	covered []string // wrapper names
	reason  string   // why no wrapper
}

// functions that cannot be driven by a generic single-threaded frame history, with the reason
var denied = map[string]string{}

// Members of a numbered arity family (Labelled2..21, MonadChain1..9, Flap2..9, …) are instances of ONE generator
// template (their uniformity across arities is property C14). By default every member gets a wrapper; setting
// FRAME_MAX_ARITY=n generates wrappers up to arity n only and lists the higher members as uncovered with the reason
// `arity-family-instance` (instantiating 21-parameter generics is about 40% of the compile time of the check).
var maxFamilyArity = 1 << 30

func init() {
	if v, err := strconv.Atoi(os.Getenv("FRAME_MAX_ARITY")); err == nil && v > 0 {
		maxFamilyArity = v
	}
}

var familyRe = regexp.MustCompile(`^[a-z0-9]+\.[A-Za-z]+?([0-9]+)(\.[A-Za-z0-9]+)?$`)

func familyArity(id string) int {
	m := familyRe.FindStringSubmatch(id)
	if m == nil {
		return 0
	}
	n, _ := strconv.Atoi(m[1])
	return n
}

func deniedReason(e *entry) string {
	if r, ok := denied[e.id]; ok {
		return r
	}
	if n := familyArity(e.id); n > maxFamilyArity {
		return fmt.Sprintf("arity-family-instance(template;arities<=%d-covered;uniformity=C14)", maxFamilyArity)
	}
	if e.sig != nil && (e.pkg.Name() == "future" || e.pkg.Name() == "promise") && !strings.HasSuffix(e.id, ".Await") {
		for i := 0; i < e.sig.Params().Len(); i++ {
			if n, ok := types.Unalias(e.sig.Params().At(i).Type()).(*types.Named); ok && qname(n) == "time.Duration" {
				return "timer(fires-later-on-another-goroutine)"
			}
		}
	}
	return ""
}

// candidate type arguments, in order of preference
func (s *synth) candidates(variant string) []types.Type {
	intT := types.Typ[types.Int]
	var out []types.Type
	if variant == "rec" {
		out = append(out, s.rec)
	}
	if variant == "nil" {
		// builder types whose only constructor fixes some parameters to hlist.Nil (future.ChainN)
		out = append(out, s.l.pkgs[modPath+"/hlist"].Scope().Lookup("Nil").Type())
	}
	out = append(out, intT, types.NewSlice(intT), types.Typ[types.String])
	if hl := s.l.pkgs[modPath+"/hlist"]; hl != nil {
		nilT := hl.Scope().Lookup("Nil").Type()
		out = append(out, nilT)
		if c, err := types.Instantiate(s.ctxt, hl.Scope().Lookup("Cons").Type(), []types.Type{intT, nilT}, true); err == nil {
			out = append(out, c) // satisfies hlist.Header[int]
		}
	}
	if rn := s.fpPkg.Scope().Lookup("RuntimeNamed"); rn != nil {
		if c, err := types.Instantiate(s.ctxt, rn.Type(), []types.Type{intT}, true); err == nil {
			out = append(out, c) // satisfies fp.Named and fp.NamedField[int]
		}
	}
	if u := s.fpPkg.Scope().Lookup("Unit"); u != nil {
		out = append(out, u.Type()) // a fmt.Stringer
	}
	return out
}

// chooseTArgs instantiates a generic signature/type: every type parameter gets the first candidate its
// constraint admits.
func (s *synth) chooseTArgs(generic types.Type, tps *types.TypeParamList, variant string) ([]types.Type, bool) {
	n := tps.Len()
	cands := s.candidates(variant)
	idx := make([]int, n)
	for tries := 0; tries < 400; tries++ {
		targs := make([]types.Type, n)
		for i := range targs {
			targs[i] = cands[idx[i]]
		}
		_, err := types.Instantiate(s.ctxt, generic, targs, true)
		if err == nil {
			return targs, true
		}
		ae, ok := err.(*types.ArgumentError)
		if !ok {
			return nil, false
		}
		idx[ae.Index]++
		if idx[ae.Index] >= len(cands) {
			s.fail("constraint(" + shortType(tps.At(ae.Index).Constraint().String()) + ")")
			return nil, false
		}
	}
	return nil, false
}

func usesRec(targs []types.Type, rec types.Type) bool {
	for _, t := range targs {
		if t == rec {
			return true
		}
	}
	return false
}

func tsList(s *synth, ts []types.Type) string {
	parts := make([]string, len(ts))
	for i, t := range ts {
		parts[i] = s.ts(t)
	}
	return strings.Join(parts, ", ")
}

func memWeight(sig *types.Signature) int {
	w := 1
	seen := map[types.Type]bool{}
	direct := func(t types.Type) bool {
		m := mentionsMem(t, 0, seen)
		return m == "slice" || m == "map" || m == "pointer"
	}
	p, r := false, false
	for i := 0; i < sig.Params().Len(); i++ {
		if direct(sig.Params().At(i).Type()) {
			p = true
		}
	}
	if sig.Recv() != nil && direct(sig.Recv().Type()) {
		p = true
	}
	for i := 0; i < sig.Results().Len(); i++ {
		if mentionsMem(sig.Results().At(i).Type(), 0, seen) != "" {
			r = true
		}
	}
	if p {
		w += 2
	}
	if r {
		w += 2
	}
	return w
}

var wrapperSeq int

const chunkSize = 40

// build one wrapper for entry e in the given variant; returns nil + reason when it cannot be instantiated
func (s *synth) build(e *entry, variant string) (*wrapper, string) {
	s.failure, s.partial, s.tmpCount = "", false, 0
	name := e.id
	if variant == "rec" {
		name += "@rec"
	}
	wrapperSeq++
	fn := fmt.Sprintf("w%04d", wrapperSeq)
	fresh := e.pkg.Name() == "clone"
	var body strings.Builder
	weight := 1
	switch e.kind {
	case "var":
		v := e.obj.(*types.Var)
		if variant == "rec" {
			return nil, "no-rec-variant"
		}
		body.WriteString(s.observe(v.Type(), s.qual(e.pkg)+"."+v.Name(), 0))
	case "func":
		f := e.obj.(*types.Func)
		sig := e.sig
		callee := s.qual(e.pkg) + "." + f.Name()
		if tps := sig.TypeParams(); tps != nil && tps.Len() > 0 {
			targs, ok := s.chooseTArgs(sig, tps, variant)
			if !ok {
				s.fail("constraint")
				return nil, s.failure
			}
			if variant == "rec" && !usesRec(targs, s.rec) {
				return nil, "no-rec-variant"
			}
			inst, err := types.Instantiate(s.ctxt, sig, targs, true)
			if err != nil {
				return nil, "instantiate-failed"
			}
			sig = inst.(*types.Signature)
			callee += "[" + tsList(s, targs) + "]"
		} else if variant == "rec" {
			return nil, "no-rec-variant"
		}
		weight = memWeight(sig)
		bc, ok := s.callExpr(sig, callee, nil)
		if !ok {
			return nil, s.failure
		}
		body.WriteString(s.callAndObserve(sig, bc, 0, ""))
	case "method", "ifacemethod":
		m := e.obj.(*types.Func)
		var recvT types.Type = e.recv
		if tps := e.recv.TypeParams(); tps != nil && tps.Len() > 0 {
			targs, ok := s.chooseTArgs(e.recv, tps, variant)
			if !ok {
				s.fail("constraint")
				return nil, s.failure
			}
			if variant == "rec" && !usesRec(targs, s.rec) {
				return nil, "no-rec-variant"
			}
			inst, err := types.Instantiate(s.ctxt, e.recv, targs, true)
			if err != nil {
				return nil, "instantiate-failed"
			}
			recvT = inst
		} else if variant == "rec" {
			return nil, "no-rec-variant"
		}
		if e.ptrRecv {
			recvT = types.NewPointer(recvT)
		}
		obj, _, _ := types.LookupFieldOrMethod(recvT, true, e.pkg, m.Name())
		mf, ok := obj.(*types.Func)
		if !ok {
			return nil, "method-lookup-failed"
		}
		sig := mf.Type().(*types.Signature)
		weight = memWeight(sig)
		if mentionsMem(recvT, 0, map[types.Type]bool{}) != "" {
			weight++
		}
		fmt.Fprintf(&body, "recv := %s\n", s.expr(recvT, 0))
		if s.failure != "" {
			return nil, s.failure
		}
		if e.ptrRecv {
			body.WriteString("if recv == nil { return }\ng.MayWrite(recv)\n")
		}
		if e.kind == "ifacemethod" {
			body.WriteString("if recv == nil { return }\n")
		}
		bc, ok := s.callExpr(sig, "recv."+m.Name(), nil)
		if !ok {
			return nil, s.failure
		}
		body.WriteString(s.callAndObserve(sig, bc, 0, ""))
	}
	if s.failure != "" {
		return nil, s.failure
	}
	if e.pkg.Name() == "future" || e.pkg.Name() == "promise" || strings.HasPrefix(e.id, "fp.Future.") || strings.HasPrefix(e.id, "fp.Promise.") {
		weight = 1
	} else {
		weight *= 2
	}
	code := fmt.Sprintf("// %s   [%s]\nfunc %s(g *G) {\n%s}\n", name, e.mentions, fn, body.String())
	return &wrapper{name: name, fn: fn, code: code, weight: weight, fresh: fresh, partial: s.partial}, ""
}

// the struct-with-slice element variant is generated where an element instance matters: the instance packages
// and every function taking a typeclass instance
func wantsRec(e *entry) bool {
	switch e.pkg.Name() {
	case "clone", "eq", "ord", "hash", "show", "monoid", "semigroup":
		return true
	}
	if e.sig == nil {
		return false
	}
	for i := 0; i < e.sig.Params().Len(); i++ {
		if n, ok := types.Unalias(e.sig.Params().At(i).Type()).(*types.Named); ok {
			if _, ok := instanceKinds[qname(n)]; ok {
				return true
			}
		}
	}
	return false
}

func reasonClass(r string) string {
	if i := strings.Index(r, "("); i > 0 {
		return r[:i]
	}
	return r
}

// reason classes, in the order of their codes (1-based) in the Lean table
var reasonCodes = []string{"arity-family-instance", "unexported-type", "timer", "no-provider", "constraint", "generic-callback", "type-too-deep"}

func reasonCode(r string) int {
	if r == "" {
		return 0
	}
	c := reasonClass(r)
	for i, x := range reasonCodes {
		if x == c {
			return i + 1
		}
	}
	return 99
}

// leanCodes: a name as ONE natural number, the little-endian base-256 value of its bytes
// (Spec/C04Frame.lean: `code% "seq.Sort"`)
func leanCodes(s string) string { return codeOf(s).String() }

func codeOf(s string) *big.Int {
	n := new(big.Int)
	for i := len(s) - 1; i >= 0; i-- {
		n.Lsh(n, 8)
		n.Or(n, big.NewInt(int64(s[i])))
	}
	return n
}

func main() {
	if len(os.Args) < 4 {
		fmt.Fprintln(os.Stderr, "usage: framegen <repo> <harness/cmd/frame> <out.lean>")
		os.Exit(2)
	}
	repo, outDir, outLean := os.Args[1], os.Args[2], os.Args[3]
	l := newLoader(repo)
	en := enumerate(l)
	if len(l.errs) > 0 {
		fmt.Fprintln(os.Stderr, "framegen: type errors in the library sources:")
		for i, e := range l.errs {
			if i < 10 {
				fmt.Fprintln(os.Stderr, "  ", e)
			}
		}
		os.Exit(1)
	}
	s := newSynth(l)
	var results []*result
	var wrappers []*wrapper
	for _, e := range en.entries {
		r := &result{e: e}
		results = append(results, r)
		if why := deniedReason(e); why != "" {
			r.reason = why
			continue
		}
		w, why := s.build(e, "int")
		if w == nil && strings.HasPrefix(why, "no-provider") && e.kind == "method" {
			if w3, _ := s.build(e, "nil"); w3 != nil {
				w = w3
			}
		}
		if w == nil {
			r.reason = why
			continue
		}
		wrappers = append(wrappers, w)
		r.covered = append(r.covered, w.name)
		if !wantsRec(e) {
			continue
		}
		if w2, _ := s.build(e, "rec"); w2 != nil {
			wrappers = append(wrappers, w2)
			r.covered = append(r.covered, w2.name)
		}
	}

	// ---- Go files: the wrappers are spread over several small packages so that they compile in parallel and
	// are cached independently (a change in one library package does not recompile all of them)
	static := map[string]int{}
	covered, uncovered, partial := 0, 0, 0
	for _, r := range results {
		if len(r.covered) > 0 {
			covered++
		} else {
			uncovered++
			static["uncovered:"+reasonClass(r.reason)]++
		}
	}
	for _, w := range wrappers {
		if w.partial {
			partial++
		}
	}
	static["enumerated"] = len(results)
	static["covered"] = covered
	static["wrappers"] = len(wrappers)
	static["wrappers-partially-observed-results"] = partial
	static["append-convention-buf-params(private-buffer)"] = s.appendConv
	static["not-enumerated(no-memory-in-signature)"] = en.notMentioned
	for reason, n := range en.excludedFns {
		static["excluded-package:"+reason] = n
	}
	genDir := outDir + "/gen"
	os.RemoveAll(genDir)
	var chunks [][]*wrapper
	var chunkNames []string
	perPkg := map[string]int{}
	for _, w := range wrappers {
		lib := w.name[:strings.Index(w.name, ".")]
		k := perPkg[lib]
		perPkg[lib]++
		cn := fmt.Sprintf("g_%s_%d", lib, k/chunkSize)
		if len(chunkNames) == 0 || chunkNames[len(chunkNames)-1] != cn {
			chunkNames = append(chunkNames, cn)
			chunks = append(chunks, nil)
		}
		chunks[len(chunks)-1] = append(chunks[len(chunks)-1], w)
	}
	for ci, ch := range chunks {
		var b strings.Builder
		fmt.Fprintf(&b, "// Code generated by harness/cmd/framegen from the repository's sources; DO NOT EDIT.\n\npackage %s\n\nimport (\n\t. \"verifharness/framert\"\n", chunkNames[ci])
		paths := make([]string, 0, len(s.imports))
		for p := range s.imports {
			paths = append(paths, p)
		}
		sort.Strings(paths)
		for _, p := range paths {
			fmt.Fprintf(&b, "\t%s %q\n", s.imports[p], p)
		}
		b.WriteString(")\n\n")
		for _, w := range ch {
			b.WriteString(w.code)
			b.WriteString("\n")
		}
		b.WriteString("func init() {\n\tWrappers = append(Wrappers,\n")
		for _, w := range ch {
			fmt.Fprintf(&b, "\t\tWrapper{Name: %q, Fn: %s, Weight: %d, Fresh: %v},\n", w.name, w.fn, w.weight, w.fresh)
		}
		b.WriteString("\t)\n}\n")
		src := pruneImports(b.String(), s.imports)
		formatted, err := format.Source([]byte(src))
		if err != nil {
			os.WriteFile(outDir+"/broken.go.txt", []byte(src), 0644)
			fmt.Fprintln(os.Stderr, "framegen: generated code does not parse:", err)
			os.Exit(1)
		}
		d := genDir + "/" + chunkNames[ci]
		os.MkdirAll(d, 0755)
		if err := os.WriteFile(d+"/zz_calls_gen.go", formatted, 0644); err != nil {
			fmt.Fprintln(os.Stderr, err)
			os.Exit(1)
		}
	}
	{
		var b strings.Builder
		b.WriteString("// Code generated by harness/cmd/framegen; DO NOT EDIT.\n\npackage main\n\nimport (\n\t\"verifharness/framert\"\n")
		for _, cn := range chunkNames {
			fmt.Fprintf(&b, "\t_ \"verifharness/cmd/frame/gen/%s\"\n", cn)
		}
		b.WriteString(")\n\nfunc init() {\n\tframert.Static = map[string]int{\n")
		keys := make([]string, 0, len(static))
		for k := range static {
			keys = append(keys, k)
		}
		sort.Strings(keys)
		for _, k := range keys {
			fmt.Fprintf(&b, "\t\t%q: %d,\n", k, static[k])
		}
		b.WriteString("\t}\n}\n")
		if err := os.WriteFile(outDir+"/zz_imports_gen.go", []byte(b.String()), 0644); err != nil {
			fmt.Fprintln(os.Stderr, err)
			os.Exit(1)
		}
	}

	// ---- Lean file. Names are written as natural numbers (the kernel evaluates `decide` on Nat
	// quickly, on String very slowly); the readable name is in the comment at the end of each line.
	var lb strings.Builder
	lb.WriteString("-- GENERATED by harness/cmd/framegen from the repository's source; do not edit.\nnamespace FpVerif.Gen.Frame\n\n")
	lb.WriteString("/-- one enumerated function / method / instance variable.\n    id, wrappers: the names as numbers (little-endian base-256 value of the bytes of \"pkg.Recv.Name\"); kind: 0 func, 1 method, 2 interface method, 3 variable;\n")
	lb.WriteString("    reason: 0 = covered, otherwise why no wrapper could be generated:\n")
	for i, r := range reasonCodes {
		fmt.Fprintf(&lb, "      %d = %s\n", i+1, r)
	}
	lb.WriteString("      (anything else = other) -/\nstructure Entry where\n  id : Nat\n  kind : Nat\n  wrappers : List Nat\n  reason : Nat\n  deriving Repr, DecidableEq\n\n")
	// the table is sorted by the numeric code of the id (linear-time membership tests in Lean)
	sorted := append([]*result{}, results...)
	sort.SliceStable(sorted, func(i, j int) bool { return codeOf(sorted[i].e.id).Cmp(codeOf(sorted[j].e.id)) < 0 })
	lb.WriteString("def entries : List Entry := [\n")
	kinds := map[string]int{"func": 0, "method": 1, "ifacemethod": 2, "var": 3}
	for i, r := range sorted {
		ws := make([]string, len(r.covered))
		for j, w := range r.covered {
			ws[j] = leanCodes(w)
		}
		sep := ","
		if i == len(sorted)-1 {
			sep = ""
		}
		doc := r.e.id + "   " + r.e.mentions
		if r.reason != "" {
			doc += "   UNCOVERED: " + r.reason
		}
		fmt.Fprintf(&lb, "  ⟨%s, %d, [%s], %d⟩%s  -- %s\n", leanCodes(r.e.id), kinds[r.e.kind], strings.Join(ws, ", "), reasonCode(r.reason), sep, doc)
	}
	// for every higher member of an arity family that was left out: a covered member of the same family
	famKey := func(id string) string {
		return strings.Map(func(c rune) rune {
			if c >= '0' && c <= '9' {
				return -1
			}
			return c
		}, id)
	}
	coveredFam := map[string]string{}
	for _, r := range sorted {
		if len(r.covered) > 0 {
			if _, ok := coveredFam[famKey(r.e.id)]; !ok {
				coveredFam[famKey(r.e.id)] = r.e.id
			}
		}
	}
	lb.WriteString("]\n\n/-- (left-out member of an arity family, a covered member of the same family), in the order of `entries` -/\ndef familyWitnesses : List (Nat × Nat) := [\n")
	witSet := map[string]bool{}
	first := true
	for _, r := range sorted {
		if reasonCode(r.reason) == 1 {
			w := coveredFam[famKey(r.e.id)]
			if !first {
				lb.WriteString(",\n")
			}
			first = false
			wc := "0"
			if w != "" {
				wc = leanCodes(w)
				witSet[w] = true
			}
			fmt.Fprintf(&lb, "  (%s, %s) /- %s ~ %s -/", leanCodes(r.e.id), wc, r.e.id, w)
		}
	}
	lb.WriteString("]\n\n/-- the distinct witnesses, ascending -/\ndef witnessesAsc : List Nat := [")
	var wits []string
	for w := range witSet {
		wits = append(wits, w)
	}
	sort.Slice(wits, func(i, j int) bool { return codeOf(wits[i]).Cmp(codeOf(wits[j])) < 0 })
	for i, w := range wits {
		if i > 0 {
			lb.WriteString(", ")
		}
		lb.WriteString(leanCodes(w))
	}
	lb.WriteString("]\n\n/-- the wrappers the generated Go code registers, in the order of `entries` -/\ndef registered : List Nat := [\n")
	_ = wrappers
	var regNames []string
	for _, r := range sorted {
		regNames = append(regNames, r.covered...)
	}
	for i, w := range regNames {
		sep := ","
		if i == len(regNames)-1 {
			sep = ""
		}
		fmt.Fprintf(&lb, "  %s%s  -- %s\n", leanCodes(w), sep, w)
	}
	lb.WriteString("]\n\n/-- library packages that were enumerated (path below the module root; the root package is the empty name) -/\ndef packages : List Nat := [")
	for i, p := range en.pkgs {
		if i > 0 {
			lb.WriteString(", ")
		}
		lb.WriteString(leanCodes(strings.TrimPrefix(strings.TrimPrefix(p, modPath), "/")))
	}
	lb.WriteString("]\n\nend FpVerif.Gen.Frame\n")
	os.MkdirAll(dirOf(outLean), 0755)
	if err := os.WriteFile(outLean, []byte(lb.String()), 0644); err != nil {
		fmt.Fprintln(os.Stderr, err)
		os.Exit(1)
	}
	if len(os.Args) > 4 && os.Args[4] == "-list" {
		for _, r := range results {
			if len(r.covered) == 0 {
				fmt.Printf("UNCOVERED %s\t%s\n", r.e.id, r.reason)
			}
		}
	}
	js, _ := json.Marshal(static)
	fmt.Println(string(js))
}

func dirOf(p string) string {
	if i := strings.LastIndex(p, "/"); i >= 0 {
		return p[:i]
	}
	return "."
}

func pruneImports(src string, imports map[string]string) string {
	i := strings.Index(src, "import (\n")
	j := strings.Index(src, ")\n\n")
	body := src[j:]
	var lines []string
	for _, line := range strings.Split(src[i+len("import (\n"):j], "\n") {
		f := strings.Fields(line)
		if len(f) != 2 {
			continue
		}
		if f[0] == "." || strings.Contains(body, f[0]+".") {
			lines = append(lines, line)
		}
	}
	return src[:i] + "import (\n" + strings.Join(lines, "\n") + "\n" + body
}
