package main

// Type-directed synthesis of call wrappers: for every enumerated entry choose type arguments, build an
// argument expression for every parameter (pool values, stock instances, callbacks), and emit the
// statements that observe every result (reflection walk, or a typed decomposition for opaque results).

import (
	"fmt"
	"go/token"
	"go/types"
	"sort"
	"strings"
)

const maxObserveDepth = 2

type synth struct {
	l          *loader
	mainPkg    *types.Package // the generated file's package: harness-side types (Rec) live here
	rec        *types.Named
	imports    map[string]string // import path -> local name
	cbSite     int
	failure    string
	partial    bool // some result could only be observed partially
	ctxt       *types.Context
	fpPkg      *types.Package
	tmpCount   int
	appendConv int
	stack      []string
}

func originOf(t types.Type) types.Type {
	t = types.Unalias(t)
	if p, ok := t.(*types.Pointer); ok {
		t = types.Unalias(p.Elem())
	}
	if n, ok := t.(*types.Named); ok {
		return n.Origin()
	}
	return t
}

func newSynth(l *loader) *synth {
	mainPkg := types.NewPackage("verifharness/cmd/frame", "main")
	fields := []*types.Var{
		types.NewField(token.NoPos, mainPkg, "ID", types.Typ[types.Int], false),
		types.NewField(token.NoPos, mainPkg, "Xs", types.NewSlice(types.Typ[types.Int]), false),
	}
	rec := types.NewNamed(types.NewTypeName(token.NoPos, mainPkg, "Rec", nil), types.NewStruct(fields, nil), nil)
	return &synth{l: l, mainPkg: mainPkg, rec: rec, imports: map[string]string{}, ctxt: types.NewContext(), fpPkg: l.pkgs[modPath]}
}

func (s *synth) fail(reason string) {
	if s.failure == "" {
		s.failure = reason
	}
}

func (s *synth) qual(p *types.Package) string {
	if p == s.mainPkg {
		return ""
	}
	path := p.Path()
	if path == modPath {
		s.imports[path] = "fp"
		return "fp"
	}
	if strings.HasPrefix(path, modPath+"/") {
		n := "p_" + p.Name()
		s.imports[path] = n
		return n
	}
	s.imports[path] = p.Name()
	return p.Name()
}

// ts renders a type; unexported names from other packages cannot be written down in the generated file
func (s *synth) ts(t types.Type) string {
	str := types.TypeString(t, s.qual)
	if !s.nameable(t, 0) {
		s.fail("unexported-type(" + shortType(str) + ")")
	}
	return str
}

func shortType(s string) string {
	if len(s) > 60 {
		s = s[:60] + "…"
	}
	return strings.ReplaceAll(s, "\"", "'")
}

func (s *synth) nameable(t types.Type, d int) bool {
	if d > 8 {
		return true
	}
	switch x := t.(type) {
	case *types.Alias:
		return s.nameable(types.Unalias(x), d)
	case *types.Named:
		if o := x.Obj(); o.Pkg() != nil && o.Pkg() != s.mainPkg && !o.Exported() {
			return false
		}
		if ta := x.TypeArgs(); ta != nil {
			for i := 0; i < ta.Len(); i++ {
				if !s.nameable(ta.At(i), d+1) {
					return false
				}
			}
		}
		return true
	case *types.Slice:
		return s.nameable(x.Elem(), d+1)
	case *types.Array:
		return s.nameable(x.Elem(), d+1)
	case *types.Pointer:
		return s.nameable(x.Elem(), d+1)
	case *types.Map:
		return s.nameable(x.Key(), d+1) && s.nameable(x.Elem(), d+1)
	case *types.Chan:
		return s.nameable(x.Elem(), d+1)
	case *types.Signature:
		for i := 0; i < x.Params().Len(); i++ {
			if !s.nameable(x.Params().At(i).Type(), d+1) {
				return false
			}
		}
		for i := 0; i < x.Results().Len(); i++ {
			if !s.nameable(x.Results().At(i).Type(), d+1) {
				return false
			}
		}
	case *types.Struct:
		for i := 0; i < x.NumFields(); i++ {
			if !x.Field(i).Exported() || !s.nameable(x.Field(i).Type(), d+1) {
				return false
			}
		}
	case *types.Interface:
		for i := 0; i < x.NumMethods(); i++ {
			if !x.Method(i).Exported() || !s.nameable(x.Method(i).Type(), d+1) {
				return false
			}
		}
	case *types.TypeParam:
		return false
	}
	return true
}

func qname(n *types.Named) string {
	o := n.Obj()
	if o.Pkg() == nil {
		return o.Name()
	}
	return o.Pkg().Path() + "." + o.Name()
}

func targ(n *types.Named, i int) types.Type {
	if ta := n.TypeArgs(); ta != nil && i < ta.Len() {
		return ta.At(i)
	}
	return types.Typ[types.Int]
}

func (s *synth) thunk(t types.Type, d int) string {
	return fmt.Sprintf("func(g *G) %s { return %s }", s.ts(t), s.expr(t, d+1))
}

var instanceKinds = map[string]string{
	modPath + ".Eq": "GEq", modPath + ".Ord": "GOrd", modPath + ".Hashable": "GHash", modPath + ".Show": "GShow",
	modPath + ".Clone": "GClone", modPath + ".Monoid": "GMonoid", modPath + ".Semigroup": "GSemigroup",
}

// expr builds a Go expression of type t from the generator variable `g`
func (s *synth) expr(t types.Type, d int) string {
	if d > 14 {
		s.fail("type-too-deep")
		return "nil"
	}
	switch x := t.(type) {
	case *types.Alias:
		return s.expr(types.Unalias(x), d)
	case *types.Basic:
		switch x.Kind() {
		case types.Int:
			return "g.Int()"
		case types.Int8, types.Int16, types.Int32, types.Int64:
			return x.Name() + "(g.Int())"
		case types.Uint, types.Uint8, types.Uint16, types.Uint32, types.Uint64, types.Uintptr:
			return x.Name() + "(g.Nat())"
		case types.Float32, types.Float64:
			return x.Name() + "(g.Int())"
		case types.String:
			return "g.Str()"
		case types.Bool:
			return "g.Bool()"
		}
		s.fail("basic-kind(" + x.Name() + ")")
		return "nil"
	case *types.Slice:
		return fmt.Sprintf("Slice(g, %s)", s.thunk(x.Elem(), d))
	case *types.Map:
		return fmt.Sprintf("GoMap(g, %s, %s)", s.thunk(x.Key(), d), s.thunk(x.Elem(), d))
	case *types.Pointer:
		return fmt.Sprintf("Ptr(g, %s)", s.thunk(x.Elem(), d))
	case *types.Signature:
		return s.funcLit(x, d)
	case *types.Interface:
		if x.NumMethods() == 0 && x.NumEmbeddeds() == 0 {
			return "any(g.Int())"
		}
		s.fail("no-provider(anonymous-interface)")
		return "nil"
	case *types.Named:
		return s.namedExpr(x, d)
	case *types.Struct:
		s.fail("no-provider(anonymous-struct)")
		return "nil"
	case *types.Array:
		s.fail("no-provider(array)")
		return "nil"
	case *types.Chan:
		s.fail("no-provider(chan)")
		return "nil"
	case *types.TypeParam:
		s.fail("generic-callback")
		return "nil"
	}
	s.fail("no-provider(" + shortType(t.String()) + ")")
	return "nil"
}

func (s *synth) namedExpr(x *types.Named, d int) string {
	qn := qname(x)
	if x == s.rec {
		return "RecOf(g)"
	}
	if k, ok := instanceKinds[qn]; ok {
		return fmt.Sprintf("%s[%s]()", k, s.ts(targ(x, 0)))
	}
	switch qn {
	case "error":
		return "g.Err()"
	case modPath + ".Option":
		return fmt.Sprintf("Opt(g, %s)", s.thunk(targ(x, 0), d))
	case modPath + ".Try":
		return fmt.Sprintf("TryOf(g, %s)", s.thunk(targ(x, 0), d))
	case modPath + ".Either":
		return fmt.Sprintf("Eith(g, %s, %s)", s.thunk(targ(x, 0), d), s.thunk(targ(x, 1), d))
	case modPath + ".Iterator":
		return fmt.Sprintf("Iter(g, %s)", s.thunk(targ(x, 0), d))
	case modPath + ".Iterable":
		return fmt.Sprintf("fp.Iterable[%s](IterableOf(g, %s))", s.ts(targ(x, 0)), s.thunk(targ(x, 0), d))
	case modPath + ".List":
		return fmt.Sprintf("Lst(g, %s)", s.thunk(targ(x, 0), d))
	case modPath + ".Map":
		return fmt.Sprintf("FMap(g, %s, %s)", s.thunk(targ(x, 0), d), s.thunk(targ(x, 1), d))
	case "iter.Seq":
		return fmt.Sprintf("IterSeq(g, %s)", s.thunk(targ(x, 0), d))
	case modPath + ".MapBaseUpdatedWith":
		return fmt.Sprintf("AsType[%s](FMap(g, %s, %s).Base)", s.ts(x), s.thunk(targ(x, 0), d), s.thunk(targ(x, 1), d))
	case modPath + ".MapBase":
		return fmt.Sprintf("FMap(g, %s, %s).Base", s.thunk(targ(x, 0), d), s.thunk(targ(x, 1), d))
	case modPath + ".Set":
		return fmt.Sprintf("FSet(g, %s)", s.thunk(targ(x, 0), d))
	case modPath + ".SetMinimal":
		return fmt.Sprintf("FSetMinimal(g, %s)", s.thunk(targ(x, 0), d))
	case modPath + ".Future":
		return fmt.Sprintf("Fut(g, %s)", s.thunk(targ(x, 0), d))
	case modPath + ".Promise":
		return fmt.Sprintf("Prom(g, %s)", s.thunk(targ(x, 0), d))
	case modPath + ".Executor":
		return "fp.Executor(InlineExec{})"
	case modPath + ".Runnable":
		return "fp.Runnable(fp.RunnableFunc(func() {}))"
	case modPath + ".Unit":
		return "fp.Unit{}"
	case modPath + "/lazy.Eval":
		s.qual(x.Obj().Pkg())
		return fmt.Sprintf("p_lazy.Done(%s)", s.expr(targ(x, 0), d+1))
	case modPath + "/hlist.Nil":
		s.qual(x.Obj().Pkg())
		return "p_hlist.Empty()"
	case modPath + "/hlist.HList":
		s.qual(x.Obj().Pkg())
		return "p_hlist.HList(p_hlist.Empty())"
	case modPath + "/hlist.Cons":
		s.qual(x.Obj().Pkg())
		return fmt.Sprintf("p_hlist.Concat(%s, %s)", s.expr(targ(x, 0), d+1), s.expr(targ(x, 1), d+1))
	case "time.Time":
		s.imports["time"] = "time"
		return "time.Unix(int64(g.Nat()), 0)"
	case "time.Duration":
		s.imports["time"] = "time"
		return "time.Duration(g.Nat()) * time.Millisecond"
	case modPath + "/list.Cons", modPath + "/list.Seq", modPath + ".ListAdaptor":
		// concrete list node types: taken from a list built by the library (zero value when the dynamic type differs)
		return fmt.Sprintf("AsType[%s](Lst(g, %s))", s.ts(x), s.thunk(targ(x, 0), d))
	}
	switch u := x.Underlying().(type) {
	case *types.Struct:
		// a struct with exported fields: keyed composite literal
		exported := 0
		for i := 0; i < u.NumFields(); i++ {
			if u.Field(i).Exported() {
				exported++
			}
		}
		if exported > 0 && s.nameable(x, 0) {
			var parts []string
			for i := 0; i < u.NumFields(); i++ {
				if u.Field(i).Exported() {
					parts = append(parts, u.Field(i).Name()+": "+s.expr(u.Field(i).Type(), d+1))
				}
			}
			return s.ts(x) + "{" + strings.Join(parts, ", ") + "}"
		}
		if u.NumFields() == 0 {
			return s.ts(x) + "{}"
		}
		if e, ok := s.construct(x, d); ok {
			return e
		}
		s.fail("no-provider(" + shortType(types.TypeString(x, s.qualNoImport)) + ")")
		return "nil"
	case *types.Interface:
		if u.NumMethods() == 0 {
			return s.ts(x) + "(g.Int())"
		}
		s.fail("no-provider(" + shortType(types.TypeString(x, s.qualNoImport)) + ")")
		return "nil"
	case *types.Signature:
		return fmt.Sprintf("%s(%s)", parenType(s.ts(x)), s.funcLit(u, d))
	default:
		// named slice / map / pointer / basic: convert from the underlying type's provider
		return fmt.Sprintf("%s(%s)", parenType(s.ts(x)), s.expr(u, d))
	}
}

func (s *synth) qualNoImport(p *types.Package) string { return p.Name() }

// construct: constructor search — an exported function of the type's package whose single result is this
// generic type applied to its own type parameters (bound positionally), all of whose parameters can be provided
func (s *synth) construct(x *types.Named, d int) (string, bool) {
	pkg := x.Obj().Pkg()
	if pkg == nil || d > 6 {
		return "", false
	}
	names := pkg.Scope().Names()
	for _, nm := range names {
		f, ok := pkg.Scope().Lookup(nm).(*types.Func)
		if !ok || !f.Exported() {
			continue
		}
		sig := f.Type().(*types.Signature)
		if sig.Results().Len() != 1 {
			continue
		}
		rt, ok := types.Unalias(sig.Results().At(0).Type()).(*types.Named)
		if !ok || rt.Origin() != x.Origin() {
			continue
		}
		tps := sig.TypeParams()
		targs := make([]types.Type, tps.Len())
		okBind := true
		if ra := rt.TypeArgs(); ra != nil {
			for i := 0; i < ra.Len(); i++ {
				tp, isTP := ra.At(i).(*types.TypeParam)
				if !isTP {
					if !types.Identical(ra.At(i), targ(x, i)) {
						okBind = false
					}
					continue
				}
				for j := 0; j < tps.Len(); j++ {
					if tps.At(j) == tp {
						targs[j] = targ(x, i)
					}
				}
			}
		}
		if !okBind {
			continue
		}
		for j := range targs {
			if targs[j] == nil {
				targs[j] = types.Typ[types.Int]
			}
		}
		callee := s.qual(pkg) + "." + nm
		isig := sig
		if tps.Len() > 0 {
			inst, err := types.Instantiate(s.ctxt, sig, targs, true)
			if err != nil {
				continue
			}
			isig = inst.(*types.Signature)
			parts := make([]string, len(targs))
			for i, t := range targs {
				parts[i] = s.ts(t)
			}
			callee += "[" + strings.Join(parts, ", ") + "]"
		}
		if !types.Identical(isig.Results().At(0).Type(), x) {
			continue
		}
		save := s.failure
		s.failure = ""
		var args []string
		for i := 0; i < isig.Params().Len(); i++ {
			a := s.expr(isig.Params().At(i).Type(), d+2)
			if isig.Variadic() && i == isig.Params().Len()-1 {
				a += "..."
			}
			args = append(args, a)
		}
		failed := s.failure != ""
		s.failure = save
		if failed {
			continue
		}
		return callee + "(" + strings.Join(args, ", ") + ")", true
	}
	return "", false
}

func parenType(t string) string {
	if strings.HasPrefix(t, "*") || strings.HasPrefix(t, "func") || strings.HasPrefix(t, "<-") {
		return "(" + t + ")"
	}
	return t
}

// funcLit: a callback. Its results are a pure function of (site, arguments): the child generator is seeded
// from them, so the callback's answers do not depend on the order in which the library invokes it.
func (s *synth) funcLit(sig *types.Signature, d int) string {
	s.cbSite++
	site := s.cbSite
	var ps, names []string
	for i := 0; i < sig.Params().Len(); i++ {
		pt := sig.Params().At(i).Type()
		nm := fmt.Sprintf("c%d_%d", site, i)
		names = append(names, nm)
		if sig.Variadic() && i == sig.Params().Len()-1 {
			ps = append(ps, nm+" ..."+s.ts(pt.(*types.Slice).Elem()))
		} else {
			ps = append(ps, nm+" "+s.ts(pt))
		}
	}
	var rs, es []string
	for i := 0; i < sig.Results().Len(); i++ {
		rt := sig.Results().At(i).Type()
		rs = append(rs, s.ts(rt))
		es = append(es, s.expr(rt, d+1))
	}
	res := ""
	if len(rs) == 1 {
		res = " " + rs[0]
	} else if len(rs) > 1 {
		res = " (" + strings.Join(rs, ", ") + ")"
	}
	args := ""
	if len(names) > 0 {
		args = ", " + strings.Join(names, ", ")
	}
	body := fmt.Sprintf("g := g.CB(%d%s); _ = g", site, args)
	if len(es) > 0 {
		body += "; return " + strings.Join(es, ", ")
	}
	return fmt.Sprintf("func(%s)%s { %s }", strings.Join(ps, ", "), res, body)
}

// ---------------------------------------------------------------------------------------------- observing results

var opaqueNamed = map[string]bool{
	modPath + ".Iterator": true, modPath + ".List": true, modPath + ".Map": true, modPath + ".Set": true,
	modPath + ".Future": true, modPath + ".Promise": true, modPath + "/lazy.Eval": true, modPath + ".MapBase": true,
	modPath + ".SetMinimal": true, modPath + ".ListAdaptor": true, modPath + ".StateT": true,
}

// walkable: a reflection walk sees all the memory a value of this type carries
func (s *synth) walkable(t types.Type, d int) bool {
	if d > 8 {
		return true
	}
	switch x := t.(type) {
	case *types.Alias:
		return s.walkable(types.Unalias(x), d)
	case *types.Basic:
		return true
	case *types.Slice:
		return s.walkable(x.Elem(), d+1)
	case *types.Array:
		return s.walkable(x.Elem(), d+1)
	case *types.Pointer:
		return s.walkable(x.Elem(), d+1)
	case *types.Map:
		return s.walkable(x.Key(), d+1) && s.walkable(x.Elem(), d+1)
	case *types.Signature, *types.Chan:
		return false
	case *types.Interface:
		return x.NumMethods() == 0
	case *types.Struct:
		for i := 0; i < x.NumFields(); i++ {
			if !s.walkable(x.Field(i).Type(), d+1) {
				return false
			}
		}
		return true
	case *types.Named:
		qn := qname(x)
		if qn == "error" || qn == "time.Time" || qn == "time.Duration" {
			return true
		}
		if opaqueNamed[qn] {
			return false
		}
		if o := x.Obj(); o.Pkg() != nil && (o.Pkg().Path() == modPath+"/immutable" || o.Pkg().Path() == "reflect") {
			return false
		}
		if qn == modPath+".Either" {
			return s.walkable(targ(x, 0), d+1) && s.walkable(targ(x, 1), d+1)
		}
		return s.walkable(x.Underlying(), d+1)
	}
	return true
}

func (s *synth) tmp(prefix string) string {
	s.tmpCount++
	return fmt.Sprintf("%s%d", prefix, s.tmpCount)
}

func lookupMethod(t types.Type, name string) *types.Func {
	obj, _, _ := types.LookupFieldOrMethod(t, true, nil, name)
	if f, ok := obj.(*types.Func); ok && f.Exported() {
		return f
	}
	return nil
}

// observe emits statements that make every piece of memory reachable from `v` (of type t) visible to the
// frame checker. od = exerciser nesting depth (calls of returned functions / instance methods).
func (s *synth) observe(t types.Type, v string, od int) string {
	t = types.Unalias(t)
	if s.walkable(t, 0) {
		return fmt.Sprintf("g.Out(%s)\n", v)
	}
	if od > maxObserveDepth {
		s.partial = true
		return fmt.Sprintf("g.Out(%s)\n", v)
	}
	switch x := t.(type) {
	case *types.Named:
		qn := qname(x)
		switch qn {
		case modPath + ".Iterator":
			e := targ(x, 0)
			xs := s.tmp("xs")
			return fmt.Sprintf("%s := Drain(g, %s)\n", xs, v) + s.observe(types.NewSlice(e), xs, od)
		case modPath + ".List", modPath + ".ListAdaptor":
			e := targ(x, 0)
			xs := s.tmp("xs")
			return fmt.Sprintf("%s := DrainList[%s](g, %s)\n", xs, s.ts(e), v) + s.observe(types.NewSlice(e), xs, od)
		case modPath + "/lazy.Eval":
			e := targ(x, 0)
			y := s.tmp("y")
			return fmt.Sprintf("%s := %s.Get()\n", y, v) + s.observe(e, y, od)
		case modPath + ".Option":
			e := targ(x, 0)
			y := s.tmp("y")
			return fmt.Sprintf("if %s.IsDefined() {\n%s := %s.Get()\n%s}\n", v, y, v, s.observe(e, y, od))
		case modPath + ".Try":
			e := targ(x, 0)
			y := s.tmp("y")
			return fmt.Sprintf("if %s.IsSuccess() {\n%s := %s.Get()\n%s}\n", v, y, v, s.observe(e, y, od))
		case modPath + ".Either":
			y := s.tmp("y")
			z := s.tmp("y")
			return fmt.Sprintf("if %s != nil && %s.IsLeft() {\n%s := %s.Left()\n%s} else if %s != nil {\n%s := %s.Get()\n%s}\n",
				v, v, y, v, s.observe(targ(x, 0), y, od), v, z, v, s.observe(targ(x, 1), z, od))
		case modPath + ".Future":
			e := targ(x, 0)
			y := s.tmp("y")
			tr, _ := types.Instantiate(s.ctxt, s.fpPkg.Scope().Lookup("Try").Type(), []types.Type{e}, false)
			return fmt.Sprintf("if %s.IsCompleted() {\n%s := %s.Value()\n%s}\n", v, y, v, s.observe(tr, y, od))
		case modPath + ".Promise":
			return s.observeVia(x, v, "Future", od)
		}
		// collections that expose an Iterator()
		if m := lookupMethod(x, "Iterator"); m != nil && m.Type().(*types.Signature).Params().Len() == 0 && m.Type().(*types.Signature).Results().Len() == 1 {
			if _, isIface := x.Underlying().(*types.Interface); !isIface || opaqueNamed[qn] {
				if it, ok := types.Unalias(m.Type().(*types.Signature).Results().At(0).Type()).(*types.Named); ok && qname(it) == modPath+".Iterator" {
					y := s.tmp("it")
					pre := ""
					if _, isIface := x.Underlying().(*types.Interface); isIface {
						pre = fmt.Sprintf("if %s == nil { return }\n", v)
					}
					return fmt.Sprintf("g.Try(func() {\n%s%s := %s.Iterator()\n%s})\n", pre, y, v, s.observe(it, y, od))
				}
			}
		}
		switch u := x.Underlying().(type) {
		case *types.Signature:
			return s.observeCall(u, v, od)
		case *types.Interface:
			return s.observeMethods(x, v, od, true)
		case *types.Struct:
			out := ""
			exportedFields := 0
			for i := 0; i < u.NumFields(); i++ {
				if u.Field(i).Exported() {
					exportedFields++
					out += s.observe(u.Field(i).Type(), v+"."+u.Field(i).Name(), od)
				}
			}
			if exportedFields == u.NumFields() && exportedFields > 0 {
				return out
			}
			return out + fmt.Sprintf("g.Out(%s)\n", v) + s.observeMethods(x, v, od, false)
		case *types.Slice:
			return s.observe(u, v, od)
		case *types.Map:
			return s.observe(u, v, od)
		case *types.Pointer:
			return s.observe(u, v, od)
		}
	case *types.Pointer:
		if n, ok := types.Unalias(x.Elem()).(*types.Named); ok {
			return fmt.Sprintf("g.Out(%s)\nif %s != nil {\n%s}\n", v, v, s.observeMethods(x, v, od, false)) + func() string { _ = n; return "" }()
		}
		y := s.tmp("y")
		return fmt.Sprintf("g.Out(%s)\nif %s != nil {\n%s := *%s\n%s}\n", v, v, y, v, s.observe(x.Elem(), y, od))
	case *types.Signature:
		return s.observeCall(x, v, od)
	case *types.Slice:
		i := s.tmp("i")
		y := s.tmp("y")
		return fmt.Sprintf("g.Out(%s)\nfor %s, %s := range %s {\nif %s >= 3 { break }\n%s}\n", v, i, y, v, i, s.observe(x.Elem(), y, od))
	case *types.Map:
		i := s.tmp("i")
		y := s.tmp("y")
		return fmt.Sprintf("g.Out(%s)\n%s := 0\nfor _, %s := range %s {\nif %s >= 3 { break }\n%s++\n%s}\n", v, i, y, v, i, i, s.observe(x.Elem(), y, od))
	case *types.Interface:
		return s.observeMethods(x, v, od, true)
	case *types.Struct:
		out := ""
		for i := 0; i < x.NumFields(); i++ {
			if x.Field(i).Exported() {
				out += s.observe(x.Field(i).Type(), v+"."+x.Field(i).Name(), od)
			}
		}
		return out
	}
	s.partial = true
	return fmt.Sprintf("g.Out(%s)\n", v)
}

func (s *synth) observeVia(t types.Type, v, method string, od int) string {
	m := lookupMethod(t, method)
	if m == nil {
		return fmt.Sprintf("g.Out(%s)\n", v)
	}
	sig := m.Type().(*types.Signature)
	y := s.tmp("y")
	return fmt.Sprintf("%s := %s.%s()\n", y, v, method) + s.observe(sig.Results().At(0).Type(), y, od)
}

// observeCall: the result is a function — call it with pool arguments and observe what it returns
func (s *synth) observeCall(sig *types.Signature, v string, od int) string {
	save := s.failure
	s.failure = ""
	call, ok := s.callExpr(sig, v, nil)
	if !ok {
		s.failure = save
		s.partial = true
		return ""
	}
	s.failure = save
	return fmt.Sprintf("g.Try(func() {\nif %s == nil { return }\n%s})\n", v, s.callAndObserve(sig, call, od+1, "()"))
}

// callExpr builds `pre-statements` + call expression for a function value/selector `fn`
type builtCall struct {
	pre  string
	call string
}

func (s *synth) callExpr(sig *types.Signature, fn string, _ []string) (builtCall, bool) {
	var pre strings.Builder
	var args []string
	for i := 0; i < sig.Params().Len(); i++ {
		pt := sig.Params().At(i).Type()
		a := s.tmp("a")
		if sl, ok := types.Unalias(pt).Underlying().(*types.Slice); ok && sig.Params().At(i).Name() == "buf" && !(sig.Variadic() && i == sig.Params().Len()-1) {
			// Go's AppendXxx(buf, …) convention: the callee extends the caller's buffer IN PLACE and the caller
			// gives up the old header. Such a parameter receives a private buffer, never a shared live slice.
			s.appendConv++
			fmt.Fprintf(&pre, "%s := %s(OwnedBuf(g, %s))\n", a, parenType(s.ts(pt)), s.thunk(sl.Elem(), 0))
			args = append(args, a)
			continue
		}
		fmt.Fprintf(&pre, "%s := %s\n", a, s.expr(pt, 0))
		if sig.Variadic() && i == sig.Params().Len()-1 {
			args = append(args, a+"...")
		} else {
			args = append(args, a)
		}
	}
	if s.failure != "" {
		return builtCall{}, false
	}
	return builtCall{pre: pre.String(), call: fn + "(" + strings.Join(args, ", ") + ")"}, true
}

func (s *synth) callAndObserve(sig *types.Signature, bc builtCall, od int, label string) string {
	var b strings.Builder
	b.WriteString(bc.pre)
	n := sig.Results().Len()
	if n == 0 {
		fmt.Fprintf(&b, "g.Begin(%q)\n%s\ng.End()\n", label, bc.call)
		return b.String()
	}
	rs := make([]string, n)
	for i := range rs {
		rs[i] = s.tmp("r")
	}
	fmt.Fprintf(&b, "g.Begin(%q)\n%s := %s\ng.End()\n", label, strings.Join(rs, ", "), bc.call)
	for i := range rs {
		o := s.observe(sig.Results().At(i).Type(), rs[i], od)
		if !strings.Contains(o, rs[i]) {
			o += "_ = " + rs[i] + "\n"
		}
		b.WriteString(o)
	}
	return b.String()
}

// observeMethods: the result is an instance (interface) or an object with methods — call its exported
// methods with pool arguments and observe what they return
func (s *synth) observeMethods(t types.Type, v string, od int, isIface bool) string {
	// objects (builders …) are exercised only when they are the direct result of the entry; an instance type is
	// not re-exercised below itself (Ord.Reversed() returns an Ord again)
	if !isIface && od > 0 {
		return ""
	}
	if n, ok := originOf(t).(*types.Named); ok && !isIface && n.Obj().Exported() {
		// the methods of an exported type are enumerated entries of their own
		return ""
	}
	key := types.TypeString(originOf(t), nil)
	for _, k := range s.stack {
		if k == key {
			return ""
		}
	}
	s.stack = append(s.stack, key)
	defer func() { s.stack = s.stack[:len(s.stack)-1] }()
	ms := types.NewMethodSet(t)
	var names []string
	for i := 0; i < ms.Len(); i++ {
		if f := ms.At(i).Obj().(*types.Func); f.Exported() {
			names = append(names, f.Name())
		}
	}
	sort.Strings(names)
	if len(names) > 14 {
		names = names[:14]
		s.partial = true
	}
	var b strings.Builder
	if isIface {
		fmt.Fprintf(&b, "if %s != nil {\n", v)
	}
	for _, nm := range names {
		sel := ms.Lookup(nil, nm)
		if sel == nil {
			for i := 0; i < ms.Len(); i++ {
				if ms.At(i).Obj().Name() == nm {
					sel = ms.At(i)
				}
			}
		}
		sig, ok := sel.Type().(*types.Signature)
		if !ok {
			continue
		}
		save := s.failure
		s.failure = ""
		bc, ok := s.callExpr(sig, v+"."+nm, nil)
		s.failure = save
		if !ok {
			s.partial = true
			continue
		}
		fmt.Fprintf(&b, "g.Try(func() {\n%s})\n", s.callAndObserve(sig, bc, od+1, nm))
	}
	if isIface {
		b.WriteString("}\n")
	}
	return b.String()
}
