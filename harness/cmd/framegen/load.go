package main

// Loading and type-checking the library's packages from the CURRENT sources of the repository
// (go/parser + go/types only; the standard library is type-checked from GOROOT source).

import (
	"fmt"
	"go/ast"
	"go/build"
	"go/importer"
	"go/parser"
	"go/token"
	"go/types"
	"os"
	"path/filepath"
	"sort"
	"strings"
)

const modPath = "github.com/csgura/fp"

type loader struct {
	repo  string
	fset  *token.FileSet
	std   types.Importer
	pkgs  map[string]*types.Package
	files map[string][]*ast.File
	infos map[string]*types.Info
	errs  []string
}

func newLoader(repo string) *loader {
	fset := token.NewFileSet()
	return &loader{repo: repo, fset: fset, std: importer.ForCompiler(fset, "source", nil),
		pkgs: map[string]*types.Package{}, files: map[string][]*ast.File{}, infos: map[string]*types.Info{}}
}

func (l *loader) Import(path string) (*types.Package, error) {
	if path == modPath || strings.HasPrefix(path, modPath+"/") {
		return l.load(path)
	}
	return l.std.Import(path)
}

func (l *loader) dirOf(path string) string {
	return filepath.Join(l.repo, strings.TrimPrefix(strings.TrimPrefix(path, modPath), "/"))
}

// parseDir parses the non-test files of a directory that match the default build constraints (the library as
// shipped: the instrumentation hooks behind the build tag `verif` are not part of the enumerated API)
func (l *loader) parseDir(dir string) ([]*ast.File, string, error) {
	ctx := build.Default
	ents, err := os.ReadDir(dir)
	if err != nil {
		return nil, "", err
	}
	var files []*ast.File
	name := ""
	for _, e := range ents {
		n := e.Name()
		if e.IsDir() || !strings.HasSuffix(n, ".go") || strings.HasSuffix(n, "_test.go") {
			continue
		}
		if ok, _ := ctx.MatchFile(dir, n); !ok {
			continue
		}
		f, err := parser.ParseFile(l.fset, filepath.Join(dir, n), nil, parser.ParseComments)
		if err != nil {
			return nil, "", err
		}
		if name == "" {
			name = f.Name.Name
		}
		if f.Name.Name != name {
			continue
		}
		files = append(files, f)
	}
	return files, name, nil
}

func (l *loader) load(path string) (*types.Package, error) {
	if p, ok := l.pkgs[path]; ok {
		if p == nil {
			return nil, fmt.Errorf("import cycle through %s", path)
		}
		return p, nil
	}
	l.pkgs[path] = nil
	files, _, err := l.parseDir(l.dirOf(path))
	if err != nil {
		return nil, err
	}
	if len(files) == 0 {
		return nil, fmt.Errorf("no Go files in %s", path)
	}
	info := &types.Info{Defs: map[*ast.Ident]types.Object{}}
	conf := types.Config{Importer: l, Error: func(err error) { l.errs = append(l.errs, err.Error()) }}
	p, _ := conf.Check(path, l.fset, files, info)
	l.pkgs[path] = p
	l.files[path] = files
	l.infos[path] = info
	return p, nil
}

// libraryDirs lists every directory of the repository holding a non-test Go package, as import paths
func libraryDirs(repo string) []string {
	var out []string
	filepath.WalkDir(repo, func(p string, d os.DirEntry, err error) error {
		if err != nil {
			return nil
		}
		if d.IsDir() {
			if n := d.Name(); p != repo && (strings.HasPrefix(n, ".") || strings.HasPrefix(n, "_") || n == "testdata") {
				return filepath.SkipDir
			}
			return nil
		}
		if strings.HasSuffix(p, ".go") && !strings.HasSuffix(p, "_test.go") {
			rel, _ := filepath.Rel(repo, filepath.Dir(p))
			ip := modPath
			if rel != "." {
				ip += "/" + filepath.ToSlash(rel)
			}
			if len(out) == 0 || out[len(out)-1] != ip {
				for _, o := range out {
					if o == ip {
						return nil
					}
				}
				out = append(out, ip)
			}
		}
		return nil
	})
	sort.Strings(out)
	return out
}
