// fut2lean: go/ast → Lean translator (Tie A) for the DERIVED future combinators of future/future_op.go and
// future/func_gen.go.  Usage: fut2lean <repo> <out.lean>   (prints a JSON summary on stdout).
//
// Reading (Model/Future.lean, Model/FutureChain.lean): the model is untyped (`Val`); a Go expression of type
// fp.Future[X] is an FExpr construction program; a PARAMETER of type fp.Future[X] is a handle (`Nat`, used as `.ref p`)
// unless it is used exactly once and is the first thing the body builds ("head" parameter: then any FExpr may stand
// there, `build (.flatMap e k)` builds `e` first exactly as Go evaluates the argument first).  A callback is a Lean
// function whose FIRST argument is the executor (`Ex`) of the task it runs in; `ctx...` passed on = `c`, not passed
// on = `.d`, synchronous in the caller = the caller's `cur`.  A plain user callback returns `W Val` (value + log); a call
// of one in head position is hoisted: `let (r, evs) := f cur v; .logged evs (...)`.  A type parameter instantiated with
// a Future (LiftM: Map(ta, fa)) gives a VARIANT of the callee (`Map_F`) in which `Successful(x)` is `.successfulOf x`.
// Everything outside the fragment is reported `untranslatable` with a reason; nothing is skipped silently.
package main

import (
	"encoding/json"
	"fmt"
	"go/ast"
	"go/parser"
	"go/token"
	"go/types"
	"os"
	"path/filepath"
	"sort"
	"strings"
)

type Kind struct {
	K      string // val fut fn try opt futs fnval
	Params []Kind
	Res    *Kind
}

type binding struct {
	kind Kind
	head bool // fut only: FExpr-typed
	lean string
}

type env map[string]binding

type param struct {
	name string
	typ  ast.Expr
}

type fnInfo struct {
	name    string
	decl    *ast.FuncDecl
	file    string
	tparams map[string]bool
	p1, p2  []param
	ctx     string // name of the variadic executor parameter ("" = none)
	staged  bool
	res     ast.Expr // type of the final result
	body    ast.Expr
	lets    map[string]ast.Expr
}

type variant struct {
	leanName string
	text     string
	kinds1   []Kind
	heads1   []bool
	kinds2   []Kind
	heads2   []bool
	resKind  Kind
	usesApp  bool
	err      error
}

var fns = map[string]*fnInfo{}
var variants = map[string]*variant{}
var order []string
var inProgress = map[string]bool{}

var primitives = map[string]bool{}

func typeStr(e ast.Expr) string { return types.ExprString(e) }

func unparen(s string) string {
	if strings.HasPrefix(s, "(") && strings.HasSuffix(s, ")") {
		return s[1 : len(s)-1]
	}
	return s
}

func kindOfType(t ast.Expr, fut map[string]bool) Kind {
	switch x := t.(type) {
	case *ast.Ident:
		if fut[x.Name] {
			return Kind{K: "fut"}
		}
		return Kind{K: "val"}
	case *ast.IndexExpr:
		return kindOfGeneric(typeStr(x.X), []ast.Expr{x.Index}, fut)
	case *ast.IndexListExpr:
		return kindOfGeneric(typeStr(x.X), x.Indices, fut)
	case *ast.ArrayType:
		if kindOfType(x.Elt, fut).K == "fut" {
			return Kind{K: "futs"}
		}
		return Kind{K: "val"}
	case *ast.FuncType:
		k := Kind{K: "fn"}
		if x.Params != nil {
			for _, f := range x.Params.List {
				n := len(f.Names)
				if n == 0 {
					n = 1
				}
				for i := 0; i < n; i++ {
					k.Params = append(k.Params, kindOfType(f.Type, fut))
				}
			}
		}
		r := Kind{K: "val"}
		if x.Results != nil && len(x.Results.List) == 1 {
			r = kindOfType(x.Results.List[0].Type, fut)
			if typeStr(x.Results.List[0].Type) == "error" {
				r = Kind{K: "try"}
			}
		} else if x.Results != nil && len(x.Results.List) == 2 {
			r = Kind{K: "try"} // (R, error) read as a Try, as Model/FutureChain.lean: funcN does
		}
		k.Res = &r
		return k
	}
	return Kind{K: "val"}
}

func kindOfGeneric(base string, args []ast.Expr, fut map[string]bool) Kind {
	switch base {
	case "fp.Future":
		return Kind{K: "fut"}
	case "fp.Try":
		return Kind{K: "try"}
	case "fp.Option":
		return Kind{K: "opt"}
	case "fp.Seq", "fp.Iterator":
		if len(args) == 1 && kindOfType(args[0], fut).K == "fut" {
			return Kind{K: "futs"}
		}
		return Kind{K: "val"}
	case "fp.Func1", "fp.Func2", "fp.Func3", "fp.Func4", "fp.Func5", "fp.Func6", "fp.Func7", "fp.Func8", "fp.Func9":
		last := kindOfType(args[len(args)-1], fut)
		if last.K == "fut" || last.K == "fn" {
			k := Kind{K: "fn", Res: &last}
			for _, a := range args[:len(args)-1] {
				k.Params = append(k.Params, kindOfType(a, fut))
			}
			return k
		}
		return Kind{K: "fnval"}
	}
	return Kind{K: "val"}
}

func leanResType(k Kind) string {
	switch k.K {
	case "val", "fnval":
		return "W Val"
	case "try":
		return "W (Try Val)"
	case "opt":
		return "W (Option Val)"
	case "fut":
		return "FExpr"
	case "fn":
		return leanType(k, false)
	}
	return "W Val"
}

func leanType(k Kind, head bool) string {
	switch k.K {
	case "val", "fnval":
		return "Val"
	case "try":
		return "Try Val"
	case "opt":
		return "Option Val"
	case "futs":
		return "List Nat"
	case "fut":
		if head {
			return "FExpr"
		}
		return "Nat"
	case "fn":
		s := "Ex"
		for _, p := range k.Params {
			s += " → " + leanType(p, false)
		}
		return "(" + s + " → " + leanResType(*k.Res) + ")"
	}
	return "Val"
}

// ---------------------------------------------------------------------------------------------------------

type tr struct {
	f       *fnInfo
	fut     map[string]bool
	pre     []string // hoisted effects of the current body
	cnt     int
	usesApp bool
}

type terr struct{ msg string }

func (e terr) Error() string { return e.msg }

func fail(format string, a ...any) { panic(terr{fmt.Sprintf(format, a...)}) }

func callName(e ast.Expr) string {
	switch x := e.(type) {
	case *ast.Ident:
		return x.Name
	case *ast.IndexExpr:
		return callName(x.X)
	case *ast.IndexListExpr:
		return callName(x.X)
	case *ast.SelectorExpr:
		return typeStr(x.X) + "." + x.Sel.Name
	}
	return ""
}

// splits `args..., ctx...` : returns the ordinary arguments and whether the executor was passed on
func (t *tr) splitCtx(call *ast.CallExpr) ([]ast.Expr, bool) {
	if call.Ellipsis.IsValid() && len(call.Args) > 0 {
		last := call.Args[len(call.Args)-1]
		if id, ok := last.(*ast.Ident); ok && id.Name == t.f.ctx {
			return call.Args[:len(call.Args)-1], true
		}
		fail("variadic argument that is not the executor parameter: %s", typeStr(last))
	}
	return call.Args, false
}

func exOf(passed bool) string {
	if passed {
		return "cx"
	}
	return ".d"
}

func (t *tr) fresh(p string) string { t.cnt++; return fmt.Sprintf("%s%d", p, t.cnt) }

// kind of an expression (no code)
func (t *tr) kindOf(e ast.Expr, ev env) Kind {
	switch x := e.(type) {
	case *ast.Ident:
		if b, ok := ev[x.Name]; ok {
			return b.kind
		}
		if fi, ok := fns[x.Name]; ok {
			return t.sigKind(fi)
		}
		if primitives[x.Name] {
			return Kind{K: "fn", Res: &Kind{K: "fut"}}
		}
	case *ast.ParenExpr:
		return t.kindOf(x.X, ev)
	case *ast.FuncLit:
		return kindOfType(x.Type, t.fut)
	case *ast.CallExpr:
		n := callName(x.Fun)
		switch n {
		case "Successful", "Failed", "FromTry", "FromOption", "FlatMap", "Apply", "Apply2", "Transform", "TransformWith",
			"iterator.Fold", "iterator.FoldFuture":
			return Kind{K: "fut"}
		}
		if b, ok := ev[n]; ok && b.kind.K == "fn" {
			return *b.kind.Res
		}
		if inner, ok := x.Fun.(*ast.CallExpr); ok {
			k := t.kindOf(inner, ev)
			if k.K == "fn" {
				return *k.Res
			}
		}
		if fi, ok := fns[n]; ok {
			v := t.calleeVariant(fi, x, ev)
			if fi.staged {
				return Kind{K: "fn", Params: v.kinds2, Res: &v.resKind}
			}
			return v.resKind
		}
	}
	return Kind{K: "val"}
}

func (t *tr) sigKind(fi *fnInfo) Kind {
	k := Kind{K: "fn"}
	for _, p := range fi.p1 {
		k.Params = append(k.Params, kindOfType(p.typ, nil))
	}
	r := kindOfType(fi.res, nil)
	k.Res = &r
	return k
}

// which variant of callee `fi` a call needs: a type parameter of the callee is "fut" when a callback argument whose
// declared result type is that bare type parameter returns a future here
func (t *tr) calleeVariant(fi *fnInfo, call *ast.CallExpr, ev env) *variant {
	args := call.Args
	if call.Ellipsis.IsValid() {
		args = args[:len(args)-1]
	}
	fut := map[string]bool{}
	for i, a := range args {
		if i >= len(fi.p1) {
			break
		}
		ft, ok := fi.p1[i].typ.(*ast.FuncType)
		if !ok || ft.Results == nil || len(ft.Results.List) != 1 {
			continue
		}
		id, ok := ft.Results.List[0].Type.(*ast.Ident)
		if !ok || !fi.tparams[id.Name] {
			continue
		}
		ak := t.kindOf(a, ev)
		if ak.K == "fn" && ak.Res.K == "fut" {
			fut[id.Name] = true
		}
	}
	return getVariant(fi, fut)
}

func (t *tr) flushPre(body string) string {
	for i := len(t.pre) - 1; i >= 0; i-- {
		body = t.pre[i] + "(" + body + ")"
	}
	t.pre = nil
	return body
}

// a plain (non-future) expression; effects are hoisted (only when `headOK`)
func (t *tr) val(e ast.Expr, ev env, cur string, headOK bool) string {
	switch x := e.(type) {
	case *ast.ParenExpr:
		return t.val(x.X, ev, cur, headOK)
	case *ast.Ident:
		if b, ok := ev[x.Name]; ok && b.kind.K != "fn" && b.kind.K != "fut" {
			return b.lean
		}
	case *ast.CompositeLit:
		if typeStr(x.Type) == "fp.Unit" && len(x.Elts) == 0 {
			return "Val.unit"
		}
	case *ast.CallExpr:
		n := callName(x.Fun)
		switch n {
		case "seq.Empty", "hlist.Empty":
			return "(Val.seq [])"
		case "product.Tuple2", "product.Tuple3", "as.Tuple2", "as.Tuple3":
			parts := []string{}
			for _, a := range x.Args {
				parts = append(parts, t.val(a, ev, cur, false))
			}
			return "(Val.tup [" + strings.Join(parts, ", ") + "])"
		case "fp.IteratorOfSeq", "iterator.FromSeq", "iterator.FromSlice":
			return t.val(x.Args[0], ev, cur, headOK)
		}
		if b, ok := ev[n]; ok && b.kind.K == "fn" && b.kind.Res.K != "fut" && b.kind.Res.K != "fn" {
			if !headOK {
				fail("user callback %s called where something has already been built (effect order)", n)
			}
			s := b.lean + " " + cur
			for _, a := range x.Args {
				s += " " + t.val(a, ev, cur, false)
			}
			r, evs := t.fresh("r"), t.fresh("evs")
			t.pre = append(t.pre, fmt.Sprintf("let (%s, %s) := %s; FExpr.logged %s ", r, evs, s, evs))
			return r
		}
	}
	fail("plain expression outside the fragment: %s", typeStr(e))
	return ""
}

// the body of a plain callback: a W-valued term
func (t *tr) wbody(e ast.Expr, ev env, cur string) string {
	if c, ok := e.(*ast.CallExpr); ok {
		n := callName(c.Fun)
		if b, ok := ev[n]; ok && b.kind.K == "fn" && b.kind.Res.K != "fut" && b.kind.Res.K != "fn" {
			s := b.lean + " " + cur
			for _, a := range c.Args {
				s += " " + t.val(a, ev, cur, false)
			}
			return s
		}
		// iterator.Map(iterator.FromSeq(a), f).ToSeq()
		if sel, ok := c.Fun.(*ast.SelectorExpr); ok && sel.Sel.Name == "ToSeq" && len(c.Args) == 0 {
			if m, ok := sel.X.(*ast.CallExpr); ok && callName(m.Fun) == "iterator.Map" && len(m.Args) == 2 {
				return fmt.Sprintf("mapSeqW (%s) %s", t.fn(m.Args[1], ev, cur)+" "+cur, t.val(m.Args[0], ev, cur, false))
			}
		}
	}
	if t.kindOf(e, ev).K == "fut" {
		fail("future-valued body of a plain callback: %s", typeStr(e))
	}
	return "(" + t.val(e, ev, cur, false) + ", [])"
}

// a function value in the `Ex → args → res` form
func (t *tr) fn(e ast.Expr, ev env, cur string) string {
	switch x := e.(type) {
	case *ast.ParenExpr:
		return t.fn(x.X, ev, cur)
	case *ast.Ident:
		if b, ok := ev[x.Name]; ok {
			if b.kind.K == "fn" {
				return b.lean
			}
			if b.kind.K == "fnval" {
				t.usesApp = true
				return "(fun cur x => app cur " + b.lean + " x)"
			}
		}
	case *ast.FuncLit:
		return t.lit(x, ev, "")
	case *ast.IndexExpr, *ast.IndexListExpr, *ast.SelectorExpr:
		switch callName(e) {
		case "product.Tuple2":
			return "(fun _ x y => (Val.tup [x, y], []))"
		case "as.Tuple3", "product.Tuple3":
			return "(fun _ x y z => (Val.tup [x, y, z], []))"
		case "fp.Seq[T].Add":
			return "(fun _ xs x => (snocV xs x, []))"
		case "fp.Seq[T].Widen", "fp.Seq[U].Widen", "iterator.FromSeq":
			return "(fun _ l => (l, []))"
		}
		if s, ok := e.(*ast.SelectorExpr); ok && s.Sel.Name == "Add" {
			if id, ok := s.X.(*ast.Ident); ok {
				if b, ok := ev[id.Name]; ok && b.kind.K == "val" {
					return "(fun _ x => (snocV " + b.lean + " x, []))"
				}
			}
		}
	case *ast.CallExpr:
		n := callName(x.Fun)
		if n == "fp.Const" && len(x.Args) == 1 {
			return "(fun _ _ => (" + t.val(x.Args[0], ev, cur, false) + ", []))"
		}
		if n == "fp.Compose" && len(x.Args) == 2 {
			gk := t.kindOf(x.Args[0], ev)
			if gk.K != "fn" || len(gk.Params) != 1 {
				fail("fp.Compose: first operand is not a unary function: %s", typeStr(x.Args[0]))
			}
			// func(x) { return h(g(x)) }
			ev2 := env{}
			for k, v := range ev {
				ev2[k] = v
			}
			ev2["x𝒸"] = binding{kind: gk.Params[0], lean: "x"}
			ev2["g𝒸"] = binding{kind: gk, lean: t.fn(x.Args[0], ev, cur)}
			inner := &ast.CallExpr{Fun: ast.NewIdent("g𝒸"), Args: []ast.Expr{ast.NewIdent("x𝒸")}}
			outer := &ast.CallExpr{Fun: x.Args[1], Args: []ast.Expr{inner}}
			save := t.pre
			t.pre = nil
			body := t.futE(outer, ev2, "cur", true)
			body = t.flushPre(body)
			t.pre = save
			return "(fun cur x => " + body + ")"
		}
		if fi, ok := fns[n]; ok {
			if v := t.calleeVariant(fi, x, ev); fi.staged || (v.err == nil && v.resKind.K == "fn") {
				return "(" + t.callTranslated(fi, x, ev, cur, false) + ")"
			}
		}
	}
	fail("function value outside the fragment: %s", typeStr(e))
	return ""
}

// a function literal; exFixed != "" : the literal is handed to a primitive that runs it on that executor (no Ex binder)
func (t *tr) lit(x *ast.FuncLit, ev env, exFixed string) string {
	ev2 := env{}
	for k, v := range ev {
		ev2[k] = v
	}
	names := []string{}
	if x.Type.Params != nil {
		for _, f := range x.Type.Params.List {
			k := kindOfType(f.Type, t.fut)
			if len(f.Names) == 0 {
				names = append(names, "_")
			}
			for _, nm := range f.Names {
				ev2[nm.Name] = binding{kind: k, lean: nm.Name}
				if k.K == "fut" {
					ev2[nm.Name] = binding{kind: k, lean: "(unhandle " + nm.Name + ")"}
				}
				names = append(names, nm.Name)
			}
		}
	}
	lk := kindOfType(x.Type, t.fut)
	cur := "cur"
	if exFixed != "" {
		cur = exFixed
	}
	if len(x.Body.List) != 1 {
		fail("function literal with more than one statement")
	}
	ret, ok := x.Body.List[0].(*ast.ReturnStmt)
	if !ok || len(ret.Results) != 1 {
		fail("function literal whose body is not `return e`")
	}
	var body string
	save := t.pre
	t.pre = nil
	switch lk.Res.K {
	case "fut":
		body = t.futE(ret.Results[0], ev2, cur, true)
		body = t.flushPre(body)
	case "fn":
		fail("function literal returning a function")
	default:
		body = t.wbody(ret.Results[0], ev2, cur)
		if len(t.pre) != 0 {
			fail("hoisted effect inside a plain callback")
		}
	}
	t.pre = save
	hd := "fun"
	if exFixed == "" {
		hd += " cur"
	}
	if len(names) == 0 {
		if exFixed != "" {
			return "(fun (_ : Unit) => " + body + ")"
		}
		return "(" + hd + " => " + body + ")"
	}
	return "(" + hd + " " + strings.Join(names, " ") + " => " + body + ")"
}

// a callback handed to a primitive that runs it on executor `ex`: a Lean function WITHOUT the Ex binder
func (t *tr) callback(e ast.Expr, ev env, cur, ex string) string {
	if l, ok := e.(*ast.FuncLit); ok {
		return t.lit(l, ev, ex)
	}
	return "(" + t.fn(e, ev, cur) + " " + ex + ")"
}

// a future-valued expression → FExpr
func (t *tr) futE(e ast.Expr, ev env, cur string, headOK bool) string {
	switch x := e.(type) {
	case *ast.ParenExpr:
		return t.futE(x.X, ev, cur, headOK)
	case *ast.Ident:
		if b, ok := ev[x.Name]; ok && b.kind.K == "fut" {
			if b.head {
				return b.lean
			}
			return "(FExpr.ref " + b.lean + ")"
		}
		if le, ok := t.f.lets[x.Name]; ok {
			return t.futE(le, ev, cur, headOK)
		}
	case *ast.CallExpr:
		n := callName(x.Fun)
		switch n {
		case "Successful":
			if t.kindOf(x.Args[0], ev).K == "fut" {
				return "(FExpr.successfulOf " + t.futE(x.Args[0], ev, cur, headOK) + ")"
			}
			return "(FExpr.successful " + t.val(x.Args[0], ev, cur, headOK) + ")"
		case "Failed":
			return "(FExpr.failed " + t.val(x.Args[0], ev, cur, headOK) + ")"
		case "FromTry":
			return "(fromTry " + t.val(x.Args[0], ev, cur, headOK) + ")"
		case "FromOption":
			return "(fromOption " + t.val(x.Args[0], ev, cur, headOK) + ")"
		case "FlatMap":
			args, passed := t.splitCtx(x)
			if len(args) != 2 {
				fail("FlatMap with %d arguments", len(args))
			}
			src := t.futE(args[0], ev, cur, headOK)
			return "(FExpr.flatMap " + src + " " + t.callback(args[1], ev, cur, exOf(passed)) + ")"
		case "Apply2":
			args, passed := t.splitCtx(x)
			return "(FExpr.apply " + t.thunk(args[0], ev, cur, exOf(passed)) + ")"
		case "iterator.FoldFuture":
			args, passed := t.splitCtx(x)
			return fmt.Sprintf("(foldFuture %s %s %s)", t.val(args[0], ev, cur, false), t.val(args[1], ev, cur, false),
				t.callback(args[2], ev, cur, exOf(passed)))
		case "iterator.Fold":
			// Fold(futures, zero, F): F is called synchronously, acc first
			ev2 := env{}
			for k, v := range ev {
				ev2[k] = v
			}
			ev2["acc𝒸"] = binding{kind: Kind{K: "fut"}, head: true, lean: "acc"}
			ev2["p𝒸"] = binding{kind: Kind{K: "fut"}, lean: "p"}
			step := t.futE(&ast.CallExpr{Fun: x.Args[2], Args: []ast.Expr{ast.NewIdent("acc𝒸"), ast.NewIdent("p𝒸")}}, ev2, cur, true)
			return fmt.Sprintf("(foldFuts (fun acc p => %s) %s %s)", step, t.futsE(x.Args[0], ev), t.futE(x.Args[1], ev, cur, headOK))
		}
		if b, ok := ev[n]; ok && b.kind.K == "fn" && b.kind.Res.K == "fut" {
			s := b.lean + " " + cur
			for _, a := range x.Args {
				s += " " + t.val(a, ev, cur, false)
			}
			return "(" + s + ")"
		}
		if inner, ok := x.Fun.(*ast.CallExpr); ok { // staged call G(..)(..)
			if fi, ok := fns[callName(inner.Fun)]; ok && fi.staged {
				v := t.calleeVariant(fi, inner, ev)
				s := t.callTranslated(fi, inner, ev, cur, false) + " " + cur
				s += t.argList(x.Args, v.kinds2, v.heads2, ev, cur, headOK, fi.name)
				return "(" + s + ")"
			}
		}
		if fi, ok := fns[n]; ok && !fi.staged {
			return "(" + t.callTranslated(fi, x, ev, cur, headOK) + ")"
		}
	}
	fail("future expression outside the fragment: %s", typeStr(e))
	return ""
}

func (t *tr) futsE(e ast.Expr, ev env) string {
	switch x := e.(type) {
	case *ast.Ident:
		if b, ok := ev[x.Name]; ok && b.kind.K == "futs" {
			return b.lean
		}
	case *ast.CallExpr:
		if callName(x.Fun) == "iterator.FromSlice" || callName(x.Fun) == "iterator.FromSeq" {
			return t.futsE(x.Args[0], ev)
		}
	}
	fail("list of futures outside the fragment: %s", typeStr(e))
	return ""
}

// func() (R, error) handed to Apply2
func (t *tr) thunk(e ast.Expr, ev env, cur, ex string) string {
	if id, ok := e.(*ast.Ident); ok {
		if b, ok := ev[id.Name]; ok && b.kind.K == "fn" && len(b.kind.Params) == 0 {
			return "(fun _ => " + b.lean + " " + ex + ")"
		}
	}
	if l, ok := e.(*ast.FuncLit); ok {
		stmts := l.Body.List
		// `err := f(args); return fp.Unit{}, err`  (UnitN)  /  `return f(args)`  (FuncN)
		var call ast.Expr
		if len(stmts) == 1 {
			if r, ok := stmts[0].(*ast.ReturnStmt); ok && len(r.Results) == 1 {
				call = r.Results[0]
			}
		} else if len(stmts) == 2 {
			as, ok1 := stmts[0].(*ast.AssignStmt)
			r, ok2 := stmts[1].(*ast.ReturnStmt)
			if ok1 && ok2 && len(as.Lhs) == 1 && len(as.Rhs) == 1 && len(r.Results) == 2 &&
				typeStr(r.Results[0]) == "fp.Unit{}" && typeStr(r.Results[1]) == typeStr(as.Lhs[0]) {
				call = as.Rhs[0]
			}
		}
		if c, ok := call.(*ast.CallExpr); ok {
			if b, ok := ev[callName(c.Fun)]; ok && b.kind.K == "fn" && b.kind.Res.K == "try" {
				s := b.lean + " " + ex
				for _, a := range c.Args {
					s += " " + t.val(a, ev, cur, false)
				}
				return "(fun _ => " + s + ")"
			}
		}
	}
	fail("Apply2 operand outside the fragment: %s", typeStr(e))
	return ""
}

func (t *tr) argList(args []ast.Expr, kinds []Kind, heads []bool, ev env, cur string, headOK bool, callee string) string {
	if len(args) != len(kinds) {
		fail("call of %s with %d arguments, expected %d", callee, len(args), len(kinds))
	}
	s := ""
	built := false
	for i, a := range args {
		switch kinds[i].K {
		case "fut":
			if heads[i] {
				if built {
					fail("call of %s: two constructions among the arguments (needs a let-bound handle)", callee)
				}
				s += " " + t.futE(a, ev, cur, headOK)
				if _, isId := a.(*ast.Ident); !isId {
					built = true
				}
			} else {
				id, ok := a.(*ast.Ident)
				if !ok {
					fail("call of %s: a construction (%s) where a handle is captured by a later task (needs a let-bound handle: Net-level program)", callee, typeStr(a))
				}
				b, ok := ev[id.Name]
				if !ok || b.kind.K != "fut" || b.head {
					fail("call of %s: argument %s is not a handle", callee, id.Name)
				}
				s += " " + b.lean
			}
		case "fn":
			s += " " + t.fn(a, ev, cur)
		case "futs":
			s += " " + t.futsE(a, ev)
		default:
			s += " " + t.val(a, ev, cur, false)
		}
	}
	return s
}

func (t *tr) callTranslated(fi *fnInfo, call *ast.CallExpr, ev env, cur string, headOK bool) string {
	args, passed := call.Args, false
	if call.Ellipsis.IsValid() {
		args, passed = t.splitCtx(call)
	}
	v := t.calleeVariant(fi, call, ev)
	if v.err != nil {
		fail("calls %s, which is untranslatable", fi.name)
	}
	s := v.leanName
	if v.usesApp {
		t.usesApp = true
		s += " app"
	}
	s += t.argList(args, v.kinds1, v.heads1, ev, cur, headOK, fi.name)
	if fi.ctx != "" {
		s += " " + exOf(passed)
	}
	return s + " " + cur
}

// the parameter the body builds first (or "")
func (t *tr) headVar(e ast.Expr, ev env) string {
	switch x := e.(type) {
	case *ast.ParenExpr:
		return t.headVar(x.X, ev)
	case *ast.Ident:
		if le, ok := t.f.lets[x.Name]; ok {
			return t.headVar(le, ev)
		}
		return x.Name
	case *ast.CallExpr:
		n := callName(x.Fun)
		if n == "FlatMap" {
			return t.headVar(x.Args[0], ev)
		}
		if n == "iterator.Fold" {
			return ""
		}
		var fi *fnInfo
		var v *variant
		args := x.Args
		if inner, ok := x.Fun.(*ast.CallExpr); ok {
			if g, ok := fns[callName(inner.Fun)]; ok && g.staged {
				v = t.calleeVariant(g, inner, ev)
				if len(v.heads2) > 0 && v.heads2[0] && v.err == nil {
					return t.headVar(args[0], ev)
				}
			}
			return ""
		}
		fi = fns[n]
		if fi != nil && !fi.staged {
			v = t.calleeVariant(fi, x, ev)
			if v.err == nil && len(v.heads1) > 0 && v.heads1[0] {
				return t.headVar(args[0], ev)
			}
		}
	}
	return ""
}

func countUses(n ast.Node, name string) (total, underLit int) {
	var walk func(n ast.Node, depth int)
	walk = func(n ast.Node, depth int) {
		ast.Inspect(n, func(m ast.Node) bool {
			if l, ok := m.(*ast.FuncLit); ok && m != n {
				walk(l.Body, depth+1)
				return false
			}
			if id, ok := m.(*ast.Ident); ok && id.Name == name {
				total++
				if depth > 0 {
					underLit++
				}
			}
			return true
		})
	}
	walk(n, 0)
	return
}

func variantKey(name string, fut map[string]bool) string {
	ks := []string{}
	for k := range fut {
		ks = append(ks, k)
	}
	sort.Strings(ks)
	return name + "/" + strings.Join(ks, ",")
}

func getVariant(fi *fnInfo, fut map[string]bool) *variant {
	key := variantKey(fi.name, fut)
	if v, ok := variants[key]; ok {
		return v
	}
	if inProgress[key] {
		return &variant{err: terr{"recursive"}}
	}
	inProgress[key] = true
	v := &variant{leanName: fi.name}
	if len(fut) > 0 {
		v.leanName += "_F"
	}
	func() {
		defer func() {
			if r := recover(); r != nil {
				if te, ok := r.(terr); ok {
					v.err = te
					return
				}
				panic(r)
			}
		}()
		translate(fi, fut, v)
	}()
	variants[key] = v
	delete(inProgress, key)
	if v.err == nil {
		order = append(order, key)
	}
	return v
}

func translate(fi *fnInfo, fut map[string]bool, v *variant) {
	if fi.body == nil {
		fail("body is not `[x := e;] return e` / `return func(..) { return e }`")
	}
	t := &tr{f: fi, fut: fut}
	ev := env{}
	for _, p := range fi.p1 {
		k := kindOfType(p.typ, fut)
		v.kinds1 = append(v.kinds1, k)
		ev[p.name] = binding{kind: k, lean: p.name}
	}
	for _, p := range fi.p2 {
		k := kindOfType(p.typ, fut)
		v.kinds2 = append(v.kinds2, k)
		ev[p.name] = binding{kind: k, lean: p.name}
	}
	v.resKind = kindOfType(fi.res, fut)
	// let-bound names must be used exactly once, outside any literal
	for nm := range fi.lets {
		tot, under := countUses(fi.body, nm)
		if tot != 1 || under != 0 {
			fail("`%s := …` is not used exactly once as a direct operand (evaluation order)", nm)
		}
	}
	hv := t.headVar(fi.body, ev)
	mark := func(ps []param, kinds []Kind) []bool {
		hs := make([]bool, len(ps))
		for i, p := range ps {
			if kinds[i].K == "fut" && p.name == hv {
				tot, under := countUses(fi.body, p.name)
				for _, le := range fi.lets {
					a, b := countUses(le, p.name)
					tot, under = tot+a, under+b
				}
				if tot == 1 && under == 0 {
					hs[i] = true
					b := ev[p.name]
					b.head = true
					ev[p.name] = b
				}
			}
		}
		return hs
	}
	v.heads1 = mark(fi.p1, v.kinds1)
	v.heads2 = mark(fi.p2, v.kinds2)
	cur := "cur"
	var body string
	switch v.resKind.K {
	case "fut":
		body = t.flushPre(t.futE(fi.body, ev, cur, true))
	case "fn":
		body = t.fn(fi.body, ev, cur)
	default:
		fail("result is neither a future nor a function returning one")
	}
	v.usesApp = t.usesApp
	var sb strings.Builder
	fmt.Fprintf(&sb, "/-- translation of `%s` (%s)", fi.name, fi.file)
	if len(fut) > 0 {
		ks := []string{}
		for k := range fut {
			ks = append(ks, k)
		}
		sort.Strings(ks)
		fmt.Fprintf(&sb, " with the type parameter(s) %s instantiated by a future", strings.Join(ks, ", "))
	}
	fmt.Fprintf(&sb, " -/\ndef %s", v.leanName)
	if v.usesApp {
		sb.WriteString(" (app : Ex → Val → Val → W Val)")
	}
	for i, p := range fi.p1 {
		fmt.Fprintf(&sb, " (%s : %s)", p.name, unparen(leanType(v.kinds1[i], v.heads1[i])))
	}
	if fi.ctx != "" {
		sb.WriteString(" (cx : Ex)")
	}
	if fi.staged {
		sb.WriteString(" (cur0 : Ex) (cur : Ex)")
		for i, p := range fi.p2 {
			fmt.Fprintf(&sb, " (%s : %s)", p.name, unparen(leanType(v.kinds2[i], v.heads2[i])))
		}
	} else {
		sb.WriteString(" (cur : Ex)")
	}
	fmt.Fprintf(&sb, " : %s :=\n  %s\n", leanResType(v.resKind), body)
	v.text = sb.String()
}

// ---------------------------------------------------------------------------------------------------------

func usesPromise(body *ast.BlockStmt) (newPromise, onComplete bool) {
	ast.Inspect(body, func(n ast.Node) bool {
		if c, ok := n.(*ast.CallExpr); ok {
			nm := callName(c.Fun)
			if nm == "promise.New" || nm == "fp.NewPromise" {
				newPromise = true
			}
			if s, ok := c.Fun.(*ast.SelectorExpr); ok && s.Sel.Name == "OnComplete" {
				onComplete = true
			}
		}
		return true
	})
	return
}

func params(fl *ast.FieldList) (ps []param, ctx string) {
	if fl == nil {
		return
	}
	for _, f := range fl.List {
		if el, ok := f.Type.(*ast.Ellipsis); ok {
			if typeStr(el.Elt) == "fp.Executor" && len(f.Names) == 1 {
				ctx = f.Names[0].Name
				continue
			}
		}
		if len(f.Names) == 0 {
			ps = append(ps, param{"_", f.Type})
		}
		for _, n := range f.Names {
			ps = append(ps, param{n.Name, f.Type})
		}
	}
	return
}

func analyse(fd *ast.FuncDecl, file string) *fnInfo {
	fi := &fnInfo{name: fd.Name.Name, decl: fd, file: file, tparams: map[string]bool{}, lets: map[string]ast.Expr{}}
	if fd.Type.TypeParams != nil {
		for _, f := range fd.Type.TypeParams.List {
			for _, n := range f.Names {
				fi.tparams[n.Name] = true
			}
		}
	}
	fi.p1, fi.ctx = params(fd.Type.Params)
	if fd.Type.Results == nil || len(fd.Type.Results.List) != 1 {
		return fi
	}
	fi.res = fd.Type.Results.List[0].Type
	stmts := fd.Body.List
	for len(stmts) > 1 {
		as, ok := stmts[0].(*ast.AssignStmt)
		if !ok || as.Tok != token.DEFINE || len(as.Lhs) != 1 || len(as.Rhs) != 1 {
			return fi
		}
		fi.lets[as.Lhs[0].(*ast.Ident).Name] = as.Rhs[0]
		stmts = stmts[1:]
	}
	ret, ok := stmts[0].(*ast.ReturnStmt)
	if !ok || len(ret.Results) != 1 {
		return fi
	}
	if l, ok := ret.Results[0].(*ast.FuncLit); ok && len(fi.lets) == 0 {
		if len(l.Body.List) == 1 {
			if r2, ok := l.Body.List[0].(*ast.ReturnStmt); ok && len(r2.Results) == 1 && l.Type.Results != nil && len(l.Type.Results.List) == 1 {
				var c2 string
				fi.p2, c2 = params(l.Type.Params)
				_ = c2
				fi.staged = true
				fi.res = l.Type.Results.List[0].Type
				fi.body = r2.Results[0]
				return fi
			}
		}
		return fi
	}
	fi.body = ret.Results[0]
	return fi
}

type result struct {
	Translated     []string          `json:"translated"`
	Variants       []string          `json:"variants"`
	Primitives     []string          `json:"primitives"`
	Methods        []string          `json:"methods"`
	Untranslatable map[string]string `json:"untranslatable"`
}

func main() {
	repo, out := os.Args[1], os.Args[2]
	fset := token.NewFileSet()
	type decl struct {
		fd   *ast.FuncDecl
		file string
	}
	var decls []decl
	for _, fn := range []string{"future/future_op.go", "future/func_gen.go"} {
		f, err := parser.ParseFile(fset, filepath.Join(repo, fn), nil, 0)
		if err != nil {
			fmt.Fprintln(os.Stderr, err)
			os.Exit(2)
		}
		for _, d := range f.Decls {
			if fd, ok := d.(*ast.FuncDecl); ok && fd.Body != nil {
				decls = append(decls, decl{fd, fn})
			}
		}
	}
	res := result{Untranslatable: map[string]string{}}
	var names []string
	class := map[string]string{}
	for _, d := range decls {
		name := d.fd.Name.Name
		if d.fd.Recv != nil {
			rt := typeStr(d.fd.Recv.List[0].Type)
			if i := strings.Index(rt, "["); i >= 0 {
				rt = rt[:i]
			}
			name = rt + "." + name
			res.Methods = append(res.Methods, name)
			class[name] = "method"
			names = append(names, name)
			continue
		}
		names = append(names, name)
		np, oc := usesPromise(d.fd.Body)
		if np {
			primitives[name] = true
			class[name] = "primitive"
			res.Primitives = append(res.Primitives, name)
			continue
		}
		if oc {
			class[name] = "untranslatable"
			res.Untranslatable[name] = "registers OnComplete without creating a promise (blocking / channel code)"
			continue
		}
		fns[name] = analyse(d.fd, d.file)
	}
	// FromTry / FromOption: a two-way branch over Successful / Failed; read as the model's fromTry / fromOption
	for _, n := range []string{"FromTry", "FromOption"} {
		if fi, ok := fns[n]; ok && fi.body == nil {
			delete(fns, n)
			primitives[n] = true
			class[n] = "primitive"
			res.Primitives = append(res.Primitives, n)
		}
	}
	for _, d := range decls {
		fi, ok := fns[d.fd.Name.Name]
		if !ok || d.fd.Recv != nil {
			continue
		}
		v := getVariant(fi, map[string]bool{})
		if v.err != nil {
			class[fi.name] = "untranslatable"
			res.Untranslatable[fi.name] = v.err.Error()
		} else {
			class[fi.name] = "translated"
			res.Translated = append(res.Translated, fi.name)
		}
	}
	var sb strings.Builder
	sb.WriteString("-- GENERATED by harness/cmd/fut2lean from the repository's future/future_op.go and future/func_gen.go; do not edit.\n")
	sb.WriteString("import FpVerif.Model.FutGenPrelude\nset_option linter.unusedVariables false\nnamespace FpVerif.Gen.FutGen\nopen FpVerif FpVerif.Fut FpVerif.FutGenPrelude\n\n")
	for _, key := range order {
		v := variants[key]
		sb.WriteString(v.text + "\n")
		if strings.HasSuffix(v.leanName, "_F") {
			res.Variants = append(res.Variants, v.leanName)
		}
	}
	sb.WriteString("/-- every function declaration found in the two files, with its class -/\ndef functions : List (String × String) := [\n")
	for i, n := range names {
		sep := ","
		if i == len(names)-1 {
			sep = ""
		}
		fmt.Fprintf(&sb, "  (%q, %q)%s\n", n, class[n], sep)
	}
	sb.WriteString("]\n\n/-- the functions outside the fragment, with the reason -/\ndef untranslatable : List (String × String) := [\n")
	var us []string
	for _, n := range names {
		if class[n] == "untranslatable" {
			us = append(us, fmt.Sprintf("  (%q, %q)", n, res.Untranslatable[n]))
		}
	}
	sb.WriteString(strings.Join(us, ",\n") + "\n]\n\n/-- the future-instantiated variants generated on demand -/\ndef variants : List String := [")
	for i, n := range res.Variants {
		if i > 0 {
			sb.WriteString(", ")
		}
		fmt.Fprintf(&sb, "%q", n)
	}
	sb.WriteString("]\n\nend FpVerif.Gen.FutGen\n")
	if err := os.WriteFile(out, []byte(sb.String()), 0o644); err != nil {
		fmt.Fprintln(os.Stderr, err)
		os.Exit(2)
	}
	js, _ := json.Marshal(res)
	fmt.Println(string(js))
}
