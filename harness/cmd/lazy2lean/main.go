// lazy2lean: a small Go -> Lean 4 translator for lazy/lazy.go (+ lazy/tailcall_gen.go): the trampoline lazy.Eval.
//
// Tie A of DESIGN.md for property C16 (and the lazy.Eval monad of C01): on every run the declarations found in the working tree
// are translated, declaration by declaration, into FpVerif/Gen/LazyGen.lean (never under version control); the committed theorems of
// FpVerif/Spec/C16Gen.lean state that each translated definition IS the hand-written model (Model/Eval.lean) the property is proved
// about, that the files contain nothing else (coverage), and restate the headline theorems for the translated definitions.
//
// REPRESENTATION (the same defunctionalisation as Model/Eval.lean, emitted by this translator from the struct declaration found):
//
//	type Eval[T any] struct { firstFunc func() T; getNextFunc func(T) Eval[T] }
//	  => inductive Eval T | leaf (firstFunc : Option (Unit → W T))                               -- getNextFunc == nil
//	                      | cont (firstFunc : Option (Unit → W T)) (getNextFunc : T → Eval T)    -- getNextFunc != nil
//	                      | logged (evs : List Event) (e : Eval T)                               -- not a Go value, see below
//
// A Go function value returning a plain value is a writer computation (`func(A) B` = `A → W B`, it may log).  A function value
// returning an Eval that is STORED IN A FIELD or RECEIVED AS A PARAMETER (a user function) is a Lean function `A → Eval T`: the events
// its call emits are kept in a `logged` node in front of the Eval it returns (this is what keeps the inductive type strictly positive
// without nesting; exactly Model/Eval.lean).  A function value returning an Eval in RESULT position (the closure `Resume` hands to the
// loop, the closures `FuncN` return) is `A → W (Eval T)`: the library itself calls it and the caller sees the events.
//
// FRAGMENT: methods / functions whose body is a sequence of `x := e`, `x = e` (re-binding, rejected when a closure created before
// captures x), `var zero T`, `if x == nil { … } [else { … }]` / `!= nil` on a nilable function value (a `match` on the Option; on the
// receiver's field `getNextFunc` it is the case split leaf / cont of the receiver, resolved per arm), `return e…`, and one shape of loop:
// a function whose whole body is `for { … continue … return e }` becomes a fuelled recursion (`fuel = 0` → `none`) with the same body,
// threading the log; a function that calls it in tail position takes the fuel as well.  Expressions: variables, field reads of the
// receiver, calls of function values (effects bound in Go's evaluation order, left to right, arguments first), calls of the other
// translated functions / methods, closures, struct literals of Eval, `nil`.  `x := y` / `x := r.field` are aliases (substituted).
// `Memoize`: the one accepted shape `once := sync.Once{}; var ret T; return func() T { once.Do(func() { ret = f() }); return ret }` is the
// memo-cell primitive `memoCell f` of Model/EvalGenSupport.lean (trusted reading; pinned independently by Spec/C16AtomFacts); the
// functions that route a thunk through `Memoize` are listed in `memoSites`.
// Everything else: untranslatable (the definition is missing, its theorem fails to build, facts_lazygen reports an error).
//
// usage: lazy2lean <repo> <out.lean>      last stdout line: JSON summary
package main

import (
	"encoding/json"
	"fmt"
	"go/ast"
	"go/parser"
	"go/token"
	"os"
	"path/filepath"
	"sort"
	"strings"
)

// explicit exception list: declarations that are looked at but deliberately not translated (mirrored and checked in Spec/C16Gen.lean)
var exceptions = map[string]string{}

// ---------------------------------------------------------------------------------------------------------------------------------
// types

type Ty interface{}
type TVar struct{ Name string }
type TEval struct{ Elem Ty }
type TFunc struct {
	Params  []Ty
	Res     Ty
	WForm   bool // result is an Eval and the events of the call are returned (`… → W (Eval T)`)
	Nilable bool
}
type TTuple struct{ Elems []Ty }

type untr struct{ msg string }

func fail(format string, a ...interface{}) { panic(untr{fmt.Sprintf(format, a...)}) }

func isEval(t Ty) bool { _, ok := t.(TEval); return ok }

func leanTy(t Ty, atom bool) string {
	par := func(s string) string {
		if atom && strings.ContainsAny(s, " ") {
			return "(" + s + ")"
		}
		return s
	}
	switch t := t.(type) {
	case TVar:
		return t.Name
	case TEval:
		return par("Eval " + leanTy(t.Elem, true))
	case TTuple:
		var xs []string
		for _, e := range t.Elems {
			xs = append(xs, leanTy(e, true))
		}
		return "(" + strings.Join(xs, " × ") + ")"
	case TFunc:
		var xs []string
		for _, p := range t.Params {
			xs = append(xs, leanTy(p, true))
		}
		if len(xs) == 0 {
			xs = []string{"Unit"}
		}
		res := ""
		if isEval(t.Res) && !t.WForm {
			res = leanTy(t.Res, false)
		} else {
			res = "W " + leanTy(t.Res, true)
		}
		s := strings.Join(xs, " → ") + " → " + res
		if t.Nilable {
			return par("Option (" + s + ")")
		}
		return par(s)
	}
	fail("type not printable: %#v", t)
	return ""
}

// position of a Go type inside a declaration
type pos int

const (
	posParam  pos = iota // parameter / field: function values returning Eval absorb their events (`logged`)
	posResult            // result: function values returning Eval are in W form
)

func (tr *translator) goTy(e ast.Expr, p pos, nilable bool) Ty {
	switch e := e.(type) {
	case *ast.Ident:
		if tr.tparams[e.Name] {
			return TVar{e.Name}
		}
		fail("type %s is outside the fragment", e.Name)
	case *ast.IndexExpr:
		if id, ok := e.X.(*ast.Ident); ok && id.Name == "Eval" {
			return TEval{tr.goTy(e.Index, p, false)}
		}
	case *ast.FuncType:
		f := TFunc{Nilable: nilable}
		if e.Params != nil {
			for _, fld := range e.Params.List {
				n := len(fld.Names)
				if n == 0 {
					n = 1
				}
				for i := 0; i < n; i++ {
					f.Params = append(f.Params, tr.goTy(fld.Type, posParam, false))
				}
			}
		}
		if e.Results == nil || len(e.Results.List) != 1 || len(e.Results.List[0].Names) > 1 {
			fail("function type without exactly one result")
		}
		f.Res = tr.goTy(e.Results.List[0].Type, p, false)
		if _, ok := f.Res.(TFunc); ok {
			fail("curried function type")
		}
		f.WForm = isEval(f.Res) && p == posResult
		return f
	}
	fail("type %T is outside the fragment", e)
	return nil
}

// ---------------------------------------------------------------------------------------------------------------------------------
// declarations

type decl struct {
	key    string // "Eval.FlatMap", "Run"
	lean   string
	fd     *ast.FuncDecl
	file   string
	tps    []string
	recv   string
	params []string
	ptys   []Ty
	res    Ty   // declared result (TTuple for several)
	isW    bool // the definition returns `W res`
	loop   bool // fuelled
	text   string
	err    string
	done   bool
	busy   bool
	memo   int // number of Memoize calls in the body

	callsLoop bool // tail-calls a fuelled function: takes the fuel as well
	polyMemo  bool // Memoize: polymorphic in what the thunk returns
}

type translator struct {
	decls   map[string]*decl
	order   []string // source order
	emitted []string // dependency order
	tparams map[string]bool
	cur     *decl
}

func tparamNames(fl *ast.FieldList) []string {
	var out []string
	if fl == nil {
		return out
	}
	for _, f := range fl.List {
		for _, n := range f.Names {
			out = append(out, n.Name)
		}
	}
	return out
}

func (tr *translator) setup(d *decl) {
	fd := d.fd
	tr.tparams = map[string]bool{}
	for _, n := range d.tps {
		tr.tparams[n] = true
	}
	d.params, d.ptys = nil, nil
	if fd.Recv != nil {
		d.params = append(d.params, d.recv)
		d.ptys = append(d.ptys, TEval{TVar{d.tps[0]}})
	}
	k := 0
	for _, fld := range fd.Type.Params.List {
		t := tr.goTy(fld.Type, posParam, false)
		if len(fld.Names) == 0 {
			fail("unnamed parameter")
		}
		for _, n := range fld.Names {
			name := n.Name
			if name == "_" {
				k++
				name = fmt.Sprintf("_u%d", k)
			}
			d.params = append(d.params, name)
			d.ptys = append(d.ptys, t)
		}
	}
	if fd.Type.Results == nil {
		fail("no result")
	}
	var rs []Ty
	for _, fld := range fd.Type.Results.List {
		if len(fld.Names) > 0 {
			fail("named results")
		}
		rs = append(rs, tr.goTy(fld.Type, posResult, true))
	}
	if len(rs) == 1 {
		d.res = rs[0]
		if f, ok := d.res.(TFunc); ok {
			f.Nilable = false
			d.res = f
		}
	} else {
		d.res = TTuple{rs}
	}
	// a definition whose result contains a plain value is a writer computation; one that returns an Eval or a function is pure
	switch d.res.(type) {
	case TEval, TFunc:
		d.isW = false
	default:
		d.isW = true
	}
	if len(fd.Body.List) == 1 {
		if fs, ok := fd.Body.List[0].(*ast.ForStmt); ok && fs.Init == nil && fs.Cond == nil && fs.Post == nil {
			d.loop = true
		}
	}
}

// ---------------------------------------------------------------------------------------------------------------------------------
// contexts

type kind int

const (
	kPure    kind = iota // returns a function / Eval, no events allowed at this level … unless the result is an Eval (then `logged`)
	kW                   // returns (value, events)
	kLoop                // inside the fuelled loop: `some (value, log ++ events)`
	kFuelled             // a function that tail-calls a loop function
)

type ctx struct {
	tr       *translator
	kind     kind
	res      Ty
	env      map[string]Ty
	alias    map[string]string // Go name -> Lean expression (aliases, receiver fields)
	logs     []string
	captured map[string]bool
	cnt      *int
	recv     string
	arm      string // "leaf" / "cont" / ""
	loopVars []string
	loopName string
	ind      string
	tparams  map[string]bool
}

func (c *ctx) fork() *ctx {
	n := *c
	n.env = map[string]Ty{}
	for k, v := range c.env {
		n.env[k] = v
	}
	n.alias = map[string]string{}
	for k, v := range c.alias {
		n.alias[k] = v
	}
	n.logs = append([]string{}, c.logs...)
	n.captured = map[string]bool{}
	for k, v := range c.captured {
		n.captured[k] = v
	}
	return &n
}

func (c *ctx) fresh(p string) string {
	*c.cnt++
	n := fmt.Sprintf("%s%d", p, *c.cnt)
	if _, ok := c.env[n]; ok {
		fail("name clash on %s", n)
	}
	return n
}

func (c *ctx) logExpr() string {
	if len(c.logs) == 0 {
		return "[]"
	}
	return strings.Join(c.logs, " ++ ")
}

var leanKeywords = map[string]bool{"at": true, "then": true, "from": true, "fun": true, "end": true, "open": true, "show": true, "have": true, "in": true, "do": true, "let": true, "match": true, "with": true, "by": true, "instance": true, "where": true, "log": true, "fuel": true, "evs": true, "default": true}

func leanName(n string) string {
	if leanKeywords[n] {
		return n + "_"
	}
	return n
}

// ---------------------------------------------------------------------------------------------------------------------------------
// expressions: returns a pure Lean expression; the writer calls it needs are emitted as `let (x, l) := …` lines into *pre

type out struct{ lines []string }

func (o *out) add(ind, s string) { o.lines = append(o.lines, ind+s) }

func atom(s string) string {
	if strings.ContainsAny(s, " \n") && !(strings.HasPrefix(s, "(") && balancedParen(s)) {
		return "(" + s + ")"
	}
	return s
}

// multi-line terms (closures) are always parenthesised
func wrap(s string) string {
	if strings.Contains(s, "\n") {
		return atom(s)
	}
	return s
}

func balancedParen(s string) bool {
	d := 0
	for i, r := range s {
		if r == '(' {
			d++
		} else if r == ')' {
			d--
			if d == 0 && i != len(s)-1 {
				return false
			}
		}
	}
	return d == 0
}

// coerce a non-nil function value into a nilable position
func coerce(e string, from Ty, to Ty) string {
	ff, ok1 := from.(TFunc)
	tf, ok2 := to.(TFunc)
	if ok1 && ok2 && tf.Nilable && !ff.Nilable {
		return "some " + atom(e)
	}
	if ok1 && ok2 && !tf.Nilable && ff.Nilable {
		fail("a nilable function value is used where a function is required")
	}
	return e
}

func sameShape(a, b Ty) bool {
	switch a := a.(type) {
	case TVar:
		b, ok := b.(TVar)
		return ok && a == b
	case TEval:
		b, ok := b.(TEval)
		return ok && sameShape(a.Elem, b.Elem)
	case TFunc:
		b, ok := b.(TFunc)
		if !ok || len(a.Params) != len(b.Params) || a.WForm != b.WForm {
			return false
		}
		for i := range a.Params {
			if !sameShape(a.Params[i], b.Params[i]) {
				return false
			}
		}
		return sameShape(a.Res, b.Res)
	case TTuple:
		b, ok := b.(TTuple)
		if !ok || len(a.Elems) != len(b.Elems) {
			return false
		}
		for i := range a.Elems {
			if !sameShape(a.Elems[i], b.Elems[i]) {
				return false
			}
		}
		return true
	}
	return false
}

func subst(t Ty, s map[string]Ty) Ty {
	switch t := t.(type) {
	case TVar:
		if v, ok := s[t.Name]; ok {
			return v
		}
		return t
	case TEval:
		return TEval{subst(t.Elem, s)}
	case TFunc:
		n := TFunc{Res: subst(t.Res, s), WForm: t.WForm, Nilable: t.Nilable}
		for _, p := range t.Params {
			n.Params = append(n.Params, subst(p, s))
		}
		return n
	case TTuple:
		n := TTuple{}
		for _, e := range t.Elems {
			n.Elems = append(n.Elems, subst(e, s))
		}
		return n
	}
	return t
}

func unify(p, a Ty, s map[string]Ty, tps map[string]bool) {
	switch p := p.(type) {
	case TVar:
		if tps[p.Name] {
			if old, ok := s[p.Name]; ok {
				if !sameShape(old, a) {
					fail("type argument %s is used at two types", p.Name)
				}
				return
			}
			s[p.Name] = a
			return
		}
	case TEval:
		if a, ok := a.(TEval); ok {
			unify(p.Elem, a.Elem, s, tps)
			return
		}
		fail("an Eval is expected")
	case TFunc:
		a, ok := a.(TFunc)
		if !ok || len(a.Params) != len(p.Params) {
			fail("a function of %d parameters is expected", len(p.Params))
		}
		for i := range p.Params {
			unify(p.Params[i], a.Params[i], s, tps)
		}
		if a.WForm != p.WForm {
			fail("a function in the other calling convention is expected")
		}
		unify(p.Res, a.Res, s, tps)
	}
}

func (c *ctx) lookup(name string) (string, Ty, bool) {
	if t, ok := c.env[name]; ok {
		if a, ok := c.alias[name]; ok {
			return a, t, true
		}
		return leanName(name), t, true
	}
	return "", nil, false
}

func (c *ctx) expr(e ast.Expr, expected Ty, pre *out) (string, Ty) {
	switch e := e.(type) {
	case *ast.ParenExpr:
		return c.expr(e.X, expected, pre)
	case *ast.Ident:
		if e.Name == "nil" {
			if f, ok := expected.(TFunc); ok && f.Nilable {
				return "none", expected
			}
			fail("nil outside a nilable function position")
		}
		if s, t, ok := c.lookup(e.Name); ok {
			return s, t
		}
		fail("unknown identifier %s", e.Name)
	case *ast.SelectorExpr:
		if id, ok := e.X.(*ast.Ident); ok && id.Name == c.recv && c.recv != "" {
			if _, shadow := c.alias[id.Name]; !shadow {
				return c.field(e.Sel.Name)
			}
		}
		fail("selector %s is outside the fragment", e.Sel.Name)
	case *ast.FuncLit:
		return c.funcLit(e, expected)
	case *ast.CompositeLit:
		return c.evalLit(e, pre)
	case *ast.CallExpr:
		return c.call(e, pre)
	}
	fail("expression %T is outside the fragment", e)
	return "", nil
}

func (c *ctx) field(name string) (string, Ty) {
	if c.arm == "" {
		fail("field access without a case split of the receiver")
	}
	tv := TVar{c.tr.cur.tps[0]}
	switch name {
	case "firstFunc":
		return c.recv + "_firstFunc", TFunc{Res: tv, Nilable: true}
	case "getNextFunc":
		if c.arm == "cont" {
			return c.recv + "_getNextFunc", TFunc{Params: []Ty{tv}, Res: TEval{tv}}
		}
		fail("getNextFunc is read where it is nil")
	}
	fail("unknown field %s", name)
	return "", nil
}

func (c *ctx) funcLit(e *ast.FuncLit, expected Ty) (string, Ty) {
	p := posParam
	if f, ok := expected.(TFunc); ok && f.WForm {
		p = posResult
	}
	saved := c.tr.tparams
	c.tr.tparams = c.tparams
	ft := c.tr.goTy(e.Type, p, false).(TFunc)
	c.tr.tparams = saved
	ast.Inspect(e.Body, func(n ast.Node) bool {
		if id, ok := n.(*ast.Ident); ok {
			c.captured[id.Name] = true
		}
		return true
	})
	n := c.fork()
	n.logs = nil
	n.loopVars, n.loopName = nil, ""
	n.ind = c.ind + "    "
	n.res = ft.Res
	if isEval(ft.Res) && !ft.WForm {
		n.kind = kPure
	} else {
		n.kind = kW
	}
	var names []string
	i := 0
	k := 0
	if e.Type.Params != nil {
		for _, fld := range e.Type.Params.List {
			cnt := len(fld.Names)
			if cnt == 0 {
				cnt = 1
			}
			for j := 0; j < cnt; j++ {
				name := "_"
				if len(fld.Names) > 0 && fld.Names[j].Name != "_" {
					name = fld.Names[j].Name
					n.env[name] = ft.Params[i]
					delete(n.alias, name)
					name = leanName(name)
				} else {
					k++
				}
				names = append(names, name)
				i++
			}
		}
	}
	if len(names) == 0 {
		names = []string{"_"}
	}
	body := n.stmts(e.Body.List)
	return "fun " + strings.Join(names, " ") + " =>\n" + body, ft
}

func (c *ctx) evalLit(e *ast.CompositeLit, pre *out) (string, Ty) {
	ix, ok := e.Type.(*ast.IndexExpr)
	if !ok {
		fail("composite literal outside the fragment")
	}
	id, ok := ix.X.(*ast.Ident)
	if !ok || id.Name != "Eval" {
		fail("composite literal outside the fragment")
	}
	saved := c.tr.tparams
	c.tr.tparams = c.tparams
	elem := c.tr.goTy(ix.Index, posParam, false)
	c.tr.tparams = saved
	first, next := "none", ""
	seen := map[string]bool{}
	for _, el := range e.Elts {
		kv, ok := el.(*ast.KeyValueExpr)
		if !ok {
			fail("positional struct literal")
		}
		key := kv.Key.(*ast.Ident).Name
		if seen[key] {
			fail("duplicate field")
		}
		seen[key] = true
		switch key {
		case "firstFunc":
			want := TFunc{Res: elem, Nilable: true}
			s, t := c.expr(kv.Value, want, pre)
			if ft, ok := t.(TFunc); !ok || len(ft.Params) != 0 || !sameShape(ft.Res, elem) {
				fail("firstFunc of the wrong type")
			}
			first = coerce(s, t, want)
		case "getNextFunc":
			want := TFunc{Params: []Ty{elem}, Res: TEval{elem}}
			s, t := c.expr(kv.Value, want, pre)
			if !sameShape(t, want) || t.(TFunc).Nilable {
				fail("getNextFunc must be a (non-nil) func(T) Eval[T]")
			}
			next = s
		default:
			fail("unknown field %s", key)
		}
	}
	if next == "" {
		return ".leaf " + atom(first), TEval{elem}
	}
	return ".cont " + atom(first) + " " + atom(next), TEval{elem}
}

// bind the result of a writer call
func (c *ctx) bind(call string, pre *out) string {
	x := c.fresh("x")
	l := c.fresh("l")
	pre.add(c.ind, fmt.Sprintf("let (%s, %s) := %s", x, l, call))
	c.logs = append(c.logs, l)
	return x
}

func (c *ctx) args(args []ast.Expr, ptys []Ty, pre *out) ([]string, []Ty) {
	if len(args) != len(ptys) {
		fail("arity mismatch in a call")
	}
	var ss []string
	var ts []Ty
	for i, a := range args {
		s, t := c.expr(a, ptys[i], pre)
		ss = append(ss, atom(coerce(s, t, ptys[i])))
		ts = append(ts, t)
	}
	return ss, ts
}

func (c *ctx) callFuncValue(fs string, ft TFunc, args []ast.Expr, pre *out) (string, Ty) {
	if ft.Nilable {
		fail("call of a possibly nil function value")
	}
	as, _ := c.args(args, ft.Params, pre)
	if len(as) == 0 {
		as = []string{"()"}
	}
	call := atom(fs) + " " + strings.Join(as, " ")
	if isEval(ft.Res) && !ft.WForm {
		return call, ft.Res
	}
	return c.bind(call, pre), ft.Res
}

func (c *ctx) call(e *ast.CallExpr, pre *out) (string, Ty) {
	if e.Ellipsis.IsValid() {
		fail("variadic call")
	}
	switch f := e.Fun.(type) {
	case *ast.Ident:
		if s, t, ok := c.lookup(f.Name); ok {
			ft, ok := t.(TFunc)
			if !ok {
				fail("%s is not a function value", f.Name)
			}
			return c.callFuncValue(s, ft, e.Args, pre)
		}
		if d, ok := c.tr.decls[f.Name]; ok && d.recv == "" {
			return c.callDecl(d, nil, e.Args, pre)
		}
		fail("call of unknown function %s", f.Name)
	case *ast.SelectorExpr:
		if id, ok := f.X.(*ast.Ident); ok && id.Name == c.recv && c.recv != "" && (f.Sel.Name == "firstFunc" || f.Sel.Name == "getNextFunc") {
			if _, shadow := c.alias[id.Name]; !shadow {
				s, t := c.field(f.Sel.Name)
				return c.callFuncValue(s, t.(TFunc), e.Args, pre)
			}
		}
		// method call on an Eval
		rs, rt := c.expr(f.X, nil, pre)
		if !isEval(rt) {
			fail("method call on a non-Eval")
		}
		d, ok := c.tr.decls["Eval."+f.Sel.Name]
		if !ok {
			fail("unknown method %s", f.Sel.Name)
		}
		return c.callDecl(d, &recvArg{rs, rt}, e.Args, pre)
	}
	fail("call of %T is outside the fragment", e.Fun)
	return "", nil
}

type recvArg struct {
	s string
	t Ty
}

func (c *ctx) callDecl(d *decl, recv *recvArg, args []ast.Expr, pre *out) (string, Ty) {
	if d != c.tr.cur {
		c.tr.translate(d)
	}
	if d.err != "" {
		fail("calls %s, which is untranslatable", d.key)
	}
	tps := map[string]bool{}
	for _, n := range d.tps {
		tps[n] = true
	}
	s := map[string]Ty{}
	var as []string
	ptys := d.ptys
	if recv != nil {
		unify(ptys[0], recv.t, s, tps)
		as = append(as, atom(recv.s))
		ptys = ptys[1:]
	}
	if len(args) != len(ptys) {
		fail("arity mismatch calling %s", d.key)
	}
	for i, a := range args {
		// the expected type may mention type parameters of the callee: closures carry their own types, so only the form matters
		es, et := c.expr(a, ptys[i], pre)
		unify(ptys[i], et, s, tps)
		as = append(as, atom(coerce(es, et, subst(ptys[i], s))))
	}
	if d.polyMemo {
		c.tr.cur.memo++
		// Memoize[T](f func() T) func() T at T := Eval[X]: the argument is `Unit → Eval X` (absorbing), and so is the result
		if at, ok := s[d.tps[0]]; !ok {
			fail("Memoize of a non-thunk")
		} else if _, isF := at.(TFunc); isF {
			fail("Memoize of a curried thunk")
		}
	}
	res := subst(d.res, s)
	call := d.lean + " " + strings.Join(as, " ")
	if d.fuelled() {
		fail("call of the fuelled %s outside tail position", d.key)
	}
	if d.isW {
		return c.bind(call, pre), res
	}
	return call, res
}

func (d *decl) fuelled() bool { return d.loop || d.callsLoop }

// ---------------------------------------------------------------------------------------------------------------------------------
// statements

func terminates(s ast.Stmt) bool {
	switch s := s.(type) {
	case *ast.ReturnStmt:
		return true
	case *ast.BranchStmt:
		return s.Tok == token.CONTINUE
	case *ast.BlockStmt:
		return len(s.List) > 0 && terminates(s.List[len(s.List)-1])
	case *ast.IfStmt:
		if s.Else == nil {
			return false
		}
		return terminates(s.Body) && terminates(s.Else)
	}
	return false
}

func (c *ctx) stmts(list []ast.Stmt) string {
	if len(list) == 0 {
		fail("control reaches the end of a body without return")
	}
	pre := &out{}
	st, rest := list[0], list[1:]
	switch s := st.(type) {
	case *ast.EmptyStmt:
		return c.stmts(rest)
	case *ast.BlockStmt:
		return c.stmts(append(append([]ast.Stmt{}, s.List...), rest...))
	case *ast.DeclStmt:
		gd, ok := s.Decl.(*ast.GenDecl)
		if !ok || gd.Tok != token.VAR || len(gd.Specs) != 1 {
			fail("declaration outside the fragment")
		}
		vs := gd.Specs[0].(*ast.ValueSpec)
		if len(vs.Names) != 1 || len(vs.Values) != 0 || vs.Type == nil {
			fail("var declaration outside the fragment")
		}
		saved := c.tr.tparams
		c.tr.tparams = c.tparams
		t := c.tr.goTy(vs.Type, posParam, false)
		c.tr.tparams = saved
		if _, ok := t.(TVar); !ok {
			fail("zero value of a non-parameter type")
		}
		name := vs.Names[0].Name
		c.env[name] = t
		c.alias[name] = "default" // `var zero T`
		return c.stmts(rest)
	case *ast.AssignStmt:
		return c.assign(s, rest)
	case *ast.IfStmt:
		return c.ifStmt(s, rest)
	case *ast.ReturnStmt:
		return c.ret(s)
	case *ast.BranchStmt:
		if s.Tok == token.CONTINUE && s.Label == nil && c.kind == kLoop {
			var as []string
			for _, v := range c.loopVars {
				x, _, _ := c.lookup(v)
				as = append(as, atom(x))
			}
			pre.add(c.ind, fmt.Sprintf("%s fuel %s (%s)", c.loopName, strings.Join(as, " "), c.logExpr()))
			return strings.Join(pre.lines, "\n")
		}
		fail("branch statement outside the fragment")
	}
	fail("statement %T is outside the fragment", st)
	return ""
}

func join(pre *out, tail string) string {
	if len(pre.lines) == 0 {
		return tail
	}
	return strings.Join(pre.lines, "\n") + "\n" + tail
}

func (c *ctx) assign(s *ast.AssignStmt, rest []ast.Stmt) string {
	pre := &out{}
	if s.Tok != token.DEFINE && s.Tok != token.ASSIGN {
		fail("assignment operator outside the fragment")
	}
	for _, l := range s.Lhs {
		id, ok := l.(*ast.Ident)
		if !ok {
			fail("assignment to a non-variable")
		}
		if s.Tok == token.ASSIGN && id.Name != "_" {
			if _, ok := c.env[id.Name]; !ok {
				fail("assignment to unknown variable %s", id.Name)
			}
			if c.captured[id.Name] {
				fail("assignment to %s, which a closure captures", id.Name)
			}
		}
	}
	if len(s.Lhs) == 2 && len(s.Rhs) == 1 {
		// a, b := f()   (a writer call returning a pair)
		call, ok := s.Rhs[0].(*ast.CallExpr)
		if !ok {
			fail("tuple assignment from a non-call")
		}
		x, t := c.call(call, pre)
		tt, ok := t.(TTuple)
		if !ok || len(tt.Elems) != 2 {
			fail("tuple assignment from a single value")
		}
		a, b := s.Lhs[0].(*ast.Ident).Name, s.Lhs[1].(*ast.Ident).Name
		// rewrite the bind `let (x, l) := call` into `let ((a, b), l) := call`
		last := pre.lines[len(pre.lines)-1]
		pre.lines[len(pre.lines)-1] = strings.Replace(last, "let ("+x+",", "let (("+leanName(a)+", "+leanName(b)+"),", 1)
		for i, n := range []string{a, b} {
			if n != "_" {
				c.env[n] = tt.Elems[i]
				delete(c.alias, n)
			}
		}
		return join(pre, c.stmts(rest))
	}
	if len(s.Lhs) != 1 || len(s.Rhs) != 1 {
		fail("assignment shape outside the fragment")
	}
	name := s.Lhs[0].(*ast.Ident).Name
	var expected Ty
	if s.Tok == token.ASSIGN && name != "_" {
		expected = c.env[name]
	}
	x, t := c.expr(s.Rhs[0], expected, pre)
	if name == "_" {
		return join(pre, c.stmts(rest))
	}
	if s.Tok == token.ASSIGN {
		old := c.env[name]
		if of, ok := old.(TFunc); ok {
			nf, ok := t.(TFunc)
			if !ok || !sameShape(TFunc{Params: of.Params, Res: of.Res, WForm: of.WForm}, TFunc{Params: nf.Params, Res: nf.Res, WForm: nf.WForm}) {
				fail("assignment changes the type of %s", name)
			}
		} else if !sameShape(old, t) {
			fail("assignment changes the type of %s", name)
		}
	}
	c.env[name] = t
	switch s.Rhs[0].(type) {
	case *ast.Ident, *ast.SelectorExpr:
		// alias: substituted
		c.alias[name] = x
		return join(pre, c.stmts(rest))
	}
	delete(c.alias, name)
	pre.add(c.ind, fmt.Sprintf("let %s : %s := %s", leanName(name), leanTy(t, false), wrap(x)))
	return join(pre, c.stmts(rest))
}

// `x == nil` / `x != nil`: returns the tested expression and whether the THEN branch is the nil case
func nilTest(e ast.Expr) (ast.Expr, bool, bool) {
	b, ok := e.(*ast.BinaryExpr)
	if !ok || (b.Op != token.EQL && b.Op != token.NEQ) {
		return nil, false, false
	}
	isNil := func(x ast.Expr) bool { id, ok := x.(*ast.Ident); return ok && id.Name == "nil" }
	switch {
	case isNil(b.Y):
		return b.X, b.Op == token.EQL, true
	case isNil(b.X):
		return b.Y, b.Op == token.EQL, true
	}
	return nil, false, false
}

func (c *ctx) ifStmt(s *ast.IfStmt, rest []ast.Stmt) string {
	if s.Init != nil {
		fail("if with an init statement")
	}
	x, thenNil, ok := nilTest(s.Cond)
	if !ok {
		fail("condition outside the fragment (only nil tests of function values)")
	}
	var elseList []ast.Stmt
	if s.Else != nil {
		switch e := s.Else.(type) {
		case *ast.BlockStmt:
			elseList = e.List
		default:
			elseList = []ast.Stmt{e}
		}
	}
	nilList, someList := s.Body.List, elseList
	if !thenNil {
		nilList, someList = elseList, s.Body.List
	}
	branch := func(list []ast.Stmt) []ast.Stmt {
		if len(list) > 0 && terminates(list[len(list)-1]) {
			return list
		}
		return append(append([]ast.Stmt{}, list...), rest...)
	}
	// the receiver's getNextFunc: resolved by the case split of the receiver
	if sel, ok := x.(*ast.SelectorExpr); ok {
		if id, ok := sel.X.(*ast.Ident); ok && id.Name == c.recv && c.recv != "" && sel.Sel.Name == "getNextFunc" {
			if c.arm == "leaf" {
				return c.stmts(branch(nilList))
			}
			if c.arm == "cont" {
				return c.stmts(branch(someList))
			}
		}
	}
	// a nilable function value
	pre := &out{}
	var name string
	var xs string
	var xt Ty
	if id, ok := x.(*ast.Ident); ok {
		name = id.Name
		xs, xt, ok = c.lookup(name)
		if !ok {
			fail("unknown identifier %s", name)
		}
	} else {
		xs, xt = c.expr(x, nil, pre)
		name = ""
	}
	ft, ok := xt.(TFunc)
	if !ok {
		fail("nil test of a non-function")
	}
	if !ft.Nilable {
		fail("nil test of a function value that is never nil in the fragment (parameters are assumed non-nil)")
	}
	nn := ft
	nn.Nilable = false
	// special shape: `if x == nil { x = <non-nil function> }` = default for a nil function
	if name != "" && thenNil && s.Else == nil && len(nilList) == 1 {
		if as, ok := nilList[0].(*ast.AssignStmt); ok && as.Tok == token.ASSIGN && len(as.Lhs) == 1 && len(as.Rhs) == 1 {
			if id, ok := as.Lhs[0].(*ast.Ident); ok && id.Name == name {
				if c.captured[name] {
					fail("assignment to %s, which a closure captures", name)
				}
				n := c.fork()
				n.ind = c.ind + "    "
				p2 := &out{}
				d, dt := n.expr(as.Rhs[0], nn, p2)
				if len(p2.lines) > 0 {
					fail("effects in a default function")
				}
				if dft, ok := dt.(TFunc); !ok || dft.Nilable || !sameShape(dft, nn) {
					fail("default of the wrong type")
				}
				g := c.fresh("g")
				pre.add(c.ind, fmt.Sprintf("let %s : %s :=", leanName(name), leanTy(nn, false)))
				pre.add(c.ind, fmt.Sprintf("  (match %s with", xs))
				pre.add(c.ind, fmt.Sprintf("  | some %s => %s", g, g))
				pre.add(c.ind, fmt.Sprintf("  | none => %s)", d))
				c.env[name] = nn
				delete(c.alias, name)
				return join(pre, c.stmts(rest))
			}
		}
	}
	sc, nc := c.fork(), c.fork()
	sc.ind, nc.ind = c.ind+"  ", c.ind+"  "
	bound := "_"
	if name != "" {
		sc.env[name] = nn
		delete(sc.alias, name)
		bound = leanName(name)
	}
	someText := sc.stmts(branch(someList))
	noneText := nc.stmts(branch(nilList))
	pre.add(c.ind, fmt.Sprintf("match %s with", xs))
	pre.add(c.ind, fmt.Sprintf("| some %s =>", bound))
	pre.add("", someText)
	pre.add(c.ind, "| none =>")
	pre.add("", noneText)
	return strings.Join(pre.lines, "\n")
}

func (c *ctx) ret(s *ast.ReturnStmt) string {
	pre := &out{}
	// tail call of a fuelled function
	if len(s.Results) == 1 {
		if call, ok := s.Results[0].(*ast.CallExpr); ok {
			if id, ok := call.Fun.(*ast.Ident); ok {
				if _, _, local := c.lookup(id.Name); !local {
					if d, ok := c.tr.decls[id.Name]; ok && d.recv == "" {
						c.tr.translate(d)
						if d.err == "" && d.fuelled() {
							if c.kind != kFuelled {
								fail("call of the fuelled %s from a context without fuel", d.key)
							}
							as, _ := c.args(call.Args, d.ptys, pre)
							pre.add(c.ind, fmt.Sprintf("%s fuel %s (%s)", d.lean, strings.Join(as, " "), c.logExpr()))
							return strings.Join(pre.lines, "\n")
						}
					}
				}
			}
		}
	}
	var vals []string
	var want []Ty
	if tt, ok := c.res.(TTuple); ok {
		want = tt.Elems
	} else {
		want = []Ty{c.res}
	}
	if len(s.Results) != len(want) {
		fail("return of %d values where %d are declared", len(s.Results), len(want))
	}
	for i, r := range s.Results {
		x, t := c.expr(r, want[i], pre)
		if _, isF := want[i].(TFunc); !isF && !sameShape(t, want[i]) {
			fail("returned value %d has the wrong type", i)
		}
		if wf, isF := want[i].(TFunc); isF {
			tf, ok := t.(TFunc)
			if !ok || !sameShape(TFunc{Params: tf.Params, Res: tf.Res, WForm: tf.WForm}, TFunc{Params: wf.Params, Res: wf.Res, WForm: wf.WForm}) {
				fail("returned function %d has the wrong type", i)
			}
		}
		vals = append(vals, wrap(coerce(x, t, want[i])))
	}
	v := vals[0]
	if len(vals) > 1 {
		v = "(" + strings.Join(vals, ", ") + ")"
	}
	switch c.kind {
	case kW:
		pre.add(c.ind, fmt.Sprintf("(%s, %s)", v, c.logExpr()))
	case kLoop:
		if len(c.logs) == 0 {
			fail("internal: loop without a log")
		}
		pre.add(c.ind, fmt.Sprintf("some (%s, %s)", v, c.logExpr()))
	case kFuelled:
		pre.add(c.ind, fmt.Sprintf("some (%s, %s)", v, c.logExpr()))
	case kPure:
		if len(c.logs) == 0 {
			pre.add(c.ind, v)
		} else if isEval(c.res) {
			pre.add(c.ind, fmt.Sprintf(".logged (%s) %s", c.logExpr(), atom(v)))
		} else {
			fail("a function-valued result is computed with effects")
		}
	}
	return strings.Join(pre.lines, "\n")
}

// ---------------------------------------------------------------------------------------------------------------------------------
// one declaration

func usesRecvFields(body *ast.BlockStmt, recv string) bool {
	found := false
	ast.Inspect(body, func(n ast.Node) bool {
		if sel, ok := n.(*ast.SelectorExpr); ok {
			if id, ok := sel.X.(*ast.Ident); ok && id.Name == recv && (sel.Sel.Name == "firstFunc" || sel.Sel.Name == "getNextFunc") {
				found = true
			}
		}
		return true
	})
	return found
}

// does the body call (in tail position of a return) a fuelled function?
func (tr *translator) tailCallsLoop(d *decl) bool {
	found := false
	ast.Inspect(d.fd.Body, func(n ast.Node) bool {
		if r, ok := n.(*ast.ReturnStmt); ok && len(r.Results) == 1 {
			if call, ok := r.Results[0].(*ast.CallExpr); ok {
				if id, ok := call.Fun.(*ast.Ident); ok {
					if cd, ok := tr.decls[id.Name]; ok && cd.recv == "" && cd != d {
						tr.translate(cd)
						if cd.fuelled() {
							found = true
						}
					}
				}
			}
		}
		return true
	})
	return found
}

func (tr *translator) binders(d *decl) string {
	var b []string
	for _, n := range d.tps {
		b = append(b, fmt.Sprintf("{%s : Type} [Inhabited %s]", n, n))
	}
	return strings.Join(b, " ")
}

func (tr *translator) translate(d *decl) {
	if d.done {
		return
	}
	if d.busy {
		return // recursion: the signature is already known
	}
	d.busy = true
	savedCur, savedTP := tr.cur, tr.tparams
	defer func() {
		tr.cur, tr.tparams = savedCur, savedTP
		d.busy = false
		d.done = true
		if r := recover(); r != nil {
			u, ok := r.(untr)
			if !ok {
				panic(r)
			}
			d.err = u.msg
			d.text = ""
			return
		}
		tr.emitted = append(tr.emitted, d.key)
	}()
	tr.cur = d
	tr.setup(d)
	if d.key == "Memoize" {
		tr.memoize(d)
		return
	}
	if !d.loop && tr.tailCallsLoop(d) {
		d.callsLoop = true
	}
	tr.cur = d
	tr.tparams = map[string]bool{}
	for _, n := range d.tps {
		tr.tparams[n] = true
	}
	cnt := 0
	c := &ctx{tr: tr, res: d.res, env: map[string]Ty{}, alias: map[string]string{}, captured: map[string]bool{}, cnt: &cnt, ind: "  ", tparams: tr.tparams}
	for i, p := range d.params {
		c.env[p] = d.ptys[i]
	}
	var sig []string
	for i, p := range d.params {
		sig = append(sig, fmt.Sprintf("(%s : %s)", leanName(p), leanTy(d.ptys[i], false)))
	}
	resTy := leanTy(d.res, false)
	if d.isW {
		resTy = "W " + leanTy(d.res, true)
	}
	var sb strings.Builder
	fmt.Fprintf(&sb, "/-- %s  (%s) -/\n", d.key, d.file)
	switch {
	case d.loop:
		c.kind = kLoop
		c.loopName = d.lean
		c.loopVars = d.params
		c.logs = []string{"log"}
		c.ind = "    "
		var tys, pats []string
		for i, p := range d.params {
			tys = append(tys, leanTy(d.ptys[i], true))
			pats = append(pats, leanName(p))
		}
		fs := d.fd.Body.List[0].(*ast.ForStmt)
		body := c.stmts(append(append([]ast.Stmt{}, fs.Body.List...), &ast.BranchStmt{Tok: token.CONTINUE}))
		fmt.Fprintf(&sb, "def %s %s : Nat → %s → List Event → Option (W %s)\n", d.lean, tr.binders(d), strings.Join(tys, " → "), leanTy(d.res, true))
		us := strings.Repeat(", _", len(pats))
		fmt.Fprintf(&sb, "  | 0%s, _ => none\n", us)
		fmt.Fprintf(&sb, "  | fuel + 1, %s, log =>\n%s\n", strings.Join(pats, ", "), body)
	case d.callsLoop:
		c.kind = kFuelled
		body := tr.withReceiver(d, c)
		fmt.Fprintf(&sb, "def %s %s (fuel : Nat) %s : Option (W %s) :=\n%s\n", d.lean, tr.binders(d), strings.Join(sig, " "), leanTy(d.res, true), body)
	default:
		if d.isW {
			c.kind = kW
		} else {
			c.kind = kPure
		}
		body := tr.withReceiver(d, c)
		fmt.Fprintf(&sb, "def %s %s %s : %s :=\n%s\n", d.lean, tr.binders(d), strings.Join(sig, " "), resTy, body)
	}
	d.text = sb.String()
}

// the case split of the receiver (leaf / cont / logged) for methods that look at its fields
func (tr *translator) withReceiver(d *decl, c *ctx) string {
	if d.recv == "" || !usesRecvFields(d.fd.Body, d.recv) {
		return c.stmts(d.fd.Body.List)
	}
	c.recv = d.recv
	var sb strings.Builder
	r := leanName(d.recv)
	fmt.Fprintf(&sb, "  match %s with\n", r)
	for _, arm := range []string{"leaf", "cont"} {
		n := c.fork()
		n.arm = arm
		n.ind = "    "
		if arm == "leaf" {
			fmt.Fprintf(&sb, "  | .leaf %s_firstFunc =>\n", r)
		} else {
			fmt.Fprintf(&sb, "  | .cont %s_firstFunc %s_getNextFunc =>\n", r, r)
		}
		sb.WriteString(n.stmts(d.fd.Body.List) + "\n")
	}
	// the `logged` node: "the Eval e, whose production emitted evs"
	var rest []string
	for _, p := range d.params[1:] {
		rest = append(rest, leanName(p))
	}
	as := ""
	if len(rest) > 0 {
		as = " " + strings.Join(rest, " ")
	}
	switch res := d.res.(type) {
	case TEval:
		// a function of the Eval commutes with the events of its production
		fmt.Fprintf(&sb, "  | .logged evs e => .logged evs (%s e%s)", d.lean, as)
	case TTuple:
		// the Resume protocol (value, func() Eval): a logged node is a pending step that emits evs and continues with e
		if len(res.Elems) == 2 && c.kind == kW {
			if f, ok := res.Elems[1].(TFunc); ok && f.Nilable && f.WForm && len(f.Params) == 0 {
				if _, ok := res.Elems[0].(TVar); ok {
					fmt.Fprintf(&sb, "  | .logged evs e => ((default, some (fun _ => (e, evs))), [])")
					return sb.String()
				}
			}
		}
		fail("a method with this result type cannot look at the receiver's fields")
	default:
		fail("a method with this result type cannot look at the receiver's fields")
	}
	return sb.String()
}

// Memoize: exactly `once := sync.Once{}; var ret T; return func() T { once.Do(func() { ret = f() }); return ret }`
func (tr *translator) memoize(d *decl) {
	b := d.fd.Body.List
	bad := func(why string) { fail("Memoize is not the Once-guarded cell: %s", why) }
	if len(d.params) != 1 || len(b) != 3 {
		bad("shape")
	}
	f := d.params[0]
	a, ok := b[0].(*ast.AssignStmt)
	if !ok || a.Tok != token.DEFINE || len(a.Lhs) != 1 || len(a.Rhs) != 1 {
		bad("first statement")
	}
	once := a.Lhs[0].(*ast.Ident).Name
	cl, ok := a.Rhs[0].(*ast.CompositeLit)
	if !ok || len(cl.Elts) != 0 {
		bad("sync.Once{}")
	}
	if sel, ok := cl.Type.(*ast.SelectorExpr); !ok || sel.Sel.Name != "Once" || sel.X.(*ast.Ident).Name != "sync" {
		bad("sync.Once{}")
	}
	ds, ok := b[1].(*ast.DeclStmt)
	if !ok {
		bad("var ret T")
	}
	vs := ds.Decl.(*ast.GenDecl).Specs[0].(*ast.ValueSpec)
	if len(vs.Names) != 1 || len(vs.Values) != 0 {
		bad("var ret T")
	}
	ret := vs.Names[0].Name
	rs, ok := b[2].(*ast.ReturnStmt)
	if !ok || len(rs.Results) != 1 {
		bad("return")
	}
	fl, ok := rs.Results[0].(*ast.FuncLit)
	if !ok || len(fl.Body.List) != 2 || (fl.Type.Params != nil && len(fl.Type.Params.List) != 0) {
		bad("returned closure")
	}
	es, ok := fl.Body.List[0].(*ast.ExprStmt)
	if !ok {
		bad("once.Do")
	}
	call, ok := es.X.(*ast.CallExpr)
	if !ok || len(call.Args) != 1 {
		bad("once.Do")
	}
	if sel, ok := call.Fun.(*ast.SelectorExpr); !ok || sel.Sel.Name != "Do" {
		bad("once.Do")
	} else if id, ok := sel.X.(*ast.Ident); !ok || id.Name != once {
		bad("once.Do")
	}
	inner, ok := call.Args[0].(*ast.FuncLit)
	if !ok || len(inner.Body.List) != 1 {
		bad("closure of once.Do")
	}
	as, ok := inner.Body.List[0].(*ast.AssignStmt)
	if !ok || as.Tok != token.ASSIGN || len(as.Lhs) != 1 || len(as.Rhs) != 1 {
		bad("ret = f()")
	}
	if id, ok := as.Lhs[0].(*ast.Ident); !ok || id.Name != ret {
		bad("ret = f()")
	}
	fc, ok := as.Rhs[0].(*ast.CallExpr)
	if !ok || len(fc.Args) != 0 {
		bad("ret = f()")
	}
	if id, ok := fc.Fun.(*ast.Ident); !ok || id.Name != f {
		bad("ret = f()")
	}
	r2, ok := fl.Body.List[1].(*ast.ReturnStmt)
	if !ok || len(r2.Results) != 1 {
		bad("return ret")
	}
	if id, ok := r2.Results[0].(*ast.Ident); !ok || id.Name != ret {
		bad("return ret")
	}
	// Memoize[T] is used at T := a plain value (thunk = writer computation) and at T := Eval[X] (thunk = `Unit → Eval X`):
	// the translated definition is polymorphic in what the thunk returns
	d.ptys = []Ty{TFunc{Res: TVar{d.tps[0]}}}
	d.res = TFunc{Res: TVar{d.tps[0]}}
	d.isW = false
	d.polyMemo = true
	d.text = fmt.Sprintf("/-- %s  (%s): the Once-guarded cell (`once.Do(func() { ret = f() }); return ret`) -/\ndef %s {α : Type} (%s : Unit → α) : Unit → α :=\n  FpVerif.EvalM.memoCell %s\n", d.key, d.file, d.lean, leanName(f), leanName(f))
}

// ---------------------------------------------------------------------------------------------------------------------------------

type result struct {
	Translated     int               `json:"translated"`
	Untranslatable map[string]string `json:"untranslatable"`
	Exceptions     map[string]string `json:"exceptions"`
	MemoSites      []string          `json:"memo_sites"`
	Types          []string          `json:"types"`
}

func checkStruct(ts *ast.TypeSpec) string {
	st, ok := ts.Type.(*ast.StructType)
	if !ok {
		return "not a struct"
	}
	if ts.TypeParams == nil || len(tparamNames(ts.TypeParams)) != 1 {
		return "type parameters"
	}
	tp := tparamNames(ts.TypeParams)[0]
	var fields []string
	for _, f := range st.Fields.List {
		for _, n := range f.Names {
			fields = append(fields, n.Name+" "+typeString(f.Type))
		}
		if len(f.Names) == 0 {
			fields = append(fields, "embedded "+typeString(f.Type))
		}
	}
	want := []string{"firstFunc func() " + tp, "getNextFunc func(" + tp + ") Eval[" + tp + "]"}
	if strings.Join(fields, "; ") != strings.Join(want, "; ") {
		return "fields are [" + strings.Join(fields, "; ") + "], the representation is defined for [" + strings.Join(want, "; ") + "]"
	}
	return ""
}

func typeString(e ast.Expr) string {
	switch e := e.(type) {
	case *ast.Ident:
		return e.Name
	case *ast.IndexExpr:
		return typeString(e.X) + "[" + typeString(e.Index) + "]"
	case *ast.SelectorExpr:
		return typeString(e.X) + "." + e.Sel.Name
	case *ast.StarExpr:
		return "*" + typeString(e.X)
	case *ast.FuncType:
		var ps []string
		if e.Params != nil {
			for _, f := range e.Params.List {
				n := len(f.Names)
				if n == 0 {
					n = 1
				}
				for i := 0; i < n; i++ {
					ps = append(ps, typeString(f.Type))
				}
			}
		}
		s := "func(" + strings.Join(ps, ", ") + ")"
		if e.Results != nil {
			var rs []string
			for _, f := range e.Results.List {
				rs = append(rs, typeString(f.Type))
			}
			if len(rs) == 1 {
				s += " " + rs[0]
			} else {
				s += " (" + strings.Join(rs, ", ") + ")"
			}
		}
		return s
	}
	return fmt.Sprintf("%T", e)
}

func leanList(xs []string) string {
	var q []string
	for _, x := range xs {
		q = append(q, fmt.Sprintf("%q", x))
	}
	return "[" + strings.Join(q, ", ") + "]"
}

func main() {
	if len(os.Args) != 3 {
		fmt.Fprintln(os.Stderr, "usage: lazy2lean <repo> <out.lean>")
		os.Exit(2)
	}
	repo, outPath := os.Args[1], os.Args[2]
	dir := filepath.Join(repo, "lazy")
	ents, err := os.ReadDir(dir)
	if err != nil {
		fmt.Fprintln(os.Stderr, err)
		os.Exit(1)
	}
	var names []string
	for _, e := range ents {
		if !e.IsDir() && strings.HasSuffix(e.Name(), ".go") && !strings.HasSuffix(e.Name(), "_test.go") {
			names = append(names, e.Name())
		}
	}
	sort.Strings(names)
	tr := &translator{decls: map[string]*decl{}}
	res := result{Untranslatable: map[string]string{}, Exceptions: map[string]string{}}
	fset := token.NewFileSet()
	var types []string
	structOK := false
	for _, name := range names {
		f, err := parser.ParseFile(fset, filepath.Join(dir, name), nil, parser.SkipObjectResolution)
		if err != nil {
			fmt.Fprintln(os.Stderr, err)
			os.Exit(1)
		}
		for _, bt := range f.Comments {
			_ = bt
		}
		hasVerifTag := false
		for _, cg := range f.Comments {
			if cg.Pos() < f.Package && strings.Contains(cg.Text(), "go:build") && strings.Contains(cg.Text(), "verif") {
				hasVerifTag = true
			}
		}
		if hasVerifTag {
			continue // verif-only hook files are not part of the library
		}
		for _, dd := range f.Decls {
			switch dd := dd.(type) {
			case *ast.GenDecl:
				if dd.Tok == token.TYPE {
					for _, sp := range dd.Specs {
						ts := sp.(*ast.TypeSpec)
						types = append(types, ts.Name.Name)
						if ts.Name.Name == "Eval" {
							if why := checkStruct(ts); why != "" {
								res.Untranslatable["type Eval"] = why
							} else {
								structOK = true
							}
						} else {
							res.Untranslatable["type "+ts.Name.Name] = "type declaration outside the fragment"
						}
					}
				}
			case *ast.FuncDecl:
				if dd.Name.Name == "_" || dd.Body == nil {
					continue
				}
				d := &decl{fd: dd, file: "lazy/" + name}
				d.key = dd.Name.Name
				d.lean = dd.Name.Name
				if dd.Recv != nil {
					rt := dd.Recv.List[0].Type
					ok := false
					if ix, isIx := rt.(*ast.IndexExpr); isIx {
						if id, isId := ix.X.(*ast.Ident); isId && id.Name == "Eval" {
							if tp, isId := ix.Index.(*ast.Ident); isId && len(dd.Recv.List[0].Names) == 1 {
								d.tps = []string{tp.Name}
								d.recv = dd.Recv.List[0].Names[0].Name
								ok = true
							}
						}
					}
					d.key = "Eval." + dd.Name.Name
					d.lean = "Eval." + dd.Name.Name
					if !ok {
						d.key = typeString(rt) + "." + dd.Name.Name
						d.done = true
						d.err = "method of a receiver outside the fragment"
					}
				} else {
					d.tps = tparamNames(dd.Type.TypeParams)
				}
				if _, dup := tr.decls[d.key]; dup {
					fmt.Fprintln(os.Stderr, "duplicate declaration", d.key)
					os.Exit(1)
				}
				tr.decls[d.key] = d
				tr.order = append(tr.order, d.key)
			}
		}
	}
	if !structOK && res.Untranslatable["type Eval"] == "" {
		res.Untranslatable["type Eval"] = "not found"
	}
	for _, k := range tr.order {
		d := tr.decls[k]
		if why, ok := exceptions[k]; ok {
			res.Exceptions[k] = why
			d.done = true
			d.err = "exception"
			continue
		}
		if structOK {
			tr.translate(d)
		} else {
			d.err = "the struct Eval is outside the fragment"
		}
	}
	var translated, memo []string
	for _, k := range tr.emitted {
		translated = append(translated, k)
	}
	for _, k := range tr.order {
		d := tr.decls[k]
		if _, ex := res.Exceptions[k]; ex {
			continue
		}
		if d.err != "" {
			res.Untranslatable[k] = d.err
		} else if d.memo > 0 {
			memo = append(memo, fmt.Sprintf("%s:%d", k, d.memo))
		}
	}
	sort.Strings(translated)
	found := append([]string{}, tr.order...)
	sort.Strings(found)
	sort.Strings(types)
	var exc, untr []string
	for k := range res.Exceptions {
		exc = append(exc, k)
	}
	for k := range res.Untranslatable {
		untr = append(untr, k)
	}
	sort.Strings(exc)
	sort.Strings(untr)
	sort.Strings(memo)

	var sb strings.Builder
	sb.WriteString("import FpVerif.Model.EvalGenSupport\n")
	sb.WriteString("/-!\n# GENERATED by harness/cmd/lazy2lean from lazy/*.go of the working tree — do not edit, not under version control.\n")
	sb.WriteString("Committed statements about these definitions: FpVerif/Spec/C16Gen.lean.\n-/\n")
	sb.WriteString("namespace FpVerif.Gen.LazyGen\nopen FpVerif\nopen FpVerif.EvalM (W)\n\n")
	if structOK {
		sb.WriteString("/-- `type Eval[T any] struct { firstFunc func() T; getNextFunc func(T) Eval[T] }`  (lazy/lazy.go)\n")
		sb.WriteString("    `leaf`: getNextFunc == nil; `cont`: getNextFunc != nil; `logged evs e`: the Eval `e`, whose production by a user function emitted `evs` -/\n")
		sb.WriteString("inductive Eval (T : Type) where\n")
		sb.WriteString("  | leaf (firstFunc : Option (Unit → W T))\n")
		sb.WriteString("  | cont (firstFunc : Option (Unit → W T)) (getNextFunc : T → Eval T)\n")
		sb.WriteString("  | logged (evs : List Event) (e : Eval T)\n\n")
	}
	for _, k := range tr.emitted {
		sb.WriteString(tr.decls[k].text + "\n")
	}
	for _, k := range untr {
		fmt.Fprintf(&sb, "-- UNTRANSLATABLE %s: %s\n", k, strings.ReplaceAll(res.Untranslatable[k], "\n", " "))
	}
	sb.WriteString("\n/-- every function / method with a body found in lazy/*.go (sorted) -/\n")
	fmt.Fprintf(&sb, "def found : List String := %s\n", leanList(found))
	fmt.Fprintf(&sb, "def translated : List String := %s\n", leanList(translated))
	fmt.Fprintf(&sb, "def exceptions : List String := %s\n", leanList(exc))
	fmt.Fprintf(&sb, "def untranslatable : List String := %s\n", leanList(untr))
	sb.WriteString("/-- type declarations found -/\n")
	fmt.Fprintf(&sb, "def types : List String := %s\n", leanList(types))
	sb.WriteString("/-- functions whose body routes a thunk through `Memoize` (name:number of calls) -/\n")
	fmt.Fprintf(&sb, "def memoSites : List String := %s\n", leanList(memo))
	sb.WriteString("\nend FpVerif.Gen.LazyGen\n")
	if err := os.WriteFile(outPath, []byte(sb.String()), 0o644); err != nil {
		fmt.Fprintln(os.Stderr, err)
		os.Exit(1)
	}
	res.Translated = len(translated)
	res.MemoSites = memo
	res.Types = types
	js, _ := json.Marshal(res)
	fmt.Println(string(js))
}
