// go2lean2: Go -> Lean 4 translator for the PURE generated arity families of property C14
//
//	fp: tuple_gen.go labelled_gen.go func_gen.go      as: func_gen.go tuple_gen.go labelled_gen.go
//	curried: curried_gen.go                           hlist: of_gen.go case_gen.go lift_gen.go reverse_gen.go
//	product: tuple_gen.go                             fn1: arrow_func_gen.go        unit: func_gen.go
//
// plus the (few, listed below) hand-written arity-1/2 members these files bottom out in (curried.Func1, hlist.Of1/Case1/…,
// fp.Compose2, product.TupleFromHList1, …).  Tie A of DESIGN.md, second part: on every run EVERY declaration of the generated
// files of the working tree is translated into one Lean definition of FpVerif/Gen/ArityGen.lean (never under version
// control); the committed theorems of FpVerif/Spec/C14ArityGen.lean state, per family and arity, that the translated
// function computes the arity-generic model of FpVerif/Model/Arity.lean at n := N.
//
// The translation is type-preserving and generic (it knows nothing about the families):
//
//	Go                                        Lean
//	type parameter X (any constraint)         {X : Type}
//	func(T1,…,Tn) R                           T1 → … → Tn → GoM R           (n = 0: Unit → GoM R; no result: GoM Unit)
//	type F[..] func(..) R                     abbrev pkg_F .. := ..
//	type S[..] struct{ f T; … }               structure pkg_S (.. : Type) where f : T …
//	(T1,…,Tn) results / return e1,…,en        T1 × … × Tn / (e1, …, en)
//	func literal                              fun (a1 : T1) … => body        (a value: building it runs nothing)
//	f(e1,…,en) on a function VALUE            an effect (the callee may log / panic): bound with >>= in Go's evaluation order
//	F(e1,…,en) on a translated declaration    plain application; an effect iff F's body is one
//	g(f()) with a multi-valued f              let p := f; g p.1 p.2.1 …
//	T(e) conversion to a translated type      e
//	S[..]{f: e, …} / S[..]{e, …}              ({ f := e, … } : S ..) / (⟨e, …⟩ : S ..)
//	x := e ; return e ; e (call statement)    let / >>= fun x => / >>= fun _ =>
//
// Anything else (control flow, assignments, operators, literals, builtins, fmt, interfaces as values, recursion) is reported as
// untranslatable: the definition is missing and the theorems about it fail to build.  Declarations of the generated files
// that are deliberately not translated are on the explicit exception list below (emitted into the Lean file and pinned by a
// committed theorem).
//
// usage: go2lean2 <repo> <out.lean>      last stdout line: JSON summary
package main

import (
	"encoding/json"
	"fmt"
	"go/ast"
	"go/parser"
	"go/token"
	"os"
	"path/filepath"
	"regexp"
	"sort"
	"strconv"
	"strings"
)

// ---------------------------------------------------------------------------------------------------------------------
// what is read

type unit struct {
	pkg  string              // Lean prefix: fp, as, curried, hlist, product, fn1, unit
	dir  string              // directory below the repository root
	gen  []string            // generated files: every declaration is translated (or on the exception list)
	base map[string][]string // hand-written file -> the declarations the generated files bottom out in
}

var units = []unit{
	{"fp", ".", []string{"tuple_gen.go", "labelled_gen.go", "func_gen.go"}, map[string][]string{
		"fp.go": {"Unit", "Tuple1", "Tuple1.Head", "Tuple1.Tail", "Labelled1", "Labelled1.Head", "Labelled1.Tail",
			"Func1", "Func2", "Func2.Widen", "Func2.ApplyFirst", "Func2.ApplyLast", "Compose", "Compose2", "Id", "Flip", "Flip2"}}},
	{"hlist", "hlist", []string{"of_gen.go", "case_gen.go", "lift_gen.go", "reverse_gen.go"}, map[string][]string{
		"hlist.go": {"Nil", "Cons", "Head", "Tail", "Cons.Head", "Concat", "Of1", "Empty", "Lift1", "Rift1", "Case1"}}},
	{"as", "as", []string{"func_gen.go", "tuple_gen.go", "labelled_gen.go"}, map[string][]string{
		"as.go": {"Tupled2"}}},
	{"curried", "curried", []string{"curried_gen.go"}, map[string][]string{
		"curried.go": {"Func1", "Flip", "FlipApply", "Compose2"}}},
	{"product", "product", []string{"tuple_gen.go"}, map[string][]string{
		"product_op.go": {"Tuple2", "TupleFromHList1", "LabelledFromHList1", "Flatten3"}}},
	{"fn1", "fn1", []string{"arrow_func_gen.go"}, nil},
	{"unit", "unit", []string{"func_gen.go"}, nil},
}

// declarations of GENERATED files that are deliberately not translated (pattern on "pkg.Name" / "pkg.Type.Method")
var exceptions = []struct{ re, why string }{
	{`^fp\.(Tuple|Labelled)\d+\.String$`, "fmt.Sprintf of the fields (formatting, not a position claim; compared textually by the arity harness)"},
}

var importPkg = map[string]string{
	"github.com/csgura/fp":         "fp",
	"github.com/csgura/fp/hlist":   "hlist",
	"github.com/csgura/fp/as":      "as",
	"github.com/csgura/fp/curried": "curried",
	"github.com/csgura/fp/product": "product",
	"github.com/csgura/fp/fn1":     "fn1",
	"github.com/csgura/fp/unit":    "unit",
}

type decl struct {
	key       string // pkg.Name or pkg.Type.Method
	lean      string // pkg_Name or pkg_Type.Method
	pkg       string
	file      string // path below the repository root
	line      int
	generated bool
	imports   map[string]string // local import name -> pkg
	fn        *ast.FuncDecl
	ts        *ast.TypeSpec
	// results of the translation
	text    string
	errs    []string
	deps    map[string]bool // keys of other decls; "·M" for "every method named M"
	eff     bool
	nparams int
	done    bool
}

type global struct {
	decls   map[string]*decl
	order   []string
	methods map[string][]*decl // method name -> decls
}

var leanKeywords = map[string]bool{"at": true, "from": true, "in": true, "fun": true, "do": true, "then": true, "else": true, "if": true,
	"let": true, "have": true, "show": true, "end": true, "open": true, "def": true, "by": true, "with": true, "match": true, "this": true,
	"instance": true, "class": true, "where": true, "deriving": true, "mut": true, "for": true, "return": true, "Type": true, "Prop": true,
	"Sort": true, "theorem": true, "example": true, "structure": true, "inductive": true, "namespace": true, "section": true, "variable": true,
	"universe": true, "import": true, "macro": true, "syntax": true, "notation": true, "infix": true, "set_option": true, "unless": true,
	"try": true, "catch": true, "finally": true, "suffices": true, "calc": true, "using": true, "extends": true, "private": true,
	"protected": true, "partial": true, "unsafe": true, "abbrev": true, "axiom": true, "opaque": true, "mutual": true, "nomatch": true,
	"nofun": true, "break": true, "continue": true, "forall": true, "exists": true, "pure": true, "bind": true, "GoM": true, "Unit": true}

func id(s string) string {
	if leanKeywords[s] {
		return "«" + s + "»"
	}
	return s
}

// ---------------------------------------------------------------------------------------------------------------------
// translation of one declaration

type ctx struct {
	g       *global
	d       *decl
	tparams map[string]bool
	env     []map[string]ast.Expr // scopes: local variable -> Go type (nil: unknown)
	fresh   int
}

func (c *ctx) fail(n ast.Node, why string) string {
	c.d.errs = append(c.d.errs, fmt.Sprintf("%s (%T)", why, n))
	return "«untranslatable»"
}

func (c *ctx) lookup(name string) (ast.Expr, bool) {
	for i := len(c.env) - 1; i >= 0; i-- {
		if t, ok := c.env[i][name]; ok {
			return t, true
		}
	}
	return nil, false
}
func (c *ctx) push()                        { c.env = append(c.env, map[string]ast.Expr{}) }
func (c *ctx) pop()                         { c.env = c.env[:len(c.env)-1] }
func (c *ctx) bindVar(n string, t ast.Expr) { c.env[len(c.env)-1][n] = t }
func (c *ctx) freshVar(p string) string {
	c.fresh++
	return p + strconv.Itoa(c.fresh)
}

// the declaration a (possibly qualified, possibly instantiated) name refers to; nil if none
func (c *ctx) global(e ast.Expr) *decl {
	switch x := e.(type) {
	case *ast.ParenExpr:
		return c.global(x.X)
	case *ast.IndexExpr:
		return c.global(x.X)
	case *ast.IndexListExpr:
		return c.global(x.X)
	case *ast.Ident:
		if _, local := c.lookup(x.Name); local || c.tparams[x.Name] {
			return nil
		}
		return c.g.decls[c.d.pkg+"."+x.Name]
	case *ast.SelectorExpr:
		if p, ok := x.X.(*ast.Ident); ok {
			if _, local := c.lookup(p.Name); local {
				return nil
			}
			if pkg, ok := c.d.imports[p.Name]; ok {
				return c.g.decls[pkg+"."+x.Sel.Name]
			}
		}
	}
	return nil
}

func (c *ctx) use(d *decl) string {
	c.d.deps[d.key] = true
	if !d.done {
		c.d.errs = append(c.d.errs, d.key+" not translated")
	}
	return d.lean
}

// Go type -> Lean type
func (c *ctx) ty(e ast.Expr) string {
	switch x := e.(type) {
	case *ast.ParenExpr:
		return c.ty(x.X)
	case *ast.Ident:
		if c.tparams[x.Name] {
			return id(x.Name)
		}
		if d := c.global(x); d != nil && d.ts != nil {
			return c.use(d)
		}
		return c.fail(x, "type "+x.Name)
	case *ast.SelectorExpr:
		if d := c.global(x); d != nil && d.ts != nil {
			return c.use(d)
		}
		return c.fail(x, "type ."+x.Sel.Name)
	case *ast.IndexExpr:
		return c.tyApp(x.X, []ast.Expr{x.Index})
	case *ast.IndexListExpr:
		return c.tyApp(x.X, x.Indices)
	case *ast.FuncType:
		return c.funcTy(x)
	}
	return c.fail(e, "type expression")
}

func (c *ctx) tyApp(h ast.Expr, args []ast.Expr) string {
	d := c.global(h)
	if d == nil || d.ts == nil {
		return c.fail(h, "generic type")
	}
	s := "(" + c.use(d)
	for _, a := range args {
		s += " " + c.ty(a)
	}
	return s + ")"
}

func fieldTypes(fl *ast.FieldList) []ast.Expr {
	var ts []ast.Expr
	if fl == nil {
		return nil
	}
	for _, f := range fl.List {
		n := len(f.Names)
		if n == 0 {
			n = 1
		}
		for i := 0; i < n; i++ {
			ts = append(ts, f.Type)
		}
	}
	return ts
}

func (c *ctx) resultTy(fl *ast.FieldList) string {
	ts := fieldTypes(fl)
	if len(ts) == 0 {
		return "Unit"
	}
	var ss []string
	for _, t := range ts {
		ss = append(ss, c.ty(t))
	}
	if len(ss) == 1 {
		return ss[0]
	}
	return "(" + strings.Join(ss, " × ") + ")"
}

func (c *ctx) funcTy(f *ast.FuncType) string {
	if f.TypeParams != nil {
		return c.fail(f, "generic function type")
	}
	ps := fieldTypes(f.Params)
	var ss []string
	for _, p := range ps {
		if _, isEll := p.(*ast.Ellipsis); isEll {
			return c.fail(p, "variadic")
		}
		ss = append(ss, c.ty(p))
	}
	if len(ss) == 0 {
		ss = append(ss, "Unit")
	}
	return "(" + strings.Join(ss, " → ") + " → GoM " + c.resultTy(f.Results) + ")"
}

// number of parameters of a function-typed Go type, -1 if unknown
func (c *ctx) arityOfType(t ast.Expr) int {
	switch x := t.(type) {
	case *ast.ParenExpr:
		return c.arityOfType(x.X)
	case *ast.FuncType:
		return len(fieldTypes(x.Params))
	case *ast.IndexExpr, *ast.IndexListExpr, *ast.Ident, *ast.SelectorExpr:
		if d := c.global(t); d != nil && d.ts != nil {
			if ft, ok := d.ts.Type.(*ast.FuncType); ok {
				return len(fieldTypes(ft.Params))
			}
		}
	}
	return -1
}

// an expression in A-normal form: effects (in evaluation order), then a pure term
type bnd struct{ v, m string }
type res struct {
	binds []bnd
	term  string
}

func isPkgName(c *ctx, e ast.Expr) bool {
	p, ok := e.(*ast.Ident)
	if !ok {
		return false
	}
	if _, local := c.lookup(p.Name); local {
		return false
	}
	_, ok = c.d.imports[p.Name]
	return ok
}

func (c *ctx) expr(e ast.Expr) res {
	switch x := e.(type) {
	case *ast.ParenExpr:
		return c.expr(x.X)
	case *ast.Ident:
		if _, ok := c.lookup(x.Name); ok {
			return res{term: id(x.Name)}
		}
		return res{term: c.fail(x, "identifier "+x.Name)}
	case *ast.SelectorExpr:
		if isPkgName(c, x.X) {
			return res{term: c.fail(x, "package-level value ."+x.Sel.Name)}
		}
		r := c.expr(x.X)
		return res{r.binds, r.term + "." + id(x.Sel.Name)}
	case *ast.FuncLit:
		return res{term: c.funcLit(x)}
	case *ast.CompositeLit:
		return c.composite(x)
	case *ast.CallExpr:
		return c.call(x)
	}
	return res{term: c.fail(e, "expression")}
}

func (c *ctx) params(fl *ast.FieldList) string {
	var ps []string
	if fl != nil {
		for _, f := range fl.List {
			t := c.ty(f.Type)
			if len(f.Names) == 0 {
				ps = append(ps, "(_ : "+t+")")
			}
			for _, n := range f.Names {
				c.bindVar(n.Name, f.Type)
				nm := id(n.Name)
				if n.Name == "_" {
					nm = "_"
				}
				ps = append(ps, "("+nm+" : "+t+")")
			}
		}
	}
	return strings.Join(ps, " ")
}

func (c *ctx) funcLit(f *ast.FuncLit) string {
	c.push()
	defer c.pop()
	ps := c.params(f.Type.Params)
	if ps == "" {
		ps = "(_ : Unit)"
	}
	b := c.block(f.Body.List, len(fieldTypes(f.Type.Results)))
	return "(fun " + ps + " => " + b.monadic() + ")"
}

func (c *ctx) composite(x *ast.CompositeLit) res {
	if x.Type == nil {
		return res{term: c.fail(x, "untyped composite literal")}
	}
	d := c.global(x.Type)
	if d == nil || d.ts == nil {
		return res{term: c.fail(x, "composite literal of an untranslated type")}
	}
	if _, ok := d.ts.Type.(*ast.StructType); !ok {
		return res{term: c.fail(x, "composite literal of a non-struct type")}
	}
	t := c.ty(x.Type)
	var out res
	var parts []string
	keyed := false
	for i, el := range x.Elts {
		if kv, ok := el.(*ast.KeyValueExpr); ok {
			k, ok := kv.Key.(*ast.Ident)
			if !ok || (i > 0 && !keyed) {
				return res{term: c.fail(x, "composite literal key")}
			}
			keyed = true
			r := c.expr(kv.Value)
			out.binds = append(out.binds, r.binds...)
			parts = append(parts, id(k.Name)+" := "+r.term)
		} else {
			if keyed {
				return res{term: c.fail(x, "mixed composite literal")}
			}
			r := c.expr(el)
			out.binds = append(out.binds, r.binds...)
			parts = append(parts, r.term)
		}
	}
	if keyed {
		// Go leaves an unmentioned field at its zero value: not in the fragment (and never intended in a constructor)
		if nf := len(fieldTypes(d.ts.Type.(*ast.StructType).Fields)); len(parts) != nf {
			return res{term: c.fail(x, fmt.Sprintf("keyed composite literal sets %d of %d fields (the others stay zero)", len(parts), nf))}
		}
		out.term = "({ " + strings.Join(parts, ", ") + " } : " + t + ")"
	} else {
		// positional (or empty): every field, in declaration order
		nf := len(fieldTypes(d.ts.Type.(*ast.StructType).Fields))
		if len(parts) != nf {
			return res{term: c.fail(x, "positional composite literal with missing fields")}
		}
		out.term = "(⟨" + strings.Join(parts, ", ") + "⟩ : " + t + ")"
	}
	return out
}

func proj(p string, i, k int) string { // i-th of k components of a right-nested product
	s := p + strings.Repeat(".2", i-1)
	if i < k {
		s += ".1"
	}
	return s
}

func (c *ctx) args(x *ast.CallExpr, nparams int, out *res) []string {
	if x.Ellipsis != token.NoPos {
		c.fail(x, "variadic call")
	}
	// g(f()) with a multi-valued f
	if len(x.Args) == 1 && nparams > 1 {
		if _, isCall := x.Args[0].(*ast.CallExpr); !isCall {
			c.fail(x, "argument count")
			return nil
		}
		r := c.expr(x.Args[0])
		out.binds = append(out.binds, r.binds...)
		p := c.freshVar("p")
		out.binds = append(out.binds, bnd{p, "=" + r.term}) // "=": a pure let
		var as []string
		for i := 1; i <= nparams; i++ {
			as = append(as, proj(p, i, nparams))
		}
		return as
	}
	if nparams >= 0 && len(x.Args) != nparams {
		c.fail(x, "argument count")
	}
	var as []string
	for _, a := range x.Args {
		r := c.expr(a)
		out.binds = append(out.binds, r.binds...)
		as = append(as, r.term)
	}
	return as
}

func app(f string, as []string) string {
	if len(as) == 0 {
		return f
	}
	return "(" + f + " " + strings.Join(as, " ") + ")"
}

func (c *ctx) call(x *ast.CallExpr) res {
	fun := x.Fun
	for {
		if p, ok := fun.(*ast.ParenExpr); ok {
			fun = p.X
		} else {
			break
		}
	}
	// conversion T(e) to a translated type: the value itself (named function types are abbreviations; a struct converts to itself)
	if _, isFT := fun.(*ast.FuncType); isFT && len(x.Args) == 1 {
		c.ty(fun)
		return c.expr(x.Args[0])
	}
	if d := c.global(fun); d != nil {
		if d.ts != nil {
			if len(x.Args) != 1 {
				return res{term: c.fail(x, "conversion arity")}
			}
			c.ty(fun)
			return c.expr(x.Args[0])
		}
		if d.fn != nil && d.fn.Recv == nil {
			// a translated package-level function
			if !d.done {
				c.d.deps[d.key] = true
				if d.key == c.d.key {
					return res{term: c.fail(x, "recursion")}
				}
				return res{term: c.fail(x, "call of "+d.key+" before its translation (cycle?)")}
			}
			var out res
			as := c.args(x, d.nparams, &out)
			t := app(c.use(d), as)
			if d.eff {
				v := c.freshVar("x")
				out.binds = append(out.binds, bnd{v, t})
				out.term = v
			} else {
				out.term = t
			}
			return out
		}
	}
	// method call on a translated type
	if s, ok := fun.(*ast.SelectorExpr); ok && !isPkgName(c, s.X) {
		if ms := c.g.methods[s.Sel.Name]; len(ms) > 0 {
			c.d.deps["·"+s.Sel.Name] = true
			eff, np := ms[0].eff, ms[0].nparams
			for _, m := range ms {
				if !m.done {
					return res{term: c.fail(x, "method "+m.key+" not translated")}
				}
				if m.eff != eff || m.nparams != np {
					return res{term: c.fail(x, "methods named "+s.Sel.Name+" differ in shape")}
				}
			}
			out := c.expr(s.X)
			as := c.args(x, np, &out)
			t := app(out.term+"."+id(s.Sel.Name), as)
			if len(as) == 0 {
				t = "(" + t + ")"
			}
			if eff {
				v := c.freshVar("x")
				out.binds = append(out.binds, bnd{v, t})
				out.term = v
			} else {
				out.term = t
			}
			return out
		}
	}
	// a call of a function VALUE (parameter, local, field, result of another call): an effect
	switch fun.(type) {
	case *ast.Ident, *ast.SelectorExpr, *ast.CallExpr:
	default:
		return res{term: c.fail(x, "callee")}
	}
	if id, ok := fun.(*ast.Ident); ok {
		if _, local := c.lookup(id.Name); !local {
			return res{term: c.fail(x, "call of "+id.Name+" (builtin or untranslated)")}
		}
	}
	if s, ok := fun.(*ast.SelectorExpr); ok && isPkgName(c, s.X) {
		return res{term: c.fail(x, "call of untranslated "+s.X.(*ast.Ident).Name+"."+s.Sel.Name)}
	}
	np := -1
	if id, ok := fun.(*ast.Ident); ok {
		if t, _ := c.lookup(id.Name); t != nil {
			np = c.arityOfType(t)
		}
	}
	if np < 0 && len(x.Args) == 1 {
		if _, isCall := x.Args[0].(*ast.CallExpr); isCall {
			// the callee's arity is needed to tell f(g()) with a multi-valued g; only single-valued calls are accepted here
			np = 1
		}
	}
	out := c.expr(fun)
	as := c.args(x, np, &out)
	if len(as) == 0 {
		as = []string{"()"}
	}
	v := c.freshVar("x")
	out.binds = append(out.binds, bnd{v, app(out.term, as)})
	out.term = v
	return out
}

// a statement list: lets and binds, then either a pure value or a final effect (tail call)
type blk struct {
	items []bnd // m starting with "=": pure let
	term  string
	tail  string // non-empty: the block ends in this effect
}

func (b blk) pure() bool {
	if b.tail != "" {
		return false
	}
	for _, it := range b.items {
		if !strings.HasPrefix(it.m, "=") {
			return false
		}
	}
	return true
}

func (b blk) render(last string) string {
	var s strings.Builder
	for _, it := range b.items {
		if strings.HasPrefix(it.m, "=") {
			s.WriteString("let " + it.v + " := " + it.m[1:] + "; ")
		} else {
			s.WriteString(it.m + " >>= fun " + it.v + " => ")
		}
	}
	s.WriteString(last)
	return s.String()
}

// as a value of type GoM R
func (b blk) monadic() string {
	if b.tail != "" {
		return b.render(b.tail)
	}
	return b.render("pure " + b.term)
}

// as a value of type R (only for pure blocks)
func (b blk) value() string { return b.render(b.term) }

func (c *ctx) block(stmts []ast.Stmt, nresults int) blk {
	var b blk
	for i, st := range stmts {
		switch s := st.(type) {
		case *ast.AssignStmt:
			if s.Tok != token.DEFINE || len(s.Lhs) != 1 || len(s.Rhs) != 1 {
				b.term = c.fail(s, "assignment shape")
				return b
			}
			lhs, ok := s.Lhs[0].(*ast.Ident)
			if !ok {
				b.term = c.fail(s, "assignment target")
				return b
			}
			r := c.expr(s.Rhs[0])
			b.items = append(b.items, r.binds...)
			// `x := effect`: name the bound variable x
			if n := len(b.items); n > 0 && b.items[n-1].v == r.term && !strings.HasPrefix(b.items[n-1].m, "=") {
				b.items[n-1].v = id(lhs.Name)
			} else {
				b.items = append(b.items, bnd{id(lhs.Name), "=" + r.term})
			}
			c.bindVar(lhs.Name, nil)
		case *ast.ExprStmt:
			call, ok := s.X.(*ast.CallExpr)
			if !ok {
				b.term = c.fail(s, "expression statement")
				return b
			}
			r := c.expr(call)
			b.items = append(b.items, r.binds...)
			if n := len(b.items); n > 0 && b.items[n-1].v == r.term && !strings.HasPrefix(b.items[n-1].m, "=") {
				b.items[n-1].v = "_"
			}
			// a pure call statement has no effect
		case *ast.ReturnStmt:
			if i != len(stmts)-1 {
				b.term = c.fail(s, "return before the end")
				return b
			}
			if len(s.Results) != nresults && !(len(s.Results) == 1 && nresults > 1) {
				b.term = c.fail(s, "result count")
				return b
			}
			if len(s.Results) == 0 {
				b.term = "()"
				return b
			}
			var ts []string
			for _, e := range s.Results {
				r := c.expr(e)
				b.items = append(b.items, r.binds...)
				ts = append(ts, r.term)
			}
			if len(ts) == 1 {
				b.term = ts[0]
				// tail call
				if n := len(b.items); n > 0 && b.items[n-1].v == ts[0] && !strings.HasPrefix(b.items[n-1].m, "=") {
					b.tail = b.items[n-1].m
					b.items = b.items[:n-1]
				}
			} else {
				b.term = "(" + strings.Join(ts, ", ") + ")"
			}
			return b
		default:
			b.term = c.fail(st, "statement")
			return b
		}
	}
	if nresults != 0 {
		b.term = c.fail(&ast.BlockStmt{}, "missing return")
		return b
	}
	b.term = "()"
	return b
}

func typeParamNames(fl *ast.FieldList) []string {
	var ns []string
	if fl == nil {
		return nil
	}
	for _, f := range fl.List {
		for _, n := range f.Names {
			ns = append(ns, n.Name)
		}
	}
	return ns
}

func (g *global) translate(d *decl) {
	c := &ctx{g: g, d: d, tparams: map[string]bool{}}
	d.deps = map[string]bool{}
	c.push()
	src := fmt.Sprintf("%s:%d", d.file, d.line)
	if d.ts != nil {
		tps := typeParamNames(d.ts.TypeParams)
		for _, n := range tps {
			c.tparams[n] = true
		}
		bind := ""
		if len(tps) > 0 {
			var q []string
			for _, n := range tps {
				q = append(q, id(n))
			}
			bind = " (" + strings.Join(q, " ") + " : Type)"
		}
		switch t := d.ts.Type.(type) {
		case *ast.StructType:
			var fs []string
			for _, f := range t.Fields.List {
				if len(f.Names) == 0 {
					c.fail(f, "embedded field")
				}
				ft := c.ty(f.Type)
				for _, n := range f.Names {
					fs = append(fs, "  "+id(n.Name)+" : "+ft+"\n")
				}
			}
			d.text = fmt.Sprintf("/-- `%s` (%s) -/\nstructure %s%s where\n%s", d.key, src, d.lean, bind, strings.Join(fs, ""))
		case *ast.FuncType:
			d.text = fmt.Sprintf("/-- `%s` (%s) -/\nabbrev %s%s : Type := %s\n", d.key, src, d.lean, bind, c.funcTy(t))
		default:
			c.fail(t, "type declaration")
		}
		d.done = len(d.errs) == 0
		return
	}
	fn := d.fn
	var tps []string
	var recv string
	if fn.Recv != nil {
		rt := fn.Recv.List[0].Type
		switch x := rt.(type) {
		case *ast.IndexExpr:
			if n, ok := x.Index.(*ast.Ident); ok {
				tps = append(tps, n.Name)
			}
		case *ast.IndexListExpr:
			for _, ix := range x.Indices {
				if n, ok := ix.(*ast.Ident); ok {
					tps = append(tps, n.Name)
				}
			}
		case *ast.Ident:
		default:
			c.fail(rt, "receiver type")
		}
		for _, n := range tps {
			c.tparams[n] = true
		}
		rn := "_"
		if len(fn.Recv.List[0].Names) == 1 {
			rn = fn.Recv.List[0].Names[0].Name
			c.bindVar(rn, rt)
			rn = id(rn)
		}
		recv = "(" + rn + " : " + c.ty(rt) + ") "
	}
	for _, n := range typeParamNames(fn.Type.TypeParams) {
		tps = append(tps, n)
		c.tparams[n] = true
	}
	if fn.Body == nil {
		c.fail(fn, "no body")
		return
	}
	ps := c.params(fn.Type.Params)
	d.nparams = len(fieldTypes(fn.Type.Params))
	rty := c.resultTy(fn.Type.Results)
	b := c.block(fn.Body.List, len(fieldTypes(fn.Type.Results)))
	if len(d.errs) > 0 {
		return
	}
	var body string
	if b.pure() {
		body = b.value()
	} else {
		d.eff = true
		rty = "GoM " + rty
		body = b.monadic()
	}
	tb := ""
	if len(tps) > 0 {
		var q []string
		for _, n := range tps {
			q = append(q, id(n))
		}
		tb = "{" + strings.Join(q, " ") + " : Type} "
	}
	d.text = fmt.Sprintf("/-- translation of `%s` (%s) -/\ndef %s %s%s%s : %s :=\n  %s\n", d.key, src, d.lean, tb, recv, ps, rty, body)
	d.done = true
}

// ---------------------------------------------------------------------------------------------------------------------

var digits = regexp.MustCompile(`\d+`)

type summary struct {
	Translated     int                 `json:"translated"`
	Untranslatable map[string][]string `json:"untranslatable"`
	Exceptions     map[string]int      `json:"exceptions"`
	Families       map[string][]int    `json:"families"`
	Max            map[string]int      `json:"max"`
}

func main() {
	repo, out := os.Args[1], os.Args[2]
	g := &global{decls: map[string]*decl{}, methods: map[string][]*decl{}}
	sum := summary{Untranslatable: map[string][]string{}, Exceptions: map[string]int{}, Families: map[string][]int{}, Max: map[string]int{}}
	var excRe []*regexp.Regexp
	for _, e := range exceptions {
		excRe = append(excRe, regexp.MustCompile(e.re))
	}
	excCount := map[int]int{}

	for _, u := range units {
		want := map[string]map[string]bool{}
		var files []string
		for _, f := range u.gen {
			files = append(files, f)
		}
		for f, names := range u.base {
			files = append(files, f)
			want[f] = map[string]bool{}
			for _, n := range names {
				want[f][n] = true
			}
		}
		sort.Strings(files)
		for _, fname := range files {
			rel := filepath.Join(u.dir, fname)
			fset := token.NewFileSet()
			f, err := parser.ParseFile(fset, filepath.Join(repo, rel), nil, 0)
			if err != nil {
				sum.Untranslatable[rel] = []string{"parse: " + err.Error()}
				continue
			}
			imports := map[string]string{}
			for _, im := range f.Imports {
				p, _ := strconv.Unquote(im.Path.Value)
				if pk, ok := importPkg[p]; ok {
					name := filepath.Base(p)
					if im.Name != nil {
						name = im.Name.Name
					}
					imports[name] = pk
				}
			}
			sel, generated := want[fname]
			generated = !generated
			seen := map[string]bool{}
			add := func(name string, d *decl) {
				if !generated {
					if !sel[name] {
						return
					}
					seen[name] = true
				}
				d.key = u.pkg + "." + name
				d.lean = u.pkg + "_" + name
				d.pkg, d.file, d.generated, d.imports = u.pkg, rel, generated, imports
				if generated {
					for i, re := range excRe {
						if re.MatchString(d.key) {
							excCount[i]++
							sum.Exceptions[exceptions[i].re]++
							return
						}
					}
				}
				if _, dup := g.decls[d.key]; dup {
					sum.Untranslatable[d.key] = []string{"declared twice"}
					return
				}
				g.decls[d.key] = d
				g.order = append(g.order, d.key)
				if d.fn != nil && d.fn.Recv != nil {
					g.methods[d.fn.Name.Name] = append(g.methods[d.fn.Name.Name], d)
				}
			}
			for _, dd := range f.Decls {
				switch x := dd.(type) {
				case *ast.FuncDecl:
					name := x.Name.Name
					if x.Recv != nil {
						rt := x.Recv.List[0].Type
						for {
							switch y := rt.(type) {
							case *ast.IndexExpr:
								rt = y.X
								continue
							case *ast.IndexListExpr:
								rt = y.X
								continue
							case *ast.StarExpr:
								rt = y.X
								continue
							}
							break
						}
						if rid, ok := rt.(*ast.Ident); ok {
							name = rid.Name + "." + name
						} else {
							name = "?." + name
						}
					}
					add(name, &decl{fn: x, line: fset.Position(x.Pos()).Line})
				case *ast.GenDecl:
					if x.Tok == token.IMPORT {
						continue
					}
					if x.Tok != token.TYPE {
						if generated {
							sum.Untranslatable[rel+":"+strconv.Itoa(fset.Position(x.Pos()).Line)] = []string{"var/const declaration"}
						}
						continue
					}
					for _, sp := range x.Specs {
						ts := sp.(*ast.TypeSpec)
						add(ts.Name.Name, &decl{ts: ts, line: fset.Position(ts.Pos()).Line})
					}
				}
			}
			for n := range sel {
				if !seen[n] {
					sum.Untranslatable[u.pkg+"."+n] = []string{"not found in " + rel}
				}
			}
		}
	}

	// translate in dependency order: repeat until nothing new can be translated (a declaration is attempted only when every
	// declaration it may call has been translated; what remains is reported)
	var emitted []*decl
	pending := append([]string(nil), g.order...)
	// types first (their fields mention only types), then functions/methods
	sort.SliceStable(pending, func(i, j int) bool { return (g.decls[pending[i]].ts != nil) && (g.decls[pending[j]].ts == nil) })
	for progress := true; progress && len(pending) > 0; {
		progress = false
		var next []string
		for _, k := range pending {
			d := g.decls[k]
			d.errs = nil
			g.translate(d)
			if d.done {
				emitted = append(emitted, d)
				progress = true
			} else {
				next = append(next, k)
			}
		}
		pending = next
	}
	for _, k := range pending {
		sum.Untranslatable[k] = g.decls[k].errs
	}

	var b strings.Builder
	b.WriteString("-- GENERATED by harness/cmd/go2lean2 from the repository's source; do not edit, not under version control.\n")
	b.WriteString("import FpVerif.Base\nset_option linter.unusedVariables false\nset_option autoImplicit false\nnamespace FpVerif.Gen.Arity\nopen FpVerif\n\n")
	for _, d := range emitted {
		b.WriteString(d.text)
		b.WriteString("\n")
		sum.Translated++
	}
	for _, k := range pending {
		fmt.Fprintf(&b, "-- %s: untranslatable: %s\n\n", k, strings.Join(g.decls[k].errs, "; "))
	}

	// the generated declarations found, per family (digits of the name replaced by N) with the arity = first number of the name
	fam := map[string][]int{}
	for _, d := range emitted {
		if !d.generated {
			continue
		}
		name := strings.TrimPrefix(d.key, d.pkg+".")
		m := digits.FindString(name)
		if m == "" {
			fam[d.key] = append(fam[d.key], 0)
			continue
		}
		n, _ := strconv.Atoi(m)
		f := d.pkg + "." + digits.ReplaceAllString(name, "N")
		fam[f] = append(fam[f], n)
	}
	var fams []string
	for f := range fam {
		sort.Ints(fam[f])
		fams = append(fams, f)
	}
	sort.Strings(fams)
	sum.Families = fam
	b.WriteString("/-- the generated declarations found in the source and translated: family ↦ arities -/\ndef found : List (String × List Nat) := [\n")
	for i, f := range fams {
		var ns []string
		for _, n := range fam[f] {
			ns = append(ns, strconv.Itoa(n))
		}
		sep := ","
		if i == len(fams)-1 {
			sep = ""
		}
		fmt.Fprintf(&b, "  (%q, [%s])%s\n", f, strings.Join(ns, ", "), sep)
	}
	b.WriteString("]\n\n")

	// the exception list (pattern, reason, number of declarations it removed)
	b.WriteString("/-- declarations of the generated files deliberately NOT translated: (pattern, reason, how many) -/\ndef exceptions : List (String × String × Nat) := [")
	for i, e := range exceptions {
		if i > 0 {
			b.WriteString(", ")
		}
		fmt.Fprintf(&b, "(%q, %q, %d)", e.re, e.why, excCount[i])
	}
	b.WriteString("]\n\n")

	// internal/max/max.go
	maxRe := regexp.MustCompile(`(?m)^const\s+(\w+)\s*=\s*(\d+)`)
	if src, err := os.ReadFile(filepath.Join(repo, "internal/max/max.go")); err == nil {
		for _, m := range maxRe.FindAllStringSubmatch(string(src), -1) {
			v, _ := strconv.Atoi(m[2])
			sum.Max[m[1]] = v
		}
	} else {
		sum.Untranslatable["internal/max/max.go"] = []string{err.Error()}
	}
	for _, k := range []string{"Product", "Func", "Compose"} {
		if _, ok := sum.Max[k]; !ok {
			sum.Untranslatable["max."+k] = []string{"constant not found in internal/max/max.go"}
		}
		fmt.Fprintf(&b, "/-- `max.%s` of internal/max/max.go -/\ndef max%s : Nat := %d\n", k, k, sum.Max[k])
	}
	b.WriteString("\nend FpVerif.Gen.Arity\n")
	if err := os.MkdirAll(filepath.Dir(out), 0o755); err != nil {
		panic(err)
	}
	if err := os.WriteFile(out, []byte(b.String()), 0o644); err != nil {
		panic(err)
	}
	js, _ := json.Marshal(sum)
	fmt.Println(string(js))
}
