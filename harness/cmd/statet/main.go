// Correspondence + direct property harness for fp.StateT / package statet (C17).
package main

import (
	"flag"
	"fmt"
	"os"
	"verifharness/historychk"

	"github.com/csgura/fp"
	"github.com/csgura/fp/iterator"
	"github.com/csgura/fp/statet"
	. "verifharness/common"
)

type P = fp.StateT[int, any]

func unitP(p fp.StateT[int, fp.Unit]) P {
	return func(s int) (fp.Try[any], int) {
		r, ns := p(s)
		if r.IsSuccess() {
			return fp.Success[any](r.Get()), ns
		}
		return fp.Failure[any](r.Failed().Get()), ns
	}
}

func tryOf(s *Sx) fp.Try[any] {
	switch s.Head() {
	case "succ":
		return fp.Success[any](s.List[1].Int())
	case "fail":
		return fp.Failure[any](E(s.List[1].Int()))
	case "zero":
		return fp.Try[any]{}
	}
	panic("bad T " + s.String())
}

func sI(f func(any) any) func(int) int { return func(s int) int { return AsInt(f(s)) } }
func sV(f func(any) any) func(int) any { return func(s int) any { return f(s) } }

func progOf(s *Sx) P {
	a := s.List
	switch s.Head() {
	case "pure":
		return statet.Pure[int, any](a[1].Int())
	case "put":
		return unitP(statet.Put(a[1].Int()))
	case "get":
		g := statet.Get[int]()
		return func(s int) (fp.Try[any], int) {
			r, ns := g(s)
			if r.IsSuccess() {
				return fp.Success[any](r.Get()), ns
			}
			return fp.Failure[any](r.Failed().Get()), ns
		}
	case "modify":
		return unitP(statet.Modify(sI(F1Of(a[1]))))
	case "modifyT":
		k := KTOf(a[1])
		return unitP(statet.ModifyT(func(s int) fp.Try[int] {
			t := k(s)
			if t.IsSuccess() {
				return fp.Success(AsInt(t.Get()))
			}
			return fp.Failure[int](t.Failed().Get())
		}))
	case "modifyS":
		return statet.ModifyS(sI(F1Of(a[1])), sV(F1Of(a[2])))
	case "getS":
		return statet.GetS(sV(F1Of(a[1])))
	case "getST":
		k := KTOf(a[1])
		return statet.GetST(func(s int) fp.Try[any] { return k(s) })
	case "putWith":
		g := F2Of(a[1])
		return unitP(statet.PutWith(func(s int, v any) int { return AsInt(g(s, v)) })(any(a[2].Int())))
	case "fromTry":
		return statet.FromTry[int](tryOf(a[1]))
	case "flatMap":
		return statet.FlatMap(progOf(a[1]), kpOf(a[2]))
	case "flatMapConst":
		return statet.FlatMapConst(progOf(a[1]), progOf(a[2]))
	case "withState":
		k := kpOf(a[1])
		return statet.WithState(func(s int) P { return k(s) })
	case "map":
		return statet.Map(progOf(a[1]), F1Of(a[2]))
	case "mapT":
		return statet.MapT(progOf(a[1]), KTOf(a[2]))
	case "mapWithState":
		g := F2Of(a[2])
		return statet.MapWithState(progOf(a[1]), func(s int, v any) any { return g(s, v) })
	case "mapWithStateT":
		g := F2Of(a[2])
		return statet.MapWithStateT(progOf(a[1]), func(s int, v any) fp.Try[any] {
			r := g(s, v)
			if Emod(AsInt(r), 3) == 0 {
				return fp.Failure[any](E(77))
			}
			return fp.Success(r)
		})
	case "peekState":
		id := a[2].Int()
		return statet.PeekState(progOf(a[1]), func(s int) { Emit("peek%d:%d", id, s) })
	case "transform":
		id := a[2].Int()
		return statet.Transform(progOf(a[1]), func(s int, t fp.Try[any]) (int, fp.Try[any]) {
			Emit("tr%d:%d,%s", id, s, Show(t))
			if t.IsSuccess() {
				return s + 1, fp.Success[any](fp.Tuple1[any]{I1: t.Get()})
			}
			if f := t.Failed(); f.IsSuccess() {
				if c, ok := f.Get().(CodeErr); ok {
					return s + 2, fp.Success[any](int(c))
				}
			}
			return s + 3, t
		})
	case "transformWith":
		id := a[2].Int()
		q, r := progOf(a[3]), progOf(a[4])
		return statet.TransformWith(progOf(a[1]), func(t fp.Try[any]) P {
			Emit("tw%d:%s", id, Show(t))
			if t.IsSuccess() {
				return q
			}
			return r
		})
	case "foldM":
		z := a[1].Int()
		k := kpOf(a[2].List[1])
		xs := []any{}
		for _, x := range a[3:] {
			xs = append(xs, x.Int())
		}
		return statet.FoldM(iterator.FromSeq(xs), any(z), func(b any, x any) P { return k(AsInt(b) + AsInt(x)) })
	case "concat":
		tail := []P{}
		for _, x := range a[2:] {
			tail = append(tail, progOf(x))
		}
		return statet.Concat(progOf(a[1]), tail...)
	case "recover":
		return progOf(a[1]).Recover(hOf(a[2]))
	case "recoverT":
		return progOf(a[1]).RecoverT(htOf(a[2]))
	case "recoverWithState":
		return progOf(a[1]).RecoverWithState(h2Of(a[2]))
	case "recoverWithStateT":
		return progOf(a[1]).RecoverWithStateT(h2tOf(a[2]))
	case "recoverWith":
		return progOf(a[1]).RecoverWith(hpOf(a[2]))
	case "recoverCase":
		return progOf(a[1]).RecoverCase(peOf(a[2]), hOf(a[3]))
	case "recoverCaseT":
		return progOf(a[1]).RecoverCaseT(peOf(a[2]), htOf(a[3]))
	case "recoverCaseWith":
		return progOf(a[1]).RecoverCaseWith(peOf(a[2]), hpOf(a[3]))
	}
	panic("bad P " + s.String())
}

func kpOf(s *Sx) func(any) P {
	a := s.List
	id := a[1].Int()
	switch s.Head() {
	case "kconst":
		p := progOf(a[2])
		return func(x any) P { Emit("kp%d:%s", id, Show(x)); return p }
	case "kput":
		return func(x any) P { Emit("kp%d:%s", id, Show(x)); return unitP(statet.Put(AsInt(x))) }
	case "kpure":
		f := F1Of(a[2])
		return func(x any) P { Emit("kp%d:%s", id, Show(x)); return statet.Pure[int](f(x)) }
	case "kmodadd":
		return func(x any) P {
			Emit("kp%d:%s", id, Show(x))
			return statet.ModifyS(func(s int) int { return s + AsInt(x) }, func(s int) any { return 2*AsInt(x) + s })
		}
	case "kfailif":
		m, e := a[2].Int(), a[3].Int()
		return func(x any) P {
			Emit("kp%d:%s", id, Show(x))
			if Emod(AsInt(x), m) == 0 {
				return statet.FromTry[int](fp.Failure[any](E(e)))
			}
			return statet.Pure[int, any](AsInt(x) + 1)
		}
	case "kpanic":
		p := a[2].Int()
		return func(x any) P { Emit("kp%d:%s", id, Show(x)); panic(p) }
	}
	panic("bad KP " + s.String())
}

func hOf(s *Sx) func(error) any {
	id, c := s.List[1].Int(), s.List[2].Int()
	return func(e error) any { Emit("h%d:%s", id, ShowErr(e)); return c }
}
func htOf(s *Sx) func(error) fp.Try[any] {
	id, t := s.List[1].Int(), tryOf(s.List[2])
	return func(e error) fp.Try[any] { Emit("h%d:%s", id, ShowErr(e)); return t }
}
func h2Of(s *Sx) func(int, error) any {
	id := s.List[1].Int()
	return func(st int, e error) any { Emit("h%d:%d,%s", id, st, ShowErr(e)); return st * 10 }
}
func h2tOf(s *Sx) func(int, error) fp.Try[any] {
	id, m := s.List[1].Int(), s.List[2].Int()
	return func(st int, e error) fp.Try[any] {
		Emit("h%d:%d,%s", id, st, ShowErr(e))
		if Emod(st, m) == 0 {
			return fp.Failure[any](E(99))
		}
		return fp.Success[any](st * 10)
	}
}
func hpOf(s *Sx) func(error) P {
	id, p := s.List[1].Int(), progOf(s.List[2])
	return func(e error) P { Emit("h%d:%s", id, ShowErr(e)); return p }
}
func peOf(s *Sx) func(error) bool {
	id, c := s.List[1].Int(), s.List[2].Int()
	return func(e error) bool { Emit("pe%d:%s", id, ShowErr(e)); return e == E(c) }
}

// ------------------------------------------------------------------------------------ generator

var hist = map[string]int{}

func genT(r *Rng) *Sx {
	switch r.Intn(6) {
	case 0, 1:
		return L(A("fail"), I(r.Range(1, 9)))
	case 2:
		if r.Intn(4) == 0 {
			return L(A("zero"))
		}
	}
	return L(A("succ"), I(r.Range(-3, 9)))
}

func genKP(r *Rng, d int) *Sx {
	id := NewID()
	switch r.Intn(8) {
	case 0, 1:
		return L(A("kconst"), I(id), genP(r, d-1))
	case 2:
		return L(A("kput"), I(id))
	case 3:
		return L(A("kpure"), I(id), GenF1(r, true))
	case 4:
		return L(A("kmodadd"), I(id))
	case 5, 6:
		return L(A("kfailif"), I(id), I(r.Range(2, 3)), I(r.Range(1, 9)))
	}
	if r.Intn(3) == 0 {
		return L(A("kpanic"), I(id), I(r.Range(1, 9)))
	}
	return L(A("kmodadd"), I(id))
}

func genLeaf(r *Rng) *Sx {
	switch r.Intn(11) {
	case 0:
		return L(A("pure"), I(r.Range(-3, 9)))
	case 1, 2:
		return L(A("put"), I(r.Range(-3, 20)))
	case 3:
		return L(A("get"))
	case 4:
		return L(A("modify"), GenF1(r, true))
	case 5:
		return L(A("modifyT"), GenKT(r, true))
	case 6:
		return L(A("modifyS"), GenF1(r, false), GenF1(r, false))
	case 7:
		return L(A("getS"), GenF1(r, true))
	case 8:
		return L(A("getST"), GenKT(r, true))
	case 9:
		return L(A("putWith"), GenF2(r, false), I(r.Range(-3, 9)))
	}
	return L(A("fromTry"), genT(r))
}

func genP(r *Rng, d int) *Sx {
	if d <= 0 || r.Intn(5) == 0 {
		return genLeaf(r)
	}
	var s *Sx
	switch r.Intn(24) {
	case 0, 1, 2:
		s = L(A("flatMap"), genP(r, d-1), genKP(r, d))
	case 3:
		s = L(A("flatMapConst"), genP(r, d-1), genP(r, d-1))
	case 4:
		s = L(A("withState"), genKP(r, d))
	case 5:
		s = L(A("map"), genP(r, d-1), GenF1(r, true))
	case 6:
		s = L(A("mapT"), genP(r, d-1), GenKT(r, true))
	case 7:
		s = L(A("mapWithState"), genP(r, d-1), GenF2(r, true))
	case 8:
		s = L(A("mapWithStateT"), genP(r, d-1), GenF2(r, true))
	case 9:
		s = L(A("peekState"), genP(r, d-1), I(NewID()))
	case 10:
		s = L(A("transform"), genP(r, d-1), I(NewID()))
	case 11:
		s = L(A("transformWith"), genP(r, d-1), I(NewID()), genP(r, d-2), genP(r, d-2))
	case 12:
		xs := []*Sx{A("foldM"), I(r.Range(0, 3)), L(A("k2"), genKP(r, d-1))}
		for i, n := 0, r.Intn(5); i < n; i++ {
			xs = append(xs, I(r.Range(0, 6)))
		}
		s = L(xs...)
	case 13:
		xs := []*Sx{A("concat"), genP(r, d-1)}
		for i, n := 0, r.Intn(4); i < n; i++ {
			xs = append(xs, genP(r, d-2))
		}
		s = L(xs...)
	case 14:
		s = L(A("recover"), genP(r, d-1), L(A("h"), I(NewID()), I(r.Range(0, 9))))
	case 15:
		s = L(A("recoverT"), genP(r, d-1), L(A("ht"), I(NewID()), genT(r)))
	case 16, 17:
		s = L(A("recoverWithState"), genP(r, d-1), L(A("h2"), I(NewID())))
	case 18, 19:
		s = L(A("recoverWithStateT"), genP(r, d-1), L(A("h2t"), I(NewID()), I(r.Range(2, 4))))
	case 20:
		s = L(A("recoverWith"), genP(r, d-1), L(A("hp"), I(NewID()), genP(r, d-2)))
	case 21:
		s = L(A("recoverCase"), genP(r, d-1), L(A("pe"), I(NewID()), I(r.Range(1, 9))), L(A("h"), I(NewID()), I(r.Range(0, 9))))
	case 22:
		s = L(A("recoverCaseT"), genP(r, d-1), L(A("pe"), I(NewID()), I(r.Range(1, 9))), L(A("ht"), I(NewID()), genT(r)))
	default:
		s = L(A("recoverCaseWith"), genP(r, d-1), L(A("pe"), I(NewID()), I(r.Range(1, 9))), L(A("hp"), I(NewID()), genP(r, d-2)))
	}
	return s
}

func count(s *Sx) {
	if s.IsL {
		if h := s.Head(); h != "" {
			hist[h]++
		}
		for _, x := range s.List {
			count(x)
		}
	}
}

func runCase(op *Sx) string {
	if op.Head() == "run2" {
		// a StateT is a VALUE: the same program run twice (from two initial states) behaves each time like a fresh run
		// (seeds C17-7 / C01-7: FoldM consuming its iterator at run time instead of at construction)
		s0, s1 := op.List[1].Int(), op.List[2].Int()
		return Outcome(func() string {
			prog := progOf(op.List[3])
			t0, n0 := prog.Run(s0)
			t1, n1 := prog.Run(s1)
			return fmt.Sprintf("%s @%d ; %s @%d", Show(t0), n0, Show(t1), n1)
		})
	}
	mode, s0, p := op.Head(), op.List[1].Int(), op.List[2]
	return Outcome(func() string {
		prog := progOf(p)
		switch mode {
		case "run":
			t, ns := prog.Run(s0)
			return fmt.Sprintf("%s @%d", Show(t), ns)
		case "exec":
			return Show(prog.Exec(s0))
		default:
			return Show(prog.Eval(s0))
		}
	})
}

// ------------------------------------------------------------------------------------ direct laws
// The property statement evaluated on the implementation itself, no model involved.

func direct(r *Rng, sink *Sink, n int) int {
	checks := 0
	run := func(p P, s0 int) string {
		return Outcome(func() string { t, ns := p.Run(s0); return fmt.Sprintf("%s @%d", Show(t), ns) })
	}
	for i := 0; i < n; i++ {
		s, s0 := r.Range(-5, 50), r.Range(-5, 50)
		if s == s0 {
			s0++
		}
		// Put(s) then Get yields s and leaves state s
		got := run(statet.FlatMap(unitP(statet.Put(s)), func(any) P { return progOf(L(A("get"))) }), s0)
		if want := fmt.Sprintf("Success(%d) @%d | ", s, s); got != want {
			sink.DirectFail("statet.Put", fmt.Sprintf("(law put_get s=%d s0=%d)", s, s0), "want "+want+" got "+got)
		}
		// Get then Put is a no-op
		got = run(statet.FlatMap(progOf(L(A("get"))), func(v any) P { return unitP(statet.Put(AsInt(v))) }), s0)
		if want := fmt.Sprintf("Success(unit) @%d | ", s0); got != want {
			sink.DirectFail("statet.Get/Put", fmt.Sprintf("(law get_put s0=%d)", s0), "want "+want+" got "+got)
		}
		// Modify(f) = Get >>= Put . f
		f := func(x int) int { return 3*x + s }
		got = run(unitP(statet.Modify(f)), s0)
		want := run(statet.FlatMap(progOf(L(A("get"))), func(v any) P { return unitP(statet.Put(f(AsInt(v)))) }), s0)
		if got != want {
			sink.DirectFail("statet.Modify", fmt.Sprintf("(law modify s=%d s0=%d)", s, s0), "want "+want+" got "+got)
		}
		// every Recover* variant that takes a state sees the post-failure state, which is also returned
		e := r.Range(1, 9)
		failing := statet.FlatMap(unitP(statet.Modify(func(int) int { return s })), func(any) P { return statet.FromTry[int](fp.Failure[any](E(e))) })
		var seen1, seen2 int
		_, ns1 := failing.RecoverWithState(func(st int, err error) any { seen1 = st; return 0 }).Run(s0)
		_, ns2 := failing.RecoverWithStateT(func(st int, err error) fp.Try[any] { seen2 = st; return fp.Success[any](0) }).Run(s0)
		if seen1 != s || ns1 != s {
			sink.DirectFail("StateT.RecoverWithState", fmt.Sprintf("(law recover_state s=%d s0=%d e=%d)", s, s0, e),
				fmt.Sprintf("handler saw %d, returned state %d, want %d", seen1, ns1, s))
		}
		if seen2 != s || ns2 != s {
			sink.DirectFail("StateT.RecoverWithStateT", fmt.Sprintf("(law recover_stateT s=%d s0=%d e=%d)", s, s0, e),
				fmt.Sprintf("handler saw %d, returned state %d, want %d", seen2, ns2, s))
		}
		checks += 5
	}
	return checks
}

func main() {
	seed := flag.Uint64("seed", 1, "PRNG seed")
	n := flag.Int("n", 2000, "number of generated cases")
	out := flag.String("out", ".", "output directory")
	replay := flag.String("replay", "", "run one op line and print the implementation's answer")
	opsFile := flag.String("ops", "", "run the op lines of this file instead of generating")
	flag.Parse()
	if *replay != "" {
		op, err := Parse(*replay)
		if err != nil {
			fmt.Println("bad-op")
			os.Exit(2)
		}
		fmt.Println(runCase(op))
		return
	}
	r := NewRng(*seed)
	sink := NewSink(*out)
	if *opsFile != "" {
		for _, line := range ReadLines(*opsFile) {
			op, err := Parse(line)
			if err != nil {
				continue
			}
			sink.Case(line, func() string { return runCase(op) })
		}
		sink.Close()
		fmt.Printf("{\"cases\": %d}\n", sink.N)
		return
	}
	for i := 0; i < *n; i++ {
		ResetIDs()
		depth := 1 + r.Intn(4)
		p := genP(r, depth)
		mode := Pick(r, "run", "run", "run", "run2", "exec", "eval")
		op := L(A(mode), I(r.Range(-3, 12)), p)
		if mode == "run2" {
			op = L(A(mode), I(r.Range(-3, 12)), I(r.Range(-3, 12)), p)
		}
		count(op)
		sink.Case(op.String(), func() string { return runCase(op) })
	}
	nd := direct(r, sink, *n/10+10)
	nd += historychk.Run(sink, "C17")
	sink.Close()
	fmt.Printf("{\"cases\": %d, \"direct_checks\": %d, \"direct_failures\": %d, \"histogram\": {", sink.N, nd, sink.DirectFailures)
	first := true
	for k, v := range hist {
		if !first {
			fmt.Print(", ")
		}
		first = false
		fmt.Printf("%q: %d", k, v)
	}
	fmt.Println("}}")
}
