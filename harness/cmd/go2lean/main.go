// go2lean: a (deliberately tiny) Go -> Lean 4 translator for the PURE generated TupleN instance families
//
//	eq/tuple_gen.go  hash/tuple_gen.go  ord/tuple_gen.go  monoid/tuple_gen.go  clone/clone_gen.go
//
// Tie A of DESIGN.md: on every run the function bodies found in the working tree are translated, function by function,
// into Lean definitions over the dictionaries of FpVerif/Model/TypeClasses.lean (FpVerif/Gen/TupleGen.lean, never under
// version control); the committed theorems of FpVerif/Spec/C14Gen.lean state that each translated definition IS the
// arity-generic model instance (`tupleN i1 (tupleN i2 (… (tuple1 iN)))`) resp. the defining equation of C14, by `rfl`.
// A change to one generated function (wrong variable, swapped operands, dropped component) changes the translated
// definition and the theorem for that arity no longer checks.
//
// The fragment: `pt := TupleK(ins…)`, `return New(…)`, function literals whose bodies are `if c { return e }`* `return e`,
// `&&`, `*`, `+`, integer literals, `x.Ik`, `x.Head()`, `as.TupleK(x.Tail())`, method calls Eqv/Less/Hash/Combine/Empty/Clone
// on instance parameters, `product.TupleN(e1..eN)` / `as.TupleN(e1..eN)` constructors, conversions `fp.LessFunc[T](f)`.
// Anything else is reported as untranslatable (the definition is then missing and the theorem about it fails to build).
//
// usage: go2lean <repo> <out.lean>      last stdout line: JSON summary
package main

import (
	"encoding/json"
	"fmt"
	"go/ast"
	"go/parser"
	"go/token"
	"os"
	"path/filepath"
	"regexp"
	"sort"
	"strconv"
	"strings"
)

type family struct {
	name string // eq hash ord monoid clone
	file string
	dict string // EqD HashD OrdD MonoidD CloneD
}

var families = []family{
	{"eq", "eq/tuple_gen.go", "EqD"},
	{"hash", "hash/tuple_gen.go", "HashD"},
	{"ord", "ord/tuple_gen.go", "OrdD"},
	{"monoid", "monoid/tuple_gen.go", "MonoidD"},
	{"clone", "clone/clone_gen.go", "CloneD"},
}

var tupleRe = regexp.MustCompile(`^Tuple(\d+)$`)
var fieldRe = regexp.MustCompile(`^I(\d+)$`)

type tr struct {
	fam   family
	n     int
	env   map[string]int // tuple-typed variables -> arity
	insts map[string]bool
	errs  []string
}

func (t *tr) fail(n ast.Node, why string) string {
	t.errs = append(t.errs, fmt.Sprintf("%s (%T)", why, n))
	return "«untranslatable»"
}

// arity of a type expression fp.TupleN[...]
func tupleArity(e ast.Expr) int {
	switch x := e.(type) {
	case *ast.IndexListExpr:
		return tupleArity(x.X)
	case *ast.IndexExpr:
		return tupleArity(x.X)
	case *ast.SelectorExpr:
		if m := tupleRe.FindStringSubmatch(x.Sel.Name); m != nil {
			k, _ := strconv.Atoi(m[1])
			return k
		}
	}
	return 0
}

func proj(x string, k, n int) string {
	s := x
	for i := 1; i < k; i++ {
		s += ".2"
	}
	if k == n {
		return s + ".i1"
	}
	return s + ".1"
}

func tupleCons(es []string, elemTy func(i int) string) string {
	// (e1, e2, …, (⟨eN⟩ : T1 AN))
	n := len(es)
	var b strings.Builder
	b.WriteString("(")
	for i := 0; i < n-1; i++ {
		b.WriteString(es[i])
		b.WriteString(", ")
	}
	b.WriteString("(⟨" + es[n-1] + "⟩ : T1 " + elemTy(n) + "))")
	return b.String()
}

func (t *tr) expr(e ast.Expr) string {
	switch x := e.(type) {
	case *ast.ParenExpr:
		return "(" + t.expr(x.X) + ")"
	case *ast.Ident:
		switch x.Name {
		case "true", "false":
			return x.Name
		}
		return x.Name
	case *ast.BasicLit:
		if x.Kind == token.INT {
			return x.Value
		}
		return t.fail(x, "literal "+x.Value)
	case *ast.BinaryExpr:
		l, r := t.expr(x.X), t.expr(x.Y)
		switch x.Op {
		case token.LAND:
			return "(" + l + " && " + r + ")"
		case token.LOR:
			return "(" + l + " || " + r + ")"
		case token.MUL:
			return "(" + l + " * " + r + ")"
		case token.ADD:
			return "(" + l + " + " + r + ")"
		}
		return t.fail(x, "operator "+x.Op.String())
	case *ast.UnaryExpr:
		if x.Op == token.NOT {
			return "(!" + t.expr(x.X) + ")"
		}
		return t.fail(x, "unary "+x.Op.String())
	case *ast.SelectorExpr:
		// x.Ik on a tuple variable
		if id, ok := x.X.(*ast.Ident); ok {
			if n, ok := t.env[id.Name]; ok {
				if m := fieldRe.FindStringSubmatch(x.Sel.Name); m != nil {
					k, _ := strconv.Atoi(m[1])
					if k >= 1 && k <= n {
						return proj(id.Name, k, n)
					}
				}
			}
		}
		return t.fail(x, "selector ."+x.Sel.Name)
	case *ast.FuncLit:
		return t.funcLit(x)
	case *ast.CallExpr:
		return t.call(x)
	}
	return t.fail(e, "expression")
}

func (t *tr) funcLit(f *ast.FuncLit) string {
	var names []string
	saved := map[string]int{}
	for k, v := range t.env {
		saved[k] = v
	}
	for _, fld := range f.Type.Params.List {
		ar := tupleArity(fld.Type)
		for _, nm := range fld.Names {
			names = append(names, nm.Name)
			if ar > 0 {
				t.env[nm.Name] = ar
			} else {
				delete(t.env, nm.Name)
			}
		}
	}
	body := t.block(f.Body.List)
	t.env = saved
	if len(names) == 0 {
		return "(fun _ => " + body + ")"
	}
	return "(fun " + strings.Join(names, " ") + " => " + body + ")"
}

// `if c { return a }`* `return b`
func (t *tr) block(stmts []ast.Stmt) string {
	if len(stmts) == 0 {
		return t.fail(&ast.BlockStmt{}, "empty body")
	}
	switch s := stmts[0].(type) {
	case *ast.ReturnStmt:
		if len(s.Results) != 1 || len(stmts) != 1 {
			return t.fail(s, "return shape")
		}
		return t.expr(s.Results[0])
	case *ast.IfStmt:
		if s.Init != nil || s.Else != nil || len(s.Body.List) != 1 {
			return t.fail(s, "if shape")
		}
		r, ok := s.Body.List[0].(*ast.ReturnStmt)
		if !ok || len(r.Results) != 1 {
			return t.fail(s, "if body")
		}
		return "(if " + t.expr(s.Cond) + " then " + t.expr(r.Results[0]) + " else " + t.block(stmts[1:]) + ")"
	}
	return t.fail(stmts[0], "statement")
}

var methods = map[string]string{"Eqv": "eqv", "Less": "less", "Hash": "hash", "Combine": "combine"}

func (t *tr) call(c *ast.CallExpr) string {
	// conversion fp.LessFunc[T](f) / fp.CompareFunc…: only LessFunc is in the fragment
	switch fx := c.Fun.(type) {
	case *ast.IndexExpr:
		if s, ok := fx.X.(*ast.SelectorExpr); ok && s.Sel.Name == "LessFunc" && len(c.Args) == 1 {
			return t.expr(c.Args[0])
		}
		return t.fail(c, "generic call")
	case *ast.IndexListExpr:
		return t.fail(c, "generic call")
	case *ast.Ident:
		if fx.Name == "New" {
			return t.newCall(t.fam.dict, c.Args)
		}
		if m := tupleRe.FindStringSubmatch(fx.Name); m != nil {
			return t.sibling(m[1], c.Args)
		}
		return t.fail(c, "call of "+fx.Name)
	case *ast.SelectorExpr:
		recv, isIdent := fx.X.(*ast.Ident)
		if isIdent {
			// eq.New(f)
			if recv.Name == "eq" && fx.Sel.Name == "New" {
				return t.newCall("EqD", c.Args)
			}
			// product.TupleN(e1..eN) / as.TupleN(e1..eN)
			if (recv.Name == "product" || recv.Name == "as") && tupleRe.MatchString(fx.Sel.Name) {
				k, _ := strconv.Atoi(tupleRe.FindStringSubmatch(fx.Sel.Name)[1])
				// as.TupleK(x.Tail())
				if len(c.Args) == 1 && recv.Name == "as" {
					if inner, ok := c.Args[0].(*ast.CallExpr); ok {
						if is, ok := inner.Fun.(*ast.SelectorExpr); ok && is.Sel.Name == "Tail" && len(inner.Args) == 0 {
							if id, ok := is.X.(*ast.Ident); ok && t.env[id.Name] == k+1 {
								return id.Name + ".2"
							}
						}
					}
				}
				if len(c.Args) == k && k == t.n && k >= 2 {
					var es []string
					for _, a := range c.Args {
						es = append(es, t.expr(a))
					}
					return tupleCons(es, func(i int) string { return "A" + strconv.Itoa(i) })
				}
				return t.fail(c, "tuple constructor shape")
			}
			// x.Head() on a tuple variable
			if n, ok := t.env[recv.Name]; ok && fx.Sel.Name == "Head" && len(c.Args) == 0 {
				return proj(recv.Name, 1, n)
			}
			// instance methods
			if t.insts[recv.Name] {
				if fx.Sel.Name == "Empty" && len(c.Args) == 0 {
					return recv.Name + ".empty"
				}
				if fx.Sel.Name == "Clone" && len(c.Args) == 1 {
					return "(" + recv.Name + " " + t.expr(c.Args[0]) + ")"
				}
				if lm, ok := methods[fx.Sel.Name]; ok {
					var as []string
					for _, a := range c.Args {
						as = append(as, t.expr(a))
					}
					return "(" + recv.Name + "." + lm + " " + strings.Join(as, " ") + ")"
				}
			}
		}
		return t.fail(c, "method/selector call ."+fx.Sel.Name)
	}
	return t.fail(c, "call")
}

func (t *tr) newCall(dict string, args []ast.Expr) string {
	var as []string
	for _, a := range args {
		as = append(as, t.expr(a))
	}
	if dict == "CloneD" {
		if len(as) != 1 {
			return t.fail(args[0], "clone.New arity")
		}
		return as[0]
	}
	return "(" + dict + ".new " + strings.Join(as, " ") + ")"
}

// TupleK(ins…) inside TupleN: the generated sibling for K >= 2, the hand-written (modelled) Tuple1 for K = 1
func (t *tr) sibling(k string, args []ast.Expr) string {
	var as []string
	for _, a := range args {
		as = append(as, t.expr(a))
	}
	if k == "1" {
		return "(" + t.fam.dict + ".tuple1 " + strings.Join(as, " ") + ")"
	}
	return "(" + t.fam.name + "Tuple" + k + " " + strings.Join(as, " ") + ")"
}

func tupleType(n int) string {
	var parts []string
	for i := 1; i < n; i++ {
		parts = append(parts, "A"+strconv.Itoa(i))
	}
	parts = append(parts, "T1 A"+strconv.Itoa(n))
	return strings.Join(parts, " × ")
}

type result struct {
	Translated     int                 `json:"translated"`
	Untranslatable map[string][]string `json:"untranslatable"`
	Arities        map[string][]int    `json:"arities"`
}

func main() {
	repo, out := os.Args[1], os.Args[2]
	res := result{Untranslatable: map[string][]string{}, Arities: map[string][]int{}}
	var b strings.Builder
	b.WriteString("-- GENERATED by harness/cmd/go2lean from the repository's source (eq/hash/ord/monoid tuple_gen.go, clone/clone_gen.go); do not edit.\n")
	b.WriteString("import FpVerif.Model.TypeClasses\nset_option linter.unusedVariables false\nnamespace FpVerif.Gen.Tuple\nopen FpVerif.TC\n\n")
	b.WriteString("/-- `fp.Clone[T]` as a dictionary: the clone function -/\nabbrev CloneD (α : Type) := α → α\n\n")
	for _, fam := range families {
		fset := token.NewFileSet()
		f, err := parser.ParseFile(fset, filepath.Join(repo, fam.file), nil, 0)
		if err != nil {
			res.Untranslatable[fam.name] = []string{"parse: " + err.Error()}
			continue
		}
		type fn struct {
			n    int
			decl *ast.FuncDecl
		}
		var fns []fn
		for _, d := range f.Decls {
			fd, ok := d.(*ast.FuncDecl)
			if !ok || fd.Recv != nil || fd.Body == nil {
				continue
			}
			if m := tupleRe.FindStringSubmatch(fd.Name.Name); m != nil {
				k, _ := strconv.Atoi(m[1])
				fns = append(fns, fn{k, fd})
			}
		}
		sort.Slice(fns, func(i, j int) bool { return fns[i].n < fns[j].n })
		for _, fx := range fns {
			t := &tr{fam: fam, n: fx.n, env: map[string]int{}, insts: map[string]bool{}}
			var params []string
			for _, fld := range fx.decl.Type.Params.List {
				for _, nm := range fld.Names {
					params = append(params, nm.Name)
					t.insts[nm.Name] = true
				}
			}
			name := fam.name + "Tuple" + strconv.Itoa(fx.n)
			if len(params) != fx.n {
				res.Untranslatable[name] = []string{"parameter count"}
				continue
			}
			var lets []string
			stmts := fx.decl.Body.List
			for len(stmts) > 1 {
				as, ok := stmts[0].(*ast.AssignStmt)
				if !ok || as.Tok != token.DEFINE || len(as.Lhs) != 1 || len(as.Rhs) != 1 {
					t.fail(stmts[0], "statement before return")
					break
				}
				id := as.Lhs[0].(*ast.Ident)
				lets = append(lets, "  let "+id.Name+" := "+t.expr(as.Rhs[0])+"\n")
				t.insts[id.Name] = true
				stmts = stmts[1:]
			}
			body := t.block(stmts)
			if len(t.errs) > 0 {
				res.Untranslatable[name] = t.errs
				fmt.Fprintf(&b, "-- %s: untranslatable: %s\n\n", name, strings.Join(t.errs, "; "))
				continue
			}
			var tys, ps []string
			for i := 1; i <= fx.n; i++ {
				tys = append(tys, "A"+strconv.Itoa(i))
				ps = append(ps, "("+params[i-1]+" : "+fam.dict+" A"+strconv.Itoa(i)+")")
			}
			fmt.Fprintf(&b, "/-- translation of `%s.Tuple%d` (%s) -/\ndef %s {%s : Type} %s : %s (%s) :=\n%s  %s\n\n",
				fam.name, fx.n, fam.file, name, strings.Join(tys, " "), strings.Join(ps, " "), fam.dict, tupleType(fx.n), strings.Join(lets, ""), body)
			res.Translated++
			res.Arities[fam.name] = append(res.Arities[fam.name], fx.n)
		}
	}
	// the arities found, for the coverage theorem
	b.WriteString("/-- the functions found in the source (family, arity) -/\ndef arities : List (String × Nat) := [")
	first := true
	for _, fam := range families {
		for _, k := range res.Arities[fam.name] {
			if !first {
				b.WriteString(", ")
			}
			first = false
			fmt.Fprintf(&b, "(\"%s\", %d)", fam.name, k)
		}
	}
	b.WriteString("]\n\nend FpVerif.Gen.Tuple\n")
	if err := os.MkdirAll(filepath.Dir(out), 0o755); err != nil {
		panic(err)
	}
	if err := os.WriteFile(out, []byte(b.String()), 0o644); err != nil {
		panic(err)
	}
	js, _ := json.Marshal(res)
	fmt.Println(string(js))
}
