// Correspondence + direct property harness for package clone (C18).
//
// An operation line is `(clone I V)`: an instance EXPRESSION built from the clone package's
// combinators and a value GRAPH (pointer targets, slice backing arrays and Go maps carry ids, the
// same id is the same storage — internally aliased inputs are real inputs). The instance is built by
// calling the real combinators (element type `any`, plus typed instantiations at int for the
// innermost container), the value is built with the described sharing, cloned, and
//   - the answer line renders the clone with alias labels, the number of storage cells it shares
//     with the original, and the original after Clone (oracle: FpVerif.CloneHeap.clone);
//   - the direct checks evaluate the property on the implementation: deep-equal, no shared pointer
//     target / backing array / map (type-directed AND reflection walk), original untouched by Clone,
//     writing through every path of the clone leaves the original unchanged and vice versa.
package main

import (
	"flag"
	"fmt"
	"os"
	"reflect"
	"sort"
	"strconv"
	"strings"
	"unsafe"

	"github.com/csgura/fp"
	"github.com/csgura/fp/clone"
	"github.com/csgura/fp/hlist"
	"github.com/csgura/fp/lazy"
	. "verifharness/common"
	"verifharness/tcbox"
)

var hist = map[string]int{}

// ------------------------------------------------------------------------------------ types and instances

// T: int ptr slice seq gomap option tuple hlist generic
type T struct {
	K string
	E []*T
}

func (t *T) String() string {
	if len(t.E) == 0 {
		return t.K
	}
	parts := []string{t.K}
	for _, e := range t.E {
		parts = append(parts, e.String())
	}
	return "(" + strings.Join(parts, " ") + ")"
}

// leafInt: a container of plain ints is instantiated at int instead of any
func (t *T) leafInt() bool {
	switch t.K {
	case "ptr", "slice", "seq":
		return t.E[0].K == "int"
	}
	return false
}

func head(s *Sx) string {
	if s.IsL {
		return s.Head()
	}
	return s.Atom
}

func typeOf(s *Sx) *T {
	a := s.List
	switch head(s) {
	case "int":
		return &T{K: "int"}
	case "hnil":
		return &T{K: "hlist"}
	case "ptr", "slice", "seq", "option", "generic":
		return &T{K: head(s), E: []*T{typeOf(a[1])}}
	case "gomap":
		return &T{K: "gomap", E: []*T{typeOf(a[1]), typeOf(a[2])}}
	case "hcons":
		return &T{K: "hlist", E: append([]*T{typeOf(a[1])}, typeOf(a[2]).E...)}
	case "tuple":
		es := []*T{}
		for _, x := range a[1:] {
			es = append(es, typeOf(x))
		}
		return &T{K: "tuple", E: es}
	}
	panic("typeOf " + s.String())
}

// wrapper is the struct that clone.Generic converts to and from its representation.
type wrapper struct{ V any }

var wrapperGeneric = fp.Generic[wrapper, any]{
	Type: "main.wrapper", Kind: "Struct",
	To:   func(w wrapper) any { return w.V },
	From: func(r any) wrapper { return wrapper{V: r} },
}

func cloneOf(s *Sx) fp.Clone[any] {
	a := s.List
	t := typeOf(s)
	switch head(s) {
	case "int":
		return tcbox.BoxClone(clone.Given[int]())
	case "hnil":
		return tcbox.BoxClone(clone.HNil)
	case "ptr":
		if t.leafInt() {
			return tcbox.BoxClone(clone.Ptr(lazy.Done(clone.Given[int]())))
		}
		inner := a[1]
		return tcbox.BoxClone(clone.Ptr(lazy.Call(func() fp.Clone[any] { return cloneOf(inner) })))
	case "slice":
		if t.leafInt() {
			return tcbox.BoxClone(clone.Slice(clone.Given[int]()))
		}
		return tcbox.BoxClone(clone.Slice(cloneOf(a[1])))
	case "seq":
		if t.leafInt() {
			return tcbox.BoxClone(clone.Seq(clone.Given[int]()))
		}
		return tcbox.BoxClone(clone.Seq(cloneOf(a[1])))
	case "gomap":
		return tcbox.BoxClone(clone.GoMap[any, any](cloneOf(a[1]), cloneOf(a[2])))
	case "option":
		return tcbox.BoxClone(clone.Option(cloneOf(a[1])))
	case "hcons":
		return tcbox.BoxClone(clone.HCons[any, any](cloneOf(a[1]), cloneOf(a[2])))
	case "tuple":
		es := []fp.Clone[any]{}
		for _, x := range a[1:] {
			es = append(es, cloneOf(x))
		}
		return tcbox.CloneTuple(es)
	case "generic":
		// clone.Generic must not depend on the descriptor's Kind/Type: vary them (deterministically from the instance expression)
		g := wrapperGeneric
		g.Kind = []string{fp.GenericKindStruct, fp.GenericKindTuple, fp.GenericKindNewType, ""}[len(a[1].String())%4]
		return tcbox.BoxClone(clone.Generic(g, cloneOf(a[1])))
	}
	panic("cloneOf " + s.String())
}

// ------------------------------------------------------------------------------------ building value graphs

type env map[string]any

func atoi(s string) int {
	n, err := strconv.ParseInt(s, 10, 64)
	if err != nil {
		panic("bad int " + s)
	}
	return int(n)
}

func build(t *T, v *Sx, e env) any {
	switch t.K {
	case "int":
		return atoi(v.Atom)
	case "ptr":
		if !v.IsL {
			if t.leafInt() {
				return (*int)(nil)
			}
			return (*any)(nil)
		}
		id := v.List[1].Atom
		if v.Head() == "ref" {
			return e["p"+id]
		}
		if t.leafInt() {
			p := new(int)
			*p = atoi(v.List[2].Atom)
			e["p"+id] = p
			return p
		}
		p := new(any)
		*p = build(t.E[0], v.List[2], e)
		e["p"+id] = p
		return p
	case "slice", "seq":
		if !v.IsL {
			switch {
			case t.leafInt() && t.K == "seq":
				return fp.Seq[int](nil)
			case t.leafInt():
				return []int(nil)
			case t.K == "seq":
				return fp.Seq[any](nil)
			}
			return []any(nil)
		}
		id := v.List[1].Atom
		n := atoi(v.List[2].Atom)
		if t.leafInt() {
			var arr []int
			if v.Head() == "sref" {
				arr = e["a"+id].([]int)
			} else {
				arr = make([]int, len(v.List)-3)
				for i, x := range v.List[3:] {
					arr[i] = atoi(x.Atom)
				}
				e["a"+id] = arr
			}
			if t.K == "seq" {
				return fp.Seq[int](arr[:n])
			}
			return arr[:n]
		}
		var arr []any
		if v.Head() == "sref" {
			arr = e["a"+id].([]any)
		} else {
			arr = make([]any, len(v.List)-3)
			for i, x := range v.List[3:] {
				arr[i] = build(t.E[0], x, e)
			}
			e["a"+id] = arr
		}
		if t.K == "seq" {
			return fp.Seq[any](arr[:n])
		}
		return arr[:n]
	case "gomap":
		if !v.IsL {
			return map[any]any(nil)
		}
		id := v.List[1].Atom
		if v.Head() == "mref" {
			return e["m"+id]
		}
		m := map[any]any{}
		for _, kv := range v.List[2:] {
			m[build(t.E[0], kv.List[0], e)] = build(t.E[1], kv.List[1], e)
		}
		e["m"+id] = m
		return m
	case "option":
		if !v.IsL {
			return fp.None[any]()
		}
		return fp.Some[any](build(t.E[0], v.List[1], e))
	case "tuple":
		xs := make([]any, len(t.E))
		for i := range xs {
			xs[i] = build(t.E[i], v.List[i+1], e)
		}
		return tcbox.MkTuple(xs)
	case "hlist":
		var tail any = hlist.Empty()
		xs := make([]any, len(t.E))
		for i := range xs { // left to right, like the parser of the oracle
			xs[i] = build(t.E[i], v.List[i+1], e)
		}
		for i := len(xs) - 1; i >= 0; i-- {
			tail = hlist.Concat[any, any](xs[i], tail)
		}
		return tail
	case "generic":
		return wrapper{V: build(t.E[0], v.List[1], e)}
	}
	panic("build " + t.String())
}

// ------------------------------------------------------------------------------------ walking

// walker visits a value type-directed; cells with storage get an identity.
type walker struct {
	labels map[uintptr]int
	muts   []func() // one mutator per mutable location reachable
}

func newWalker() *walker { return &walker{labels: map[uintptr]int{}} }

func (w *walker) label(id uintptr) (int, bool) {
	if l, ok := w.labels[id]; ok {
		return l, false
	}
	w.labels[id] = len(w.labels) + 1
	return len(w.labels), true
}

func tupleParts(t *T, v any) []any {
	switch t.K {
	case "tuple":
		xs, ok := tcbox.TupleElems(v)
		if !ok || len(xs) != len(t.E) {
			panic(fmt.Sprintf("not a tuple of arity %d: %T", len(t.E), v))
		}
		return xs
	case "hlist":
		xs := []any{}
		cur := v
		for range t.E {
			c := cur.(hlist.Cons[any, any])
			xs = append(xs, c.Head())
			cur = hlist.Tail(c)
		}
		if _, ok := cur.(hlist.Nil); !ok {
			panic(fmt.Sprintf("hlist tail %T", cur))
		}
		return xs
	}
	panic("tupleParts")
}

func nestPairs(parts []string) string {
	out := "()"
	for i := len(parts) - 1; i >= 0; i-- {
		out = "(" + parts[i] + "," + out + ")"
	}
	return out
}

// plain: label-free structural rendering (a nil and an empty slice/map render alike).
func plain(t *T, v any) string {
	switch t.K {
	case "int":
		return strconv.Itoa(v.(int))
	case "ptr":
		if t.leafInt() {
			p := v.(*int)
			if p == nil {
				return "nil"
			}
			return "&" + strconv.Itoa(*p)
		}
		p := v.(*any)
		if p == nil {
			return "nil"
		}
		return "&" + plain(t.E[0], *p)
	case "slice", "seq":
		parts := []string{}
		for _, x := range anySlice(t, v) {
			parts = append(parts, plain(t.E[0], x))
		}
		return "[" + strings.Join(parts, ",") + "]"
	case "gomap":
		parts := []string{}
		for k, x := range v.(map[any]any) {
			parts = append(parts, plain(t.E[0], k)+":"+plain(t.E[1], x))
		}
		sort.Strings(parts)
		return "{" + strings.Join(parts, ",") + "}"
	case "option":
		o := v.(fp.Option[any])
		if o.IsEmpty() {
			return "None"
		}
		return "Some(" + plain(t.E[0], o.Get()) + ")"
	case "tuple", "hlist":
		parts := []string{}
		for i, x := range tupleParts(t, v) {
			parts = append(parts, plain(t.E[i], x))
		}
		return nestPairs(parts)
	case "generic":
		return plain(t.E[0], v.(wrapper).V)
	}
	panic("plain " + t.String())
}

// anySlice: the visible elements of a slice value, boxed.
func anySlice(t *T, v any) []any {
	if t.leafInt() {
		var s []int
		if t.K == "seq" {
			s = v.(fp.Seq[int])
		} else {
			s = v.([]int)
		}
		out := make([]any, len(s))
		for i, x := range s {
			out[i] = x
		}
		return out
	}
	if t.K == "seq" {
		return v.(fp.Seq[any])
	}
	return v.([]any)
}

// labelled: rendering with alias labels; collects a mutator for every mutable location.
func (w *walker) labelled(t *T, v any) string {
	switch t.K {
	case "int":
		return strconv.Itoa(v.(int))
	case "ptr":
		if t.leafInt() {
			p := v.(*int)
			if p == nil {
				return "nil"
			}
			l, first := w.label(uintptr(unsafe.Pointer(p)))
			if !first {
				return fmt.Sprintf("&#%d", l)
			}
			w.muts = append(w.muts, func() { *p = -999 })
			return fmt.Sprintf("&#%d(%d)", l, *p)
		}
		p := v.(*any)
		if p == nil {
			return "nil"
		}
		l, first := w.label(uintptr(unsafe.Pointer(p)))
		if !first {
			return fmt.Sprintf("&#%d", l)
		}
		inner := w.labelled(t.E[0], *p)
		w.muts = append(w.muts, func() { *p = "X" })
		return fmt.Sprintf("&#%d(%s)", l, inner)
	case "slice", "seq":
		if t.leafInt() {
			var s []int
			if t.K == "seq" {
				s = v.(fp.Seq[int])
			} else {
				s = v.([]int)
			}
			if cap(s) == 0 {
				return "[]"
			}
			l, first := w.label(uintptr(unsafe.Pointer(unsafe.SliceData(s))))
			if !first {
				return fmt.Sprintf("[#%d|%d]", l, len(s))
			}
			full := s[:cap(s)]
			parts := []string{}
			for i := range full {
				parts = append(parts, strconv.Itoa(full[i]))
				i := i
				w.muts = append(w.muts, func() { full[i] = -999 })
			}
			return fmt.Sprintf("[#%d|%d:%s]", l, len(s), strings.Join(parts, ","))
		}
		var s []any
		if t.K == "seq" {
			s = v.(fp.Seq[any])
		} else {
			s = v.([]any)
		}
		if cap(s) == 0 {
			return "[]"
		}
		l, first := w.label(uintptr(unsafe.Pointer(unsafe.SliceData(s))))
		if !first {
			return fmt.Sprintf("[#%d|%d]", l, len(s))
		}
		full := s[:cap(s)]
		parts := []string{}
		for i := range full {
			parts = append(parts, w.labelled(t.E[0], full[i]))
			i := i
			w.muts = append(w.muts, func() { full[i] = "X" })
		}
		return fmt.Sprintf("[#%d|%d:%s]", l, len(s), strings.Join(parts, ","))
	case "gomap":
		m := v.(map[any]any)
		if m == nil {
			return "{}"
		}
		l, first := w.label(reflect.ValueOf(m).Pointer())
		if !first {
			return fmt.Sprintf("{#%d}", l)
		}
		type ent struct {
			k, v any
			s    string
		}
		es := []ent{}
		for k, x := range m {
			es = append(es, ent{k, x, plain(t.E[0], k) + ":" + plain(t.E[1], x)})
		}
		sort.Slice(es, func(i, j int) bool { return es[i].s < es[j].s })
		parts := []string{}
		for _, en := range es {
			parts = append(parts, w.labelled(t.E[0], en.k)+":"+w.labelled(t.E[1], en.v))
		}
		w.muts = append(w.muts, func() {
			for k := range m {
				delete(m, k)
			}
			m["X"] = "X"
		})
		return fmt.Sprintf("{#%d:%s}", l, strings.Join(parts, ","))
	case "option":
		o := v.(fp.Option[any])
		if o.IsEmpty() {
			return "None"
		}
		return "Some(" + w.labelled(t.E[0], o.Get()) + ")"
	case "tuple", "hlist":
		parts := []string{}
		for i, x := range tupleParts(t, v) {
			parts = append(parts, w.labelled(t.E[i], x))
		}
		return nestPairs(parts)
	case "generic":
		return w.labelled(t.E[0], v.(wrapper).V)
	}
	panic("labelled " + t.String())
}

func labelledOf(t *T, v any) (s string, w *walker) {
	w = newWalker()
	defer func() {
		// only after the sentinel writes of the mutation checks can a value be ill-typed
		if p := recover(); p != nil {
			s = "<corrupted: " + ShowPanic(p) + ">"
		}
	}()
	s = w.labelled(t, v)
	return s, w
}

// reflectCells: an independent, purely reflective walk collecting every pointer target, slice
// backing array (cap > 0) and map reachable from v.
func reflectCells(v any) map[uintptr]string {
	out := map[uintptr]string{}
	var walk func(rv reflect.Value)
	walk = func(rv reflect.Value) {
		switch rv.Kind() {
		case reflect.Ptr:
			if rv.IsNil() {
				return
			}
			if _, ok := out[rv.Pointer()]; ok {
				return
			}
			out[rv.Pointer()] = "ptr"
			walk(rv.Elem())
		case reflect.Slice:
			if rv.Cap() == 0 {
				return
			}
			if _, ok := out[rv.Pointer()]; ok {
				return
			}
			out[rv.Pointer()] = "array"
			full := rv.Slice(0, rv.Cap())
			for i := 0; i < full.Len(); i++ {
				walk(full.Index(i))
			}
		case reflect.Map:
			if rv.IsNil() {
				return
			}
			if _, ok := out[rv.Pointer()]; ok {
				return
			}
			out[rv.Pointer()] = "map"
			for it := rv.MapRange(); it.Next(); {
				walk(it.Key())
				walk(it.Value())
			}
		case reflect.Interface:
			if !rv.IsNil() {
				walk(rv.Elem())
			}
		case reflect.Struct:
			for i := 0; i < rv.NumField(); i++ {
				walk(rv.Field(i))
			}
		}
	}
	walk(reflect.ValueOf(&v).Elem())
	return out
}

func sharedCount(a, b map[uintptr]int) int {
	n := 0
	for k := range a {
		if _, ok := b[k]; ok {
			n++
		}
	}
	return n
}

// ------------------------------------------------------------------------------------ the operation

func guard(f func() string) (out string) {
	defer func() {
		if p := recover(); p != nil {
			out = "panic(" + ShowPanic(p) + ")"
		}
	}()
	return f()
}

func runCase(op *Sx) string {
	return guard(func() string {
		inst, val := op.List[1], op.List[2]
		t := typeOf(inst)
		orig := build(t, val, env{})
		c := cloneOf(inst).Clone(orig)
		cs, cw := labelledOf(t, c)
		os_, ow := labelledOf(t, orig)
		return fmt.Sprintf("C=%s S=%d O=%s", cs, sharedCount(cw.labels, ow.labels), os_)
	})
}

type reporter func(key, what string)

// checkLaw: the property statement evaluated on the implementation for one (instance, value).
func checkLaw(op *Sx, fail reporter) (checks int) {
	defer func() {
		if p := recover(); p != nil {
			fail("clone/panic", "panic("+ShowPanic(p)+")")
		}
	}()
	inst, val := op.List[1], op.List[2]
	key := "clone." + head(inst)
	t := typeOf(inst)
	ck := func(ok bool, law, what string) {
		checks++
		if !ok {
			fail(key+"/"+law, what)
		}
	}
	cl := cloneOf(inst)

	orig := build(t, val, env{})
	before, _ := labelledOf(t, orig)
	c := cl.Clone(orig)
	after, ow := labelledOf(t, orig)
	ck(before == after, "original-untouched", fmt.Sprintf("original was %s, after Clone it is %s", before, after))
	ck(plain(t, orig) == plain(t, c), "deep-equal", fmt.Sprintf("original %s clone %s", plain(t, orig), plain(t, c)))
	cs, cw := labelledOf(t, c)
	n := sharedCount(cw.labels, ow.labels)
	ck(n == 0, "no-shared-storage", fmt.Sprintf("%d cell(s) reachable from both; original %s clone %s", n, after, cs))
	ro, rc := reflectCells(orig), reflectCells(c)
	kinds := []string{}
	for k, kind := range rc {
		if _, ok := ro[k]; ok {
			kinds = append(kinds, kind)
		}
	}
	sort.Strings(kinds)
	ck(len(kinds) == 0, "no-shared-storage(reflect)", fmt.Sprintf("shared: %v; original %s clone %s", kinds, after, cs))

	// write through every path of the clone: the original must not change
	for _, m := range cw.muts {
		m()
	}
	after2, _ := labelledOf(t, orig)
	ck(after2 == before, "mutate-clone", fmt.Sprintf("after overwriting every location reachable from the clone the original reads %s, was %s", after2, before))

	// write through every path of the original: a clone must not change
	orig2 := build(t, val, env{})
	c2 := cl.Clone(orig2)
	c2before, _ := labelledOf(t, c2)
	_, ow2 := labelledOf(t, orig2)
	for _, m := range ow2.muts {
		m()
	}
	c2after, _ := labelledOf(t, c2)
	ck(c2after == c2before, "mutate-original", fmt.Sprintf("after overwriting every location reachable from the original the clone reads %s, was %s", c2after, c2before))
	return checks
}

// ------------------------------------------------------------------------------------ generation

func tupleArity(r *Rng) int {
	switch r.Intn(8) {
	case 0, 1, 2, 3:
		return 2
	case 4, 5:
		return 3
	case 6:
		return r.Range(4, 8)
	}
	return r.Range(9, tcbox.MaxTuple)
}

func genInst(r *Rng, d int) *Sx {
	if d <= 0 {
		return A("int")
	}
	sub := func() *Sx { return genInst(r, d-1-r.Intn(2)) }
	switch r.Intn(12) {
	case 0:
		return A("int")
	case 1, 2, 3:
		return L(A("ptr"), sub())
	case 4, 5:
		return L(A("slice"), sub())
	case 6:
		return L(A("seq"), sub())
	case 7:
		if r.Intn(3) == 0 {
			return L(A("gomap"), L(A("ptr"), A("int")), sub())
		}
		return L(A("gomap"), A("int"), sub())
	case 8:
		return L(A("option"), sub())
	case 9:
		n := tupleArity(r)
		xs := []*Sx{A("tuple")}
		for i := 0; i < n; i++ {
			xs = append(xs, genInst(r, r.Intn(d)))
		}
		return L(xs...)
	case 10:
		out := A("hnil")
		for i, n := 0, r.Range(0, 3); i < n; i++ {
			out = L(A("hcons"), sub(), out)
		}
		return out
	}
	return L(A("generic"), sub())
}

type def struct {
	id, n int
}

type gen struct {
	r      *Rng
	nextID int
	defs   map[string][]def // storage already defined, by type: candidates for aliasing
}

func (g *gen) id() int { g.nextID++; return g.nextID }

func (g *gen) val(t *T, depth int) *Sx {
	r := g.r
	hist["val:"+t.K]++
	key := t.String()
	alias := func() (def, bool) {
		ds := g.defs[key]
		if len(ds) > 0 && r.Intn(3) == 0 {
			hist["alias:"+t.K]++
			return ds[r.Intn(len(ds))], true
		}
		return def{}, false
	}
	switch t.K {
	case "int":
		return I(r.Range(-2, 9))
	case "ptr":
		if r.Intn(5) == 0 {
			hist["nil:ptr"]++
			return A("nil")
		}
		if d, ok := alias(); ok {
			return L(A("ref"), I(d.id))
		}
		v := g.val(t.E[0], depth-1)
		id := g.id()
		g.defs[key] = append(g.defs[key], def{id, 0})
		return L(A("ptr"), I(id), v)
	case "slice", "seq":
		if r.Intn(7) == 0 {
			hist["nil:slice"]++
			return A("nilslice")
		}
		if d, ok := alias(); ok {
			return L(A("sref"), I(d.id), I(r.Intn(d.n+1)))
		}
		n := Pick(r, 0, 1, 1, 2, 3)
		xs := []*Sx{}
		for i := 0; i < n; i++ {
			xs = append(xs, g.val(t.E[0], depth-1))
		}
		id := g.id()
		g.defs[key] = append(g.defs[key], def{id, n})
		ln := n
		if n > 0 && r.Intn(4) == 0 { // spare capacity beyond the length
			ln = r.Intn(n + 1)
			hist["spare-capacity"]++
		}
		if n == 0 {
			hist["empty:slice"]++
		}
		return L(append([]*Sx{A("slice"), I(id), I(ln)}, xs...)...)
	case "gomap":
		if r.Intn(7) == 0 {
			hist["nil:map"]++
			return A("nilmap")
		}
		if d, ok := alias(); ok {
			return L(A("mref"), I(d.id))
		}
		n := r.Intn(4)
		es := []*Sx{}
		seen := map[int]bool{}
		for i := 0; i < n; i++ {
			if t.E[0].K == "ptr" {
				// reference-typed keys (seed C18-8): always a FRESH pointer, so that keys stay distinct; the pointee
				// may be aliased with other storage of the case
				// the pointees of the keys of one map are pairwise different ints: entries are rendered sorted by their
				// plain rendering, which must not tie (a tie would make the canonical numbering of cells ambiguous - a
				// false alarm of the first thorough run with pointer keys); keys are NOT offered for aliasing elsewhere
				kid := g.id()
				hist["ptr-key"]++
				es = append(es, L(L(A("ptr"), I(kid), I(20+3*i+r.Intn(3))), g.val(t.E[1], depth-1)))
				continue
			}
			k := r.Range(0, 4)
			if seen[k] {
				continue
			}
			seen[k] = true
			es = append(es, L(I(k), g.val(t.E[1], depth-1)))
		}
		id := g.id()
		g.defs[key] = append(g.defs[key], def{id, 0})
		if len(es) == 0 {
			hist["empty:map"]++
		}
		return L(append([]*Sx{A("map"), I(id)}, es...)...)
	case "option":
		if r.Intn(3) == 0 {
			return A("none")
		}
		return L(A("some"), g.val(t.E[0], depth-1))
	case "tuple", "hlist":
		xs := []*Sx{A(map[string]string{"tuple": "tup", "hlist": "hl"}[t.K])}
		for _, e := range t.E {
			xs = append(xs, g.val(e, depth-1))
		}
		return L(xs...)
	case "generic":
		return L(A("gen"), g.val(t.E[0], depth-1))
	}
	panic("gen " + t.String())
}

func count(s *Sx) {
	if s.IsL {
		hist["inst:"+s.Head()]++
		if s.Head() == "tuple" {
			hist[fmt.Sprintf("arity:%02d", len(s.List)-1)]++
		}
		for _, x := range s.List[1:] {
			count(x)
		}
	} else {
		hist["inst:"+s.Atom]++
	}
}

type emitter struct {
	sink   *Sink
	checks int
}

func (e *emitter) one(op *Sx) {
	e.sink.Case(op.String(), func() string { return runCase(op) })
	in := op.String()
	e.checks += checkLaw(op, func(key, what string) { e.sink.DirectFail(key, in, what) })
}

var probeLines = []string{
	"(clone int 5)",
	"(clone (ptr int) nil)", "(clone (ptr int) (ptr 1 5))",
	"(clone (ptr (ptr int)) (ptr 1 (ptr 2 5)))",
	"(clone (ptr (slice int)) (ptr 1 (slice 2 1 7)))",
	"(clone (ptr (seq (ptr int))) (ptr 1 (slice 2 2 (ptr 3 7) (ref 3))))",
	"(clone (ptr (gomap int int)) (ptr 1 (map 2 (1 1))))",
	"(clone (ptr (option (ptr int))) (ptr 1 (some (ptr 2 3))))",
	"(clone (ptr (tuple int (ptr int))) (ptr 1 (tup 1 (ptr 2 3))))",
	"(clone (slice int) nilslice)", "(clone (slice int) (slice 1 0))", "(clone (slice int) (slice 1 1 7))",
	"(clone (seq int) nilslice)", "(clone (seq int) (slice 1 2 7 8 9))",
	"(clone (slice (ptr int)) (slice 1 2 (ptr 2 7) (ref 2)))",
	"(clone (slice (slice int)) (slice 1 2 (slice 2 1 7 8) (sref 2 2)))",
	"(clone (tuple (slice int) (slice int)) (tup (slice 1 2 1 2 3) (sref 1 3)))",
	"(clone (gomap int int) nilmap)", "(clone (gomap int int) (map 1))", "(clone (gomap int int) (map 1 (1 1) (2 2)))",
	"(clone (gomap int (ptr int)) (map 1 (1 (ptr 2 5)) (2 (ref 2))))",
	"(clone (gomap int (slice int)) (map 1 (1 (slice 2 1 5))))",
	"(clone (tuple (gomap int int) (gomap int int)) (tup (map 1 (1 1)) (mref 1)))",
	"(clone (option (ptr int)) none)", "(clone (option (ptr int)) (some nil))", "(clone (option (slice int)) (some (slice 1 1 3)))",
	"(clone hnil (hl))", "(clone (hcons (ptr int) hnil) (hl (ptr 1 2)))",
	"(clone (hcons int (hcons (slice int) hnil)) (hl 1 (slice 1 1 2)))",
	"(clone (generic (tuple int (ptr int))) (gen (tup 1 (ptr 1 2))))",
	"(clone (generic (slice (ptr int))) (gen (slice 1 1 (ptr 2 2))))",
}

func probes(e *emitter) {
	for _, line := range probeLines {
		s, err := Parse(line)
		if err != nil {
			panic("bad probe " + line)
		}
		hist["probe"]++
		e.one(s)
	}
	// every tuple arity, a reference in every position
	for n := 2; n <= tcbox.MaxTuple; n++ {
		is, vs := []*Sx{A("tuple")}, []*Sx{A("tup")}
		for i := 0; i < n; i++ {
			switch i % 3 {
			case 0:
				is = append(is, L(A("ptr"), A("int")))
				vs = append(vs, L(A("ptr"), I(i+1), I(i)))
			case 1:
				is = append(is, L(A("slice"), A("int")))
				vs = append(vs, L(A("slice"), I(i+1), I(1), I(i)))
			default:
				is = append(is, L(A("gomap"), A("int"), A("int")))
				vs = append(vs, L(A("map"), I(i+1), L(I(i), I(i))))
			}
		}
		e.one(L(A("clone"), L(is...), L(vs...)))
	}
}

func scramble(seed uint64) uint64 {
	z := seed + 0x9E3779B97F4A7C15
	z = (z ^ (z >> 30)) * 0xBF58476D1CE4E5B9
	z = (z ^ (z >> 27)) * 0x94D049BB133111EB
	return z ^ (z >> 31)
}

func main() {
	seed := flag.Uint64("seed", 1, "PRNG seed")
	n := flag.Int("n", 2000, "number of generated cases")
	out := flag.String("out", ".", "output directory")
	replay := flag.String("replay", "", "run one op line: print the implementation's answer and the direct checks")
	opsFile := flag.String("ops", "", "run the op lines of this file instead of generating")
	flag.Parse()
	if *replay != "" {
		op, err := Parse(*replay)
		if err != nil || op.Head() != "clone" {
			fmt.Println("bad-op")
			os.Exit(2)
		}
		fmt.Println(runCase(op))
		nf := 0
		nc := checkLaw(op, func(key, what string) { nf++; fmt.Printf("FAIL %s\t%s\n", key, what) })
		fmt.Printf("%d checks, %d failures\n", nc, nf)
		return
	}
	r := NewRng(scramble(*seed))
	sink := NewSink(*out)
	if *opsFile != "" {
		for _, line := range ReadLines(*opsFile) {
			op, err := Parse(line)
			if err != nil {
				continue
			}
			sink.Case(line, func() string { return runCase(op) })
		}
		sink.Close()
		fmt.Printf("{\"cases\": %d}\n", sink.N)
		return
	}
	e := &emitter{sink: sink}
	probes(e)
	nanKeyChecks(e)
	for i := 0; i < *n; i++ {
		inst := genInst(r, 1+r.Intn(4))
		count(inst)
		g := &gen{r: r, defs: map[string][]def{}}
		v := g.val(typeOf(inst), 4)
		e.one(L(A("clone"), inst, v))
	}
	sink.Close()
	keys := make([]string, 0, len(hist))
	for k := range hist {
		keys = append(keys, k)
	}
	sort.Strings(keys)
	fmt.Printf("{\"cases\": %d, \"direct_checks\": %d, \"direct_failures\": %d, \"histogram\": {", sink.N, e.checks, sink.DirectFailures)
	for i, k := range keys {
		if i > 0 {
			fmt.Print(", ")
		}
		fmt.Printf("%q: %d", k, hist[k])
	}
	fmt.Println("}}")
}
