package main

import (
	"fmt"
	"math"
	"sort"

	"github.com/csgura/fp/clone"
	"github.com/csgura/fp/lazy"
)

// Go maps whose keys are not equal to themselves (a float NaN, or a struct / array / interface holding one): such an entry can
// only be reached by iteration, never by lookup.  C18 speaks about every input: the clone must hold an equal entry (a fresh,
// structurally equal value) for each of them.  Model-free (the universal value model has integer keys only).  Seed C18-10:
// `for k := range s { v := s[k] … }` re-reads the value by lookup and clones the zero value instead.
func nanKeyChecks(e *emitter) {
	type pt struct{ X float64 }
	check := func(name string, origVals, cloneVals []string, origLen, cloneLen int, shared bool) {
		e.checks++
		sort.Strings(origVals)
		sort.Strings(cloneVals)
		in := "(law-nan-keys " + name + ")"
		if origLen != cloneLen || fmt.Sprint(origVals) != fmt.Sprint(cloneVals) {
			e.sink.DirectFail("C18.clone-equal:nan-key", in, fmt.Sprintf("original has %d entries with values %v, the clone %d entries with values %v", origLen, origVals, cloneLen, cloneVals))
		}
		if shared {
			e.sink.DirectFail("C18.clone-disjoint:nan-key", in, "a value slice of the clone shares its backing array with the original")
		}
	}
	{
		m := map[float64][]int{math.NaN(): {3, 4, 5}, math.NaN(): {6}, 1.5: {9}}
		c := clone.GoMap(clone.Given[float64](), clone.Slice(clone.Given[int]())).Clone(m)
		ov, cv, shared := []string{}, []string{}, false
		ptrs := map[*int]bool{}
		for _, v := range m {
			ov = append(ov, fmt.Sprint(v))
			ptrs[&v[0]] = true
		}
		for _, v := range c {
			cv = append(cv, fmt.Sprint(v))
			if len(v) > 0 && ptrs[&v[0]] {
				shared = true
			}
		}
		check("map[float64][]int", ov, cv, len(m), len(c), shared)
	}
	{
		s := "x"
		m := map[pt]*string{{math.NaN()}: &s, {2}: &s}
		c := clone.GoMap(clone.Given[pt](), clone.Ptr(lazy.Done(clone.Given[string]()))).Clone(m)
		ov, cv, shared := []string{}, []string{}, false
		for _, v := range m {
			ov = append(ov, *v)
		}
		for _, v := range c {
			if v == nil {
				cv = append(cv, "<nil>")
				continue
			}
			cv = append(cv, *v)
			if v == &s {
				shared = true
			}
		}
		check("map[struct{X float64}]*string", ov, cv, len(m), len(c), shared)
	}
}
