package main

import (
	"bytes"
	"encoding/json"
	"fmt"
	"reflect"
	"strings"

	"github.com/csgura/fp"
	"verifharness/common"
)

// optionUnitChecks: C15 for fp.Option[T] and fp.Unit, evaluated directly on the library
// (None <-> null, Some(v) <-> encoding of v, round trip for faithful non-null encodings, arbitrary
// bytes never panic and leave the target unchanged on error, nil receiver).

type jsInner struct {
	A int               `json:"a"`
	B fp.Option[string] `json:"b"`
	C []int             `json:"c,omitempty"`
}

var garbage = []string{"", "null", "nul", "n", "nope", " null", "{", "}", "{}", "[]", "[", "\"", "\"x\"", "0", "-", "1e999", "true", "\x00", "\xff", "nil", "  ", "[1,", "1 2", "{\"a\":\"x\"}", "{\"a\":1,\"b\":null}", "{\"a\":1,\"b\":[]}", "12345678901234567890123"}

func genBytes(r *common.Rng, valid []byte) []byte {
	switch r.Intn(4) {
	case 0:
		return []byte(garbage[r.Intn(len(garbage))])
	case 1:
		if len(valid) > 0 {
			b := append([]byte{}, valid...)
			switch r.Intn(3) {
			case 0:
				return b[:r.Intn(len(b))]
			case 1:
				b[r.Intn(len(b))] = byte(r.Intn(256))
				return b
			}
			i := r.Intn(len(b))
			return append(b[:i], b[i+1:]...)
		}
	case 2:
		alphabet := "nul{}[]\":, 0123456789-eE.tfrasx\\"
		b := make([]byte, r.Intn(6))
		for i := range b {
			b[i] = alphabet[r.Intn(len(alphabet))]
		}
		return b
	}
	b := make([]byte, r.Intn(5))
	for i := range b {
		b[i] = byte(r.Intn(256))
	}
	return b
}

func panics(f func()) (s string) {
	defer func() {
		if p := recover(); p != nil {
			s = fmt.Sprint(p)
		}
	}()
	f()
	return ""
}

// one option type
func optionChecks[T any](r *common.Rng, res *result, name string, gen func(*common.Rng) T, n int) {
	for i := 0; i < n; i++ {
		var x fp.Option[T]
		v := gen(r)
		if r.Intn(4) > 0 {
			x = fp.Some(v)
		}
		input := fmt.Sprintf("option:%s %v", name, x)
		b, err := json.Marshal(x)
		vb, verr := json.Marshal(v)
		// encoding: None <-> null, Some(v) <-> encoding of v
		res.check("C15")
		if x.IsDefined() {
			if (err == nil) != (verr == nil) || (err == nil && !bytes.Equal(b, vb)) {
				res.fail("C15.option-marshal", input, fmt.Sprintf("Some(v) encodes as %s (%v), v encodes as %s (%v)", b, err, vb, verr))
			}
		} else if err != nil || string(b) != "null" {
			res.fail("C15.option-marshal", input, fmt.Sprintf("None encodes as %s (%v)", b, err))
		}
		if err != nil {
			continue
		}
		// round trip, into a zero target and into a dirty one
		faithful := true
		if x.IsDefined() {
			var back T
			faithful = string(vb) != "null" && json.Unmarshal(vb, &back) == nil && reflect.DeepEqual(back, v)
		}
		for _, dirty := range []bool{false, true} {
			var y fp.Option[T]
			if dirty {
				y = fp.Some(gen(r))
			}
			uerr := json.Unmarshal(b, &y)
			res.check("C15")
			if faithful && (uerr != nil || !reflect.DeepEqual(x, y)) {
				res.fail("C15.option-roundtrip", input, fmt.Sprintf("json %s decodes to %v (err %v), dirty target %v", b, y, uerr, dirty))
			}
			if !faithful && x.IsDefined() && string(vb) == "null" {
				// the excluded case (Some of a null encoding) comes back as None: documented counter-statement
				res.hist["option:some-null-collapses"]++
			}
		}
		// arbitrary bytes
		for g := 0; g < 3; g++ {
			gb := genBytes(r, b)
			for mode := 0; mode < 3; mode++ {
				t := fp.Some(gen(r))
				if r.Intn(3) == 0 {
					t = fp.None[T]()
				}
				before := t
				var uerr error
				pn := panics(func() {
					switch mode {
					case 0:
						uerr = json.Unmarshal(gb, &t)
					case 1:
						uerr = t.UnmarshalJSON(gb)
					case 2:
						uerr = (*fp.Option[T])(nil).UnmarshalJSON(gb)
						if uerr == nil {
							panic("nil receiver accepted")
						}
					}
				})
				res.check("C15")
				if pn != "" {
					res.fail("C15.option-unmarshal-panics", fmt.Sprintf("option:%s bytes %q mode %d", name, gb, mode), pn)
				}
				res.check("C15")
				if uerr != nil && !reflect.DeepEqual(t, before) {
					res.fail("C15.option-unmarshal-error-keeps-target", fmt.Sprintf("option:%s bytes %q mode %d", name, gb, mode), fmt.Sprintf("err %v but target %v -> %v", uerr, before, t))
				}
				if mode == 1 && (len(gb) == 0 || gb[0] == 'n') {
					res.check("C15")
					if uerr != nil || t.IsDefined() {
						res.fail("C15.option-unmarshal-null", fmt.Sprintf("option:%s bytes %q", name, gb), fmt.Sprintf("empty / n… input must give None: %v err %v", t, uerr))
					}
				}
			}
		}
	}
	res.count("option:"+name, n)
}

func optionUnitChecks(r *common.Rng, res *result, n int) {
	ints := func(r *common.Rng) int {
		return common.Pick(r, 0, 1, -1, 42, 1<<53+1, -1<<63, 1<<63-1, r.Intn(1000))
	}
	strs := func(r *common.Rng) string {
		return common.Pick(r, "", "a", "null", "quo\"te", "back\\slash", "<tag>&", "line\nbreak", "unié世", " ", "nope")
	}
	optionChecks(r, res, "int", ints, n)
	optionChecks(r, res, "string", strs, n)
	optionChecks(r, res, "uint64", func(r *common.Rng) uint64 { return common.Pick(r, uint64(0), 1<<64-1, 1<<63, uint64(r.Intn(99))) }, n/2)
	optionChecks(r, res, "bool", func(r *common.Rng) bool { return r.Bool() }, n/4)
	optionChecks(r, res, "[]int", func(r *common.Rng) []int {
		return common.Pick(r, []int(nil), []int{1}, []int{1, 2, 3}, []int{-5})
	}, n/2)
	optionChecks(r, res, "*int", func(r *common.Rng) *int {
		if r.Intn(3) == 0 {
			return nil
		}
		v := ints(r)
		return &v
	}, n/2)
	optionChecks(r, res, "Option[int]", func(r *common.Rng) fp.Option[int] {
		if r.Intn(3) == 0 {
			return fp.None[int]()
		}
		return fp.Some(ints(r))
	}, n/2)
	optionChecks(r, res, "Option[Option[string]]", func(r *common.Rng) fp.Option[fp.Option[string]] {
		switch r.Intn(3) {
		case 0:
			return fp.None[fp.Option[string]]()
		case 1:
			return fp.Some(fp.None[string]())
		}
		return fp.Some(fp.Some(strs(r)))
	}, n/2)
	optionChecks(r, res, "struct", func(r *common.Rng) jsInner {
		x := jsInner{A: ints(r)}
		if r.Bool() {
			x.B = fp.Some(strs(r))
		}
		if r.Bool() {
			x.C = []int{ints(r)}
		}
		return x
	}, n/2)
	optionChecks(r, res, "map", func(r *common.Rng) map[string]int {
		return common.Pick(r, map[string]int(nil), map[string]int{"a": 1}, map[string]int{"a": 1, "b": -2})
	}, n/4)
	optionChecks(r, res, "Unit", func(r *common.Rng) fp.Unit { return fp.Unit{} }, n/8)
	// fp.Unit
	for i := 0; i < n/4+5; i++ {
		b, err := json.Marshal(fp.Unit{})
		res.check("C15")
		if err != nil || string(b) != "null" {
			res.fail("C15.unit-marshal", "unit:", fmt.Sprintf("%s %v", b, err))
		}
		var u fp.Unit
		res.check("C15")
		if err := json.Unmarshal(b, &u); err != nil || u != (fp.Unit{}) {
			res.fail("C15.unit-roundtrip", "unit:", fmt.Sprint(err))
		}
		gb := genBytes(r, b)
		var uerr error
		pn := panics(func() {
			uerr = u.UnmarshalJSON(gb)
			_ = (*fp.Unit)(nil).UnmarshalJSON(gb)
			_ = json.Unmarshal(gb, &u)
		})
		res.check("C15")
		if pn != "" || uerr != nil {
			res.fail("C15.unit-unmarshal", fmt.Sprintf("unit: bytes %q", gb), fmt.Sprintf("panic %q err %v", pn, uerr))
		}
		// inside a struct
		type holder struct {
			U fp.Unit `json:"u"`
			N int     `json:"n"`
		}
		h := holder{N: i}
		hb, _ := json.Marshal(h)
		var h2 holder
		res.check("C15")
		if err := json.Unmarshal(hb, &h2); err != nil || h2 != h {
			res.fail("C15.unit-roundtrip", "unit: in struct", fmt.Sprintf("%s -> %v %v", hb, h2, err))
		}
	}
	res.count("unit", n/4+5)
}

// optionOps: correspondence cases for the Lean model of Option.MarshalJSON/UnmarshalJSON
// (oracle_json): byte strings over a small alphabet of JSON scalars and near-misses.
func optionOps(r *common.Rng, res *result, n int) {
	alphabet := []byte("nul tre0129-.eE+\" x")
	fixed := []string{"", "null", "nul", "n", "nx", " null", "null ", "  ", "0", "-0", "01", "1", "-", "-1", "12", "1.0", "1e2", "1e", "1.", "true", "tru", "\"\"", "\"x\"", "\"", "\"x", "x", " 1 ", "1 1", "nn", "10 ", "-9", "1E+2", "9e-1", "+1"}
	for i := 0; i < n; i++ {
		var b []byte
		if r.Intn(2) == 0 {
			b = []byte(fixed[r.Intn(len(fixed))])
		} else {
			b = make([]byte, r.Intn(7))
			for j := range b {
				b[j] = alphabet[r.Intn(len(alphabet))]
			}
		}
		tgt := fp.None[int]()
		tgtS := "n"
		if r.Intn(2) == 0 {
			k := r.Intn(50) - 10
			tgt = fp.Some(k)
			tgtS = fmt.Sprintf("(s %d)", k)
		}
		hex := fmt.Sprintf("%x", b)
		if hex == "" {
			hex = "-"
		}
		mode := common.Pick(r, "direct", "via")
		t := tgt
		var err error
		pn := panics(func() {
			if mode == "direct" {
				err = t.UnmarshalJSON(b)
			} else {
				err = json.Unmarshal(b, &t)
			}
		})
		ans := "ok "
		if err != nil {
			ans = "err "
		}
		if pn != "" {
			ans = "panic "
		}
		if t.IsDefined() {
			ans += fmt.Sprintf("Some(%d)", t.Get())
		} else {
			ans += "None"
		}
		res.ops = append(res.ops, fmt.Sprintf("(optjson %s %s %s)", mode, hex, tgtS))
		res.impl = append(res.impl, ans)
		res.hist["optjson:"+mode+":"+ans[:strings.Index(ans, " ")]]++
		if i%10 == 0 {
			eb, _ := json.Marshal(tgt)
			res.ops = append(res.ops, "(optenc "+tgtS+")")
			res.impl = append(res.impl, string(eb))
		}
	}
}
