// gombokrun: translation validation of gombok by differential execution (C07, C08, C15).
//
//	generate scratch packages from a grammar (one PRNG)  ->  build gombok FROM THE WORKING TREE and run
//	it on them  ->  go build (does the output compile?)  ->  run the generated law drivers (they call
//	every method the model predicts, print canonical lines for the Lean oracle and evaluate the
//	laws directly on the generated code)  ->  collect ops.txt / impl.txt / direct.txt in -out.
//
// Everything happens in a fresh temporary directory that is removed at the end.
package main

import (
	"bufio"
	"bytes"
	"encoding/json"
	"flag"
	"fmt"
	"os"
	"os/exec"
	"path/filepath"
	"regexp"
	"runtime/debug"
	"sort"
	"strconv"
	"strings"
	"sync"
	"time"

	"github.com/csgura/fp"
	"verifharness/common"
	"verifharness/gombokgen"
)

var _ fp.Unit

type cfg struct {
	seed    uint64
	n       int
	perPkg  int
	samples int
	out     string
	keep    bool
	only    string // run only the package that contains this struct (replay)
	prop    string // report only this property's direct failures ("" = all); ops only for C07
	par     int    // scratch packages processed in parallel
}

func findRepo() string {
	if r := os.Getenv("VERIF_REPO_PATH"); r != "" {
		return r
	}
	if bi, ok := debug.ReadBuildInfo(); ok {
		for _, d := range bi.Deps {
			if d.Path == "github.com/csgura/fp" && d.Replace != nil && d.Replace.Path != "" {
				if p, err := filepath.Abs(d.Replace.Path); err == nil {
					return p
				}
			}
		}
	}
	if r := os.Getenv("VERIF_REPO"); r != "" {
		return r
	}
	return "/repo"
}

// scratchCache: the Go build cache used for everything this run compiles (gombok itself, the scratch
// module). It lives in the run's temp dir and is removed with it: the scratch packages are different on
// every run, so caching them in the user's build cache would only grow it (about 1 GB per run).
var scratchCache string

func goEnv() []string {
	env := []string{}
	for _, e := range os.Environ() {
		if scratchCache != "" && strings.HasPrefix(e, "GOCACHE=") {
			continue
		}
		if strings.HasPrefix(e, "GOFLAGS=") || strings.HasPrefix(e, "GOPROXY=") || strings.HasPrefix(e, "GOSUMDB=") || strings.HasPrefix(e, "GOTOOLCHAIN=") || strings.HasPrefix(e, "GOPACKAGE=") {
			continue
		}
		env = append(env, e)
	}
	if scratchCache != "" {
		env = append(env, "GOCACHE="+scratchCache)
	}
	return append(env, "GOFLAGS=-mod=mod", "GOPROXY=off", "GOSUMDB=off", "GOTOOLCHAIN=local", "CGO_ENABLED=0")
}

func run(dir string, extraEnv []string, timeout time.Duration, name string, args ...string) (int, string) {
	cmd := exec.Command(name, args...)
	cmd.Dir = dir
	cmd.Env = append(goEnv(), extraEnv...)
	var buf bytes.Buffer
	cmd.Stdout = &buf
	cmd.Stderr = &buf
	if err := cmd.Start(); err != nil {
		return -1, err.Error()
	}
	done := make(chan error, 1)
	go func() { done <- cmd.Wait() }()
	select {
	case err := <-done:
		if err != nil {
			if ee, ok := err.(*exec.ExitError); ok {
				return ee.ExitCode(), buf.String()
			}
			return -1, buf.String() + err.Error()
		}
		return 0, buf.String()
	case <-time.After(timeout):
		cmd.Process.Kill()
		return -9, buf.String() + "\ntimed out"
	}
}

func must(err error) {
	if err != nil {
		panic(err)
	}
}

func write(path, content string) {
	must(os.MkdirAll(filepath.Dir(path), 0o755))
	must(os.WriteFile(path, []byte(content), 0o644))
}

// ---------------------------------------------------------------------------------- results

type result struct {
	mu       sync.Mutex
	ops      []string
	impl     []string
	direct   []string // key \t input \t what
	hist     map[string]int
	checks   int
	checksBy map[string]int
	fails    int
	programs int
	accepted int
	rejected int
	compiled int
	notes    []string
}

func (r *result) count(k string, n int) {
	r.mu.Lock()
	r.hist[k] += n
	r.mu.Unlock()
}

func oneLine(s string) string {
	return strings.ReplaceAll(strings.ReplaceAll(s, "\n", "\\n"), "\t", " ")
}

func newResult() *result { return &result{hist: map[string]int{}, checksBy: map[string]int{}} }

func (r *result) fail(key, input, what string) {
	r.mu.Lock()
	r.fails++
	r.checks++
	if len(key) >= 3 {
		r.checksBy[key[:3]]++
	}
	if len(what) > 1500 {
		what = what[:1500] + "…"
	}
	r.direct = append(r.direct, key+"\t"+oneLine(input)+"\t"+oneLine(what))
	r.mu.Unlock()
}

func (r *result) check(prop string) {
	r.mu.Lock()
	r.checks++
	r.checksBy[prop]++
	r.mu.Unlock()
}

// ---------------------------------------------------------------------------------- the pipeline

type pipeline struct {
	c      cfg
	repo   string
	tmp    string
	mod    string
	gombok string
	res    *result
}

func (p *pipeline) origin(st *gombokgen.Struct) string {
	return fmt.Sprintf("//gombokrun seed=%d n=%d perpkg=%d samples=%d struct=%s\n", p.c.seed, p.c.n, p.c.perPkg, p.c.samples, st.Name)
}

func (p *pipeline) setup() bool {
	var err error
	p.tmp, err = os.MkdirTemp("", "gombokrun-")
	if err == nil {
		// the driver hands all shards of one check the same throw-away cache (removed with its temp dir)
		if c := os.Getenv("VERIF_SCRATCH_GOCACHE"); c != "" {
			scratchCache = c
		} else {
			scratchCache = filepath.Join(p.tmp, "gocache")
		}
	}
	must(err)
	p.mod = filepath.Join(p.tmp, "mod")
	p.gombok = filepath.Join(p.tmp, "gombok")
	rc, out := run(p.repo, nil, 20*time.Minute, "go", "build", "-o", p.gombok, "./cmd/gombok")
	if rc != 0 {
		p.res.fail("C07.gombok-build", "go build ./cmd/gombok", out)
		return false
	}
	write(filepath.Join(p.mod, "go.mod"), gombokgen.GoMod(p.repo))
	if b, err := os.ReadFile(filepath.Join(p.repo, "go.sum")); err == nil {
		write(filepath.Join(p.mod, "go.sum"), string(b))
	}
	write(filepath.Join(p.mod, "dep", "dep.go"), gombokgen.DepSource())
	rc, out = p.runGombok("dep")
	if rc != 0 {
		p.res.fail("C07.gombok-dep", gombokgen.DepSource(), out)
		return false
	}
	return true
}

func (p *pipeline) runGombok(pkg string) (int, string) {
	dir := filepath.Join(p.mod, pkg)
	os.Remove(filepath.Join(dir, pkg+"_value_generated.go"))
	os.Remove(filepath.Join(dir, pkg+"_derive_generated.go"))
	return run(dir, []string{"GOPACKAGE=" + pkg}, 10*time.Minute, p.gombok)
}

var reDeriving = regexp.MustCompile(`while deriving (\w+)\[(?:[\w/.]*\.)?(\w+)`)
var rePanic = regexp.MustCompile(`(?m)^panic: (.*)$`)
var reErrLine = regexp.MustCompile(`^(?:\./)?([\w/.-]+\.go):(\d+)(?::\d+)?: (.*)$`)
var reStruct = regexp.MustCompile(`S\d+`)
var reFormatErr = regexp.MustCompile(`format error (\d+):`)
var reDumpLine = regexp.MustCompile(`^(?:\d{4}/\d\d/\d\d \d\d:\d\d:\d\d )?(\d+): (.*)$`)

func normReason(s string) string {
	s = reStruct.ReplaceAllString(s, "S")
	s = regexp.MustCompile(`\d+`).ReplaceAllString(s, "N")
	if len(s) > 90 {
		s = s[:90]
	}
	return s
}

// writePackage (re)writes the sources gombok reads
func (p *pipeline) writePackage(pkg *gombokgen.Package) {
	dir := filepath.Join(p.mod, pkg.Name)
	write(filepath.Join(dir, "types.go"), pkg.TypesSource())
	write(filepath.Join(dir, "zz_lib.go"), gombokgen.LibSource(pkg.Name))
	write(filepath.Join(dir, "zz_lib2.go"), gombokgen.Lib2Source(pkg.Name))
	write(filepath.Join(dir, "zz_lib3.go"), gombokgen.Lib3Source(pkg.Name))
	os.Remove(filepath.Join(dir, "zz_driver.go"))
}

func findStruct(pkg *gombokgen.Package, name string) *gombokgen.Struct {
	for _, s := range pkg.Structs {
		if s.Name == name {
			return s
		}
	}
	return nil
}

// removeStructs drops the named structs and everything that refers to them
func removeStructs(pkg *gombokgen.Package, names map[string]bool) {
	for changed := true; changed; {
		changed = false
		keep := []*gombokgen.Struct{}
		for _, s := range pkg.Structs {
			drop := names[s.Name]
			for _, f := range s.Fields {
				for t := f.Ty; t != nil; t = t.Elem {
					if t.K == "struct" && names[t.Name] && t.Name != s.Name {
						drop = true
					}
				}
			}
			if drop {
				if !names[s.Name] {
					names[s.Name] = true
					changed = true
				}
				continue
			}
			keep = append(keep, s)
		}
		pkg.Structs = keep
	}
}

// attribute maps compiler errors to the structs they concern
func (p *pipeline) attribute(pkg *gombokgen.Package, out string) (map[string][]string, []string) {
	byStruct := map[string][]string{}
	other := []string{}
	files := map[string][]string{}
	for _, line := range strings.Split(out, "\n") {
		m := reErrLine.FindStringSubmatch(strings.TrimSpace(line))
		if m == nil || strings.HasPrefix(line, "\t") {
			continue
		}
		path := m[1]
		if !filepath.IsAbs(path) {
			path = filepath.Join(p.mod, path)
		}
		if _, ok := files[path]; !ok {
			b, _ := os.ReadFile(path)
			files[path] = strings.Split(string(b), "\n")
		}
		ln, _ := strconv.Atoi(m[2])
		name := ""
		// the message itself may name the type
		for _, cand := range reStruct.FindAllString(m[3], -1) {
			if findStruct(pkg, cand) != nil {
				name = cand
				break
			}
		}
		src := files[path]
		for i := ln - 1; name == "" && i >= 0 && i < len(src); i-- {
			for _, cand := range reStruct.FindAllString(src[i], -1) {
				if findStruct(pkg, cand) != nil {
					name = cand
					break
				}
			}
		}
		msg := filepath.Base(m[1]) + ": " + m[3]
		if name == "" {
			other = append(other, msg)
		} else {
			byStruct[name] = append(byStruct[name], msg)
		}
	}
	return byStruct, other
}

// processPackage: gombok -> driver -> build -> run.  Returns the directory with the driver's output ("" if none).
func (p *pipeline) processPackage(pkg *gombokgen.Package) string {
	res := p.res
	dir := filepath.Join(p.mod, pkg.Name)
	nGenerated := len(pkg.Structs)
	res.mu.Lock()
	res.programs += nGenerated
	res.mu.Unlock()
	// ---- gombok (retry without the directives/structs it rejects)
	for attempt := 0; ; attempt++ {
		p.writePackage(pkg)
		rc, out := p.runGombok(pkg.Name)
		if rc == 0 {
			break
		}
		reason := "exit " + strconv.Itoa(rc)
		if m := rePanic.FindStringSubmatch(out); m != nil {
			reason = m[1]
		} else if i := strings.Index(out, "format error"); i >= 0 {
			reason = strings.SplitN(out[i:], "\n", 2)[0]
		}
		res.count("reject:"+normReason(reason), 1)
		culprit := ""
		if m := reDeriving.FindStringSubmatch(reason); m != nil {
			culprit = m[2]
		}
		if m := reFormatErr.FindStringSubmatch(reason); m != nil {
			// gombok dumps the unformattable source with line numbers: find the struct around the error line
			ln, _ := strconv.Atoi(m[1])
			dump := map[int]string{}
			for _, l := range strings.Split(out, "\n") {
				if dm := reDumpLine.FindStringSubmatch(l); dm != nil {
					k, _ := strconv.Atoi(dm[1])
					dump[k] = dm[2]
				}
			}
			for i := ln; i >= 0 && culprit == "" && i > ln-400; i-- {
				for _, cand := range reStruct.FindAllString(dump[i], -1) {
					if findStruct(pkg, cand) != nil {
						culprit = cand
						break
					}
				}
			}
		}
		st := findStruct(pkg, culprit)
		if st == nil && strings.HasPrefix(reason, "runtime error") && attempt <= 8 {
			// gombok rejects declarations with a deliberate panic(message); a RUNTIME ERROR (nil dereference, index out of range,
			// failed type assertion) is a crash of the generator on a declaration it neither accepted nor rejected.  Find the
			// struct without which the crash disappears and report it with its declaration as the failing input.
			// greedy reduction: drop every struct whose removal keeps the crash; what remains is a 1-minimal crashing package
			cur := *pkg
			cur.Structs = append([]*gombokgen.Struct{}, pkg.Structs...)
			for _, cand := range append([]*gombokgen.Struct{}, pkg.Structs...) {
				if findStruct(&cur, cand.Name) == nil || len(cur.Structs) == 1 {
					continue
				}
				trial := cur
				trial.Structs = append([]*gombokgen.Struct{}, cur.Structs...)
				removeStructs(&trial, map[string]bool{cand.Name: true})
				if len(trial.Structs) == 0 {
					continue
				}
				p.writePackage(&trial)
				if rc2, out2 := p.runGombok(pkg.Name); rc2 != 0 && strings.Contains(out2, "runtime error") {
					cur = trial
				}
			}
			crashDecl := ""
			if len(cur.Structs) > 0 && len(cur.Structs) < len(pkg.Structs) || len(pkg.Structs) == 1 {
				st = findStruct(pkg, cur.Structs[0].Name)
				for _, m := range cur.Structs {
					crashDecl += m.DeclWithDerives()
				}
			}
			if st != nil {
				prop := "C07"
				if !st.Ann.Value && len(st.Derives) > 0 {
					prop = "C08"
				}
				res.fail(prop+".generator-crash:"+normReason(reason), p.origin(st)+crashDecl,
					"gombok crashed (Go runtime error, not a rejection message) on this declaration: "+reason)
			}
		}
		if st == nil || attempt > 8 {
			res.mu.Lock()
			res.rejected += len(pkg.Structs)
			res.notes = append(res.notes, pkg.Name+": gombok failed, package skipped: "+reason)
			res.mu.Unlock()
			return ""
		}
		res.mu.Lock()
		res.rejected++
		res.mu.Unlock()
		removeStructs(pkg, map[string]bool{st.Name: true})
	}
	// ---- regenerate IN PLACE (seed C07-10 of round 5): `go generate` is run again and again in a directory that already holds
	// the previous output.  gombok must not take its own earlier output for user-written code: a second run over the accepted
	// package, with the generated files of the first run still there, must succeed and reproduce them byte for byte.
	{
		gen := []string{filepath.Join(dir, pkg.Name+"_value_generated.go"), filepath.Join(dir, pkg.Name+"_derive_generated.go")}
		read := func() string {
			var sb strings.Builder
			for _, f := range gen {
				b, err := os.ReadFile(f)
				if err != nil {
					sb.WriteString("<absent>")
				}
				sb.Write(b)
				sb.WriteString("\x00")
			}
			return sb.String()
		}
		before := read()
		rc2, out2 := run(dir, []string{"GOPACKAGE=" + pkg.Name}, 10*time.Minute, p.gombok)
		after := read()
		res.count("regenerate-in-place", 1)
		if rc2 != 0 || before != after {
			what := "a second gombok run over its own output changed the generated files"
			if rc2 != 0 {
				what = "a second gombok run in the same directory failed: " + tail(out2, 300)
			}
			decls := []string{}
			for _, st := range pkg.Structs {
				decls = append(decls, st.DeclWithDerives())
			}
			res.fail("C07.regenerate-in-place", "package "+pkg.Name+": "+strings.Join(decls, " ; "), what)
			// restore the first run's output so that the rest of the pipeline judges the declarations themselves
			p.runGombok(pkg.Name)
		}
	}
	// ---- compile with the generated driver
	mainDir := filepath.Join(dir, "cmd")
	bin := filepath.Join(p.tmp, "bin_"+pkg.Name)
	for attempt := 0; ; attempt++ {
		if pkg.Bad {
			// only the package itself: its structs are predicted not to compile
			rc, out := run(p.mod, nil, 20*time.Minute, "go", "build", "-gcflags="+gombokgen.ModName+"/...=-e -N -l", "./"+pkg.Name)
			byStruct, other := p.attribute(pkg, out)
			for _, st := range pkg.Structs {
				errs := byStruct[st.Name]
				key := "C07.compile:" + strings.Join(st.ClashKinds(), "+")
				res.mu.Lock()
				res.accepted++
				if len(st.Clashes()) > 0 {
					// (the model's prediction `clashes` is deliberately NOT a correspondence obligation: when
					// gombok learns to avoid a collision the check must not start to fail)
					res.hist["shape:clash"]++
					if len(errs) == 0 {
						res.hist["clash-predicted-but-compiles"]++
					}
				} else {
					key = st.KnownBad()
					if len(errs) == 0 && len(other) > 0 {
						errs = other // helper instances gombok emits between the structs
					}
					res.hist["shape:known-bad-derive"]++
				}
				if len(errs) == 0 {
					res.compiled++
				}
				res.mu.Unlock()
				if len(errs) > 0 {
					res.fail(key, p.origin(st)+st.DeclWithDerives(), "gombok accepted the declaration but the generated code does not compile: "+strings.Join(errs, " ; "))
				} else {
					res.check(key[:3])
				}
			}
			_ = rc
			return ""
		}
		write(filepath.Join(dir, "zz_driver.go"), pkg.DriverSource(p.c.samples))
		write(filepath.Join(mainDir, "main.go"), pkg.MainSource())
		rc, out := run(p.mod, nil, 20*time.Minute, "go", "build", "-gcflags="+gombokgen.ModName+"/...=-e -N -l", "-o", bin, "./"+pkg.Name+"/cmd")
		if rc == 0 {
			break
		}
		byStruct, other := p.attribute(pkg, out)
		if len(byStruct) == 0 || attempt >= 3 {
			res.fail("C07.compile:unattributed", "package "+pkg.Name+" seed "+strconv.FormatUint(p.c.seed, 10), "scratch package does not compile: "+strings.Join(other, " ; ")+" "+tail(out, 600))
			return ""
		}
		names := map[string]bool{}
		for name, errs := range byStruct {
			st := findStruct(pkg, name)
			key := "C07.compile"
			for _, e := range errs {
				if strings.Contains(e, "_derive_generated.go") {
					key = "C08.compile"
				}
			}
			res.fail(key, p.origin(st)+st.DeclWithDerives(), "gombok accepted the declaration but the generated code (or a call of a method it must have generated) does not compile: "+strings.Join(errs, " ; "))
			if st != nil && st.Ann.Json && key == "C07.compile" {
				// an @fp.Json struct whose generated code does not compile has no JSON round trip either (C15); without this line the
				// struct is dropped here and the C15 projection of the run never sees it (seed C15-7)
				res.fail("C15.json-struct-does-not-compile", p.origin(st)+st.DeclWithDerives(), "the code generated for an @fp.Json struct does not compile: "+strings.Join(errs, " ; "))
			}
			names[name] = true
		}
		removeStructs(pkg, names)
		p.writePackage(pkg)
		if rc, out := p.runGombok(pkg.Name); rc != 0 {
			res.fail("C07.compile:unattributed", "package "+pkg.Name, "gombok failed after removing non-compiling structs: "+tail(out, 400))
			return ""
		}
	}
	res.mu.Lock()
	res.accepted += len(pkg.Structs)
	res.compiled += len(pkg.Structs)
	res.mu.Unlock()
	// ---- probes (instances whose construction may not terminate)
	for _, st := range pkg.Structs {
		if !st.RiskyRecursion() {
			continue
		}
		for _, d := range st.Derives {
			name := gombokgen.InstanceName(d.Class, st)
			rc, out := run(p.tmp, []string{"GOMEMLIMIT=1GiB"}, 2*time.Minute, bin, "probe", name)
			res.count("derive:probe-recursive-slice", 1)
			if rc != 0 {
				first := "exit " + strconv.Itoa(rc)
				for _, l := range strings.Split(out, "\n") {
					if strings.Contains(l, "fatal error") || strings.Contains(l, "stack exceeds") || strings.Contains(l, "panic:") {
						first = strings.TrimSpace(l)
						break
					}
				}
				res.fail("C08.recursive-instance-diverges", p.origin(st)+st.DeclWithDerives(), "constructing "+name+"() never returns: "+first)
			} else {
				res.check("C08")
			}
		}
	}
	// ---- run
	outDir := filepath.Join(p.tmp, "out_"+pkg.Name)
	must(os.MkdirAll(outDir, 0o755))
	rc, out := run(p.tmp, []string{"GOMEMLIMIT=2GiB"}, 10*time.Minute, bin, strconv.FormatUint(scramble(p.c.seed^0xabcdef)>>1, 10), strconv.Itoa(p.c.samples), outDir)
	if rc != 0 {
		res.fail("C07.driver-crash", "package "+pkg.Name+" seed "+strconv.FormatUint(p.c.seed, 10), "driver exit "+strconv.Itoa(rc)+": "+tail(out, 800))
	} else {
		var st struct {
			Cases     int            `json:"cases"`
			Checks    int            `json:"direct_checks"`
			Failures  int            `json:"direct_failures"`
			Histogram map[string]int `json:"histogram"`
			ChecksBy  map[string]int `json:"checks_by"`
		}
		lines := strings.Split(strings.TrimSpace(out), "\n")
		if err := json.Unmarshal([]byte(lines[len(lines)-1]), &st); err == nil {
			res.mu.Lock()
			res.checks += st.Checks
			res.fails += st.Failures
			for k, v := range st.Histogram {
				res.hist[k] += v
			}
			for k, v := range st.ChecksBy {
				res.checksBy[k] += v
			}
			res.mu.Unlock()
		}
	}
	return outDir
}

// scramble decorrelates consecutive seeds (common.NewRng maps seed k+1 to the stream of seed k shifted by one draw)
func scramble(seed uint64) uint64 {
	z := seed + 0x9E3779B97F4A7C15
	z = (z ^ (z >> 30)) * 0xBF58476D1CE4E5B9
	z = (z ^ (z >> 27)) * 0x94D049BB133111EB
	return z ^ (z >> 31)
}

func tail(s string, n int) string {
	if len(s) > n {
		return s[len(s)-n:]
	}
	return s
}

func readLines(path string) []string {
	f, err := os.Open(path)
	if err != nil {
		return nil
	}
	defer f.Close()
	out := []string{}
	sc := bufio.NewScanner(f)
	sc.Buffer(make([]byte, 1<<20), 1<<26)
	for sc.Scan() {
		out = append(out, sc.Text())
	}
	return out
}

func (p *pipeline) runAll() {
	r := common.NewRng(scramble(p.c.seed))
	pkgs := gombokgen.GenPackages(r, p.c.n, p.c.perPkg)
	if p.c.only != "" {
		sel := []*gombokgen.Package{}
		for _, pk := range pkgs {
			if findStruct(pk, p.c.only) != nil {
				sel = append(sel, pk)
			}
		}
		pkgs = sel
	}
	for _, pk := range pkgs {
		for _, st := range pk.Structs {
			st.Origin = fmt.Sprintf("%d %d %d %d", p.c.seed, p.c.n, p.c.perPkg, p.c.samples)
		}
	}
	outDirs := make([]string, len(pkgs))
	sem := make(chan struct{}, p.c.par)
	var wg sync.WaitGroup
	for i, pk := range pkgs {
		wg.Add(1)
		go func(i int, pk *gombokgen.Package) {
			defer wg.Done()
			sem <- struct{}{}
			defer func() { <-sem }()
			defer func() {
				if e := recover(); e != nil {
					p.res.fail("C07.harness-panic", "package "+pk.Name, fmt.Sprint(e))
				}
			}()
			outDirs[i] = p.processPackage(pk)
		}(i, pk)
	}
	wg.Wait()
	for _, d := range outDirs {
		if d == "" {
			continue
		}
		ops, impl := readLines(filepath.Join(d, "ops.txt")), readLines(filepath.Join(d, "impl.txt"))
		if len(impl) < len(ops) {
			p.res.fail("C07.driver-crash", ops[len(impl)], "the driver died while answering this operation")
			ops = ops[:len(impl)]
		}
		p.res.ops = append(p.res.ops, ops...)
		p.res.impl = append(p.res.impl, impl...)
		p.res.direct = append(p.res.direct, readLines(filepath.Join(d, "direct.txt"))...)
	}
}

func main() {
	seed := flag.Uint64("seed", 1, "PRNG seed")
	n := flag.Int("n", 60, "number of generated structs")
	out := flag.String("out", ".", "output directory")
	replay := flag.String("replay", "", "re-run the package of the struct named in a recorded input and print what the implementation does now")
	opsFile := flag.String("ops", "", "re-run recorded operation lines")
	perPkg := flag.Int("perpkg", 30, "structs per scratch package")
	samples := flag.Int("samples", 6, "values per struct")
	keep := flag.Bool("keep", false, "keep the temporary directory (debugging)")
	prop := flag.String("prop", "", "report only the direct failures of this property (C07, C08 or C15); operation lines for the oracle only with C07 or none")
	par := flag.Int("par", 3, "scratch packages processed in parallel")
	flag.Parse()
	c := cfg{seed: *seed, n: *n, perPkg: *perPkg, samples: *samples, out: *out, keep: *keep, prop: *prop, par: *par}
	if *replay != "" {
		os.Exit(doReplay(c, *replay))
	}
	if *opsFile != "" {
		// corpus of past failures: each line is re-run through the replay path
		sink := common.NewSink(*out)
		for _, line := range common.ReadLines(*opsFile) {
			sink.Case(line, func() string { return replayOp(c, line) })
		}
		sink.Close()
		fmt.Printf("{\"cases\": %d}\n", sink.N)
		return
	}
	res := newResult()
	p := &pipeline{c: c, repo: findRepo(), res: res}
	t0 := time.Now()
	if p.setup() {
		p.runAll()
	}
	if !c.keep {
		os.RemoveAll(p.tmp)
	} else {
		fmt.Fprintln(os.Stderr, "kept", p.tmp)
	}
	optionUnitChecks(common.NewRng(scramble(c.seed^0x5bd1e995)), res, 200+c.n*10)
	if c.prop != "" {
		keep := []string{}
		for _, l := range res.direct {
			if strings.HasPrefix(l, c.prop+".") {
				keep = append(keep, l)
			}
		}
		res.direct = keep
		res.checks = res.checksBy[c.prop]
		if c.prop != "C07" && c.prop != "C08" {
			// C15: only the `(methods …)` lines (the struct tags of the Mutable twin decide what
			// encoding/json emits: `omitempty` exactly on the nilable kinds and Options)
			ops, impl := []string{}, []string{}
			for i, op := range res.ops {
				if c.prop == "C15" && strings.HasPrefix(op, "(methods ") {
					ops, impl = append(ops, op), append(impl, res.impl[i])
				}
			}
			res.ops, res.impl = ops, impl
		}
		if c.prop == "C07" {
			// the `(derive …)` lines belong to C08 (oracle_derive); oracle_record does not know them
			ops, impl := []string{}, []string{}
			for i, op := range res.ops {
				if !strings.HasPrefix(op, "(derive ") {
					ops, impl = append(ops, op), append(impl, res.impl[i])
				}
			}
			res.ops, res.impl = ops, impl
		}
		if c.prop == "C15" {
			optionOps(common.NewRng(scramble(c.seed^0x1337)), res, 300+c.n*20)
		}
	}
	sink := common.NewSink(*out)
	for i, op := range res.ops {
		impl := res.impl[i]
		sink.Case(op, func() string { return impl })
	}
	sink.Close()
	// direct.txt is written by NewSink/Close; append the collected lines
	f, err := os.OpenFile(filepath.Join(*out, "direct.txt"), os.O_APPEND|os.O_WRONLY, 0o644)
	must(err)
	for _, l := range res.direct {
		fmt.Fprintln(f, l)
	}
	f.Close()
	res.hist["programs:generated"] = res.programs
	res.hist["programs:accepted-by-gombok"] = res.accepted
	res.hist["programs:rejected-by-gombok"] = res.rejected
	res.hist["programs:compiled"] = res.compiled
	res.hist["wall-seconds"] = int(time.Since(t0).Seconds())
	keys := []string{}
	for k := range res.hist {
		keys = append(keys, k)
	}
	sort.Strings(keys)
	parts := []string{}
	for _, k := range keys {
		parts = append(parts, fmt.Sprintf("%q: %d", k, res.hist[k]))
	}
	for _, nt := range res.notes {
		fmt.Fprintln(os.Stderr, "note:", nt)
	}
	fmt.Printf("{\"cases\": %d, \"direct_checks\": %d, \"direct_failures\": %d, \"histogram\": {%s}}\n", len(res.ops), res.checks, len(res.direct), strings.Join(parts, ", "))
}

// ---------------------------------------------------------------------------------- replay

var reOrigin = regexp.MustCompile(`seed=(\d+) n=(\d+) perpkg=(\d+) samples=(\d+) struct=(\w+)`)
var reOriginOp = regexp.MustCompile(`\(spec (\w+) \(origin (\d+) (\d+) (\d+) (\d+)\)`)

func parseOrigin(input string) (cfg, bool) {
	c := cfg{par: 3}
	if m := reOrigin.FindStringSubmatch(input); m != nil {
		c.seed, _ = strconv.ParseUint(m[1], 10, 64)
		c.n, _ = strconv.Atoi(m[2])
		c.perPkg, _ = strconv.Atoi(m[3])
		c.samples, _ = strconv.Atoi(m[4])
		c.only = m[5]
		return c, true
	}
	if m := reOriginOp.FindStringSubmatch(input); m != nil {
		c.only = m[1]
		c.seed, _ = strconv.ParseUint(m[2], 10, 64)
		c.n, _ = strconv.Atoi(m[3])
		c.perPkg, _ = strconv.Atoi(m[4])
		c.samples, _ = strconv.Atoi(m[5])
		return c, true
	}
	return c, false
}

func rerun(c cfg) *result {
	res := newResult()
	p := &pipeline{c: c, repo: findRepo(), res: res}
	if p.setup() {
		p.runAll()
	}
	os.RemoveAll(p.tmp)
	return res
}

// replayOp: the implementation's present answer to a recorded operation line
func replayOp(c cfg, line string) string {
	oc, ok := parseOrigin(line)
	if !ok {
		return "bad-op"
	}
	res := rerun(oc)
	for i, op := range res.ops {
		if op == line {
			return res.impl[i]
		}
	}
	return "operation-not-reproduced"
}

func doReplay(c cfg, input string) int {
	input = strings.ReplaceAll(input, "\\n", "\n")
	if strings.HasPrefix(strings.TrimSpace(input), "(") {
		fmt.Println(replayOp(c, strings.TrimSpace(input)))
		return 0
	}
	oc, ok := parseOrigin(input)
	if !ok {
		if strings.HasPrefix(input, "option:") || strings.HasPrefix(input, "unit:") {
			res := newResult()
			optionUnitChecks(common.NewRng(1), res, 2000)
			for _, d := range res.direct {
				fmt.Println("FAIL", d)
			}
			return len(res.direct)
		}
		fmt.Println("cannot replay: the input carries no //gombokrun origin line")
		return 2
	}
	res := rerun(oc)
	n := 0
	for _, d := range res.direct {
		if strings.Contains(d, "struct="+oc.only+"\\n") || strings.Contains(d, "struct="+oc.only+" ") {
			fmt.Println("FAIL", d)
			n++
		}
	}
	if n == 0 {
		fmt.Println("ok: no direct failure for", oc.only, "any more")
	}
	return n
}
