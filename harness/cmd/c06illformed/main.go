// Replay for Spec/C06Sound.lean `illformed_source_excluded` / `illformed_failed_excluded` (audit finding 1):
// a source completed with the zero-value Try (or future.Failed(nil)) makes the derived task panic in
// t.Failed().Get(); the derived future never completes.  Run: go run ./cmd/c06illformed
package main

import (
	"fmt"
	"time"

	"github.com/csgura/fp"
	"github.com/csgura/fp/future"
	"github.com/csgura/fp/promise"
)

type inlineExec struct{}

// runs the task on the calling goroutine, reporting a panic instead of killing the process
func (inlineExec) ExecuteUnsafe(r fp.Runnable) {
	defer func() {
		if e := recover(); e != nil {
			fmt.Printf("TASK PANICKED: %v\n", e)
		}
	}()
	r.Run()
}

func main() {
	// [.mk (.flatMap (.ref 0) k), .src 0 (.failure .nil), .run 0]
	src := promise.New[int]()
	derived := future.FlatMap(src.Future(), func(v int) fp.Future[int] { return future.Successful(v + 1) }, inlineExec{})
	src.Complete(fp.Try[int]{}) // zero value == Failure(nil)
	time.Sleep(10 * time.Millisecond)
	fmt.Println("source completed:", src.Future().IsCompleted(), " derived completed:", derived.IsCompleted())

	// same with a well-formed failure
	src2 := promise.New[int]()
	derived2 := future.FlatMap(src2.Future(), func(v int) fp.Future[int] { return future.Successful(v + 1) }, inlineExec{})
	src2.Failure(fmt.Errorf("e3"))
	fmt.Println("well-formed: derived completed:", derived2.IsCompleted(), derived2)

	// Future.Map / Recover method, Failed(nil)
	d3 := future.Failed[int](nil).Map(func(x int) int { return x }, inlineExec{})
	fmt.Println("Failed(nil).Map derived completed:", d3.IsCompleted())
	d4 := future.Failed[int](nil).Recover(func(error) int { return 9 }, inlineExec{})
	fmt.Println("Failed(nil).Recover derived completed:", d4.IsCompleted())
}
