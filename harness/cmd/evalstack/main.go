// Correspondence + direct harness for the STACK DEPTH of lazy.Eval (C16): every user callback records the
// number of logical call frames (runtime.Callers, which expands inlined frames) between itself and the frame
// that called lazy.Run / Get; the oracle (Oracle/EvalStack.lean, running Model/EvalStack.lean) predicts the
// same numbers from the instrumented model.  Direct checks: the depth of tail-recursive programs written with
// TailCall / TailCallN does not depend on the recursion depth.
package main

import (
	"flag"
	"fmt"
	"os"
	"runtime"
	"sort"
	"strings"

	"github.com/csgura/fp/lazy"
	. "verifharness/common"
)

type Ev = lazy.Eval[int]

// ------------------------------------------------------------------------------------------ depth probe

var pcs = make([]uintptr, 1<<18)
var base int
var depths []int

//go:noinline
func probe() int { return runtime.Callers(0, pcs) }

// setBase is called from the frame that then calls lazy.Run / Get: depths are relative to that frame.
//
//go:noinline
func setBase() { base = probe(); depths = depths[:0] }

// emitUp logs an event on behalf of the user callback `up` frames above its caller.
//
//go:noinline
func emitUp(up int, format string, a ...any) {
	d := probe()
	Log = append(Log, fmt.Sprintf(format, a...))
	depths = append(depths, d-base-up)
}

// tick: called directly from the body of a user callback; logs when i is a multiple of every
//
//go:noinline
func tick(tag string, every, i, v int) {
	if every != 0 && i%every == 0 {
		emitUp(1, "%s%d:%d", tag, i, v)
	}
}

// ------------------------------------------------------------------------------------------ programs

func f1(s *Sx) func(int) int {
	id, a, b := s.List[1].Int(), s.List[2].Int(), s.List[3].Int()
	return func(x int) int { emitUp(0, "f%d:%d", id, x); return a*x + b }
}
func f2(s *Sx) func(int, int) int {
	id, a, b := s.List[1].Int(), s.List[2].Int(), s.List[3].Int()
	return func(x, y int) int { emitUp(0, "g%d:%d,%d", id, x, y); return a*x + b*y }
}

func keOf(s *Sx) func(int) Ev {
	id := s.List[1].Int()
	switch s.Head() {
	case "kdone":
		a, b := s.List[2].Int(), s.List[3].Int()
		return func(v int) Ev { emitUp(0, "ke%d:%d", id, v); return lazy.Done(a*v + b) }
	case "kcall":
		return func(v int) Ev {
			emitUp(0, "ke%d:%d", id, v)
			return lazy.Call(func() int { emitUp(0, "kc%d", id); return v + 1 })
		}
	case "ktail":
		a := s.List[2].Int()
		return func(v int) Ev {
			emitUp(0, "ke%d:%d", id, v)
			return lazy.TailCall(func() Ev { emitUp(0, "kt%d", id); return lazy.Done(v + a) })
		}
	case "kconst":
		e := s.List[2]
		return func(v int) Ev { emitUp(0, "ke%d:%d", id, v); return evOf(e) }
	}
	panic("bad KE")
}

// tcN: TailCall<ar> (0 = plain TailCall) of a user function `step` that receives the first argument
func tcN(ar int, a int, step func(int) Ev) Ev {
	switch ar {
	case 0:
		return lazy.TailCall(func() Ev { return step(a) })
	case 1:
		return lazy.TailCall1(func(a1 int) Ev { return step(a1) }, a)
	case 2:
		return lazy.TailCall2(func(a1, _ int) Ev { return step(a1) }, a, 0)
	case 3:
		return lazy.TailCall3(func(a1, _, _ int) Ev { return step(a1) }, a, 0, 0)
	case 4:
		return lazy.TailCall4(func(a1, _, _, _ int) Ev { return step(a1) }, a, 0, 0, 0)
	case 5:
		return lazy.TailCall5(func(a1, _, _, _, _ int) Ev { return step(a1) }, a, 0, 0, 0, 0)
	case 6:
		return lazy.TailCall6(func(a1, _, _, _, _, _ int) Ev { return step(a1) }, a, 0, 0, 0, 0, 0)
	case 7:
		return lazy.TailCall7(func(a1, _, _, _, _, _, _ int) Ev { return step(a1) }, a, 0, 0, 0, 0, 0, 0)
	case 8:
		return lazy.TailCall8(func(a1, _, _, _, _, _, _, _ int) Ev { return step(a1) }, a, 0, 0, 0, 0, 0, 0, 0)
	case 9:
		return lazy.TailCall9(func(a1, _, _, _, _, _, _, _, _ int) Ev { return step(a1) }, a, 0, 0, 0, 0, 0, 0, 0, 0)
	}
	panic("bad arity")
}

// the tail-recursive loop; the user function is the closure handed to TailCall<ar>; the event is logged by
// `step`, one frame above it (hence up = 2 through tick's sibling below)
func tailLoop(ar, n, acc, every int) Ev {
	if n == 0 {
		return lazy.Done(acc)
	}
	return tcN(ar, acc, func(a int) Ev {
		if every != 0 && n%every == 0 {
			emitUp(1, "L%d:%d", n, a) // on behalf of the closure that called step
		}
		return tailLoop(ar, n-1, a+1, every)
	})
}

// the same recursion, not in tail position
func callLoop(n, acc, every int) Ev {
	return lazy.Call(func() int {
		tick("C", every, n, acc)
		if n == 0 {
			return acc + 1
		}
		return callLoop(n-1, acc+1, every).Get() + 1
	})
}

// a "TailCall" that nests a run loop per step (the defect the model must be able to express)
func tailCallViaGet(f func() Ev) Ev { return lazy.Call(func() int { return f().Get() }) }

func nestLoop(n, acc, every int) Ev {
	if n == 0 {
		return lazy.Done(acc)
	}
	return tailCallViaGet(func() Ev { tick("N", every, n, acc); return nestLoop(n-1, acc+1, every) })
}

func rchain(n, every, v int) Ev {
	if n == 0 {
		return lazy.Done(v)
	}
	return lazy.Done(v).FlatMap(func(w int) Ev { tick("rc", every, n, w); return rchain(n-1, every, w+1) })
}

func tailFlat(n, acc, every int) Ev {
	if n == 0 {
		return lazy.Done(acc)
	}
	return lazy.TailCall(func() Ev {
		return lazy.Done(acc).FlatMap(func(v int) Ev { tick("F", every, n, v); return tailFlat(n-1, v+1, every) })
	})
}

func evOf(s *Sx) Ev {
	a := s.List
	switch s.Head() {
	case "done":
		return lazy.Done(a[1].Int())
	case "zero":
		return Ev{}
	case "call":
		id, n := a[1].Int(), a[2].Int()
		return lazy.Call(func() int { emitUp(0, "c%d", id); return n })
	case "tailCall":
		id, e := a[1].Int(), a[2]
		return lazy.TailCall(func() Ev { emitUp(0, "t%d", id); return evOf(e) })
	case "tailCallN":
		id := a[1].Int()
		xs := []int{}
		for _, x := range a[2:] {
			xs = append(xs, x.Int())
		}
		// called from the user function handed to TailCallN; logs on its behalf
		body := func(args ...int) Ev {
			parts := make([]string, len(args))
			t := 0
			for i, x := range args {
				parts[i] = fmt.Sprint(x)
				t += (i + 1) * x
			}
			emitUp(1, "t%d:%s", id, strings.Join(parts, ","))
			return lazy.Done(t)
		}
		switch len(xs) {
		case 1:
			return lazy.TailCall1(func(a1 int) Ev { return body(a1) }, xs[0])
		case 2:
			return lazy.TailCall2(func(a1, a2 int) Ev { return body(a1, a2) }, xs[0], xs[1])
		case 3:
			return lazy.TailCall3(func(a1, a2, a3 int) Ev { return body(a1, a2, a3) }, xs[0], xs[1], xs[2])
		case 4:
			return lazy.TailCall4(func(a1, a2, a3, a4 int) Ev { return body(a1, a2, a3, a4) }, xs[0], xs[1], xs[2], xs[3])
		case 5:
			return lazy.TailCall5(func(a1, a2, a3, a4, a5 int) Ev { return body(a1, a2, a3, a4, a5) }, xs[0], xs[1], xs[2], xs[3], xs[4])
		case 6:
			return lazy.TailCall6(func(a1, a2, a3, a4, a5, a6 int) Ev { return body(a1, a2, a3, a4, a5, a6) }, xs[0], xs[1], xs[2], xs[3], xs[4], xs[5])
		case 7:
			return lazy.TailCall7(func(a1, a2, a3, a4, a5, a6, a7 int) Ev { return body(a1, a2, a3, a4, a5, a6, a7) }, xs[0], xs[1], xs[2], xs[3], xs[4], xs[5], xs[6])
		case 8:
			return lazy.TailCall8(func(a1, a2, a3, a4, a5, a6, a7, a8 int) Ev { return body(a1, a2, a3, a4, a5, a6, a7, a8) }, xs[0], xs[1], xs[2], xs[3], xs[4], xs[5], xs[6], xs[7])
		case 9:
			return lazy.TailCall9(func(a1, a2, a3, a4, a5, a6, a7, a8, a9 int) Ev { return body(a1, a2, a3, a4, a5, a6, a7, a8, a9) }, xs[0], xs[1], xs[2], xs[3], xs[4], xs[5], xs[6], xs[7], xs[8])
		}
		panic("bad arity")
	case "map":
		return evOf(a[1]).Map(f1(a[2]))
	case "pmap":
		return lazy.Map(evOf(a[1]), f1(a[2]))
	case "flatMap":
		return evOf(a[1]).FlatMap(keOf(a[2]))
	case "pflatMap":
		return lazy.FlatMap(evOf(a[1]), keOf(a[2]))
	case "map2":
		return lazy.Map2(evOf(a[1]), evOf(a[2]), f2(a[3]))
	case "getIn":
		id, e := a[1].Int(), evOf(a[2])
		return lazy.Call(func() int { emitUp(0, "g%d", id); return e.Get() })
	case "runIn":
		id, e := a[1].Int(), evOf(a[2])
		return lazy.Call(func() int { emitUp(0, "r%d", id); return lazy.Run(e) })
	case "tailGet":
		id, e := a[1].Int(), evOf(a[2])
		return lazy.TailCall(func() Ev { emitUp(0, "tg%d", id); v := e.Get(); return lazy.Done(v) })
	case "tailLoop":
		return tailLoop(a[1].Int(), a[2].Int(), a[3].Int(), a[4].Int())
	case "callLoop":
		return callLoop(a[1].Int(), a[2].Int(), a[3].Int())
	case "nestLoop":
		return nestLoop(a[1].Int(), a[2].Int(), a[3].Int())
	case "lchain":
		n, every, e := a[1].Int(), a[2].Int(), evOf(a[3])
		for j := 1; j <= n; j++ {
			j := j
			e = e.FlatMap(func(v int) Ev { tick("lc", every, j, v); return lazy.Done(v + 1) })
		}
		return e
	case "rchain":
		return rchain(a[1].Int(), a[2].Int(), a[3].Int())
	case "mapTower":
		n, every, e := a[1].Int(), a[2].Int(), evOf(a[3])
		for j := 1; j <= n; j++ {
			j := j
			e = e.Map(func(x int) int { tick("mt", every, j, x); return x + 1 })
		}
		return e
	case "map2Left":
		n, every, e := a[1].Int(), a[2].Int(), evOf(a[3])
		for j := 1; j <= n; j++ {
			j := j
			e = lazy.Map2(e, lazy.Done(1), func(x, y int) int { tick("ml", every, j, x); return x + y })
		}
		return e
	case "map2Right":
		n, every, e := a[1].Int(), a[2].Int(), evOf(a[3])
		for j := 1; j <= n; j++ {
			j := j
			e = lazy.Map2(lazy.Done(1), e, func(x, y int) int { tick("mr", every, j, y); return x + y })
		}
		return e
	case "tailFlat":
		return tailFlat(a[1].Int(), a[2].Int(), a[3].Int())
	}
	panic("bad E " + s.String())
}

// ------------------------------------------------------------------------------------------ rendering

func render(v int) string {
	n := len(depths)
	mx, sm, chk := 0, 0, 0
	for i, d := range depths {
		mx = max(mx, d)
		sm += d
		chk = (chk + (i+1)*d) % 1000003
	}
	evs := []string{}
	show := func(i int) { evs = append(evs, fmt.Sprintf("%s@%d", Log[i], depths[i])) }
	if n <= 48 {
		for i := 0; i < n; i++ {
			show(i)
		}
	} else {
		for i := 0; i < 16; i++ {
			show(i)
		}
		evs = append(evs, "...")
		for i := n - 16; i < n; i++ {
			show(i)
		}
	}
	return fmt.Sprintf("%d | n=%d max=%d sum=%d chk=%d | %s", v, n, mx, sm, chk, strings.Join(evs, ","))
}

var lastMax, lastN int

func runCase(op *Sx) (out string) {
	defer func() {
		if p := recover(); p != nil {
			out = "panic(" + ShowPanic(p) + ")"
		}
	}()
	Log = Log[:0]
	e := evOf(op.List[1])
	var v int
	switch op.Head() {
	case "run":
		setBase()
		v = lazy.Run(e)
	case "get":
		setBase()
		v = e.Get()
	default:
		return "bad-op"
	}
	lastMax, lastN = 0, len(depths)
	for _, d := range depths {
		lastMax = max(lastMax, d)
	}
	return render(v)
}

// ------------------------------------------------------------------------------------------ generator

var hist = map[string]int{}

func bucket(n int) string {
	switch {
	case n == 0:
		return "0"
	case n == 1:
		return "1"
	case n <= 8:
		return "2-8"
	case n <= 64:
		return "9-64"
	case n <= 400:
		return "65-400"
	}
	return "401-2000"
}

// size of a recursive shape: mostly small, sometimes large; never more than the remaining budget of the case
func genSize(r *Rng, budget *int) int {
	var n int
	switch x := r.Intn(100); {
	case x < 8:
		n = 0
	case x < 14:
		n = 1
	case x < 55:
		n = r.Range(2, 8)
	case x < 82:
		n = r.Range(9, 64)
	case x < 95:
		n = r.Range(65, 400)
	default:
		n = r.Range(401, 2000)
	}
	if n > *budget {
		n = *budget
	}
	*budget -= n
	return n
}

// how often the loop logs: every step for short ones, about 8..40 times for long ones, sometimes never
func genEvery(r *Rng, n int, constantDepth bool) int {
	if r.Intn(12) == 0 {
		return 0
	}
	if n <= 40 || (constantDepth && r.Bool()) {
		return 1
	}
	return max(1, n/r.Range(8, 40))
}

func genKE(r *Rng, d int, budget *int) *Sx {
	id := NewID()
	switch r.Intn(5) {
	case 0:
		return L(A("kcall"), I(id))
	case 1:
		return L(A("ktail"), I(id), I(r.Range(-3, 5)))
	case 2:
		return L(A("kconst"), I(id), genE(r, d-1, budget))
	}
	return L(A("kdone"), I(id), I(r.Range(-1, 2)), I(r.Range(-3, 5)))
}

func genLeaf(r *Rng) *Sx {
	switch r.Intn(8) {
	case 0:
		return L(A("zero"))
	case 1, 2:
		return L(A("call"), I(NewID()), I(r.Range(-5, 9)))
	case 3, 4:
		xs := []*Sx{A("tailCallN"), I(NewID())}
		for i, n := 0, r.Range(1, 9); i < n; i++ {
			xs = append(xs, I(r.Range(-5, 9)))
		}
		return L(xs...)
	}
	return L(A("done"), I(r.Range(-5, 9)))
}

func genShape(r *Rng, d int, budget *int) *Sx {
	sub := func() *Sx {
		if r.Intn(3) == 0 {
			return genE(r, d-1, budget)
		}
		return genLeaf(r)
	}
	n := genSize(r, budget)
	var s *Sx
	switch r.Intn(12) {
	case 0, 1, 2:
		ar := r.Intn(10)
		s = L(A("tailLoop"), I(ar), I(n), I(r.Range(-5, 9)), I(genEvery(r, n, true)))
		hist[fmt.Sprintf("tailLoop/arity%d", ar)]++
	case 3:
		s = L(A("callLoop"), I(n), I(r.Range(-5, 9)), I(genEvery(r, n, false)))
	case 4:
		s = L(A("nestLoop"), I(n), I(r.Range(-5, 9)), I(genEvery(r, n, false)))
	case 5, 6:
		s = L(A("lchain"), I(n), I(genEvery(r, n, false)), sub())
	case 7:
		s = L(A("rchain"), I(n), I(genEvery(r, n, true)), I(r.Range(-5, 9)))
	case 8:
		s = L(A("mapTower"), I(n), I(genEvery(r, n, false)), sub())
	case 9:
		s = L(A("map2Left"), I(n), I(genEvery(r, n, false)), sub())
	case 10:
		s = L(A("map2Right"), I(n), I(genEvery(r, n, false)), sub())
	default:
		s = L(A("tailFlat"), I(n), I(r.Range(-5, 9)), I(genEvery(r, n, true)))
	}
	hist["size/"+bucket(n)]++
	return s
}

func genE(r *Rng, d int, budget *int) *Sx {
	if d <= 0 || r.Intn(5) == 0 {
		if r.Intn(3) == 0 && *budget > 0 {
			return genShape(r, 0, budget)
		}
		return genLeaf(r)
	}
	lin := func() *Sx { return L(A("lin"), I(NewID()), I(r.Range(-1, 2)), I(r.Range(-3, 5))) }
	switch r.Intn(14) {
	case 0, 1:
		return L(A(Pick(r, "map", "pmap")), genE(r, d-1, budget), lin())
	case 2, 3, 4:
		return L(A(Pick(r, "flatMap", "pflatMap")), genE(r, d-1, budget), genKE(r, d, budget))
	case 5, 6:
		return L(A("map2"), genE(r, d-1, budget), genE(r, d-1, budget), lin())
	case 7:
		return L(A("tailCall"), I(NewID()), genE(r, d-1, budget))
	case 8:
		return L(A(Pick(r, "getIn", "runIn")), I(NewID()), genE(r, d-1, budget))
	case 9:
		return L(A("tailGet"), I(NewID()), genE(r, d-1, budget))
	}
	return genShape(r, d, budget)
}

func count(s *Sx) {
	if s.IsL {
		if h := s.Head(); h != "" && h != "lin" {
			hist["node/"+h]++
		}
		for _, x := range s.List {
			count(x)
		}
	}
}

// ------------------------------------------------------------------------------------------ direct checks

// maximal and minimal depth of the logging user frames while running e
func depthRange(e Ev) (v, lo, hi, n int) {
	Log = Log[:0]
	setBase()
	v = lazy.Run(e)
	lo, hi = 1<<30, 0
	for _, d := range depths {
		lo, hi = min(lo, d), max(hi, d)
	}
	return v, lo, hi, len(depths)
}

// mutual recursion through TailCall1 / TailCall2
func isEven(n int) Ev {
	tick("E", 1, n, 0)
	if n == 0 {
		return lazy.Done(1)
	}
	return lazy.TailCall1(isOdd, n-1)
}
func isOdd(n int) Ev {
	tick("O", 1, n, 0)
	if n == 0 {
		return lazy.Done(0)
	}
	return lazy.TailCall2(func(m, _ int) Ev { return isEven(m) }, n-1, 0)
}

// a tail loop whose steps use a different TailCall arity each time
func mixedLoop(seed, n, acc int) Ev {
	if n == 0 {
		return lazy.Done(acc)
	}
	ar := (n*7 + seed) % 10
	return tcN(ar, acc, func(a int) Ev {
		emitUp(1+min(ar, 1), "M%d:%d", n, a) // normalised to the frame of TailCall's own thunk
		return mixedLoop(seed, n-1, a+1)
	})
}

func direct(r *Rng, sink *Sink, small, large int) int {
	checks := 0
	cmp := func(key, what string, mk func(n int) Ev, wantV func(n int) int) {
		checks++
		vs, los, his, ns := depthRange(mk(small))
		vl, lol, hil, nl := depthRange(mk(large))
		if vs != wantV(small) || vl != wantV(large) || his != hil || los != lol || ns == 0 || nl == 0 {
			sink.DirectFail(key, fmt.Sprintf("(law stack-depth-independent-of-n %s small=%d large=%d)", what, small, large),
				fmt.Sprintf("n=%d: result %d, user frames at call depth %d..%d (%d probes); n=%d: result %d, call depth %d..%d (%d probes)",
					small, vs, los, his, ns, large, vl, lol, hil, nl))
		}
	}
	for ar := 0; ar <= 9; ar++ {
		ar := ar
		acc := r.Range(-5, 9)
		cmp(fmt.Sprintf("lazy.TailCall%d/stack-depth", ar), fmt.Sprintf("tailLoop arity=%d acc=%d", ar, acc),
			func(n int) Ev { return tailLoop(ar, n, acc, 1) }, func(n int) int { return acc + n })
		hist["direct/tailLoop"]++
	}
	cmp("lazy.TailCall1+2/stack-depth", "mutual recursion isEven/isOdd",
		func(n int) Ev { return isEven(n) }, func(n int) int { return 1 - n%2 })
	seed := r.Intn(10)
	cmp("lazy.TailCallN/stack-depth", fmt.Sprintf("mixed arities seed=%d", seed),
		func(n int) Ev { return mixedLoop(seed, n, 0) }, func(n int) int { return n })
	cmp("lazy.TailCall+FlatMap/stack-depth", "monadic tail recursion (recursive call in the continuation of FlatMap on Done)",
		func(n int) Ev { return tailFlat(n, 0, 1) }, func(n int) int { return n })
	cmp("lazy.TailCall.FlatMap/stack-depth", "a continuation attached to a tail loop",
		func(n int) Ev {
			return tailLoop(0, n, 0, 1).FlatMap(func(v int) Ev { tick("K", 1, 0, v); return lazy.Done(v) })
		}, func(n int) int { return n })
	hist["direct/other"] += 4
	// the measuring device itself (not a property of the library): non-tail recursion must show linear growth
	_, _, h1, _ := depthRange(callLoop(small, 0, 1))
	_, _, h2, _ := depthRange(callLoop(2*small, 0, 1))
	hist[fmt.Sprintf("probe/callLoop-slope=%d", (h2-h1)/small)]++
	_, _, h1, _ = depthRange(evOf(L(A("lchain"), I(small), I(1), L(A("done"), I(0)))))
	_, _, h2, _ = depthRange(evOf(L(A("lchain"), I(2*small), I(1), L(A("done"), I(0)))))
	hist[fmt.Sprintf("probe/lchain-slope=%d", (h2-h1)/small)]++
	return checks
}

func main() {
	seed := flag.Uint64("seed", 1, "PRNG seed")
	n := flag.Int("n", 2000, "cases")
	out := flag.String("out", ".", "output directory")
	replay := flag.String("replay", "", "run one op line")
	opsFile := flag.String("ops", "", "run op lines of this file")
	small := flag.Int("small", 30, "direct check: small recursion depth")
	large := flag.Int("large", 3000, "direct check: large recursion depth")
	flag.Parse()
	if *replay != "" {
		op, err := Parse(*replay)
		if err != nil {
			fmt.Println("bad-op")
			os.Exit(2)
		}
		if op.Head() == "law" {
			sink := NewSink(os.TempDir())
			direct(NewRng(*seed), sink, *small, *large)
			sink.Close()
			b, _ := os.ReadFile(os.TempDir() + "/direct.txt")
			fmt.Print(string(b))
			fmt.Printf("direct failures: %d\n", sink.DirectFailures)
			return
		}
		fmt.Println(runCase(op))
		return
	}
	r := NewRng(*seed)
	sink := NewSink(*out)
	if *opsFile != "" {
		for _, line := range ReadLines(*opsFile) {
			if op, err := Parse(line); err == nil {
				sink.Case(line, func() string { return runCase(op) })
			}
		}
		sink.Close()
		fmt.Printf("{\"cases\": %d}\n", sink.N)
		return
	}
	// edge cases first: every shape at sizes 0, 1, 2 and every TailCallN arity
	edge := []string{"(run (zero))", "(get (zero))", "(run (done 0))", "(get (done 0))"}
	for _, sz := range []int{0, 1, 2} {
		for ar := 0; ar <= 9; ar++ {
			edge = append(edge, fmt.Sprintf("(run (tailLoop %d %d 0 1))", ar, sz))
		}
		for _, sh := range []string{"callLoop %d 0 1", "nestLoop %d 0 1", "lchain %d 1 (done 0)", "lchain %d 1 (zero)", "lchain %d 1 (call 1 5)",
			"rchain %d 1 0", "mapTower %d 1 (done 0)", "mapTower %d 1 (zero)", "map2Left %d 1 (done 0)", "map2Right %d 1 (call 1 0)", "tailFlat %d 0 1"} {
			edge = append(edge, "(run ("+fmt.Sprintf(sh, sz)+"))", "(get ("+fmt.Sprintf(sh, sz)+"))")
		}
	}
	for _, line := range edge {
		op, _ := Parse(line)
		count(op)
		sink.Case(line, func() string { return runCase(op) })
	}
	for i := len(edge); i < *n; i++ {
		ResetIDs()
		budget := 2000
		if r.Intn(4) != 0 {
			budget = 200
		}
		op := L(A(Pick(r, "run", "run", "get")), genE(r, 1+r.Intn(4), &budget))
		count(op)
		sink.Case(op.String(), func() string { return runCase(op) })
		hist["events/"+bucket(lastN)]++
		hist["maxdepth/"+bucket(lastMax)]++
	}
	nd := direct(r, sink, *small, *large)
	sink.Close()
	keys := []string{}
	for k := range hist {
		keys = append(keys, k)
	}
	sort.Strings(keys)
	parts := []string{}
	for _, k := range keys {
		parts = append(parts, fmt.Sprintf("%q: %d", k, hist[k]))
	}
	fmt.Printf("{\"cases\": %d, \"direct_checks\": %d, \"direct_failures\": %d, \"histogram\": {%s}}\n", sink.N, nd, sink.DirectFailures, strings.Join(parts, ", "))
}
