// monad2lean: a small type-directed Go -> Lean 4 translator for the GENERATED MONAD FUNCTION FAMILY
//
//	option/option_monad.go  try/try_monad.go  either/either_monad.go  statet/state_monad.go   (+ the *_traverse.go files)
//
// Tie A of DESIGN.md for the monad family: on every run the function bodies found in the working tree are translated,
// function by function, into Lean definitions over the abstract signature `MonadOps C` of FpVerif/Model/MonadFamily.lean
// (output: FpVerif/Gen/MonadGen.lean, never under version control).  The committed theorems of FpVerif/Spec/C01Gen.lean state
// that each translated definition IS the hand-written model definition about which Spec/C01, C02, C14, C17 prove the
// properties.  A change to one generated function (swapped operands, wrong nesting, dropped Flatten, a supplier called at
// the wrong place) changes the translated definition and the theorem for that function no longer checks.
//
// The reading (the same as the header of Model/MonadFamily.lean):
//
//	Go value of type fp.Option[X] / fp.Try[X] / fp.Either[L,X] / fp.StateT[S,X]   ~>  C X      (a computation)
//	func(A1..An) B, B not monadic (type parameters count as not monadic)            ~>  A1 → … → An → GoM B
//	func(A1..An) B, B monadic (or a function type that ends in a monadic type)      ~>  A1 → … → An → ⟦B⟧
//	fp.Func1[A, fp.Func1[B, R]]                                                     ~>  A → GoM (B → GoM R)
//	fp.Tuple2[A,B] ~> A × B, fp.Seq[A] / []A / fp.Iterator[A] ~> List A, func() X ~> Unit → ⟦X⟧
//	FlatMap ~> o.flatMap, Pure ~> o.pure', FoldM ~> fm (the package's own FoldM, a parameter as in the model),
//	a call of another family member ~> a call of ITS translation (never inlined),
//	the pure helpers of fp / curried / product / xtr / iterator ~> the definitions of FpVerif/Model/MonadGenPrelude.lean.
//
// Type-directed part: the translator infers (by first-order unification over the Lean types above) how every generic call is
// instantiated.  Where a plain-callback parameter `func(A) R` is instantiated with a monadic-result function `func(A) M[X]`
// (R := M[X]: `Map(ta, fa)` inside LiftM, `Map2(a, b, fab)` inside LiftM2, `FlapMap(fab, ta)` inside FlatFlapMap,
// `curried.Func3(fabc)` inside FlatMethod2) the argument `A → C X` is coerced to `A → GoM (C X)` by `fun a => Pure.pure (f a)`
// (calling the Go function has no effect of its own in this reading: its effects are carried by the computation it returns).
// An effectful argument (the result of calling a plain callback) of a call with monadic result is sequenced with `o.seq`.
//
// The fragment: function bodies `[x := e;] return e[, e]`, function literals with such bodies, calls, identifiers, the
// helpers listed in `helpers` below, `fp.Seq[R]{}`, method values `acc.Add`, `fp.Seq[R].Widen`, and the one method chain
// `iterator.Map(iterator.FromSeq(a), f).ToSeq()`.  `x := e` is only accepted when x is used exactly once, as a direct
// argument of the returned call (Go evaluates it at the same point); a variable bound outside the closure that uses it
// (e.g. `x := ta()` hoisted out of a continuation) changes WHEN user code runs, which this reading cannot express: it is
// reported as untranslatable, not silently accepted.  Anything else is reported as untranslatable too.
//
// The four packages come from one template: every package is translated and the translations are compared up to renaming
// of bound names (canonical form); the common (majority) translation is emitted once; a package whose function differs is
// listed in `divergent` (JSON and Lean) and gets its own definition in a sub-namespace.
//
// usage: monad2lean <repo> <out.lean>      last stdout line: JSON summary
package main

import (
	"encoding/json"
	"fmt"
	"go/ast"
	"go/parser"
	"go/token"
	"os"
	"path/filepath"
	"regexp"
	"sort"
	"strings"
)

// ---------------------------------------------------------------------------------------------------------------------
// packages

type pkgInfo struct {
	name   string   // option try either statet
	dir    string   // directory below the repo
	files  []string // the generated files (monad first, traverse second)
	monad  string   // fp.<monad>
	nfixed int      // number of leading fixed type arguments of the monad (Either[L,·], StateT[S,·])
}

var pkgs = []pkgInfo{
	{"option", "option", []string{"option_monad.go", "option_traverse.go"}, "Option", 0},
	{"either", "either", []string{"either_monad.go", "either_traverse.go"}, "Either", 1},
	{"statet", "statet", []string{"state_monad.go", "state_traverse.go"}, "StateT", 1},
	{"try", "try", []string{"try_monad.go", "try_traverse.go"}, "Try", 0},
}

// ---------------------------------------------------------------------------------------------------------------------
// Lean types

type Ty interface{}
type TVar struct{ Name string }
type TMeta struct {
	ID  int
	Ref Ty
}
type TC struct{ X Ty }
type TFn struct {
	P, R Ty
	Eff  bool // P → GoM R   (otherwise P → R, and R is a computation or again a function)
}
type TProd struct{ Es []Ty }
type TList struct{ X Ty }
type TUnit struct{}

var metaCounter int

func fresh() Ty { metaCounter++; return &TMeta{ID: metaCounter} }

func resolve(t Ty) Ty {
	for {
		m, ok := t.(*TMeta)
		if !ok || m.Ref == nil {
			return t
		}
		t = m.Ref
	}
}

// comp: the type of a computation (C X) or of a function that, given all its arguments, yields one
func comp(t Ty) bool {
	switch x := resolve(t).(type) {
	case TC:
		return true
	case TFn:
		return !x.Eff && comp(x.R)
	}
	return false
}

func arrows(ps []Ty, r Ty) Ty {
	if len(ps) == 0 {
		ps = []Ty{TUnit{}}
	}
	t := Ty(TFn{P: ps[len(ps)-1], R: r, Eff: !comp(r)})
	for i := len(ps) - 2; i >= 0; i-- {
		t = TFn{P: ps[i], R: t}
	}
	return t
}

func showTy(t Ty) string {
	switch x := resolve(t).(type) {
	case TVar:
		return x.Name
	case *TMeta:
		return fmt.Sprintf("?%d", x.ID)
	case TC:
		return "C " + atomTy(x.X)
	case TFn:
		p := showTy(x.P)
		if _, ok := resolve(x.P).(TFn); ok {
			p = "(" + p + ")"
		}
		if x.Eff {
			return p + " → GoM " + atomTy(x.R)
		}
		return p + " → " + showTy(x.R)
	case TProd:
		var s []string
		for _, e := range x.Es {
			s = append(s, atomTy(e))
		}
		return strings.Join(s, " × ")
	case TList:
		return "List " + atomTy(x.X)
	case TUnit:
		return "Unit"
	}
	return "«type»"
}

func atomTy(t Ty) string {
	switch resolve(t).(type) {
	case TVar, TUnit, *TMeta:
		return showTy(t)
	}
	return "(" + showTy(t) + ")"
}

func unify(a, b Ty) error {
	a, b = resolve(a), resolve(b)
	if ma, ok := a.(*TMeta); ok {
		if mb, ok := b.(*TMeta); ok && ma == mb {
			return nil
		}
		ma.Ref = b
		return nil
	}
	if mb, ok := b.(*TMeta); ok {
		mb.Ref = a
		return nil
	}
	switch x := a.(type) {
	case TVar:
		if y, ok := b.(TVar); ok && x.Name == y.Name {
			return nil
		}
	case TUnit:
		if _, ok := b.(TUnit); ok {
			return nil
		}
	case TC:
		if y, ok := b.(TC); ok {
			return unify(x.X, y.X)
		}
	case TList:
		if y, ok := b.(TList); ok {
			return unify(x.X, y.X)
		}
	case TProd:
		if y, ok := b.(TProd); ok && len(x.Es) == len(y.Es) {
			for i := range x.Es {
				if err := unify(x.Es[i], y.Es[i]); err != nil {
					return err
				}
			}
			return nil
		}
	case TFn:
		if y, ok := b.(TFn); ok && x.Eff == y.Eff {
			if err := unify(x.P, y.P); err != nil {
				return err
			}
			return unify(x.R, y.R)
		}
	}
	return fmt.Errorf("type mismatch: %s vs %s", showTy(a), showTy(b))
}

// ---------------------------------------------------------------------------------------------------------------------
// Lean terms

type Tm interface{}
type Var struct{ Name string } // a bound name (Go identifier)
type Raw struct{ S string }    // a constant of the target (o.flatMap, Pure.pure, prelude helpers, (), [])
type Fam struct{ Name string } // the translation of a family member (printed as `Name o` / `Name o fm`)
type FoldM struct{}            // the package's own FoldM (printed as `fm`)
type App struct {
	F    Tm
	Args []Tm
}
type Lam struct {
	Params []string
	Body   Tm
}
type Tup struct{ Es []Tm }

func app(f Tm, args ...Tm) Tm {
	if len(args) == 0 {
		return f
	}
	if a, ok := f.(App); ok {
		return App{a.F, append(append([]Tm{}, a.Args...), args...)}
	}
	return App{f, args}
}

func lam(params []string, body Tm) Tm {
	if l, ok := body.(Lam); ok {
		return Lam{append(append([]string{}, params...), l.Params...), l.Body}
	}
	return Lam{params, body}
}

var leanReserved = map[string]bool{"C": true, "o": true, "fm": true, "fun": true, "at": true, "from": true, "have": true, "show": true,
	"end": true, "then": true, "else": true, "do": true, "in": true, "let": true, "open": true, "instance": true, "def": true,
	"theorem": true, "match": true, "with": true, "by": true, "if": true, "where": true, "Type": true, "GoM": true, "List": true, "Unit": true}

func leanName(s string) string {
	if leanReserved[s] {
		return s + "'"
	}
	return s
}

type printer struct {
	canon  bool
	scope  []map[string]string
	n      int
	needFM map[string]bool
}

func (p *printer) push(names []string) []string {
	m := map[string]string{}
	var out []string
	for _, nm := range names {
		if nm == "_" {
			out = append(out, "_")
			continue
		}
		if p.canon {
			p.n++
			m[nm] = fmt.Sprintf("v%d", p.n)
		} else {
			m[nm] = leanName(nm)
		}
		out = append(out, m[nm])
	}
	p.scope = append(p.scope, m)
	return out
}
func (p *printer) pop() { p.scope = p.scope[:len(p.scope)-1] }
func (p *printer) lookup(nm string) string {
	for i := len(p.scope) - 1; i >= 0; i-- {
		if s, ok := p.scope[i][nm]; ok {
			return s
		}
	}
	return "«free " + nm + "»"
}

func (p *printer) tm(t Tm) string {
	switch x := t.(type) {
	case Var:
		return p.lookup(x.Name)
	case Raw:
		return x.S
	case Fam:
		if p.needFM[x.Name] {
			return x.Name + " o fm"
		}
		return x.Name + " o"
	case FoldM:
		return "fm"
	case App:
		s := p.tm(x.F)
		for _, a := range x.Args {
			s += " " + p.atom(a)
		}
		return s
	case Lam:
		names := p.push(x.Params)
		s := "fun " + strings.Join(names, " ") + " => " + p.tm(x.Body)
		p.pop()
		return s
	case Tup:
		var s []string
		for _, e := range x.Es {
			s = append(s, p.tm(e))
		}
		return "(" + strings.Join(s, ", ") + ")"
	}
	return "«term»"
}

func (p *printer) atom(t Tm) string {
	switch x := t.(type) {
	case Var, FoldM, Tup:
		return p.tm(t)
	case Raw:
		if !strings.Contains(x.S, " ") {
			return x.S
		}
	}
	return "(" + p.tm(t) + ")"
}

// ---------------------------------------------------------------------------------------------------------------------
// one translated function

type funcDef struct {
	name    string
	file    string
	tparams []string
	params  []string
	ptypes  []Ty
	res     Ty
	body    Tm
	calls   map[string]bool // family members called
	foldM   bool            // uses the package's FoldM directly
	errs    []string
}

// signature of a family member as seen by its callers
type famSig struct {
	tparams []string
	ptypes  []Ty // over TVar tparams
	res     Ty
}

func (d *funcDef) render(canon bool, needFM map[string]bool) string {
	p := &printer{canon: canon, needFM: needFM}
	var b strings.Builder
	tps := p.push(d.tparams)
	// types mention type parameters by name: print them through the same renaming
	ren := func(t Ty) string { return showTy(renameTy(t, p)) }
	if canon {
		b.WriteString("def " + d.name)
	} else {
		b.WriteString("def " + d.name + " {C : Type → Type} (o : MonadOps C)")
		if needFM[d.name] {
			b.WriteString(" (fm : MonadFamily.FoldMFn C)")
		}
	}
	if len(tps) > 0 {
		b.WriteString(" {" + strings.Join(tps, " ") + " : Type}")
	}
	ps := p.push(d.params)
	for i := range ps {
		nm := ps[i]
		b.WriteString(" (" + nm + " : " + ren(d.ptypes[i]) + ")")
	}
	b.WriteString(" : " + ren(d.res) + " :=\n  " + p.tm(d.body))
	p.pop()
	p.pop()
	return b.String()
}

func renameTy(t Ty, p *printer) Ty {
	switch x := resolve(t).(type) {
	case TVar:
		return TVar{p.lookup(x.Name)}
	case TC:
		return TC{renameTy(x.X, p)}
	case TFn:
		return TFn{renameTy(x.P, p), renameTy(x.R, p), x.Eff}
	case TList:
		return TList{renameTy(x.X, p)}
	case TProd:
		var es []Ty
		for _, e := range x.Es {
			es = append(es, renameTy(e, p))
		}
		return TProd{es}
	}
	return t
}

// ---------------------------------------------------------------------------------------------------------------------
// translation of one package

type ptr struct {
	pkg     pkgInfo
	decls   map[string]*ast.FuncDecl // family members by name
	declIn  map[string]string        // file of each
	order   []string
	sigs    map[string]*famSig
	extern  map[string]string // functions taken from another file of the package
	repo    string
	sigErrs map[string][]string
}

type tr struct {
	p       *ptr
	fn      string
	tparams map[string]bool
	fixed   map[string]bool // the fixed monad parameters (L / S) of this function
	env     []map[string]Ty
	lets    map[string]*letBinding
	depth   int // closure depth
	errs    []string
	calls   map[string]bool
	foldM   bool
	nfresh  int
	// head: the expression being translated is evaluated by Go at the point where the reading runs it - it is the returned
	// expression of a function body or (transitively) an argument of such a call with no MONADIC operand before it.  A monadic-valued call
	// anywhere else (`Ap(tfab, ta())`) is evaluated by Go BEFORE the enclosing call looks at its earlier operands, while the
	// reading would run it after them: outside the fragment.
	head     bool
	hadBinds bool
}

type letBinding struct {
	rhs   ast.Expr
	depth int
	used  int
}

func (t *tr) fail(n ast.Node, why string) (Tm, Ty, bool) {
	t.errs = append(t.errs, fmt.Sprintf("%s (%T)", why, n))
	return Raw{"«untranslatable»"}, fresh(), false
}

func (t *tr) lookup(nm string) (Ty, bool) {
	for i := len(t.env) - 1; i >= 0; i-- {
		if ty, ok := t.env[i][nm]; ok {
			return ty, true
		}
	}
	return nil, false
}

func (t *tr) freshName() string {
	for {
		t.nfresh++
		nm := fmt.Sprintf("x%d", t.nfresh)
		if _, ok := t.lookup(nm); !ok {
			return nm
		}
	}
}

// fp.<Name>
func fpSel(e ast.Expr) string {
	if s, ok := e.(*ast.SelectorExpr); ok {
		if id, ok := s.X.(*ast.Ident); ok && id.Name == "fp" {
			return s.Sel.Name
		}
	}
	return ""
}

func typeArgs(e ast.Expr) (ast.Expr, []ast.Expr) {
	switch x := e.(type) {
	case *ast.IndexExpr:
		return x.X, []ast.Expr{x.Index}
	case *ast.IndexListExpr:
		return x.X, x.Indices
	}
	return e, nil
}

var tupleTy = regexp.MustCompile(`^Tuple([2-9])$`)

// Go type expression -> Lean type
func (t *tr) typ(e ast.Expr) Ty {
	switch x := e.(type) {
	case *ast.ParenExpr:
		return t.typ(x.X)
	case *ast.Ident:
		if t.fixed[x.Name] {
			t.errs = append(t.errs, "fixed monad parameter "+x.Name+" used as a value type")
			return fresh()
		}
		if t.tparams[x.Name] {
			return TVar{x.Name}
		}
		t.errs = append(t.errs, "type "+x.Name)
		return fresh()
	case *ast.ArrayType:
		if x.Len == nil {
			return TList{t.typ(x.Elt)}
		}
	case *ast.FuncType:
		var ps []Ty
		if x.Params != nil {
			for _, f := range x.Params.List {
				n := len(f.Names)
				if n == 0 {
					n = 1
				}
				for i := 0; i < n; i++ {
					ps = append(ps, t.typ(f.Type))
				}
			}
		}
		if x.Results == nil || len(x.Results.List) != 1 || len(x.Results.List[0].Names) > 1 {
			t.errs = append(t.errs, "function type without exactly one result")
			return fresh()
		}
		return arrows(ps, t.typ(x.Results.List[0].Type))
	case *ast.IndexExpr, *ast.IndexListExpr:
		base, args := typeArgs(e)
		switch nm := fpSel(base); {
		case nm == t.p.pkg.monad:
			if len(args) != t.p.pkg.nfixed+1 {
				break
			}
			for i := 0; i < t.p.pkg.nfixed; i++ {
				id, ok := args[i].(*ast.Ident)
				if !ok || !t.fixed[id.Name] {
					t.errs = append(t.errs, "monad instantiated at a different fixed parameter")
					return fresh()
				}
			}
			return TC{t.typ(args[len(args)-1])}
		case nm == "Func1" && len(args) == 2:
			return arrows([]Ty{t.typ(args[0])}, t.typ(args[1]))
		case nm == "Seq" && len(args) == 1, nm == "Iterator" && len(args) == 1:
			return TList{t.typ(args[0])}
		case tupleTy.MatchString(nm):
			var es []Ty
			for _, a := range args {
				es = append(es, t.typ(a))
			}
			return TProd{es}
		}
	}
	t.errs = append(t.errs, fmt.Sprintf("type expression %T", e))
	return fresh()
}

// coerce a term of type `from` to type `to`; the only coercion is  (… → X) ~> (… → GoM X)  for a computation type X
func (t *tr) coerce(tm Tm, from, to Ty) (Tm, bool, error) {
	from, to = resolve(from), resolve(to)
	ff, ok1 := from.(TFn)
	tf, ok2 := to.(TFn)
	if !ok1 || !ok2 {
		return tm, false, unify(from, to)
	}
	if err := unify(ff.P, tf.P); err != nil {
		return tm, false, err
	}
	switch {
	case ff.Eff == tf.Eff && ff.Eff:
		return tm, false, unify(ff.R, tf.R)
	case ff.Eff == tf.Eff:
		x := t.freshName()
		t.env = append(t.env, map[string]Ty{x: ff.P})
		inner, changed, err := t.coerce(app(tm, Var{x}), ff.R, tf.R)
		t.env = t.env[:len(t.env)-1]
		if err != nil || !changed {
			return tm, false, err
		}
		return lam([]string{x}, inner), true, nil
	case !ff.Eff && tf.Eff:
		if !comp(ff.R) {
			return tm, false, fmt.Errorf("cannot wrap %s", showTy(ff.R))
		}
		if err := unify(ff.R, tf.R); err != nil {
			return tm, false, err
		}
		x := t.freshName()
		return lam([]string{x}, app(Raw{"Pure.pure"}, app(tm, Var{x}))), true, nil
	}
	return tm, false, fmt.Errorf("a plain function %s is used where %s is expected", showTy(from), showTy(to))
}

func (t *tr) instantiate(s *famSig) ([]Ty, Ty) {
	sub := map[string]Ty{}
	for _, tp := range s.tparams {
		sub[tp] = fresh()
	}
	var ps []Ty
	for _, p := range s.ptypes {
		ps = append(ps, substTy(p, sub))
	}
	return ps, substTy(s.res, sub)
}

func substTy(t Ty, sub map[string]Ty) Ty {
	switch x := resolve(t).(type) {
	case TVar:
		if r, ok := sub[x.Name]; ok {
			return r
		}
		return x
	case TC:
		return TC{substTy(x.X, sub)}
	case TFn:
		return TFn{substTy(x.P, sub), substTy(x.R, sub), x.Eff}
	case TList:
		return TList{substTy(x.X, sub)}
	case TProd:
		var es []Ty
		for _, e := range x.Es {
			es = append(es, substTy(e, sub))
		}
		return TProd{es}
	}
	return t
}

func pureChain(ps []Ty, r Ty) Ty {
	for i := len(ps) - 1; i >= 0; i-- {
		r = TFn{P: ps[i], R: r}
	}
	return r
}

// helpers of other packages with their fixed Lean readings (FpVerif/Model/MonadGenPrelude.lean)
type helper struct {
	lean  string
	value bool // true: the Lean constant reads the Go function as a function VALUE (params → GoM result);
	// false: a pure combinator (params → result), only usable in call position
	mk func() ([]Ty, Ty) // parameter types, result type
}

func fn1(p, r Ty, eff bool) Ty { return TFn{P: p, R: r, Eff: eff} }

// value helpers (no selection needed)
var helpers = map[string]helper{
	"fp.Const": {"constF", false, func() ([]Ty, Ty) { a, b := fresh(), fresh(); return []Ty{a}, fn1(b, a, true) }},
	"fp.Flip2": {"flip2", false, func() ([]Ty, Ty) {
		a, b, r := fresh(), fresh(), fresh()
		return []Ty{fn1(a, fn1(b, r, true), false)}, fn1(b, fn1(a, r, true), true)
	}},
	"curried.Func2": {"curriedFunc2", false, func() ([]Ty, Ty) {
		a, b, r := fresh(), fresh(), fresh()
		return []Ty{fn1(a, fn1(b, r, true), false)}, fn1(a, fn1(b, r, true), true)
	}},
	"curried.Func3": {"curriedFunc3", false, func() ([]Ty, Ty) {
		a, b, c, r := fresh(), fresh(), fresh(), fresh()
		return []Ty{fn1(a, fn1(b, fn1(c, r, true), false), false)}, fn1(a, fn1(b, fn1(c, r, true), true), true)
	}},
	"curried.Revert2": {"revert2", false, func() ([]Ty, Ty) {
		a, b, x := fresh(), fresh(), fresh()
		ty := fn1(a, fn1(b, x, false), false)
		return []Ty{ty}, ty
	}},
	"curried.Compose2": {"curriedCompose2", false, func() ([]Ty, Ty) {
		a, b, x, y := fresh(), fresh(), fresh(), fresh()
		return []Ty{fn1(a, fn1(b, x, false), false), fn1(x, y, false)}, fn1(a, fn1(b, y, false), false)
	}},
	"product.Tuple2": {"tuple2", true, func() ([]Ty, Ty) {
		a, b := fresh(), fresh()
		return []Ty{a, b}, TProd{[]Ty{a, b}}
	}},
	"product.Tuple3": {"tuple3", true, func() ([]Ty, Ty) {
		a, b, c := fresh(), fresh(), fresh()
		return []Ty{a, b, c}, TProd{[]Ty{a, b, c}}
	}},
	"fp.Id":    {"idF", true, func() ([]Ty, Ty) { a := fresh(); return []Ty{a}, a }},
	"xtr.Head": {"head2", true, func() ([]Ty, Ty) { a, b := fresh(), fresh(); return []Ty{TProd{[]Ty{a, b}}}, a }},
	"xtr.Tail": {"tail2", true, func() ([]Ty, Ty) { a, b := fresh(), fresh(); return []Ty{TProd{[]Ty{a, b}}}, b }},
	// fp.Seq <-> fp.Iterator <-> []T are all `List` in this reading
	"iterator.FromSeq": {"seqId", true, func() ([]Ty, Ty) { a := fresh(); return []Ty{TList{a}}, TList{a} }},
	"fp.IteratorOfSeq": {"seqId", true, func() ([]Ty, Ty) { a := fresh(); return []Ty{TList{a}}, TList{a} }},
}

// the type of a helper used as a function VALUE: plain function of its parameters
func helperValueType(h helper) Ty {
	ps, r := h.mk()
	return arrows(ps, r)
}

func selName(e ast.Expr) string {
	if s, ok := e.(*ast.SelectorExpr); ok {
		if id, ok := s.X.(*ast.Ident); ok {
			return id.Name + "." + s.Sel.Name
		}
	}
	return ""
}

// synth: term, type, and whether the term is a GoM computation of that type (the result of calling a plain callback)
func (t *tr) synth(e ast.Expr) (Tm, Ty, bool) {
	switch x := e.(type) {
	case *ast.ParenExpr:
		return t.synth(x.X)
	case *ast.Ident:
		if lb, ok := t.lets[x.Name]; ok {
			if _, shadow := t.lookup(x.Name); !shadow {
				lb.used++
				if lb.depth != t.depth {
					return t.fail(x, "variable "+x.Name+" is bound outside the closure that uses it (changes when user code runs; not expressible)")
				}
				return t.synth(lb.rhs)
			}
		}
		if ty, ok := t.lookup(x.Name); ok {
			return Var{x.Name}, ty, false
		}
		return t.funcValue(x, x.Name)
	case *ast.IndexExpr, *ast.IndexListExpr:
		// fp.Seq[R].Widen is handled under SelectorExpr; here: explicit instantiation of a generic function, F[T…]
		base, _ := typeArgs(e)
		switch b := base.(type) {
		case *ast.Ident:
			if _, ok := t.lookup(b.Name); !ok {
				return t.funcValue(b, b.Name)
			}
		case *ast.SelectorExpr:
			return t.synth(b)
		}
		return t.fail(e, "index expression")
	case *ast.SelectorExpr:
		if nm := selName(x); nm != "" {
			if h, ok := helpers[nm]; ok {
				if !h.value {
					return t.fail(x, nm+" used as a function value (no reading in the prelude)")
				}
				return Raw{h.lean}, helperValueType(h), false
			}
			// method value acc.Add on a sequence variable
			if id := x.X.(*ast.Ident); x.Sel.Name == "Add" {
				if ty, ok := t.lookup(id.Name); ok {
					if l, ok := resolve(ty).(TList); ok {
						return app(Raw{"seqAdd"}, Var{id.Name}), fn1(l.X, TList{l.X}, true), false
					}
				}
			}
		}
		// method expression fp.Seq[R].Widen
		if x.Sel.Name == "Widen" {
			if base, args := typeArgs(x.X); fpSel(base) == "Seq" && len(args) == 1 {
				a := t.typ(args[0])
				return Raw{"seqWiden"}, fn1(TList{a}, TList{a}, true), false
			}
		}
		return t.fail(x, "selector ."+x.Sel.Name)
	case *ast.CompositeLit:
		if base, args := typeArgs(x.Type); x.Type != nil && fpSel(base) == "Seq" && len(args) == 1 && len(x.Elts) == 0 {
			return Raw{"[]"}, TList{t.typ(args[0])}, false
		}
		return t.fail(x, "composite literal")
	case *ast.FuncLit:
		return t.funcLit(x)
	case *ast.CallExpr:
		return t.call(x)
	}
	return t.fail(e, "expression")
}

// a generic function used as a value or callee: FlatMap, Pure, FoldM, family members
func (t *tr) funcValue(n ast.Node, name string) (Tm, Ty, bool) {
	switch name {
	case "FlatMap":
		a, b := fresh(), fresh()
		return Raw{"o.flatMap"}, pureChain([]Ty{TC{a}, fn1(a, TC{b}, false)}, TC{b}), false
	case "Pure":
		a := fresh()
		return Raw{"o.pure'"}, fn1(a, TC{a}, false), false
	case "FoldM":
		t.foldM = true
		a, b := fresh(), fresh()
		return FoldM{}, pureChain([]Ty{TList{a}, b, fn1(b, fn1(a, TC{b}, false), false)}, TC{b}), false
	}
	if s, ok := t.p.sigs[name]; ok {
		t.calls[name] = true
		ps, r := t.instantiate(s)
		return Fam{name}, pureChain(ps, r), false
	}
	return t.fail(n, "identifier "+name)
}

func (t *tr) funcLit(f *ast.FuncLit) (Tm, Ty, bool) {
	var names []string
	var ptys []Ty
	scope := map[string]Ty{}
	for _, fld := range f.Type.Params.List {
		ty := t.typ(fld.Type)
		if len(fld.Names) == 0 {
			names = append(names, "_")
			ptys = append(ptys, ty)
		}
		for _, nm := range fld.Names {
			names = append(names, nm.Name)
			ptys = append(ptys, ty)
			scope[nm.Name] = ty
		}
	}
	if f.Type.Results == nil || len(f.Type.Results.List) != 1 || len(f.Type.Results.List[0].Names) > 1 {
		return t.fail(f, "function literal without exactly one result")
	}
	res := t.typ(f.Type.Results.List[0].Type)
	fty := arrows(ptys, res)
	if len(names) == 0 {
		names = []string{"_"}
	}
	t.env = append(t.env, scope)
	t.depth++
	savedHead := t.head
	body := t.body(f.Body.List, []Ty{res}, !comp(res))
	t.head = savedHead
	t.depth--
	t.env = t.env[:len(t.env)-1]
	return lam(names, body), fty, false
}

// `[x := e]* return e…`; eff: the enclosing function returns a plain value (the body is a GoM computation)
func (t *tr) body(stmts []ast.Stmt, res []Ty, eff bool) Tm {
	var bound []string
	defer func() {
		for _, nm := range bound {
			if lb := t.lets[nm]; lb != nil && lb.used != 1 {
				t.errs = append(t.errs, fmt.Sprintf("variable %s is used %d times (only single-use bindings are in the fragment)", nm, lb.used))
			}
			delete(t.lets, nm)
		}
	}()
	for len(stmts) > 1 {
		as, ok := stmts[0].(*ast.AssignStmt)
		if !ok || as.Tok != token.DEFINE || len(as.Lhs) != 1 || len(as.Rhs) != 1 {
			tm, _, _ := t.fail(stmts[0], "statement before return")
			return tm
		}
		id := as.Lhs[0].(*ast.Ident)
		if _, dup := t.lets[id.Name]; dup {
			tm, _, _ := t.fail(as, "rebinding of "+id.Name)
			return tm
		}
		t.lets[id.Name] = &letBinding{rhs: as.Rhs[0], depth: t.depth}
		bound = append(bound, id.Name)
		stmts = stmts[1:]
	}
	if len(stmts) != 1 {
		tm, _, _ := t.fail(&ast.BlockStmt{}, "empty body")
		return tm
	}
	r, ok := stmts[0].(*ast.ReturnStmt)
	if !ok || len(r.Results) != len(res) {
		tm, _, _ := t.fail(stmts[0], "statement (only `return` is in the fragment)")
		return tm
	}
	if len(bound) > 0 {
		// a single-use binding must be a DIRECT argument of the returned call
		c, ok := r.Results[0].(*ast.CallExpr)
		direct := map[string]bool{}
		if ok {
			for _, a := range c.Args {
				if id, ok := a.(*ast.Ident); ok {
					direct[id.Name] = true
				}
			}
		}
		for _, nm := range bound {
			if !direct[nm] {
				tm, _, _ := t.fail(stmts[0], "variable "+nm+" is not a direct argument of the returned call")
				return tm
			}
		}
	}
	var outs []Tm
	for i, e := range r.Results {
		t.head = true
		tm, ty, isEff := t.synth(e)
		var err error
		switch {
		case eff && isEff:
			err = unify(ty, res[i])
		case eff:
			tm, _, err = t.coerce(tm, ty, res[i])
			tm = app(Raw{"Pure.pure"}, tm)
		case isEff:
			tm, _, _ = t.fail(e, "the result of a plain callback is returned where a monadic value is expected")
		default:
			tm, _, err = t.coerce(tm, ty, res[i])
		}
		if err != nil {
			t.errs = append(t.errs, "return: "+err.Error())
		}
		outs = append(outs, tm)
	}
	if len(outs) == 1 {
		return outs[0]
	}
	return Tup{outs}
}

func (t *tr) call(c *ast.CallExpr) (Tm, Ty, bool) {
	head := t.head
	tm, ty, eff := t.call1(c)
	t.head = head
	if _, isC := resolve(ty).(TC); isC && !head {
		base, _ := typeArgs(c.Fun)
		id, _ := base.(*ast.Ident)
		if !(id != nil && id.Name == "Pure" && !t.hadBinds) {
			return t.fail(c, "a monadic-valued call is an argument that Go evaluates before the enclosing call inspects its earlier operands (the reading would run it after them)")
		}
	}
	return tm, ty, eff
}

func (t *tr) call1(c *ast.CallExpr) (Tm, Ty, bool) {
	if c.Ellipsis != token.NoPos {
		return t.fail(c, "variadic call")
	}
	// iterator.Map(iterator.FromSeq(a), f).ToSeq()
	if s, ok := c.Fun.(*ast.SelectorExpr); ok && s.Sel.Name == "ToSeq" && len(c.Args) == 0 {
		if in, ok := s.X.(*ast.CallExpr); ok && selName(in.Fun) == "iterator.Map" && len(in.Args) == 2 {
			if src, ok := in.Args[0].(*ast.CallExpr); ok && selName(src.Fun) == "iterator.FromSeq" && len(src.Args) == 1 {
				a, b := fresh(), fresh()
				return t.apply(c, Raw{"seqLift"}, pureChain([]Ty{fn1(a, b, true)}, fn1(TList{a}, TList{b}, true)),
					[]ast.Expr{in.Args[1], src.Args[0]})
			}
		}
	}
	base, _ := typeArgs(c.Fun)
	if nm := selName(base); nm != "" {
		if id := base.(*ast.SelectorExpr).X.(*ast.Ident); true {
			if _, isVar := t.lookup(id.Name); !isVar {
				return t.helperCall(c, nm)
			}
		}
	}
	h := t.head
	t.head = false
	ftm, fty, feff := t.synth(c.Fun)
	t.head = h
	if feff {
		return t.fail(c, "call of the result of a plain callback")
	}
	return t.apply(c, ftm, fty, c.Args)
}

func (t *tr) helperCall(c *ast.CallExpr, nm string) (Tm, Ty, bool) {
	if nm == "fp.Compose" || nm == "fp.Compose2" {
		// f2 ∘ f1; the reading depends on whether f1 is a plain callback
		if len(c.Args) != 2 {
			return t.fail(c, nm+" arity")
		}
		_, fty, _ := t.synthQuiet(c.Args[0])
		if f, ok := resolve(fty).(TFn); ok && f.Eff {
			a, b, d := fresh(), fresh(), fresh()
			return t.apply(c, Raw{"composeSeq o"}, pureChain([]Ty{fn1(a, b, true), fn1(b, TC{d}, false)}, fn1(a, TC{d}, false)), c.Args)
		}
		a, x, y := fresh(), fresh(), fresh()
		return t.apply(c, Raw{"composeC"}, pureChain([]Ty{fn1(a, x, false), fn1(x, y, false)}, fn1(a, y, false)), c.Args)
	}
	h, ok := helpers[nm]
	if !ok {
		return t.fail(c, "call of "+nm+" (no reading in the prelude)")
	}
	ps, r := h.mk()
	if !h.value {
		// a pure combinator: the call itself has no effect
		return t.apply(c, Raw{h.lean}, pureChain(ps, r), c.Args)
	}
	tm, ty, eff := t.apply(c, Raw{h.lean}, arrows(ps, r), c.Args)
	switch nm {
	case "iterator.FromSeq", "fp.IteratorOfSeq":
		// identity on lists: use the argument itself
		if a, ok := tm.(App); ok && len(a.Args) == 1 && eff {
			return a.Args[0], ty, false
		}
	}
	return tm, ty, eff
}

// synth without keeping errors / call marks (used to look at the shape of an argument)
func (t *tr) synthQuiet(e ast.Expr) (Tm, Ty, bool) {
	ne, nf := len(t.errs), t.nfresh
	saved := map[string]int{}
	for k, v := range t.lets {
		saved[k] = v.used
	}
	tm, ty, eff := t.synth(e)
	t.errs = t.errs[:ne]
	t.nfresh = nf
	for k, v := range saved {
		t.lets[k].used = v
	}
	return tm, ty, eff
}

func (t *tr) apply(n ast.Node, ftm Tm, fty Ty, args []ast.Expr) (Tm, Ty, bool) {
	type bind struct {
		x  string
		tm Tm
	}
	var binds []bind
	var argTms []Tm
	cur := fty
	eff := false
	head, seenC := t.head, false
	defer func() { t.head = head; t.hadBinds = len(binds) > 0 }()
	if len(args) == 0 {
		f, ok := resolve(cur).(TFn)
		if !ok {
			return t.fail(n, "call of a non-function")
		}
		if err := unify(f.P, TUnit{}); err != nil {
			return t.fail(n, "call without arguments: "+err.Error())
		}
		argTms = append(argTms, Raw{"()"})
		cur, eff = f.R, f.Eff
	}
	for i, a := range args {
		if eff {
			return t.fail(n, "too many arguments")
		}
		f, ok := resolve(cur).(TFn)
		if !ok {
			if m, isMeta := resolve(cur).(*TMeta); isMeta {
				_ = m
				return t.fail(n, "call of a value of unknown type")
			}
			return t.fail(n, "too many arguments")
		}
		_, isC := resolve(f.P).(TC)
		t.head = head && !seenC
		seenC = seenC || isC
		atm, aty, aeff := t.synth(a)
		if aeff {
			x := t.freshName()
			if err := unify(aty, f.P); err != nil {
				t.errs = append(t.errs, fmt.Sprintf("argument %d: %s", i+1, err))
			}
			binds = append(binds, bind{x, atm})
			t.env = append(t.env, map[string]Ty{x: aty}) // reserve the name
			defer func() { t.env = t.env[:len(t.env)-1] }()
			atm = Var{x}
		} else {
			var err error
			atm, _, err = t.coerce(atm, aty, f.P)
			if err != nil {
				t.errs = append(t.errs, fmt.Sprintf("argument %d: %s", i+1, err))
			}
		}
		argTms = append(argTms, atm)
		cur, eff = f.R, f.Eff
	}
	out := app(ftm, argTms...)
	if len(binds) == 0 {
		return out, cur, eff
	}
	// effectful arguments are evaluated first, left to right
	switch {
	case eff:
		for i := len(binds) - 1; i >= 0; i-- {
			out = app(Raw{"Bind.bind"}, binds[i].tm, lam([]string{binds[i].x}, out))
		}
		return out, cur, true
	case comp(cur):
		for i := len(binds) - 1; i >= 0; i-- {
			out = app(Raw{"o.seq"}, binds[i].tm, lam([]string{binds[i].x}, out))
		}
		return out, cur, false
	default:
		out = app(Raw{"Pure.pure"}, out)
		for i := len(binds) - 1; i >= 0; i-- {
			out = app(Raw{"Bind.bind"}, binds[i].tm, lam([]string{binds[i].x}, out))
		}
		return out, cur, true
	}
}

// ---------------------------------------------------------------------------------------------------------------------

func (p *ptr) newTr(fd *ast.FuncDecl) *tr {
	t := &tr{p: p, fn: fd.Name.Name, tparams: map[string]bool{}, fixed: map[string]bool{}, lets: map[string]*letBinding{}, calls: map[string]bool{}}
	if fd.Type.TypeParams != nil {
		i := 0
		for _, f := range fd.Type.TypeParams.List {
			for _, nm := range f.Names {
				if i < p.pkg.nfixed {
					t.fixed[nm.Name] = true
				} else {
					t.tparams[nm.Name] = true
				}
				i++
			}
		}
	}
	return t
}

func tparamNames(fd *ast.FuncDecl, nfixed int) []string {
	var out []string
	if fd.Type.TypeParams != nil {
		i := 0
		for _, f := range fd.Type.TypeParams.List {
			for _, nm := range f.Names {
				if i >= nfixed {
					out = append(out, nm.Name)
				}
				i++
			}
		}
	}
	return out
}

// the signature of a family member
func (p *ptr) signature(fd *ast.FuncDecl) (*famSig, []string, []string) {
	t := p.newTr(fd)
	s := &famSig{tparams: tparamNames(fd, p.pkg.nfixed)}
	var names []string
	for _, f := range fd.Type.Params.List {
		ty := t.typ(f.Type)
		if len(f.Names) == 0 {
			t.errs = append(t.errs, "unnamed parameter")
		}
		for _, nm := range f.Names {
			names = append(names, nm.Name)
			s.ptypes = append(s.ptypes, ty)
		}
	}
	if fd.Type.Results == nil {
		t.errs = append(t.errs, "no result")
		s.res = TUnit{}
		return s, names, t.errs
	}
	var rs []Ty
	for _, f := range fd.Type.Results.List {
		n := len(f.Names)
		if n == 0 {
			n = 1
		}
		for i := 0; i < n; i++ {
			rs = append(rs, t.typ(f.Type))
		}
	}
	if len(rs) == 1 {
		s.res = rs[0]
	} else {
		s.res = TProd{rs}
	}
	return s, names, t.errs
}

func (p *ptr) translate(name string) *funcDef {
	fd := p.decls[name]
	sig, names, serrs := p.signature(fd)
	d := &funcDef{name: name, file: p.declIn[name], tparams: sig.tparams, params: names, ptypes: sig.ptypes, res: sig.res}
	if len(serrs) > 0 {
		d.errs = serrs
		return d
	}
	t := p.newTr(fd)
	scope := map[string]Ty{}
	for i, nm := range names {
		scope[nm] = sig.ptypes[i]
	}
	t.env = []map[string]Ty{scope}
	var res []Ty
	if pr, ok := sig.res.(TProd); ok && len(fd.Type.Results.List) > 1 {
		res = pr.Es
	} else {
		res = []Ty{sig.res}
	}
	d.body = t.body(fd.Body.List, res, false)
	d.errs = t.errs
	d.calls = t.calls
	d.foldM = t.foldM
	return d
}

var famName = regexp.MustCompile(`^[A-Z]`)

func loadPkg(repo string, pk pkgInfo) (*ptr, error) {
	p := &ptr{pkg: pk, decls: map[string]*ast.FuncDecl{}, declIn: map[string]string{}, sigs: map[string]*famSig{}, extern: map[string]string{}, repo: repo, sigErrs: map[string][]string{}}
	fset := token.NewFileSet()
	for _, fn := range pk.files {
		path := filepath.Join(repo, pk.dir, fn)
		f, err := parser.ParseFile(fset, path, nil, 0)
		if err != nil {
			if os.IsNotExist(err) {
				continue
			}
			return nil, err
		}
		for _, d := range f.Decls {
			fd, ok := d.(*ast.FuncDecl)
			if !ok || fd.Recv != nil || fd.Body == nil || !famName.MatchString(fd.Name.Name) {
				continue
			}
			p.decls[fd.Name.Name] = fd
			p.declIn[fd.Name.Name] = filepath.Join(pk.dir, fn)
			p.order = append(p.order, fd.Name.Name)
		}
	}
	// family members that the generated files call but do not define (try.Map lives in try_op.go): take them from the package
	called := map[string]bool{}
	for _, fd := range p.decls {
		ast.Inspect(fd.Body, func(n ast.Node) bool {
			if c, ok := n.(*ast.CallExpr); ok {
				base, _ := typeArgs(c.Fun)
				if id, ok := base.(*ast.Ident); ok && famName.MatchString(id.Name) {
					called[id.Name] = true
				}
			}
			return true
		})
	}
	var missing []string
	for nm := range called {
		if _, ok := p.decls[nm]; !ok && nm != "FlatMap" && nm != "Pure" && nm != "FoldM" {
			missing = append(missing, nm)
		}
	}
	sort.Strings(missing)
	if len(missing) > 0 {
		entries, _ := os.ReadDir(filepath.Join(repo, pk.dir))
		for _, e := range entries {
			if e.IsDir() || !strings.HasSuffix(e.Name(), ".go") || strings.HasSuffix(e.Name(), "_test.go") {
				continue
			}
			f, err := parser.ParseFile(fset, filepath.Join(repo, pk.dir, e.Name()), nil, 0)
			if err != nil {
				continue
			}
			for _, d := range f.Decls {
				fd, ok := d.(*ast.FuncDecl)
				if !ok || fd.Recv != nil || fd.Body == nil {
					continue
				}
				for _, nm := range missing {
					if fd.Name.Name == nm {
						if _, dup := p.decls[nm]; !dup {
							p.decls[nm] = fd
							p.declIn[nm] = filepath.Join(pk.dir, e.Name())
							p.extern[nm] = filepath.Join(pk.dir, e.Name())
						}
					}
				}
			}
		}
		// externally defined members go first
		var ord []string
		for _, nm := range missing {
			if _, ok := p.decls[nm]; ok {
				ord = append(ord, nm)
			}
		}
		p.order = append(ord, p.order...)
	}
	for nm, fd := range p.decls {
		s, _, errs := p.signature(fd)
		p.sigs[nm] = s
		if len(errs) > 0 {
			p.sigErrs[nm] = errs
		}
	}
	return p, nil
}

var arityRe = regexp.MustCompile(`^(.*?)(\d*)$`)

type result struct {
	Translated     int               `json:"translated"`
	Untranslatable []string          `json:"untranslatable"`
	Packages       map[string]int    `json:"packages"`
	Divergent      []string          `json:"divergent"`
	External       map[string]string `json:"external"`
	Functions      []string          `json:"functions"`
}

func main() {
	repo, out := os.Args[1], os.Args[2]
	res := result{Packages: map[string]int{}, External: map[string]string{}, Untranslatable: []string{}, Divergent: []string{}}
	type pres struct {
		p    *ptr
		defs map[string]*funcDef
	}
	var all []pres
	for _, pk := range pkgs {
		p, err := loadPkg(repo, pk)
		if err != nil {
			res.Untranslatable = append(res.Untranslatable, pk.name+": parse: "+err.Error())
			continue
		}
		pr := pres{p, map[string]*funcDef{}}
		for _, nm := range p.order {
			d := p.translate(nm)
			pr.defs[nm] = d
			if len(d.errs) > 0 {
				res.Untranslatable = append(res.Untranslatable, pk.name+"."+nm+": "+strings.Join(d.errs, "; "))
			} else {
				res.Packages[pk.name]++
			}
		}
		for nm, f := range p.extern {
			res.External[pk.name+"."+nm] = f
		}
		all = append(all, pr)
	}
	// union of function names, in the order of the first package that has them
	var names []string
	seen := map[string]bool{}
	for _, pr := range all {
		for _, nm := range pr.p.order {
			if !seen[nm] {
				seen[nm] = true
				names = append(names, nm)
			}
		}
	}
	// FoldM users (transitively)
	needFM := map[string]bool{}
	for changed := true; changed; {
		changed = false
		for _, pr := range all {
			for nm, d := range pr.defs {
				if needFM[nm] {
					continue
				}
				need := d.foldM
				for c := range d.calls {
					need = need || needFM[c]
				}
				if need {
					needFM[nm] = true
					changed = true
				}
			}
		}
	}
	// common translation per function: the majority canonical form
	common := map[string]*funcDef{}
	commonFiles := map[string][]string{}
	type div struct{ pkg, fn, why string }
	var divs []div
	perPkg := map[string][]*funcDef{}
	for _, nm := range names {
		count := map[string]int{}
		first := map[string]*funcDef{}
		var forms []string
		for _, pr := range all {
			d, ok := pr.defs[nm]
			if !ok || len(d.errs) > 0 {
				continue
			}
			c := d.render(true, needFM)
			if count[c] == 0 {
				first[c] = d
				forms = append(forms, c)
			}
			count[c]++
		}
		best := ""
		for _, c := range forms {
			if best == "" || count[c] > count[best] {
				best = c
			}
		}
		if best == "" {
			continue
		}
		common[nm] = first[best]
		for _, pr := range all {
			d, ok := pr.defs[nm]
			switch {
			case !ok:
				divs = append(divs, div{pr.p.pkg.name, nm, "missing"})
			case len(d.errs) > 0:
				divs = append(divs, div{pr.p.pkg.name, nm, "untranslatable"})
			case d.render(true, needFM) != best:
				divs = append(divs, div{pr.p.pkg.name, nm, "differs"})
				perPkg[pr.p.pkg.name] = append(perPkg[pr.p.pkg.name], d)
			default:
				commonFiles[nm] = append(commonFiles[nm], d.file)
			}
		}
	}
	// dependency order (callee first), otherwise source order
	var ordered []string
	state := map[string]int{}
	var visit func(nm string)
	visit = func(nm string) {
		d, ok := common[nm]
		if !ok || state[nm] == 2 {
			return
		}
		if state[nm] == 1 {
			res.Untranslatable = append(res.Untranslatable, nm+": recursive call cycle")
			return
		}
		state[nm] = 1
		var cs []string
		for c := range d.calls {
			cs = append(cs, c)
		}
		sort.Strings(cs)
		for _, c := range cs {
			visit(c)
		}
		state[nm] = 2
		ordered = append(ordered, nm)
	}
	for _, nm := range names {
		visit(nm)
	}

	// a definition is emitted only when everything it calls is emitted (so that the generated file always builds and
	// exactly the theorems about the affected functions fail)
	emit := map[string]bool{}
	for _, nm := range ordered {
		ok := true
		for c := range common[nm].calls {
			ok = ok && emit[c]
		}
		emit[nm] = ok
	}
	var b strings.Builder
	b.WriteString("-- GENERATED by harness/cmd/monad2lean from the repository's source (option/try/either/statet *_monad.go, *_traverse.go); do not edit.\n")
	b.WriteString("import FpVerif.Model.MonadGenPrelude\nset_option linter.unusedVariables false\nnamespace FpVerif.Gen.MonadGen\nopen FpVerif FpVerif.MonadGenPrelude\n\n")
	for _, nm := range ordered {
		d := common[nm]
		if !emit[nm] {
			fmt.Fprintf(&b, "-- `%s`: not emitted, it calls a function that is not translated\n\n", nm)
			res.Untranslatable = append(res.Untranslatable, nm+": calls a function that is not translated")
			continue
		}
		fmt.Fprintf(&b, "/-- translation of `%s` (%s) -/\n%s\n\n", nm, strings.Join(commonFiles[nm], ", "), d.render(false, needFM))
		res.Translated++
	}
	for _, u := range res.Untranslatable {
		fmt.Fprintf(&b, "-- untranslatable: %s\n", strings.ReplaceAll(u, "\n", " "))
	}
	for _, pk := range pkgs {
		ds := perPkg[pk.name]
		if len(ds) == 0 {
			continue
		}
		fmt.Fprintf(&b, "namespace %s -- functions of package %s that differ from the common translation\n\n", pk.name, pk.name)
		for _, d := range ds {
			fmt.Fprintf(&b, "/-- translation of `%s.%s` (%s) -/\n%s\n\n", pk.name, d.name, d.file, d.render(false, needFM))
		}
		fmt.Fprintf(&b, "end %s\n\n", pk.name)
	}
	// what was found, for the coverage theorems
	b.WriteString("/-- the functions found in the source and translated (family name, arity suffix; 0 = none), in source order -/\ndef functions : List (String × Nat) := [")
	k := 0
	for _, nm := range names {
		if !emit[nm] {
			continue
		}
		m := arityRe.FindStringSubmatch(nm)
		ar := "0"
		if m[2] != "" {
			ar = m[2]
		}
		if k > 0 {
			b.WriteString(", ")
		}
		k++
		fmt.Fprintf(&b, "(\"%s\", %s)", m[1], ar)
		res.Functions = append(res.Functions, nm)
	}
	b.WriteString("]\n\n/-- (package, function) whose translation is missing / untranslatable / different from the common one -/\ndef divergent : List (String × String) := [")
	for i, d := range divs {
		if i > 0 {
			b.WriteString(", ")
		}
		fmt.Fprintf(&b, "(\"%s\", \"%s\")", d.pkg, d.fn)
		res.Divergent = append(res.Divergent, d.pkg+"."+d.fn+": "+d.why)
	}
	b.WriteString("]\n\n/-- number of functions outside the translated fragment -/\ndef untranslatable : Nat := ")
	fmt.Fprintf(&b, "%d\n\nend FpVerif.Gen.MonadGen\n", len(res.Untranslatable))
	if err := os.MkdirAll(filepath.Dir(out), 0o755); err != nil {
		panic(err)
	}
	if err := os.WriteFile(out, []byte(b.String()), 0o644); err != nil {
		panic(err)
	}
	js, _ := json.Marshal(res)
	fmt.Println(string(js))
}
