package main

// The interpreter of the oracle's line protocol (lean/Oracle/Hamt.lean) on the REAL library, plus the
// direct (model-free) evaluation of properties C03/C04 against a plain Go reference map.

import (
	"fmt"
	"sort"
	"strconv"
	"strings"

	"github.com/csgura/fp"
	"github.com/csgura/fp/eq"
	"github.com/csgura/fp/hash"
	"github.com/csgura/fp/immutable"
	"github.com/csgura/fp/iterator"
	"github.com/csgura/fp/list"
	"github.com/csgura/fp/seq"
	. "verifharness/common"
)

// ------------------------------------------------------------------------------------- hashers
// Same table as `hasherOf` in lean/Oracle/Hamt.lean.

func u32(k int) uint32 { return uint32(k) } // two's complement low 32 bits

func hasherOf(id int) fp.Hashable[int] {
	same := eq.New(func(a, b int) bool { return a == b })
	switch id {
	case 0:
		return hash.New(same, func(k int) uint32 { return u32(k) })
	case 1:
		return hash.New(same, func(k int) uint32 { return 7 })
	case 2:
		return hash.New(same, func(k int) uint32 { return u32(k) % 5 })
	case 3:
		return hash.New(same, func(k int) uint32 { return u32(k) << 27 })
	case 4:
		return hash.New(same, func(k int) uint32 { x := u32(k) * 2654435761; return x ^ (x >> 15) })
	case 5:
		return hash.New(eq.New(func(a, b int) bool { return Emod(a, 97) == Emod(b, 97) }),
			func(k int) uint32 { return uint32(Emod(k, 97)) * 40503 })
	case 6:
		return hash.New(same, func(k int) uint32 { return (u32(k) % 64) << 5 })
	}
	return hash.New(same, func(k int) uint32 { return (u32(k)%3)<<30 | (u32(k) % 40) })
}

// ------------------------------------------------------------------------------------- digests

var mix = immutable.VerifMix

func dI(x int) uint64 { return uint64(int64(x)) }
func dB(b bool) uint64 {
	if b {
		return 1
	}
	return 0
}
func hex(x uint64) string { return strconv.FormatUint(x, 16) }

type pair struct{ k, v int }

func sortPairs(ps []pair) {
	sort.Slice(ps, func(i, j int) bool {
		if ps[i].k != ps[j].k {
			return ps[i].k < ps[j].k
		}
		return ps[i].v < ps[j].v
	})
}

func showPairs(ps []pair) string {
	var sb strings.Builder
	sb.WriteByte('[')
	for i, p := range ps {
		if i > 0 {
			sb.WriteByte(',')
		}
		sb.WriteByte('(')
		sb.WriteString(strconv.Itoa(p.k))
		sb.WriteByte(',')
		sb.WriteString(strconv.Itoa(p.v))
		sb.WriteByte(')')
	}
	sb.WriteByte(']')
	return sb.String()
}

func showInts(xs []int) string {
	var sb strings.Builder
	sb.WriteByte('[')
	for i, x := range xs {
		if i > 0 {
			sb.WriteByte(',')
		}
		sb.WriteString(strconv.Itoa(x))
	}
	sb.WriteByte(']')
	return sb.String()
}

func showOpt(o fp.Option[int]) string {
	if o.IsDefined() {
		return "Some(" + strconv.Itoa(o.Get()) + ")"
	}
	return "None"
}

// ------------------------------------------------------------------------------------- versions

// ver is one entry of the version table: the real value, and (for the direct checks and the
// generator) the reference content: Eqv-class of the key -> value (sets: 1).
type ver struct {
	isSet  bool
	m      fp.Map[int, int]
	s      fp.Set[int]
	ref    map[int]int
	dead   bool   // the implementation panicked while producing this version (placeholder)
	first  string // first rendering (summary), for the persistence check
	op     string // head of the operation that produced it
	cen    immutable.VerifCensusT
	hasCen bool
	parent int
	bySB   bool // handed out by the current set builder
	byMB   bool // handed out by the current map builder
}

type backing int

const (
	bZero backing = iota // nil Base / nil set
	bHamt
	bGo // UnsafeGoMap / UnsafeGoSet
	bOther
)

func (v *ver) hamtBaseMap() (fp.MapBase[int, int], backing) {
	if v.m.Base == nil {
		return nil, bZero
	}
	if immutable.VerifIsHamt(v.m.Base) {
		return v.m.Base, bHamt
	}
	if _, ok := v.m.Base.(fp.UnsafeGoMap[int, int]); ok {
		return v.m.Base, bGo
	}
	return v.m.Base, bOther
}

func (v *ver) hamtBaseSet() (fp.MapBase[int, bool], fp.SetMinimal[int], backing) {
	_, sm := fp.VerifSetParts(v.s)
	if sm == nil {
		return nil, nil, bZero
	}
	if b, ok := immutable.VerifSetBase(sm); ok {
		if immutable.VerifIsHamt(b) {
			return b, sm, bHamt
		}
		return b, sm, bOther
	}
	if _, ok := sm.(fp.UnsafeGoSet[int]); ok {
		return nil, sm, bGo
	}
	return nil, sm, bOther
}

func (v *ver) backing() backing {
	if v.isSet {
		_, _, b := v.hamtBaseSet()
		return b
	}
	_, b := v.hamtBaseMap()
	return b
}

// isZero: the zero value fp.Map{} / fp.Set{} (for a set: no getEmpty either)
func (v *ver) isZero() bool {
	if v.dead {
		return false
	}
	if v.isSet {
		has, sm := fp.VerifSetParts(v.s)
		return sm == nil && !has
	}
	return v.m.Base == nil
}

func (v *ver) size() int {
	if v.isSet {
		return v.s.Size()
	}
	return v.m.Size()
}

// iterPairs drains the REAL iterator (sets yield (k,1)); sorted for the Go-map fallbacks.
func (v *ver) iterPairs() []pair {
	out := []pair{}
	limit := 2*len(v.ref) + 64
	if v.isSet {
		itr := v.s.Iterator()
		for itr.HasNext() && len(out) <= limit {
			out = append(out, pair{itr.Next(), 1})
		}
	} else {
		itr := v.m.Iterator()
		for itr.HasNext() && len(out) <= limit {
			t := itr.Next()
			out = append(out, pair{t.I1, t.I2})
		}
	}
	if v.backing() == bGo {
		sortPairs(out)
	}
	return out
}

func goMapPairs(b fp.MapBase[int, int]) []pair {
	ps := []pair{}
	for k, val := range b.(fp.UnsafeGoMap[int, int]) {
		ps = append(ps, pair{k.(int), val})
	}
	sortPairs(ps)
	return ps
}

func goSetKeys(sm fp.SetMinimal[int]) []int {
	ks := []int{}
	for k := range sm.(fp.UnsafeGoSet[int]) {
		ks = append(ks, k.(int))
	}
	sort.Ints(ks)
	return ks
}

func (v *ver) shape() uint64 {
	if v.isSet {
		b, sm, bk := v.hamtBaseSet()
		switch bk {
		case bZero:
			return 7
		case bHamt:
			return immutable.VerifDigest(b, dI, dB)
		case bGo:
			a := uint64(9)
			for _, k := range goSetKeys(sm) {
				a = mix(a, dI(k))
			}
			return a
		}
		return 0
	}
	b, bk := v.hamtBaseMap()
	switch bk {
	case bZero:
		return 3
	case bHamt:
		return immutable.VerifDigest(b, dI, dI)
	case bGo:
		a := uint64(5)
		for _, p := range goMapPairs(b) {
			a = mix(mix(a, dI(p.k)), dI(p.v))
		}
		return a
	}
	return 0
}

func (v *ver) dump() string {
	if v.isSet {
		b, sm, bk := v.hamtBaseSet()
		switch bk {
		case bZero:
			return "(set FpVerif.Hamt.EmptyFn.nil nil)"
		case bHamt:
			return "(set " + immutable.VerifDump(b) + ")"
		case bGo:
			var sb strings.Builder
			sb.WriteString("(set (goset")
			for _, k := range goSetKeys(sm) {
				sb.WriteByte(' ')
				sb.WriteString(strconv.Itoa(k))
			}
			sb.WriteString("))")
			return sb.String()
		}
		return "(set (unknown))"
	}
	b, bk := v.hamtBaseMap()
	switch bk {
	case bZero:
		return "(zero)"
	case bHamt:
		return immutable.VerifDump(b)
	case bGo:
		var sb strings.Builder
		sb.WriteString("(gomap")
		for _, p := range goMapPairs(b) {
			fmt.Fprintf(&sb, " (%d %d)", p.k, p.v)
		}
		sb.WriteString(")")
		return sb.String()
	}
	return "(unknown)"
}

func protect(f func() string) (s string) {
	defer func() {
		if p := recover(); p != nil {
			s = "panic(" + ShowPanic(p) + ")"
		}
	}()
	return f()
}

// summary is `summary` of the oracle: size from Size(), shape digest of the real trie, count and
// digest of what the real iterator yields.
func (v *ver) summary() string {
	s, _ := v.summaryP()
	return s
}

func (v *ver) summaryP() (string, []pair) {
	if v.dead {
		return "dead", nil
	}
	var it []pair
	return protect(func() string {
		it = v.iterPairs()
		d := uint64(31)
		for _, p := range it {
			d = mix(mix(d, dI(p.k)), dI(p.v))
		}
		return "size=" + strconv.Itoa(v.size()) + " sh=" + hex(v.shape()) + " it=" + strconv.Itoa(len(it)) + ":" + hex(d)
	}), it
}

// ------------------------------------------------------------------------------------- interpreter

type failure struct {
	key, what string
	opIdx     int
}

type interp struct {
	hid  int
	h    fp.Hashable[int]
	vers []*ver
	cur  int

	mbAdd   func(k, v int)
	mbBuild func() fp.Map[int, int]
	mbRef   map[int]int
	sbAdd   func(k int)
	sbBuild func() fp.Set[int]
	sbRef   map[int]int

	// history bookkeeping (flattened ops since the last `new`), for reproducing direct failures
	ops     []*Sx
	creates []int // per op: id of the version it created, -1 if none

	direct  bool
	checks  int
	fails   []failure
	tainted string // once a builder-after-Build violation was seen, later failures are attributed to it
	hist    map[string]int

	// numbering of the real heap objects (header, nodes, backing arrays) by first visit: the sharing
	// between versions, compared with what the heap-level model predicts (token `al=`)
	alias *immutable.VerifAliasTable
}

func newInterp(direct bool, hist map[string]int) *interp {
	return &interp{direct: direct, hist: hist, h: hasherOf(0)}
}

func (it *interp) cls(k int) int {
	if it.hid == 5 {
		return Emod(k, 97)
	}
	return k
}

func (it *interp) count(k string) {
	if it.hist != nil {
		it.hist[k]++
	}
}

func (it *interp) fail(key, format string, a ...any) {
	if it.tainted != "" {
		key = it.tainted
	}
	it.fails = append(it.fails, failure{key, fmt.Sprintf(format, a...), len(it.ops) - 1})
}

func asInt(s *Sx) (int, bool) {
	if s.IsL {
		return 0, false
	}
	n, err := strconv.Atoi(s.Atom)
	return n, err == nil
}

func asNat(s *Sx) (int, bool) {
	n, ok := asInt(s)
	if !ok || n < 0 || strings.HasPrefix(s.Atom, "-") || strings.HasPrefix(s.Atom, "+") {
		return 0, false
	}
	return n, true
}

func asInts(xs []*Sx) ([]int, bool) {
	out := make([]int, len(xs))
	for i, x := range xs {
		n, ok := asInt(x)
		if !ok {
			return nil, false
		}
		out[i] = n
	}
	return out, true
}

func asPairs(xs []*Sx) ([]pair, bool) {
	out := make([]pair, len(xs))
	for i, x := range xs {
		if !x.IsL || len(x.List) != 2 {
			return nil, false
		}
		k, ok1 := asInt(x.List[0])
		v, ok2 := asInt(x.List[1])
		if !ok1 || !ok2 {
			return nil, false
		}
		out[i] = pair{k, v}
	}
	return out, true
}

type remap struct {
	f    func(fp.Option[int]) fp.Option[int]
	name string
}

func remapOf(s *Sx) (remap, bool) {
	if !s.IsL || len(s.List) == 0 || s.List[0].IsL {
		return remap{}, false
	}
	a := s.List
	switch {
	case a[0].Atom == "inc" && len(a) == 2:
		d, ok := asInt(a[1])
		if !ok {
			return remap{}, false
		}
		return remap{func(o fp.Option[int]) fp.Option[int] {
			if o.IsDefined() {
				return fp.Some(o.Get() + d)
			}
			return fp.Some(d)
		}, "inc"}, true
	case a[0].Atom == "del" && len(a) == 1:
		return remap{func(fp.Option[int]) fp.Option[int] { return fp.None[int]() }, "del"}, true
	case a[0].Atom == "keep" && len(a) == 1:
		return remap{func(o fp.Option[int]) fp.Option[int] { return o }, "keep"}, true
	case a[0].Atom == "const" && len(a) == 2:
		c, ok := asInt(a[1])
		if !ok {
			return remap{}, false
		}
		return remap{func(fp.Option[int]) fp.Option[int] { return fp.Some(c) }, "const"}, true
	case a[0].Atom == "ifsome" && len(a) == 2:
		c, ok := asInt(a[1])
		if !ok {
			return remap{}, false
		}
		return remap{func(o fp.Option[int]) fp.Option[int] {
			if o.IsDefined() {
				return fp.Some(c)
			}
			return o
		}, "ifsome"}, true
	}
	return remap{}, false
}

func copyRef(m map[int]int) map[int]int {
	n := make(map[int]int, len(m)+1)
	for k, v := range m {
		n[k] = v
	}
	return n
}

type seqOf[T any] []T

func (s seqOf[T]) Iterator() fp.Iterator[T] { return fp.IteratorOfSeq([]T(s)) }

// reset is `(new …)`: forget everything.
func (it *interp) reset(hid int) {
	it.hid = hid
	it.h = hasherOf(hid)
	it.vers = nil
	it.cur = 0
	it.mbAdd, it.mbBuild, it.mbRef = nil, nil, nil
	it.sbAdd, it.sbBuild, it.sbRef = nil, nil, nil
	it.tainted = ""
	it.alias = immutable.NewVerifAliasTable()
}

// aliasToken is `aliasTok` of the oracle on the REAL pointers.
func (it *interp) aliasToken(v *ver) string {
	if it.alias == nil {
		it.alias = immutable.NewVerifAliasTable()
	}
	var n, k int
	var d uint64
	ok := false
	if v.isSet {
		if b, _, bk := v.hamtBaseSet(); bk == bHamt {
			n, k, d, ok = immutable.VerifAlias(it.alias, b)
		}
	} else {
		if b, bk := v.hamtBaseMap(); bk == bHamt {
			n, k, d, ok = immutable.VerifAlias(it.alias, b)
		}
	}
	if !ok {
		return "al=-"
	}
	if k == 0 {
		it.count("alias:nothing-fresh")
	} else if k == n {
		it.count("alias:all-fresh")
	} else {
		it.count("alias:shared+fresh")
	}
	return "al=" + strconv.Itoa(n) + "/" + strconv.Itoa(k) + ":" + hex(d)
}

// push appends a version produced by `mk` (run under recover). On a panic of the implementation a
// dead placeholder is pushed so that the numbering stays aligned with the oracle (whose model never
// panics in these operations for lawful hashers).
func (it *interp) push(op string, isSet bool, ref map[int]int, operands []int, mk func(v *ver)) string {
	v := &ver{isSet: isSet, ref: ref, op: op, parent: it.cur}
	if len(it.vers) == 0 {
		v.parent = -1
	}
	msg := ""
	func() {
		defer func() {
			if p := recover(); p != nil {
				msg = "panic(" + ShowPanic(p) + ")"
				v.dead = true
			}
		}()
		mk(v)
	}()
	id := len(it.vers)
	it.vers = append(it.vers, v)
	it.cur = id
	if len(it.creates) > 0 {
		it.creates[len(it.creates)-1] = id
	}
	if v.dead {
		it.count("panic:" + op)
		if it.direct {
			it.checks++
			key := "hamt.panic"
			for _, o := range operands {
				if o >= 0 && o < len(it.vers) && (it.vers[o].isZero() || it.vers[o].backing() == bGo) {
					key = "fp.zero"
				}
			}
			it.fail(key, "%s panicked: %s", op, msg)
		}
		return msg
	}
	var pairs []pair
	v.first, pairs = v.summaryP()
	if it.direct {
		it.afterCreate(id, operands, pairs)
	}
	if strings.HasPrefix(v.first, "panic(") {
		return v.first
	}
	return "v" + strconv.Itoa(id) + " " + v.first + " " + it.aliasToken(v)
}

func (it *interp) step(e *Sx) string {
	progress.Add(1)
	curInterp.Store(it)
	if !e.IsL || len(e.List) == 0 || e.List[0].IsL {
		return "bad-op"
	}
	head, args := e.List[0].Atom, e.List[1:]
	if head == "hist" {
		outs := make([]string, len(args))
		for i, op := range args {
			outs[i] = it.step(op)
		}
		return strings.Join(outs, " ; ")
	}
	if head == "new" && len(args) >= 2 && !args[1].IsL {
		if hid, ok := asNat(args[0]); ok {
			it.reset(hid)
			it.ops = []*Sx{e}
			it.creates = []int{-1}
			it.count("op:new-" + args[1].Atom)
			it.count(fmt.Sprintf("hasher:%d", min(hid, 7)))
			return it.stepNew(args[1].Atom, args[2:])
		}
		return "bad-op"
	}
	it.ops = append(it.ops, e)
	it.creates = append(it.creates, -1)
	return it.stepOp(head, args)
}

func (it *interp) stepNew(kind string, args []*Sx) string {
	switch kind {
	case "map":
		ps, ok := asPairs(args)
		if !ok {
			return "bad-op"
		}
		ref := map[int]int{}
		ts := make([]fp.Tuple2[int, int], len(ps))
		for i, p := range ps {
			ref[it.cls(p.k)] = p.v
			ts[i] = fp.Tuple2[int, int]{I1: p.k, I2: p.v}
		}
		it.count(fmt.Sprintf("ctor:Map/%s", bucket(len(ps))))
		// the constructors C03 names: immutable.Map and the ToMap functions of seq / iterator / list are all
		// "MapBuilder, Add in order, Build" (same trie, same wrapper) - also for EMPTY input (seed C03-8: seq.ToMap
		// returning the zero-value fp.Map{} for an empty Seq, which drops the hasher)
		route := (len(ps) + it.hid) % 4
		it.count([]string{"route:immutable.Map", "route:seq.ToMap", "route:iterator.ToMap", "route:list.ToMap"}[route])
		return it.push("new-map", false, ref, nil, func(v *ver) {
			switch route {
			case 0:
				v.m = immutable.Map(it.h, ts...)
			case 1:
				v.m = seq.ToMap(fp.Seq[fp.Tuple2[int, int]](ts), it.h)
			case 2:
				v.m = iterator.ToMap(iterator.FromSeq(fp.Seq[fp.Tuple2[int, int]](ts)), it.h)
			default:
				v.m = list.ToMap(list.FromSeq(fp.Seq[fp.Tuple2[int, int]](ts)), it.h)
			}
		})
	case "set":
		ks, ok := asInts(args)
		if !ok {
			return "bad-op"
		}
		ref := map[int]int{}
		for _, k := range ks {
			ref[it.cls(k)] = 1
		}
		it.count(fmt.Sprintf("ctor:Set/%s", bucket(len(ks))))
		route := (len(ks) + it.hid) % 4
		it.count([]string{"route:immutable.Set", "route:seq.ToSet", "route:iterator.ToSet", "route:list.ToSet"}[route])
		return it.push("new-set", true, ref, nil, func(v *ver) {
			switch route {
			case 0:
				v.s = immutable.Set(it.h, ks...)
			case 1:
				v.s = seq.ToSet(fp.Seq[int](ks), it.h)
			case 2:
				v.s = iterator.ToSet(iterator.FromSeq(fp.Seq[int](ks)), it.h)
			default:
				v.s = list.ToSet(list.FromSeq(fp.Seq[int](ks)), it.h)
			}
		})
	case "zmap":
		it.count("ctor:fp.Map{}")
		return it.push("new-zmap", false, map[int]int{}, nil, func(v *ver) { v.m = fp.Map[int, int]{} })
	case "zset":
		it.count("ctor:fp.Set{}")
		return it.push("new-zset", true, map[int]int{}, nil, func(v *ver) { v.s = fp.Set[int]{} })
	}
	return "bad-op"
}

func bucket(n int) string {
	switch {
	case n == 0:
		return "0"
	case n == 1:
		return "1"
	case n <= 7:
		return "2-7"
	case n == 8:
		return "8"
	case n == 9:
		return "9"
	case n <= 19:
		return "10-19"
	}
	return "20+"
}

func (it *interp) stepOp(head string, args []*Sx) string {
	switch {
	case head == "use" && len(args) == 1:
		if i, ok := asNat(args[0]); ok && i < len(it.vers) {
			it.cur = i
			it.count("op:use")
			return "ok"
		}
		return "bad-op"
	case head == "check" && len(args) == 1:
		if i, ok := asNat(args[0]); ok && i < len(it.vers) {
			it.count("op:check")
			s := it.vers[i].summary()
			if it.direct {
				it.recheck(i, s, "hamt.persistence")
			}
			return s
		}
		return "bad-op"
	case head == "mb" && len(args) == 1 && !args[0].IsL && args[0].Atom == "new":
		b := immutable.MapBuilder[int, int](it.h)
		it.mbAdd = func(k, v int) { b.Add(k, v) }
		it.mbBuild = func() fp.Map[int, int] { return b.Build() }
		it.mbRef = map[int]int{}
		for _, v := range it.vers {
			v.byMB = false
		}
		it.count("op:mb-new")
		return "ok"
	case head == "mb" && len(args) == 3 && !args[0].IsL && args[0].Atom == "add":
		k, ok1 := asInt(args[1])
		val, ok2 := asInt(args[2])
		if it.mbAdd == nil || !ok1 || !ok2 {
			return "bad-op"
		}
		it.count("op:mb-add")
		r := protect(func() string { it.mbAdd(k, val); return "ok" })
		if r == "ok" {
			it.mbRef = copyRef(it.mbRef)
			it.mbRef[it.cls(k)] = val
		} else {
			it.count("panic:mb-add")
		}
		if it.direct {
			it.builderCheck(false)
		}
		return r
	case head == "mb" && len(args) == 1 && !args[0].IsL && args[0].Atom == "build":
		if it.mbBuild == nil {
			return "bad-op"
		}
		it.count("op:mb-build")
		var m fp.Map[int, int]
		r := protect(func() string { m = it.mbBuild(); return "ok" })
		if r != "ok" {
			it.count("panic:mb-build")
			if it.direct {
				it.builderCheck(false)
			}
			return r
		}
		ref := it.mbRef
		out := it.push("mb-build", false, ref, nil, func(v *ver) { v.m = m; v.byMB = true })
		return out
	case head == "sb" && len(args) == 1 && !args[0].IsL && args[0].Atom == "new":
		b := immutable.SetBuilder[int](it.h)
		it.sbAdd = func(k int) { b.Add(k) }
		it.sbBuild = func() fp.Set[int] { return b.Build() }
		it.sbRef = map[int]int{}
		for _, v := range it.vers {
			v.bySB = false
		}
		it.count("op:sb-new")
		return "ok"
	case head == "sb" && len(args) == 2 && !args[0].IsL && args[0].Atom == "add":
		k, ok := asInt(args[1])
		if it.sbAdd == nil || !ok {
			return "bad-op"
		}
		it.count("op:sb-add")
		r := protect(func() string { it.sbAdd(k); return "ok" })
		if r == "ok" {
			it.sbRef = copyRef(it.sbRef)
			it.sbRef[it.cls(k)] = 1
		} else {
			it.count("panic:sb-add")
		}
		if it.direct {
			it.builderCheck(true)
		}
		return r
	case head == "sb" && len(args) == 1 && !args[0].IsL && args[0].Atom == "build":
		if it.sbBuild == nil {
			return "bad-op"
		}
		it.count("op:sb-build")
		ref := it.sbRef
		return it.push("sb-build", true, ref, nil, func(v *ver) { v.s = it.sbBuild(); v.bySB = true })
	}
	if it.cur >= len(it.vers) {
		return "bad-op"
	}
	c := it.vers[it.cur]
	if c.isSet {
		return it.stepSet(c, head, args)
	}
	return it.stepMap(c, head, args)
}

func (it *interp) stepMap(c *ver, op string, args []*Sx) string {
	cur := it.cur
	switch {
	case op == "set" && len(args) == 2:
		k, ok1 := asInt(args[0])
		val, ok2 := asInt(args[1])
		if !ok1 || !ok2 {
			return "bad-op"
		}
		it.count("op:set")
		if c.dead {
			return it.pushDead(op, false)
		}
		ref := copyRef(c.ref)
		ref[it.cls(k)] = val
		return it.push(op, false, ref, []int{cur}, func(v *ver) { v.m = c.m.Updated(k, val) })
	case op == "del":
		ks, ok := asInts(args)
		if !ok {
			return "bad-op"
		}
		it.count("op:del")
		if c.dead {
			return it.pushDead(op, false)
		}
		ref := copyRef(c.ref)
		for _, k := range ks {
			delete(ref, it.cls(k))
		}
		return it.push(op, false, ref, []int{cur}, func(v *ver) { v.m = c.m.Removed(ks...) })
	case op == "updwith" && len(args) == 2:
		k, ok := asInt(args[0])
		f, ok2 := remapOf(args[1])
		if !ok || !ok2 {
			return "bad-op"
		}
		it.count("op:updwith-" + f.name)
		if c.dead {
			return it.pushDead(op, false)
		}
		ref := copyRef(c.ref)
		old := fp.None[int]()
		if x, ok := ref[it.cls(k)]; ok {
			old = fp.Some(x)
		}
		if nv := f.f(old); nv.IsDefined() {
			ref[it.cls(k)] = nv.Get()
		} else {
			delete(ref, it.cls(k))
		}
		return it.push(op, false, ref, []int{cur}, func(v *ver) { v.m = c.m.UpdatedWith(k, f.f) })
	case op == "concat":
		ps, ok := asPairs(args)
		if !ok {
			return "bad-op"
		}
		it.count("op:concat")
		if c.dead {
			return it.pushDead(op, false)
		}
		ref := copyRef(c.ref)
		ts := make(seqOf[fp.Tuple2[int, int]], len(ps))
		for i, p := range ps {
			ref[it.cls(p.k)] = p.v
			ts[i] = fp.Tuple2[int, int]{I1: p.k, I2: p.v}
		}
		return it.push(op, false, ref, []int{cur}, func(v *ver) { v.m = c.m.Concat(ts) })
	case op == "get":
		ks, ok := asInts(args)
		if !ok {
			return "bad-op"
		}
		it.count("op:get")
		if c.dead {
			return "dead"
		}
		return protect(func() string {
			outs := make([]string, len(ks))
			for i, k := range ks {
				o := c.m.Get(k)
				outs[i] = showOpt(o)
				if it.direct {
					it.checks++
					want, has := c.ref[it.cls(k)]
					if o.IsDefined() != has || (has && o.Get() != want) {
						it.fail(lookupKey(c), "Get(%d) on v%d = %s, reference says %s", k, it.cur, outs[i], refOpt(want, has))
					}
				}
			}
			return strings.Join(outs, " ")
		})
	case op == "has":
		ks, ok := asInts(args)
		if !ok {
			return "bad-op"
		}
		it.count("op:has")
		if c.dead {
			return "dead"
		}
		return protect(func() string {
			outs := make([]string, len(ks))
			for i, k := range ks {
				b := c.m.Contains(k)
				outs[i] = strconv.FormatBool(b)
				if it.direct {
					it.checks++
					if _, has := c.ref[it.cls(k)]; has != b {
						it.fail(lookupKey(c), "Contains(%d) on v%d = %v, reference says %v", k, it.cur, b, has)
					}
				}
			}
			return strings.Join(outs, " ")
		})
	case op == "size" && len(args) == 0:
		it.count("op:size")
		if c.dead {
			return "dead"
		}
		return protect(func() string {
			return fmt.Sprintf("%d %v %v", c.m.Size(), c.m.IsEmpty(), c.m.NonEmpty())
		})
	case op == "iter" && len(args) == 0:
		it.count("op:iter")
		if c.dead {
			return "dead"
		}
		return protect(func() string { return showPairs(c.iterPairs()) })
	case (op == "keys" || op == "values") && len(args) == 0:
		it.count("op:" + op)
		if c.dead {
			return "dead"
		}
		return protect(func() string {
			xs := []int{}
			limit := 2*len(c.ref) + 64
			var itr fp.Iterator[int]
			if op == "keys" {
				itr = c.m.Keys()
			} else {
				itr = c.m.Values()
			}
			for itr.HasNext() && len(xs) <= limit {
				xs = append(xs, itr.Next())
			}
			if c.backing() == bGo {
				sort.Ints(xs)
			}
			if it.direct {
				it.checks++
				if len(xs) != len(c.ref) {
					it.fail(wrapKey(c), "%s() of v%d yields %d elements, reference has %d", op, it.cur, len(xs), len(c.ref))
				}
			}
			return showInts(xs)
		})
	case op == "dump" && len(args) == 0:
		it.count("op:dump")
		if c.dead {
			return "dead"
		}
		return protect(c.dump)
	case op == "overrun" && len(args) == 0:
		it.count("op:overrun")
		if c.dead {
			return "dead"
		}
		if c.backing() == bGo {
			return "unspecified"
		}
		return protect(func() string {
			itr := c.m.Iterator()
			for n := 0; itr.HasNext() && n <= 2*len(c.ref)+64; n++ {
				itr.Next()
			}
			itr.Next()
			return "no-panic"
		})
	}
	return "bad-op"
}

func refOpt(v int, has bool) string {
	if has {
		return "Some(" + strconv.Itoa(v) + ")"
	}
	return "None"
}

func (it *interp) pushDead(op string, isSet bool) string {
	v := &ver{isSet: isSet, ref: map[int]int{}, op: op, parent: it.cur, dead: true}
	id := len(it.vers)
	it.vers = append(it.vers, v)
	it.cur = id
	if len(it.creates) > 0 {
		it.creates[len(it.creates)-1] = id
	}
	return "dead"
}

func (it *interp) otherSet(s *Sx) (int, *ver, bool) {
	i, ok := asNat(s)
	if !ok || i >= len(it.vers) || !it.vers[i].isSet {
		return 0, nil, false
	}
	return i, it.vers[i], true
}

func (it *interp) stepSet(c *ver, op string, args []*Sx) string {
	cur := it.cur
	switch {
	case op == "incl" && len(args) == 1:
		k, ok := asInt(args[0])
		if !ok {
			return "bad-op"
		}
		it.count("op:incl")
		if c.dead {
			return it.pushDead(op, true)
		}
		ref := copyRef(c.ref)
		ref[it.cls(k)] = 1
		return it.push(op, true, ref, []int{cur}, func(v *ver) { v.s = c.s.Incl(k) })
	case op == "excl" && len(args) == 1:
		k, ok := asInt(args[0])
		if !ok {
			return "bad-op"
		}
		it.count("op:excl")
		if c.dead {
			return it.pushDead(op, true)
		}
		ref := copyRef(c.ref)
		delete(ref, it.cls(k))
		return it.push(op, true, ref, []int{cur}, func(v *ver) { v.s = c.s.Excl(k) })
	case op == "sconcat":
		ks, ok := asInts(args)
		if !ok {
			return "bad-op"
		}
		it.count("op:sconcat")
		if c.dead {
			return it.pushDead(op, true)
		}
		ref := copyRef(c.ref)
		for _, k := range ks {
			ref[it.cls(k)] = 1
		}
		return it.push(op, true, ref, []int{cur}, func(v *ver) { v.s = c.s.Concat(seqOf[int](ks)) })
	case (op == "diff" || op == "intersect") && len(args) == 1:
		oi, o, ok := it.otherSet(args[0])
		if !ok {
			return "bad-op"
		}
		it.count("op:" + op)
		if c.isZero() {
			it.count("zero:" + op)
		}
		if c.dead || o.dead {
			return it.pushDead(op, true)
		}
		ref := map[int]int{}
		for k := range c.ref {
			if _, in := o.ref[k]; in == (op == "intersect") {
				ref[k] = 1
			}
		}
		return it.push(op, true, ref, []int{cur, oi}, func(v *ver) {
			if op == "diff" {
				v.s = c.s.Diff(o.s)
			} else {
				v.s = c.s.Intersect(o.s)
			}
		})
	case op == "subsetof" && len(args) == 1:
		oi, o, ok := it.otherSet(args[0])
		if !ok {
			return "bad-op"
		}
		it.count("op:subsetof")
		if c.dead || o.dead {
			return "dead"
		}
		return protect(func() string {
			b := c.s.SubsetOf(o.s)
			if it.direct {
				it.checks++
				want := true
				for k := range c.ref {
					if _, in := o.ref[k]; !in {
						want = false
						break
					}
				}
				if b != want {
					key := "hamt.wrapper"
					if c.backing() != bHamt || o.backing() != bHamt {
						key = "fp.zero"
					}
					it.fail(key, "v%d.SubsetOf(v%d) = %v, reference says %v", cur, oi, b, want)
				}
			}
			return strconv.FormatBool(b)
		})
	case op == "has":
		ks, ok := asInts(args)
		if !ok {
			return "bad-op"
		}
		it.count("op:has")
		if c.dead {
			return "dead"
		}
		return protect(func() string {
			outs := make([]string, len(ks))
			for i, k := range ks {
				b := c.s.Contains(k)
				outs[i] = strconv.FormatBool(b)
				if it.direct {
					it.checks++
					if _, has := c.ref[it.cls(k)]; has != b {
						it.fail(lookupKey(c), "Contains(%d) on v%d = %v, reference says %v", k, it.cur, b, has)
					}
				}
			}
			return strings.Join(outs, " ")
		})
	case op == "size" && len(args) == 0:
		it.count("op:size")
		if c.dead {
			return "dead"
		}
		return protect(func() string {
			return fmt.Sprintf("%d %v %v", c.s.Size(), c.s.IsEmpty(), c.s.NonEmpty())
		})
	case op == "iter" && len(args) == 0:
		it.count("op:iter")
		if c.dead {
			return "dead"
		}
		return protect(func() string {
			ps := c.iterPairs()
			xs := make([]int, len(ps))
			for i, p := range ps {
				xs[i] = p.k
			}
			return showInts(xs)
		})
	case op == "dump" && len(args) == 0:
		it.count("op:dump")
		if c.dead {
			return "dead"
		}
		return protect(c.dump)
	}
	return "bad-op"
}
