package main

// Direct (model-free) evaluation of C03/C04 on the implementation: reference content, structural
// invariants, persistence of every version, builder-after-Build.

import (
	"fmt"

	"github.com/csgura/fp"
	"github.com/csgura/fp/immutable"
)

func lookupKey(c *ver) string {
	if c.backing() != bHamt {
		return "fp.zero"
	}
	return "hamt.lookup"
}

func wrapKey(c *ver) string {
	if c.backing() != bHamt {
		return "fp.zero"
	}
	return "hamt.wrapper"
}

var wrapperOps = map[string]bool{"updwith": true, "concat": true, "sconcat": true, "diff": true, "intersect": true}

// afterCreate: checks on the version just produced and on the versions it was produced from.
func (it *interp) afterCreate(id int, operands []int, pairs []pair) {
	v := it.vers[id]
	bk := v.backing()
	key := func(k string) string {
		if bk != bHamt {
			return "fp.zero"
		}
		if wrapperOps[v.op] {
			return "hamt.wrapper"
		}
		return k
	}
	// (i) content against the reference
	it.checks += 3
	func() {
		defer func() {
			if p := recover(); p != nil {
				it.fail(key("hamt.panic"), "inspecting v%d (%s) panicked: %v", id, v.op, p)
			}
		}()
		n := len(v.ref)
		var sz int
		var empty, nonEmpty bool
		if v.isSet {
			sz, empty, nonEmpty = v.s.Size(), v.s.IsEmpty(), v.s.NonEmpty()
		} else {
			sz, empty, nonEmpty = v.m.Size(), v.m.IsEmpty(), v.m.NonEmpty()
		}
		if sz != n || empty != (n == 0) || nonEmpty != (n != 0) {
			it.fail(key("hamt.size"), "v%d (%s): Size()=%d IsEmpty()=%v NonEmpty()=%v, reference has %d keys", id, v.op, sz, empty, nonEmpty, n)
		}
		if pairs == nil && len(v.first) > 5 && v.first[:6] == "panic(" {
			it.fail(key("hamt.iterator"), "v%d (%s): iterating panicked: %s", id, v.op, v.first)
			return
		}
		seen := make(map[int]bool, len(pairs))
		bad := ""
		for _, p := range pairs {
			c := it.cls(p.k)
			want, has := v.ref[c]
			switch {
			case !has:
				bad = fmt.Sprintf("yields key %d which the reference does not contain", p.k)
			case seen[c]:
				bad = fmt.Sprintf("yields key %d (class %d) twice", p.k, c)
			case want != p.v:
				bad = fmt.Sprintf("yields (%d,%d) but the latest value is %d", p.k, p.v, want)
			}
			seen[c] = true
		}
		if bad == "" && len(pairs) != n {
			bad = fmt.Sprintf("yields %d entries, reference has %d", len(pairs), n)
		}
		if bad != "" {
			it.fail(key("hamt.iterator"), "v%d (%s): Iterator %s", id, v.op, bad)
		}
	}()
	// (ii) structural invariants + census
	if bk == bHamt {
		it.checks++
		var err error
		if v.isSet {
			b, _, _ := v.hamtBaseSet()
			err, v.cen = immutable.VerifCheckCensus(b)
		} else {
			b, _ := v.hamtBaseMap()
			err, v.cen = immutable.VerifCheckCensus(b)
		}
		v.hasCen = true
		if err != nil {
			it.fail("hamt.invariant", "v%d (%s): %v", id, v.op, err)
		}
		it.census(v, operands)
	}
	// (iii) persistence: the operands must still render as they did when they were created, and so
	// must a few other versions (all of them are re-rendered at `check` time / end of history)
	for _, o := range operands {
		it.recheck(o, "", "hamt.persistence")
	}
	if id >= 3 {
		x := uint64(id)*0x9E3779B97F4A7C15 + uint64(len(it.ops))
		x ^= x >> 31
		it.recheck(int(x%uint64(id)), "", "hamt.persistence")
	}
	// (iv) versions handed out by a builder must not change (they are operands of nothing)
}

// recheck re-renders version i and compares with its first rendering.
func (it *interp) recheck(i int, s string, key string) {
	if i < 0 || i >= len(it.vers) || it.vers[i].dead {
		return
	}
	v := it.vers[i]
	if s == "" {
		s = v.summary()
	}
	it.checks++
	if s != v.first {
		if key == "hamt.builder" {
			it.tainted = key
		}
		if v.backing() != bHamt && key == "hamt.persistence" {
			key = "fp.zero"
		}
		it.fail(key, "v%d (made by %s) was `%s` when created and is now `%s`", i, v.op, v.first, s)
		v.first = s
	}
}

// builderCheck: after any use of a builder, everything it has handed out must be unchanged.
func (it *interp) builderCheck(isSB bool) {
	for i, v := range it.vers {
		if (isSB && v.bySB) || (!isSB && v.byMB) {
			it.recheck(i, "", "hamt.builder")
		}
	}
}

// sweep re-renders every version (end of a history).
func (it *interp) sweep() {
	for i := range it.vers {
		it.recheck(i, "", "hamt.persistence")
	}
}

// census: which node kinds / conversions did this operation reach (histogram only).
func (it *interp) census(v *ver, operands []int) {
	if it.hist == nil {
		return
	}
	c := v.cen
	h := it.hist
	h["root:"+c.RootKind]++
	if c.HArray > 0 {
		h["has:harray"]++
	}
	if c.HArrayBelowRoot > 0 {
		h["has:harray-below-root"]++
	}
	if c.Coll > 0 {
		h["has:coll"]++
	}
	if c.CollDeep > 0 {
		h["has:coll-depth>=2"]++
	}
	if c.SingleBitmap > 0 {
		h["has:single-child-bitmap"]++
	}
	if c.MaxBitmap == 17 {
		h["has:bitmap-17"]++
	}
	if c.MinHArray == 16 {
		h["has:harray-16"]++
	}
	if c.MaxDepth >= 6 {
		h["has:depth>=6"]++
	}
	if c.MaxColl >= 10 {
		h["has:coll>=10"]++
	}
	if c.MaxDepth > h["max:depth"] {
		h["max:depth"] = c.MaxDepth
	}
	if c.MaxColl > h["max:coll"] {
		h["max:coll"] = c.MaxColl
	}
	if c.Entries > h["max:size"] {
		h["max:size"] = c.Entries
	}
	if len(operands) == 0 {
		return
	}
	p := it.vers[operands[0]]
	if !p.hasCen || p.dead || len(operands) > 1 {
		return
	}
	pc := p.cen
	if pc.RootKind == "array" && c.RootKind != "array" && c.RootKind != "nil" {
		h["conv:array->"+c.RootKind]++
	}
	if pc.RootKind != "nil" && c.RootKind == "nil" {
		h["conv:->nil-root"]++
	}
	if c.HArray > pc.HArray {
		if c.HArrayBelowRoot > pc.HArrayBelowRoot {
			h["conv:bitmap->harray(deep)"]++
		} else {
			h["conv:bitmap->harray(root)"]++
		}
	}
	if c.HArray < pc.HArray {
		if c.HArrayBelowRoot < pc.HArrayBelowRoot {
			h["conv:harray->bitmap(deep)"]++
		} else {
			h["conv:harray->bitmap(root)"]++
		}
	}
	if c.Coll > pc.Coll {
		h["conv:value->coll"]++
	}
	if c.Coll < pc.Coll && c.Entries == pc.Entries-1 {
		h["conv:coll->value"]++
	}
	if c.Bitmap < pc.Bitmap && c.Entries == pc.Entries-1 {
		h["conv:bitmap-removed"]++
	}
	if c.Bitmap > pc.Bitmap+1 {
		h["conv:merge-chain(>=2 new bitmaps)"]++
	}
	if c.SingleBitmap > pc.SingleBitmap && c.Entries == pc.Entries-1 {
		h["conv:bitmap-left-with-1-child"]++
	}
}

var _ = fp.None[int]
