// Correspondence + direct property harness for immutable.Map / immutable.Set / builders and the
// fp.Map / fp.Set wrappers (properties C03 and C04).
//
// It generates random BRANCHING histories in the line protocol of lean/Oracle/Hamt.lean, executes
// every line on the real library (interp.go) keeping every version ever produced alive, and writes
// the implementation's answers in the oracle's format. Alongside, the property statements are
// evaluated directly on the implementation against a plain Go reference map (direct.go); a failing
// history is minimised by delta debugging and written to direct.txt as a self-contained `(hist …)`
// line that `-replay` reproduces.
package main

import (
	"flag"
	"fmt"
	"os"
	"sort"
	"strings"
	"sync/atomic"
	"time"

	. "verifharness/common"
)

// ------------------------------------------------------------------------------------- watchdog
// A broken iterator can make a library call spin forever (Diff/Intersect/SubsetOf drain an iterator
// inside the library). Every interpreted op ticks; if nothing ticks for a while the watchdog records
// the history as a failing input and ends the process with a non-zero status (the driver reports the
// op line without answer as the culprit).

var (
	progress  atomic.Int64
	curInterp atomic.Pointer[interp]
	hangAfter = 20 * time.Second
)

func watchdog(onHang func(hist string)) {
	go func() {
		last, since := progress.Load(), time.Now()
		for {
			time.Sleep(250 * time.Millisecond)
			if p := progress.Load(); p != last {
				last, since = p, time.Now()
				continue
			}
			if time.Since(since) < hangAfter {
				continue
			}
			line := "(hist)"
			if it := curInterp.Load(); it != nil {
				line = histLine(it.ops)
			}
			onHang(line)
			fmt.Fprintln(os.Stderr, "fatal error: operation timed out (no progress for", hangAfter, "- non-termination in the implementation?)")
			os.Exit(3)
		}
	}()
}

// ------------------------------------------------------------------------------------- replaying

// runHist runs the ops of one history in a fresh interpreter with the direct checks on and returns
// the answers, the failures and, per op, the id of the version it created.
func runHist(ops []*Sx) (answers []string, fails []failure, creates []int) {
	it := newInterp(true, nil)
	for _, op := range ops {
		answers = append(answers, it.step(op))
	}
	it.sweep()
	// it.ops / it.creates cover the ops since the last `new`; histories handed to runHist start with one
	return answers, it.fails, it.creates
}

// hasKey: is there a failure of the same kind (key "k" or "k!" = key k and the implementation
// panicked)? Keeping the panic/non-panic distinction stops the shrinker from sliding from one defect
// into another one that happens to be reported under the same key.
func hasKey(fails []failure, key string) bool {
	for _, f := range fails {
		if failKind(f) == key {
			return true
		}
	}
	return false
}

func failKind(f failure) string {
	if strings.Contains(f.what, "panicked") {
		return f.key + "!"
	}
	return f.key
}

func histLine(ops []*Sx) string {
	return L(append([]*Sx{A("hist")}, ops...)...).String()
}

// refIndex: position of the version reference in an op (-1 if the op has none).
func refIndex(op *Sx) int {
	switch op.Head() {
	case "use", "check", "diff", "intersect", "subsetof":
		if len(op.List) == 2 {
			return 1
		}
	}
	return -1
}

// subset builds the candidate history that keeps ops[i] for keep[i], renumbering version references
// (creates[i] = version created by ops[i] in the last run of `ops`); an op that refers to a dropped
// version is dropped too.
func subset(ops []*Sx, creates []int, keep []bool) []*Sx {
	newID := map[int]int{}
	next := 0
	out := []*Sx{}
	for i, op := range ops {
		if !keep[i] {
			continue
		}
		if ri := refIndex(op); ri >= 0 {
			old, ok := asNat(op.List[ri])
			if !ok {
				continue
			}
			n, ok := newID[old]
			if !ok {
				continue
			}
			cp := append([]*Sx{}, op.List...)
			cp[ri] = I(n)
			op = L(cp...)
		}
		out = append(out, op)
		if i < len(creates) && creates[i] >= 0 {
			newID[creates[i]] = next
			next++
		}
	}
	return out
}

// shrink: delta debugging over the op list (the leading `new` is always kept) while a failure with
// the same key persists. Bounded by a number of trial runs so that it stays deterministic and cheap.
func shrink(ops []*Sx, key string, budget int) []*Sx {
	_, fails, creates := runHist(ops)
	if !hasKey(fails, key) || len(creates) != len(ops) {
		return ops
	}
	// cut after the first failing op
	for _, f := range fails {
		if failKind(f) == key {
			if f.opIdx >= 0 && f.opIdx+1 < len(ops) {
				cand := ops[:f.opIdx+1]
				if _, fl, cr := runHist(cand); hasKey(fl, key) {
					ops, creates = cand, cr
				}
			}
			break
		}
	}
	chunk := (len(ops) - 1 + 1) / 2
	for chunk >= 1 && budget > 0 {
		progress := false
		for start := 1; start < len(ops) && budget > 0; {
			end := min(start+chunk, len(ops))
			keep := make([]bool, len(ops))
			for i := range keep {
				keep[i] = i < start || i >= end
			}
			cand := subset(ops, creates, keep)
			budget--
			if len(cand) < len(ops) {
				if _, fl, cr := runHist(cand); hasKey(fl, key) && len(cr) == len(cand) {
					ops, creates = cand, cr
					progress = true
					continue // same start: the next chunk moved here
				}
			}
			start = end
		}
		if chunk == 1 && !progress {
			break
		}
		if chunk > 1 {
			chunk = (chunk + 1) / 2
		}
	}
	return shrinkArgs(ops, key, budget)
}

// argStart: index of the first element of the variable-length argument list of an op (-1: none).
func argStart(op *Sx) int {
	switch op.Head() {
	case "new":
		return 3
	case "concat", "sconcat", "del", "get", "has":
		return 1
	}
	return -1
}

// shrinkArgs drops elements of the argument lists (constructor elements, bulk operations, probes).
func shrinkArgs(ops []*Sx, key string, budget int) []*Sx {
	ops = append([]*Sx{}, ops...)
	for i := 0; i < len(ops) && budget > 0; i++ {
		a := argStart(ops[i])
		if a < 0 || len(ops[i].List) <= a {
			continue
		}
		for chunk := (len(ops[i].List) - a + 1) / 2; chunk >= 1 && budget > 0; {
			progressed := false
			for start := a; start < len(ops[i].List) && budget > 0; {
				end := min(start+chunk, len(ops[i].List))
				cur := ops[i]
				cand := L(append(append([]*Sx{}, cur.List[:start]...), cur.List[end:]...)...)
				if (cur.Head() == "get" || cur.Head() == "has") && len(cand.List) < 2 {
					start = end
					continue
				}
				ops[i] = cand
				budget--
				if _, fl, _ := runHist(ops); hasKey(fl, key) {
					progressed = true
					continue
				}
				ops[i] = cur
				start = end
			}
			if chunk == 1 {
				if !progressed {
					break
				}
				continue
			}
			chunk = (chunk + 1) / 2
		}
	}
	return ops
}

// ------------------------------------------------------------------------------------- reporting

type reporter struct {
	sink     *Sink
	perKey   map[string]int
	total    int
	shrunk   map[string]int
	written  map[string]bool
	noShrink bool
}

// drain reports the failures the interpreter has collected since the last call.
func (r *reporter) drain(it *interp) {
	if len(it.fails) == 0 {
		return
	}
	fails := it.fails
	it.fails = nil
	seen := map[string]bool{}
	for _, f := range fails {
		r.total++
		if seen[f.key] {
			continue
		}
		seen[f.key] = true
		r.perKey[f.key]++
		if r.perKey[f.key] > 12 {
			continue // counted, not written: enough examples of this key
		}
		ops := append([]*Sx{}, it.ops...)
		if f.opIdx >= 0 && f.opIdx+1 <= len(ops) {
			ops = ops[:f.opIdx+1]
		}
		what := f.what
		if !r.noShrink && r.shrunk[f.key] < 12 {
			r.shrunk[f.key]++
			kind := failKind(f)
			small := shrink(shrink(ops, kind, 700), kind, 200)
			if _, fl, _ := runHist(small); hasKey(fl, kind) {
				ops = small
				for _, g := range fl {
					if failKind(g) == kind {
						what = g.what
						break
					}
				}
			}
		}
		line := histLine(ops)
		if r.written[f.key+"\t"+line] {
			continue
		}
		r.written[f.key+"\t"+line] = true
		r.sink.DirectFail(f.key, line, what)
	}
}

func printJSON(cases, checks, failures int, hist map[string]int) {
	keys := make([]string, 0, len(hist))
	for k := range hist {
		keys = append(keys, k)
	}
	sort.Strings(keys)
	var sb strings.Builder
	for i, k := range keys {
		if i > 0 {
			sb.WriteString(", ")
		}
		fmt.Fprintf(&sb, "%q: %d", k, hist[k])
	}
	fmt.Printf("{\"cases\": %d, \"direct_checks\": %d, \"direct_failures\": %d, \"histogram\": {%s}}\n", cases, checks, failures, sb.String())
}

func main() {
	seed := flag.Uint64("seed", 1, "PRNG seed")
	n := flag.Int("n", 4000, "number of generated cases (op lines)")
	out := flag.String("out", ".", "output directory")
	replay := flag.String("replay", "", "run one op line (normally a self-contained (hist …) line), print the implementation's answer and a FAIL line per violated direct check")
	opsFile := flag.String("ops", "", "run the op lines of this file instead of generating")
	skip := flag.String("skip", "", "comma separated known defects whose triggering pattern is not generated (D13,D14)")
	crashHist := flag.String("crashhist", "", "DIR of a run that died: print the self-contained (hist …) line that ends with the op that has no answer")
	flag.Parse()

	if *crashHist != "" {
		fmt.Println(crashHistOf(*crashHist))
		return
	}
	if *replay != "" {
		op, err := Parse(*replay)
		if err != nil {
			fmt.Println("bad-op")
			os.Exit(2)
		}
		watchdog(func(string) { fmt.Println("FAIL hamt.hang: an operation of this history does not return") })
		it := newInterp(true, nil)
		fmt.Println(it.step(op))
		it.sweep()
		seen := map[string]bool{}
		for _, f := range it.fails {
			if !seen[f.key] {
				seen[f.key] = true
				fmt.Printf("FAIL %s: %s\n", f.key, f.what)
			}
		}
		return
	}

	hist := map[string]int{}
	sink := NewSink(*out)
	rep := &reporter{sink: sink, perKey: map[string]int{}, shrunk: map[string]int{}, written: map[string]bool{}}
	it := newInterp(true, hist)
	watchdog(func(h string) {
		sink.DirectFail("hamt.hang", h, "the last operation of this history did not return within "+hangAfter.String())
	})

	if *opsFile != "" {
		for _, line := range ReadLines(*opsFile) {
			op, err := Parse(line)
			if err != nil {
				sink.Case(line, func() string { return "bad-op" })
				continue
			}
			if op.Head() == "new" || (op.Head() == "hist" && len(op.List) > 1 && op.List[1].Head() == "new") {
				it.sweep()
				rep.drain(it)
			}
			sink.Case(line, func() string { return it.step(op) })
			rep.drain(it)
		}
		it.sweep()
		rep.drain(it)
		sink.Close()
		printJSON(sink.N, it.checks, rep.total, hist)
		return
	}

	g := newGen(NewRng(*seed), it, sink, rep, *skip)
	for sink.N < *n {
		g.history(*n - sink.N)
	}
	sink.Close()
	printJSON(sink.N, it.checks, rep.total, hist)
}

// crashHistOf reconstructs, from ops.txt / impl.txt of a run that died, the history that ends with
// the op line that got no answer.
func crashHistOf(dir string) string {
	ops := ReadLines(dir + "/ops.txt")
	impl := 0
	if b, err := os.ReadFile(dir + "/impl.txt"); err == nil {
		impl = strings.Count(string(b), "\n")
	}
	if impl >= len(ops) {
		return "no unanswered op"
	}
	flat := []*Sx{}
	for i := 0; i <= impl; i++ {
		op, err := Parse(ops[i])
		if err != nil {
			continue
		}
		parts := []*Sx{op}
		if op.Head() == "hist" {
			parts = op.List[1:]
		}
		for _, p := range parts {
			if p.Head() == "new" {
				flat = flat[:0]
			}
			flat = append(flat, p)
		}
	}
	return histLine(flat)
}
