package main

// Generator of branching histories. Everything is drawn from ONE PRNG; decisions that need to know
// the content of a version (present / absent keys) use the reference content kept by the
// interpreter, never what the implementation answered.

import (
	"sort"
	"strings"

	. "verifharness/common"
)

const wrap32 = 4294967296 // k and k+2^32 have the same uint32(k): full hash collision for hashers 0,2,3,4,6,7

type gen struct {
	r      *Rng
	it     *interp
	sink   *Sink
	rep    *reporter
	skip13 bool
	forceMB bool
	skip14 bool
	histNo int
	limit  int // hard limit on sink.N for the current history

	hid       int
	ks        int // keys are drawn from [0,ks)
	big       bool
	valCtr    int
	maxVers   int
	touched   int // last key written/removed
	hoverUp   bool
	forceSB   bool
	threshold bool
	stride    int // keys are i*stride+off, i in [0,ks): for the identity hasher a stride of 32 / 1024
	off       int // moves all variation to the second / third trie level
	cycleOff  int
}

func newGen(r *Rng, it *interp, sink *Sink, rep *reporter, skip string) *gen {
	g := &gen{r: r, it: it, sink: sink, rep: rep}
	g.cycleOff = r.Intn(len(hasherCycle))
	for _, s := range strings.Split(skip, ",") {
		switch strings.TrimSpace(s) {
		case "D13":
			g.skip13 = true
		case "D14":
			g.skip14 = true
		}
	}
	return g
}

func (g *gen) full() bool { return g.sink.N >= g.limit }

func (g *gen) emit(op *Sx) {
	if g.full() {
		return
	}
	g.sink.Case(op.String(), func() string { return g.it.step(op) })
	g.rep.drain(g.it)
}

// emitAll emits the ops one per line, or now and then packed into one (hist …) line.
func (g *gen) emitAll(ops []*Sx) {
	if len(ops) >= 2 && g.r.Intn(8) == 0 {
		g.it.count("line:hist")
		g.emit(L(append([]*Sx{A("hist")}, ops...)...))
		return
	}
	for _, op := range ops {
		g.emit(op)
	}
}

func (g *gen) cur() *ver { return g.it.vers[g.it.cur] }

func (g *gen) val() int {
	g.valCtr++
	if g.r.Intn(40) == 0 {
		return -g.valCtr
	}
	return g.valCtr
}

// key draws a key from the key space; now and then a negative key or a key shifted by 2^32.
func (g *gen) mk(i int) int { return i*g.stride + g.off }

func (g *gen) key() int {
	k := g.mk(g.r.Intn(g.ks))
	if g.hid != 5 {
		switch g.r.Intn(40) {
		case 0:
			return -1 - g.r.Intn(5)
		case 1:
			return k + wrap32*g.r.Range(1, 2)
		}
	}
	return k
}

// collider: a different key that collides with k as much as the hasher allows (for hasher 5: an
// Eqv-but-not-identical key).
func (g *gen) collider(k int) int {
	switch g.hid {
	case 0:
		return k + Pick(g.r, 32, 1024, wrap32, 32*g.stride)
	case 1:
		return k + 1 + g.r.Intn(5)
	case 2:
		return k + Pick(g.r, 5, 10, wrap32)
	case 3:
		return k + Pick(g.r, 32, 64, 8)
	case 4:
		return k + wrap32
	case 5:
		return k + 97*g.r.Range(1, 3)
	case 6:
		return k + Pick(g.r, 64, 32, 128)
	}
	return k + Pick(g.r, 120, 40, 3)
}

func (g *gen) present(v *ver, k int) bool { _, ok := v.ref[g.it.cls(k)]; return ok }

// rawOf turns an Eqv-class into a key of that class.
func (g *gen) rawOf(c int) int {
	if g.hid == 5 && g.r.Intn(3) == 0 {
		return c + 97*g.r.Range(1, 2)
	}
	return c
}

func sortedKeys(m map[int]int) []int {
	ks := make([]int, 0, len(m))
	for k := range m {
		ks = append(ks, k)
	}
	sort.Ints(ks)
	return ks
}

func (g *gen) pickPresent(v *ver) (int, bool) {
	if len(v.ref) == 0 {
		return 0, false
	}
	for i := 0; i < 6; i++ {
		k := g.mk(g.r.Intn(g.ks))
		if g.present(v, k) {
			return k, true
		}
	}
	ks := sortedKeys(v.ref)
	return g.rawOf(ks[g.r.Intn(len(ks))]), true
}

func (g *gen) pickAbsent(v *ver) (int, bool) {
	for i := 0; i < 6; i++ {
		k := g.key()
		if !g.present(v, k) {
			return k, true
		}
	}
	start := g.r.Intn(g.ks)
	for i := 0; i < g.ks; i++ {
		k := g.mk((start + i) % g.ks)
		if !g.present(v, k) {
			return k, true
		}
	}
	return g.mk(g.ks + g.r.Intn(50)), true
}

// pickVersion: a live version of the wanted kind (-1: none).
func (g *gen) pickVersion(isSet bool) int {
	n := len(g.it.vers)
	for i := 0; i < 8; i++ {
		j := g.r.Intn(n)
		if g.r.Intn(3) == 0 {
			j = n - 1 - g.r.Intn(min(n, 4)) // recent
		}
		if v := g.it.vers[j]; !v.dead && v.isSet == isSet {
			return j
		}
	}
	for j, v := range g.it.vers {
		if !v.dead && v.isSet == isSet {
			return j
		}
	}
	return -1
}

func (g *gen) pickAny() int {
	n := len(g.it.vers)
	for i := 0; i < 8; i++ {
		if j := g.r.Intn(n); !g.it.vers[j].dead {
			return j
		}
	}
	return -1
}

// ------------------------------------------------------------------------------------- history

var hasherCycle = []int{0, 4, 6, 3, 7, 2, 1, 5, 0, 6, 4, 7, 5, 3}

func (g *gen) keySpace() int {
	big := g.r.Intn(8) == 0
	g.big = false
	switch g.hid {
	case 0:
		if big {
			g.big = true
			return Pick(g.r, 700, 1500, 4000)
		}
		return Pick(g.r, 4, 10, 18, 24, 33, 40, 64, 100, 300)
	case 1:
		return Pick(g.r, 4, 10, 12, 20, 40)
	case 2:
		return Pick(g.r, 6, 12, 30, 60, 150)
	case 3:
		return Pick(g.r, 8, 20, 32, 64, 200)
	case 4:
		if big {
			g.big = true
			return Pick(g.r, 600, 2000, 5000)
		}
		return Pick(g.r, 6, 12, 20, 40, 80, 250)
	case 5:
		return Pick(g.r, 12, 40, 97, 200, 600)
	case 6:
		return Pick(g.r, 12, 20, 32, 40, 64, 150, 400)
	}
	return Pick(g.r, 12, 24, 40, 60, 120, 400)
}

func (g *gen) history(remaining int) {
	g.histNo++
	g.hid = hasherCycle[(g.histNo+g.cycleOff)%len(hasherCycle)]
	kind := Pick(g.r, "map", "map", "map", "map", "map", "set", "set", "set", "zmap", "zset")
	// every run starts with the two patterns behind the known findings (unless skipped), so that
	// even the smallest run exercises them: SetBuilder used after Build, Diff/Intersect of fp.Set{}
	if g.histNo == 1 {
		kind = "set"
	}
	if g.histNo == 2 {
		kind = "zset"
	}
	if g.histNo == 3 {
		kind = "map" // MapBuilder used after Build (must panic and leave the built Map alone)
	}
	if strings.HasPrefix(kind, "z") && g.hid == 5 {
		g.hid = Pick(g.r, 0, 4, 6)
	}
	g.ks = g.keySpace()
	g.stride, g.off = 1, 0
	// every fourth history is a "threshold" history: hasher and key space such that the number of
	// children of ONE node (root, or a node at depth 1/2) equals the number of keys, and mostly
	// hover phases sweeping across 16/17/18 (and 8/9 for the array node)
	g.threshold = g.histNo%4 == 0 && !strings.HasPrefix(kind, "z")
	if g.threshold {
		g.hid = Pick(g.r, 0, 0, 0, 6, 7)
		g.ks = Pick(g.r, 19, 22, 26, 32)
		g.big = false
		g.it.count("history:threshold-profile")
	}
	if g.hid == 0 && !g.big && (g.r.Intn(3) == 0 || (g.threshold && g.r.Bool())) {
		g.stride, g.off = Pick(g.r, 32, 32, 1024), Pick(g.r, 0, 5, 31)
		g.it.count("history:strided-keys")
	}
	length := Pick(g.r, 25, 40, 60, 90, 120, 180, 260)
	g.maxVers = 260
	if g.big {
		length = Pick(g.r, 120, 200, 300)
		g.maxVers = 110
	}
	g.limit = g.sink.N + min(remaining, length)
	g.valCtr = 0
	g.it.count("history:" + kind)
	if g.big {
		g.it.count("history:big-keyspace")
	}

	// constructor
	first := []*Sx{A("new"), I(g.hid), A(kind)}
	if kind == "map" || kind == "set" {
		n := Pick(g.r, 0, 0, 1, 2, 5, 8, 8, 9, 9, 12, 17, 18, 20, 25, 40)
		if g.big && g.r.Bool() {
			n = g.r.Range(40, 300)
		}
		dup := g.r.Intn(3) == 0
		keys := []int{}
		for i := 0; i < n; i++ {
			k := g.key()
			if dup && len(keys) > 0 && g.r.Intn(3) == 0 {
				k = keys[g.r.Intn(len(keys))]
				if g.r.Bool() {
					k = g.colliderOrSame(k)
				}
			}
			keys = append(keys, k)
			if kind == "map" {
				first = append(first, L(I(k), I(g.val())))
			} else {
				first = append(first, I(k))
			}
		}
	}
	// `new` resets the limit bookkeeping of the interpreter's history; sweep the previous one first
	g.it.sweep()
	g.rep.drain(g.it)
	g.sink.Case(L(first...).String(), func() string { return g.it.step(L(first...)) })
	g.rep.drain(g.it)
	g.queries(true)
	if g.histNo == 1 {
		g.forceSB = true
		g.builderPhase()
		g.forceSB = false
	}
	if g.histNo == 3 {
		g.forceMB = true
		g.builderPhase()
		g.forceMB = false
	}
	if g.histNo == 2 && !g.skip14 {
		g.emit(L(A(Pick(g.r, "diff", "intersect")), I(0)))
		g.emit(L(A("use"), I(0)))
	}

	for !g.full() && len(g.it.vers) < g.maxVers {
		g.phase()
	}
	// end of history: every version must still be what it was
	g.limit += len(g.it.vers) + 2
	for i, v := range g.it.vers {
		if !v.dead {
			g.emit(L(A("check"), I(i)))
		}
	}
}

func (g *gen) colliderOrSame(k int) int {
	if g.r.Bool() {
		return g.collider(k)
	}
	return k
}

// phase: a run of steps with one bias.
func (g *gen) phase() {
	c := g.cur()
	if c.dead {
		if j := g.pickAny(); j >= 0 {
			g.emit(L(A("use"), I(j)))
		}
		return
	}
	mode := Pick(g.r, "grow", "grow", "shrink", "shrink", "reinsert", "delabsent", "overwrite", "hover", "hover", "mixed", "mixed", "wrappers", "builder")
	if g.ks >= 18 && g.ks <= 64 && g.r.Intn(4) == 0 || g.threshold && g.r.Intn(3) != 0 {
		mode = "hover"
	}
	steps := g.r.Range(4, 30)
	target := Pick(g.r, 0, 1, 2, 7, 8, 9, 15, 16, 17, 18, 31, 32, 33)
	g.it.count("phase:" + mode)
	if mode == "builder" {
		g.builderPhase()
		return
	}
	if mode == "hover" {
		if g.ks >= 18 && g.r.Intn(3) != 0 {
			target = Pick(g.r, 15, 16, 16, 17, 17, 18)
		}
		g.jumpTo(c, target)
		c = g.cur()
	}
	for s := 0; s < steps && !g.full() && len(g.it.vers) < g.maxVers; s++ {
		// branching: go back to an older version
		if g.r.Intn(7) == 0 {
			if j := g.pickAny(); j >= 0 {
				g.emit(L(A("use"), I(j)))
			}
		}
		c = g.cur()
		if c.dead {
			return
		}
		m := mode
		if mode == "mixed" {
			m = Pick(g.r, "grow", "shrink", "reinsert", "delabsent", "overwrite", "wrappers")
		}
		if mode == "hover" {
			// sweep across the threshold: up to target+2, down to target-3, and again
			n := len(c.ref)
			if n >= target+2 {
				g.hoverUp = false
			}
			if n <= max(target-3, 0) {
				g.hoverUp = true
			}
			up := g.hoverUp
			if g.r.Intn(7) == 0 {
				up = !up
			}
			if up {
				m = "grow"
			} else {
				m = "shrink"
			}
		}
		if m == "shrink" && mode == "shrink" && len(c.ref) == 0 {
			m = "grow"
		}
		if c.isSet {
			g.setStep(c, m)
		} else {
			g.mapStep(c, m)
		}
		g.queries(false)
		if g.r.Intn(8) == 0 {
			if j := g.pickAny(); j >= 0 {
				g.emit(L(A("check"), I(j)))
			}
		}
	}
}

// burst: how many keys a bulk operation takes
func (g *gen) burst() int {
	if g.big {
		return Pick(g.r, 3, 20, 60, 150, 250)
	}
	return Pick(g.r, 0, 1, 2, 3, 5, 9, 20)
}

func (g *gen) remapSx() *Sx {
	switch g.r.Intn(6) {
	case 0:
		return L(A("inc"), I(g.r.Range(-3, 9)))
	case 1:
		return L(A("del"))
	case 2:
		return L(A("keep"))
	case 3:
		return L(A("const"), I(g.val()))
	case 4:
		return L(A("ifsome"), I(g.val()))
	}
	return L(A("inc"), I(1))
}

func (g *gen) mapStep(c *ver, mode string) {
	switch mode {
	case "grow":
		if g.r.Intn(6) == 0 {
			ps := []*Sx{A("concat")}
			for i, n := 0, g.burst(); i < n; i++ {
				k, _ := g.pickAbsent(c)
				if g.r.Intn(5) == 0 {
					k = g.key()
				}
				g.touched = k
				ps = append(ps, L(I(k), I(g.val())))
			}
			g.emit(L(ps...))
			return
		}
		k, _ := g.pickAbsent(c)
		g.touched = k
		if g.r.Intn(8) == 0 {
			g.emit(L(A("updwith"), I(k), Pick(g.r, L(A("const"), I(g.val())), L(A("inc"), I(g.r.Range(1, 9))))))
			return
		}
		g.emit(L(A("set"), I(k), I(g.val())))
	case "shrink":
		if g.big && g.r.Intn(2) == 0 || g.r.Intn(8) == 0 {
			ks := []*Sx{A("del")}
			for i, n := 0, g.burst(); i < n; i++ {
				k, ok := g.pickPresent(c)
				if !ok || g.r.Intn(6) == 0 {
					k = g.key()
				}
				g.touched = k
				ks = append(ks, I(k))
			}
			g.emit(L(ks...))
			return
		}
		k, ok := g.pickPresent(c)
		if !ok {
			k = g.key()
		}
		g.touched = k
		if g.r.Intn(8) == 0 {
			g.emit(L(A("updwith"), I(k), L(A("del"))))
			return
		}
		g.emit(L(A("del"), I(k)))
	case "reinsert":
		// a key that an ancestor version held but the current one does not
		k, ok := 0, false
		for p, tries := c.parent, 0; p >= 0 && tries < 6 && !ok; p, tries = g.it.vers[p].parent, tries+1 {
			pv := g.it.vers[p]
			if pv.dead || pv.isSet != c.isSet {
				break
			}
			for i := 0; i < 4 && !ok; i++ {
				if cand, has := g.pickPresent(pv); has && !g.present(c, cand) {
					k, ok = cand, true
				}
			}
		}
		if !ok {
			k, _ = g.pickAbsent(c)
		}
		g.touched = k
		g.emit(L(A("set"), I(k), I(g.val())))
	case "delabsent":
		k, _ := g.pickAbsent(c)
		if g.r.Intn(3) == 0 {
			if p, ok := g.pickPresent(c); ok {
				k = g.collider(p) // same hash (or same trie path), different key: must not remove p
			}
		}
		g.touched = k
		if g.r.Intn(6) == 0 {
			g.emit(L(A("updwith"), I(k), Pick(g.r, L(A("del")), L(A("keep")), L(A("ifsome"), I(g.val())))))
			return
		}
		g.emit(L(A("del"), I(k)))
	case "overwrite":
		k, ok := g.pickPresent(c)
		if !ok {
			k = g.key()
		}
		if g.hid == 5 && g.r.Bool() {
			k = g.collider(k) // Eqv but not identical
		}
		g.touched = k
		if g.r.Intn(4) == 0 {
			g.emit(L(A("updwith"), I(k), g.remapSx()))
			return
		}
		g.emit(L(A("set"), I(k), I(g.val())))
	default: // wrappers
		switch g.r.Intn(4) {
		case 0:
			k := g.key()
			if g.r.Bool() {
				if p, ok := g.pickPresent(c); ok {
					k = p
				}
			}
			g.touched = k
			g.emit(L(A("updwith"), I(k), g.remapSx()))
		case 1, 2:
			// Concat with (part of) the content of another version of this history
			ps := []*Sx{A("concat")}
			if j := g.pickVersion(false); j >= 0 && g.r.Intn(4) != 0 {
				o := g.it.vers[j]
				ks := sortedKeys(o.ref)
				lim := 40
				if g.big {
					lim = 200
				}
				for len(ks) > lim {
					i := g.r.Intn(len(ks))
					ks[i] = ks[len(ks)-1]
					ks = ks[:len(ks)-1]
				}
				// random order
				for i := len(ks) - 1; i > 0; i-- {
					j := g.r.Intn(i + 1)
					ks[i], ks[j] = ks[j], ks[i]
				}
				for _, cl := range ks {
					ps = append(ps, L(I(g.rawOf(cl)), I(o.ref[cl])))
					g.touched = cl
				}
			} else {
				for i, n := 0, g.burst(); i < n; i++ {
					k := g.key()
					g.touched = k
					ps = append(ps, L(I(k), I(g.val())))
				}
			}
			g.emit(L(ps...))
		default:
			ks := []*Sx{A("del")}
			for i, n := 0, g.burst(); i < n; i++ {
				k := g.key()
				g.touched = k
				ks = append(ks, I(k))
			}
			g.emit(L(ks...))
		}
	}
}

func (g *gen) setStep(c *ver, mode string) {
	switch mode {
	case "grow", "reinsert":
		if g.r.Intn(6) == 0 {
			ks := []*Sx{A("sconcat")}
			for i, n := 0, g.burst(); i < n; i++ {
				k, _ := g.pickAbsent(c)
				if g.r.Intn(5) == 0 {
					k = g.key()
				}
				g.touched = k
				ks = append(ks, I(k))
			}
			g.emit(L(ks...))
			return
		}
		k, _ := g.pickAbsent(c)
		g.touched = k
		g.emit(L(A("incl"), I(k)))
	case "shrink":
		k, ok := g.pickPresent(c)
		if !ok {
			k = g.key()
		}
		g.touched = k
		if g.big && g.r.Bool() {
			// a set has no bulk removal: Diff with a built set does it
			g.emit(L(A("excl"), I(k)))
			return
		}
		g.emit(L(A("excl"), I(k)))
	case "delabsent":
		k, _ := g.pickAbsent(c)
		if g.r.Intn(3) == 0 {
			if p, ok := g.pickPresent(c); ok {
				k = g.collider(p)
			}
		}
		g.touched = k
		g.emit(L(A("excl"), I(k)))
	case "overwrite":
		k, ok := g.pickPresent(c)
		if !ok {
			k = g.key()
		}
		if g.hid == 5 && g.r.Bool() {
			k = g.collider(k)
		}
		g.touched = k
		g.emit(L(A("incl"), I(k)))
	default: // wrappers: Diff / Intersect / SubsetOf / Concat between versions of this history
		j := g.pickVersion(true)
		switch g.r.Intn(6) {
		case 0:
			j = g.it.cur // with itself
		case 1:
			// with an empty / zero one if there is any
			for i, v := range g.it.vers {
				if v.isSet && !v.dead && len(v.ref) == 0 {
					j = i
					break
				}
			}
		}
		if j < 0 {
			j = g.it.cur
		}
		op := Pick(g.r, "diff", "diff", "intersect", "intersect", "subsetof", "subsetof", "sconcat")
		if g.skip14 && c.isZero() && (op == "diff" || op == "intersect") {
			op = "subsetof"
		}
		if op == "sconcat" {
			o := g.it.vers[j]
			ks := sortedKeys(o.ref)
			lim := 40
			if g.big {
				lim = 200
			}
			for len(ks) > lim {
				i := g.r.Intn(len(ks))
				ks[i] = ks[len(ks)-1]
				ks = ks[:len(ks)-1]
			}
			for i := len(ks) - 1; i > 0; i-- {
				x := g.r.Intn(i + 1)
				ks[i], ks[x] = ks[x], ks[i]
			}
			xs := []*Sx{A("sconcat")}
			for _, cl := range ks {
				xs = append(xs, I(g.rawOf(cl)))
				g.touched = cl
			}
			g.emit(L(xs...))
			return
		}
		g.emit(L(A(op), I(j)))
		if op == "subsetof" && g.r.Bool() {
			// and the other way round
			cur := g.it.cur
			g.emit(L(A("use"), I(j)))
			g.emit(L(A("subsetof"), I(cur)))
			if g.r.Bool() {
				g.emit(L(A("use"), I(cur)))
			}
		}
	}
}

// queries: observations of the current version after an operation.
func (g *gen) queries(all bool) {
	c := g.cur()
	if c.dead {
		return
	}
	ops := []*Sx{}
	// probe keys: the key just touched, a collider of it, a present key, an absent key
	probes := []*Sx{I(g.touched), I(g.collider(g.touched))}
	if k, ok := g.pickPresent(c); ok {
		probes = append(probes, I(k))
		if g.r.Bool() {
			probes = append(probes, I(g.collider(k)))
		}
	}
	if k, ok := g.pickAbsent(c); ok {
		probes = append(probes, I(k))
	}
	if g.r.Intn(4) == 0 {
		probes = append(probes, I(g.key()))
	}
	if c.isSet || g.r.Intn(3) == 0 {
		ops = append(ops, L(append([]*Sx{A("has")}, probes...)...))
	} else {
		ops = append(ops, L(append([]*Sx{A("get")}, probes...)...))
	}
	n := len(c.ref)
	if (all || g.r.Intn(10) == 0) && n <= 300 {
		ops = append(ops, L(A("dump")))
	}
	if (all || g.r.Intn(12) == 0) && n <= 400 {
		ops = append(ops, L(A("iter")))
	}
	if all || g.r.Intn(8) == 0 {
		ops = append(ops, L(A("size")))
	}
	if !c.isSet {
		if (all || g.r.Intn(20) == 0) && n <= 400 {
			ops = append(ops, L(A("keys")))
		}
		if (all || g.r.Intn(20) == 0) && n <= 400 {
			ops = append(ops, L(A("values")))
		}
		if g.r.Intn(30) == 0 {
			ops = append(ops, L(A("overrun")))
		}
	}
	g.emitAll(ops)
}

// builderPhase: MapBuilder / SetBuilder, including use of the builder after Build.
func (g *gen) builderPhase() {
	n := Pick(g.r, 0, 1, 2, 5, 8, 9, 12, 17, 18, 25, 40)
	if g.big {
		n = Pick(g.r, 20, 100, 300)
	}
	isSet := g.cur().isSet
	if g.r.Intn(5) == 0 {
		isSet = !isSet
	}
	if g.forceSB {
		isSet = true
		n = Pick(g.r, 5, 9, 12, 18)
	}
	if g.forceMB {
		isSet = false
		n = Pick(g.r, 5, 9, 12, 18)
	}
	addKey := func(keys []int) int {
		k := g.key()
		if len(keys) > 0 && g.r.Intn(5) == 0 {
			k = g.colliderOrSame(keys[g.r.Intn(len(keys))])
		}
		return k
	}
	keys := []int{}
	if !isSet {
		g.it.count("builder:map")
		g.emit(L(A("mb"), A("new")))
		for i := 0; i < n; i++ {
			k := addKey(keys)
			keys = append(keys, k)
			g.touched = k
			g.emit(L(A("mb"), A("add"), I(k), I(g.val())))
		}
		g.emit(L(A("mb"), A("build")))
		g.queries(g.r.Intn(3) == 0)
		if g.forceMB || g.r.Bool() {
			// the builder is invalid now: both must panic, and the map must be unaffected
			built := g.it.cur
			g.it.count("builder:map-use-after-build")
			if g.forceMB || g.r.Bool() {
				g.emit(L(A("mb"), A("add"), I(g.key()), I(g.val())))
				g.emit(L(A("check"), I(built)))
			}
			if g.forceMB || g.r.Bool() {
				g.emit(L(A("mb"), A("build")))
			}
			g.emit(L(A("check"), I(built)))
		}
		return
	}
	g.it.count("builder:set")
	g.emit(L(A("sb"), A("new")))
	for i := 0; i < n; i++ {
		k := addKey(keys)
		keys = append(keys, k)
		g.touched = k
		g.emit(L(A("sb"), A("add"), I(k)))
	}
	g.emit(L(A("sb"), A("build")))
	built := g.it.cur
	g.queries(g.r.Intn(3) == 0)
	if g.skip13 || (g.r.Intn(3) == 0 && !g.forceSB) {
		return
	}
	// D13 pattern: keep using the builder after Build; the Set handed out (and everything derived
	// from it) must not change
	g.it.count("builder:set-use-after-build")
	derived := -1
	if g.r.Bool() {
		c := g.cur()
		k, _ := g.pickAbsent(c)
		g.touched = k
		g.emit(L(A("incl"), I(k)))
		derived = g.it.cur
	}
	for i, m := 0, g.r.Range(1, 4); i < m; i++ {
		k := addKey(keys)
		if g.hid == 5 && len(keys) > 0 && g.r.Bool() {
			// an Eqv-but-not-identical key: the persistent path stores the NEW key, the in-place path keeps the old one
			k = g.collider(keys[g.r.Intn(len(keys))])
			g.it.count("builder:set-alias-after-build")
		}
		keys = append(keys, k)
		g.touched = k
		g.emit(L(A("sb"), A("add"), I(k)))
	}
	g.emit(L(A("check"), I(built)))
	if derived >= 0 {
		g.emit(L(A("check"), I(derived)))
	}
	g.emit(L(A("sb"), A("build")))
	g.emit(L(A("check"), I(built)))
	g.queries(false)
	// while the library has defect D13 everything that follows in this history is affected by the
	// in-place updates: look at it a little longer, then start a new history
	g.limit = min(g.limit, g.sink.N+10)
}

// jumpTo brings the size of the current version close to target with one bulk operation, so that a
// hover phase spends its steps crossing the threshold back and forth.
func (g *gen) jumpTo(c *ver, target int) {
	n := len(c.ref)
	if n >= target-2 && n <= target+2 || c.dead {
		return
	}
	if n < target {
		head := "concat"
		if c.isSet {
			head = "sconcat"
		}
		xs := []*Sx{A(head)}
		seen := map[int]bool{}
		for tries := 0; len(xs)-1 < target-n && tries < 4*(target-n)+20; tries++ {
			k, _ := g.pickAbsent(c)
			if seen[g.it.cls(k)] {
				continue
			}
			seen[g.it.cls(k)] = true
			if c.isSet {
				xs = append(xs, I(k))
			} else {
				xs = append(xs, L(I(k), I(g.val())))
			}
			g.touched = k
		}
		g.emit(L(xs...))
		return
	}
	if n-target > 60 {
		return
	}
	ks := sortedKeys(c.ref)
	for i := len(ks) - 1; i > 0; i-- {
		j := g.r.Intn(i + 1)
		ks[i], ks[j] = ks[j], ks[i]
	}
	ks = ks[:n-target]
	if !c.isSet {
		xs := []*Sx{A("del")}
		for _, k := range ks {
			xs = append(xs, I(g.rawOf(k)))
			g.touched = k
		}
		g.emit(L(xs...))
		return
	}
	for _, k := range ks {
		g.touched = k
		g.emit(L(A("excl"), I(g.rawOf(k))))
	}
}
