package main

import (
	"fmt"
	"runtime"
	"sync"
	"sync/atomic"
	"time"

	"github.com/csgura/fp"
	"github.com/csgura/fp/iterator"
	. "verifharness/common"
)

// The two sides of Duplicate used from two goroutines (Duplicate guards its shared state with a mutex precisely for that):
// whatever the overlap of the calls, each side delivers the complete sequence in order, the source is pulled once per element,
// and a false HasNext is final.  The source yields the processor inside HasNext and Next, so that the window between a side's
// look at the shared queue and its call to the source is wide.  Seed C20-10: HasNext reads `leftAhead`/`len(queue)` under the
// lock and asks the source after unlocking.
func duplicateConcurrent(reps int) int {
	if !wants("C20") {
		return 0
	}
	checks := 0
	for rep := 0; rep < reps; rep++ {
		n := 1 + rep%4
		var pulls, cursor int64
		src := fp.MakeIterator(func() bool {
			runtime.Gosched()
			return atomic.LoadInt64(&cursor) < int64(n)
		}, func() int {
			runtime.Gosched()
			atomic.AddInt64(&pulls, 1)
			return int(atomic.AddInt64(&cursor, 1))
		})
		l, r := iterator.Duplicate(src)
		var wg sync.WaitGroup
		got := [2][]int{}
		early := [2]bool{}
		side := func(i int, it fp.Iterator[int]) {
			defer wg.Done()
			defer func() { recover() }()
			for {
				if it.HasNext() {
					got[i] = append(got[i], it.Next())
					continue
				}
				// a false answer must be final: ask again after the other side had time to move
				again := false
				for k := 0; k < 3 && !again; k++ {
					runtime.Gosched()
					again = it.HasNext()
				}
				if !again {
					return
				}
				early[i] = true
			}
		}
		wg.Add(2)
		go side(0, l)
		go side(1, r)
		done := make(chan struct{})
		go func() { wg.Wait(); close(done) }()
		select {
		case <-done:
		case <-time.After(5 * time.Second):
			recordFail("iterator.Duplicate/concurrent", fmt.Sprintf("(law duplicate-two-goroutines n=%d rep=%d)", n, rep), "the two sides did not finish within 5 s")
			return checks + 1
		}
		checks++
		want := make([]int, n)
		for i := range want {
			want[i] = i + 1
		}
		in := fmt.Sprintf("(law duplicate-two-goroutines n=%d rep=%d)", n, rep)
		for i, nm := range []string{"left", "right"} {
			if Show(got[i]) != Show(want) || early[i] {
				recordFail("iterator.Duplicate/concurrent", in, fmt.Sprintf("%s side delivered %s (HasNext answered false before the end: %v), the source holds %s", nm, Show(got[i]), early[i], Show(want)))
			}
		}
		if p := atomic.LoadInt64(&pulls); p != int64(n) {
			recordFail("iterator.Duplicate/concurrent", in, fmt.Sprintf("the source was pulled %d times for %d elements", p, n))
		}
	}
	return checks
}
