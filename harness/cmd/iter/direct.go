package main

// Direct (model-free) evaluation of C12 / C20 on the implementation: the eager fp.Seq / plain-slice
// computation is the reference.

import (
	"fmt"
	"maps"
	"sort"
	"strings"

	"github.com/csgura/fp"
	"github.com/csgura/fp/as"
	"github.com/csgura/fp/hash"
	"github.com/csgura/fp/immutable"
	"github.com/csgura/fp/iterator"
	"github.com/csgura/fp/lazy"
	"github.com/csgura/fp/list"
	"github.com/csgura/fp/monoid"
	"github.com/csgura/fp/mutable"
	"github.com/csgura/fp/option"
	"github.com/csgura/fp/seq"
	"github.com/csgura/fp/try"
	. "verifharness/common"
)

func hasPanicCallback(s *Sx) bool {
	if !s.IsL {
		return false
	}
	switch s.Head() {
	case "fpanic", "fpanicif", "ppanicif", "g2panic", "kpanic":
		return true
	}
	for _, x := range s.List {
		if hasPanicCallback(x) {
			return true
		}
	}
	return false
}

const infPrefix = 96

// evalEager computes the pipeline's sequence with the eager fp.Seq / seq.* functions (plain loops
// where the eager API has no counterpart). Infinite generators are cut to a long prefix, which
// every generated pipeline cuts further.
func evalEager(s *Sx, arg any) fp.Seq[any] {
	a := s.List
	sub := func(i int) fp.Seq[any] { return evalEager(a[i], arg) }
	switch s.Head() {
	case "src", "pullseq":
		return ints(a[2:])
	case "seq":
		return ints(a[1:])
	case "rev":
		return fp.Seq[any](ints(a[1:])).Reverse()
	case "arg":
		out := fp.Seq[any]{}
		for i := 0; i < a[1].Int(); i++ {
			out = append(out, AsInt(arg)+i)
		}
		return out
	case "gen":
		out := fp.Seq[any]{}
		for i := 0; i < infPrefix; i++ {
			out = append(out, a[2].Int()+a[3].Int()*i)
		}
		return out
	case "range", "rangec":
		out := fp.Seq[any]{}
		hi := a[2].Int()
		if s.Head() == "rangec" {
			hi++
		}
		for i := a[1].Int(); i < hi; i++ {
			out = append(out, i)
		}
		return out
	case "opt":
		if len(a) == 1 {
			return fp.Seq[any]{}
		}
		return fp.Seq[any]{a[1].Int()}
	case "empty", "zero":
		return fp.Seq[any]{}
	case "map", "mmap":
		return seq.Map(sub(1), F1Of(a[2]))
	case "tap":
		return sub(1)
	case "take": // (Seq.Take / Seq.Drop panic on a negative count; the iterator treats it as 0)
		return sub(1).Take(max(a[2].Int(), 0))
	case "drop":
		return sub(1).Drop(max(a[2].Int(), 0))
	case "takew":
		l, _ := seq.Span(sub(1), P1Of(a[2]))
		return l
	case "dropw":
		_, r := seq.Span(sub(1), P1Of(a[2]))
		return r
	case "filter":
		return sub(1).Filter(P1Of(a[2]))
	case "filternot":
		return sub(1).FilterNot(P1Of(a[2]))
	case "concat":
		return sub(1).Concat(sub(2))
	case "appended":
		return sub(1).Add(any(a[2].Int()))
	case "cons":
		return seq.Concat[any](a[1].Int(), sub(2))
	case "flatmap", "mflatmap":
		k := a[3]
		return seq.FlatMap(sub(1), func(x any) fp.Seq[any] { return evalEager(k, x) })
	case "filtermap":
		m := a[2].List[2].Int()
		return seq.FilterMap(sub(1), func(x any) fp.Option[any] {
			if Emod(AsInt(x), m) == 0 {
				return fp.None[any]()
			}
			return fp.Some[any](AsInt(x) + 1)
		})
	case "scan":
		return seq.Scan(sub(1), any(a[2].Int()), F2Of(a[3]))
	case "zip":
		return seq.Map(seq.Zip(sub(1), sub(2)), func(t fp.Tuple2[any, any]) any { return t })
	case "zip3":
		x, y, z := sub(1), sub(2), sub(3)
		out := fp.Seq[any]{}
		for i := 0; i < len(x) && i < len(y) && i < len(z); i++ {
			out = append(out, as.Tuple3(x[i], y[i], z[i]))
		}
		return out
	case "zipidx":
		return seq.Map(seq.ZipWithIndex(sub(1)), func(t fp.Tuple2[int, any]) any { return t })
	}
	panic("evalEager: " + s.String())
}

// onlyLazyStages: the pipeline consists of one instrumented source under stages that need at most
// one source element per output (plus the look-ahead of TakeWhile / MakePullIterator).
func lazyBound(s *Sx) (extra int, ok bool) {
	switch s.Head() {
	case "src", "gen":
		return 0, true
	case "pullseq":
		return 1, true
	case "map", "mmap", "tap", "take", "zipidx":
		return lazyBound(s.List[1])
	case "takew":
		e, ok := lazyBound(s.List[1])
		return e + 1, ok
	case "scan":
		return lazyBound(s.List[1])
	}
	return 0, false
}

func isInf(s *Sx) bool {
	if !s.IsL {
		return false
	}
	if s.Head() == "gen" {
		return true
	}
	for _, x := range s.List {
		if isInf(x) {
			return true
		}
	}
	return false
}

type recovered struct {
	val      any
	panicked bool
}

func try1(f func() any) (r recovered) {
	defer func() {
		if p := recover(); p != nil {
			if _, ok := p.(errBudget); ok {
				panic(p)
			}
			r = recovered{panicked: true}
		}
	}()
	return recovered{val: f()}
}

// checkScript runs H/N steps against the reference sequence: the statement of C20 evaluated
// directly. It returns "" or the first discrepancy.
func checkProtocol(it It, ref []string, steps []string, show func(any) string) string {
	k := 0
	for i, st := range steps {
		switch st {
		case "H":
			r := try1(func() any { return it.HasNext() })
			if r.panicked {
				return fmt.Sprintf("step %d: HasNext panicked", i)
			}
			if r.val.(bool) != (k < len(ref)) {
				return fmt.Sprintf("step %d: HasNext=%v but %d of %d elements were delivered", i, r.val, k, len(ref))
			}
		case "N":
			r := try1(func() any { return it.Next() })
			if k >= len(ref) {
				if !r.panicked {
					return fmt.Sprintf("step %d: Next on exhausted iterator returned %s instead of panicking", i, show(r.val))
				}
			} else {
				if r.panicked {
					return fmt.Sprintf("step %d: Next panicked with %d of %d elements delivered", i, k, len(ref))
				}
				if show(r.val) != ref[k] {
					return fmt.Sprintf("step %d: Next=%s want %s", i, show(r.val), ref[k])
				}
				k++
			}
		}
	}
	return ""
}

func showAll(xs []any) []string {
	out := make([]string, len(xs))
	for i, x := range xs {
		out[i] = Show(x)
	}
	return out
}

type dfail struct{ key, input, what string }

var dfails []dfail

func recordFail(key, input, what string) { dfails = append(dfails, dfail{key, input, what}) }

// wants: is the statement of property p being evaluated in this run?
func wants(p string) bool { return prop == "" || prop == p }

func flushFails(sink *Sink) {
	for _, f := range dfails {
		sink.DirectFail(f.key, f.input, f.what)
	}
	dfails = dfails[:0]
}

func directForCase(op *Sx) int {
	if hasPanicCallback(op) {
		if op.Head() == "list" && wants("C12") {
			return directForListPanic(op)
		}
		return 0
	}
	if op.Head() == "list" {
		return directForList(op)
	}
	checks := 0
	res := guarded(func() string {
		a := op.List
		pipe := a[1]
		ref := evalEager(pipe, 0)
		switch op.Head() {
		case "it":
			// 1. drained result = eager computation
			got := buildPipe(pipe, 0).ToSeq()
			checks++
			if Show(got) != Show([]any(ref)) {
				return "C12\tToSeq=" + Show(got) + " eager=" + Show([]any(ref))
			}
			// 2. the H/N prefix of the script observes the reference in order
			steps := []string{}
			for _, o := range a[2].List {
				if o.IsL {
					break
				}
				steps = append(steps, o.Atom)
			}
			pulls = 0
			it := buildPipe(pipe, 0)
			checks++
			if msg := checkProtocol(it, showAll(ref), steps, Show); msg != "" {
				return "C20\t" + msg
			}
			// 3. demand: lazy stages over an instrumented source pull at most got+extra
			if extra, ok := lazyBound(pipe); ok {
				got := 0
				for _, st := range steps {
					if st == "N" && got < len(ref) {
						got++
					}
				}
				checks++
				if pulls > got+extra+1 {
					return fmt.Sprintf("C12-lazy\tafter %d elements the source was pulled %d times (allowed %d)", got, pulls, got+extra+1)
				}
			}
		case "dup", "span", "part":
			var refL, refR fp.Seq[any]
			var l, r It
			it := buildPipe(pipe, 0)
			switch op.Head() {
			case "dup":
				refL, refR = ref, ref
				l, r = iterator.Duplicate(it)
			case "span":
				refL, refR = seq.Span(ref, P1Of(a[2]))
				l, r = iterator.Span(it, p1(a[2]))
			default:
				refL, refR = seq.Partition(ref, P1Of(a[2]))
				l, r = iterator.Partition(it, p1(a[2]))
			}
			sl, sr := showAll(refL), showAll(refR)
			kl, kr := 0, 0
			pulls = 0
			for i, o := range a[len(a)-1].List {
				checks++
				var msg string
				switch o.Atom {
				case "LH", "LN":
					msg = checkProtocol(l, sl[kl:], []string{o.Atom[1:]}, Show)
					if o.Atom == "LN" && kl < len(sl) {
						kl++
					}
				case "RH", "RN":
					msg = checkProtocol(r, sr[kr:], []string{o.Atom[1:]}, Show)
					if o.Atom == "RN" && kr < len(sr) {
						kr++
					}
				case "LS":
					if g := Show(l.ToSeq()); g != Show([]any(refL[kl:])) {
						msg = "left ToSeq=" + g + " want " + Show([]any(refL[kl:]))
					}
					kl = len(sl)
				case "RS":
					if g := Show(r.ToSeq()); g != Show([]any(refR[kr:])) {
						msg = "right ToSeq=" + g + " want " + Show([]any(refR[kr:]))
					}
					kr = len(sr)
				}
				if msg != "" {
					return fmt.Sprintf("C20\t%s call %d (%s): %s", op.Head(), i, o.Atom, msg)
				}
			}
			// each source element pulled at most once; Duplicate: exactly the further side's count
			if pipe.Head() == "src" {
				checks++
				if pulls > len(ref) {
					return fmt.Sprintf("C20\t%s pulled %d elements from a source of %d", op.Head(), pulls, len(ref))
				}
				if op.Head() == "dup" && pulls != max(kl, kr) {
					return fmt.Sprintf("C20\tdup: sides obtained %d / %d elements but the source was pulled %d times", kl, kr, pulls)
				}
			}
		}
		return ""
	})
	if res == "timeout" {
		recordFail(keyOf(op), op.String(), "does not terminate on a finite input")
	} else if res != "" {
		parts := strings.SplitN(res, "\t", 2)
		what := res
		if len(parts) == 2 {
			what = parts[1]
			if !wants(strings.TrimSuffix(parts[0], "-lazy")) {
				return checks
			}
		}
		recordFail(keyOf(op), op.String(), what)
	}
	return checks
}

// keyOf names the outermost library function of the case (for grouping findings).
func keyOf(op *Sx) string {
	switch op.Head() {
	case "dup":
		return "iterator.Duplicate"
	case "span":
		return "iterator.Span"
	case "part":
		return "iterator.Partition"
	case "list":
		return "list." + op.List[1].Head()
	}
	return "Iterator." + op.List[1].Head()
}

// ------------------------------------------------------------------------------------ fixed laws

type mkIter struct {
	name    string
	mk      func() (hasNext func() bool, next func() string)
	want    []string
	ordered bool
}

func erase[T any](it fp.Iterator[T]) (func() bool, func() string) {
	return it.HasNext, func() string { return Show(it.Next()) }
}

// protocolOn checks HasNext idempotence / Next / exhaustion on an iterator whose element multiset
// (ordered or not) is known.
func protocolOn(r *Rng, c mkIter) string {
	has, next := c.mk()
	got := []string{}
	for len(got) <= len(c.want)+1 {
		reps := r.Range(0, 3)
		var h bool
		for i := 0; i <= reps; i++ {
			hr := try1(func() any { return has() })
			if hr.panicked {
				return "HasNext panicked"
			}
			if i > 0 && hr.val.(bool) != h {
				return fmt.Sprintf("HasNext not idempotent after %d elements: %v then %v", len(got), h, hr.val)
			}
			h = hr.val.(bool)
		}
		if h != (len(got) < len(c.want)) {
			return fmt.Sprintf("HasNext=%v after %d of %d elements", h, len(got), len(c.want))
		}
		if !h && r.Bool() {
			break
		}
		nr := try1(func() any { return next() })
		if len(got) >= len(c.want) {
			if !nr.panicked {
				return "Next on the exhausted iterator returned " + nr.val.(string) + " instead of panicking"
			}
			hr := try1(func() any { return has() })
			if hr.panicked || hr.val.(bool) {
				return "HasNext true/panic after Next panicked on the exhausted iterator"
			}
			break
		}
		if nr.panicked {
			return fmt.Sprintf("Next panicked after %d of %d elements", len(got), len(c.want))
		}
		got = append(got, nr.val.(string))
	}
	want := append([]string{}, c.want...)
	if !c.ordered {
		sort.Strings(got)
		sort.Strings(want)
	}
	if strings.Join(got, " ") != strings.Join(want, " ") {
		return "yields [" + strings.Join(got, " ") + "] want [" + strings.Join(want, " ") + "]"
	}
	return ""
}

func randInts(r *Rng, lo, hi int) []int {
	n := r.Range(lo, hi)
	out := make([]int, n)
	for i := range out {
		out[i] = r.Range(-5, 40)
	}
	return out
}

func distinct(xs []int) []int {
	seen := map[int]bool{}
	out := []int{}
	for _, x := range xs {
		if !seen[x] {
			seen[x] = true
			out = append(out, x)
		}
	}
	return out
}

func showInts(xs []int) []string {
	out := make([]string, len(xs))
	for i, x := range xs {
		out[i] = Show(x)
	}
	return out
}

func pairsOf(keys []int) (map[int]string, []string) {
	m := map[int]string{}
	want := []string{}
	for _, k := range keys {
		m[k] = fmt.Sprintf("v%d", k)
		want = append(want, fmt.Sprintf("(%d,\"v%d\")", k, k))
	}
	return m, want
}

// allConstructors: every iterator-producing function of the library, on random contents.
func allConstructors(r *Rng) []mkIter {
	xs := randInts(r, 0, 7)
	ks := distinct(randInts(r, 0, 40))
	gm, wantPairs := pairsOf(ks)
	wantKeys := showInts(ks)
	wantVals := []string{}
	for _, k := range ks {
		wantVals = append(wantVals, fmt.Sprintf("\"v%d\"", k))
	}
	rev := make([]int, len(xs))
	for i, x := range xs {
		rev[len(xs)-1-i] = x
	}
	gset := map[int]bool{}
	for _, k := range ks {
		gset[k] = true
	}
	tups := []fp.Tuple2[int, string]{}
	for _, k := range ks {
		tups = append(tups, as.Tuple2(k, gm[k]))
	}
	imap := immutable.Map(hash.Number[int](), tups...)
	iset := immutable.Set(hash.Number[int](), ks...)
	var nilPtr *int
	one := 7
	lo, hi := r.Range(-3, 3), r.Range(-4, 8)
	rng := []int{}
	for i := lo; i < hi; i++ {
		rng = append(rng, i)
	}
	rngc := append(append([]int{}, rng...), []int{}...)
	if hi >= lo {
		rngc = append(rngc, hi)
	}
	cow := &mutable.CopyOnWriteMap[int, string]{}
	for _, k := range ks {
		cow.Updated(k, gm[k])
	}
	E := func(name string, ordered bool, want []string, mk func() (func() bool, func() string)) mkIter {
		return mkIter{name: name, mk: mk, want: want, ordered: ordered}
	}
	return []mkIter{
		E("iterator.Empty", true, nil, func() (func() bool, func() string) { return erase(iterator.Empty[int]()) }),
		E("fp.Iterator{}", true, nil, func() (func() bool, func() string) { return erase(fp.Iterator[int]{}) }),
		E("iterator.Of", true, showInts(xs), func() (func() bool, func() string) { return erase(iterator.Of(xs...)) }),
		E("iterator.FromSeq", true, showInts(xs), func() (func() bool, func() string) { return erase(iterator.FromSeq(fp.Seq[int](xs))) }),
		E("iterator.FromSlice", true, showInts(xs), func() (func() bool, func() string) { return erase(iterator.FromSlice(xs)) }),
		E("fp.IteratorOfSeq", true, showInts(xs), func() (func() bool, func() string) { return erase(fp.IteratorOfSeq(xs)) }),
		E("seq.Iterator", true, showInts(xs), func() (func() bool, func() string) { return erase(seq.Iterator(fp.Seq[int](xs))) }),
		E("iterator.ReverseSeq", true, showInts(rev), func() (func() bool, func() string) { return erase(iterator.ReverseSeq(xs)) }),
		E("iterator.ReverseSlice", true, showInts(rev), func() (func() bool, func() string) { return erase(iterator.ReverseSlice(xs)) }),
		E("iterator.FromPtr(nil)", true, nil, func() (func() bool, func() string) { return erase(iterator.FromPtr(nilPtr)) }),
		E("iterator.FromPtr", true, []string{"7"}, func() (func() bool, func() string) { return erase(iterator.FromPtr(&one)) }),
		E("iterator.FromOption(None)", true, nil, func() (func() bool, func() string) { return erase(iterator.FromOption(fp.None[int]())) }),
		E("iterator.FromOption", true, []string{"7"}, func() (func() bool, func() string) { return erase(iterator.FromOption(fp.Some(7))) }),
		E("fp.IteratorOfOption", true, []string{"7"}, func() (func() bool, func() string) { return erase(fp.IteratorOfOption(fp.Some(7))) }),
		E("fp.IteratorOfOption(zero)", true, nil, func() (func() bool, func() string) { return erase(fp.IteratorOfOption(fp.Option[int]{})) }),
		E("option.Iterator", true, []string{"7"}, func() (func() bool, func() string) { return erase(option.Iterator(fp.Some(7))) }),
		E("option.Iterator(None)", true, nil, func() (func() bool, func() string) { return erase(option.Iterator(fp.None[int]())) }),
		E("try.Iterator", true, []string{"7"}, func() (func() bool, func() string) { return erase(try.Iterator(fp.Success(7))) }),
		E("try.Iterator(Failure)", true, nil, func() (func() bool, func() string) { return erase(try.Iterator(fp.Failure[int](E1))) }),
		E("iterator.Range", true, showInts(rng), func() (func() bool, func() string) { return erase(iterator.Range(lo, hi)) }),
		E("iterator.RangeClosed", true, showInts(rngc), func() (func() bool, func() string) { return erase(iterator.RangeClosed(lo, hi)) }),
		E("iterator.FromList(list.Of)", true, showInts(xs), func() (func() bool, func() string) { return erase(iterator.FromList(list.Of(xs...))) }),
		E("iterator.List(list.Map)", true, showInts(xs), func() (func() bool, func() string) {
			return erase(iterator.List(list.Map(list.Of(xs...), func(v int) int { return v })))
		}),
		E("iterator.FromList(list.Empty)", true, nil, func() (func() bool, func() string) { return erase(iterator.FromList(list.Empty[int]())) }),
		E("iterator.Pull", true, showInts(xs), func() (func() bool, func() string) {
			return erase(iterator.Pull(func(yield func(int) bool) {
				for _, x := range xs {
					if !yield(x) {
						return
					}
				}
			}))
		}),
		E("fp.MakePullIterator(maps.Keys)", false, wantKeys, func() (func() bool, func() string) { return erase(fp.MakePullIterator(maps.Keys(gm))) }),
		E("iterator.FromMap", false, wantPairs, func() (func() bool, func() string) { return erase(iterator.FromMap(gm)) }),
		E("iterator.FromMapKey", false, wantKeys, func() (func() bool, func() string) { return erase(iterator.FromMapKey(gm)) }),
		E("iterator.FromMapValue", false, wantVals, func() (func() bool, func() string) { return erase(iterator.FromMapValue(gm)) }),
		E("fp.IteratorOfGoMap", false, wantPairs, func() (func() bool, func() string) { return erase(fp.IteratorOfGoMap(gm)) }),
		E("fp.IteratorOfGoSet", false, wantKeys, func() (func() bool, func() string) { return erase(fp.IteratorOfGoSet(gset)) }),
		E("mutable.MapOf.Iterator", false, wantPairs, func() (func() bool, func() string) { return erase(mutable.MapOf(gm).Iterator()) }),
		E("mutable.MapOf.Keys", false, wantKeys, func() (func() bool, func() string) { return erase(mutable.MapOf(gm).Keys()) }),
		E("mutable.MapOf.Values", false, wantVals, func() (func() bool, func() string) { return erase(mutable.MapOf(gm).Values()) }),
		E("mutable.Map.Iterator", false, wantPairs, func() (func() bool, func() string) { return erase(mutable.Map[int, string](gm).Iterator()) }),
		E("mutable.Set.Iterator", false, wantKeys, func() (func() bool, func() string) { return erase(mutable.Set[int](gset).Iterator()) }),
		E("mutable.SetOf.Iterator", false, wantKeys, func() (func() bool, func() string) { return erase(mutable.SetOf(ks...).Iterator()) }),
		E("mutable.EmptyMap.Iterator", false, nil, func() (func() bool, func() string) { return erase(mutable.EmptyMap[int, string]().Iterator()) }),
		E("mutable.CopyOnWriteMap.Iterator", false, wantPairs, func() (func() bool, func() string) { return erase(cow.Iterator()) }),
		E("immutable.Map.Iterator", false, wantPairs, func() (func() bool, func() string) { return erase(imap.Iterator()) }),
		E("immutable.Map.Keys", false, wantKeys, func() (func() bool, func() string) { return erase(imap.Keys()) }),
		E("immutable.Map.Values", false, wantVals, func() (func() bool, func() string) { return erase(imap.Values()) }),
		E("immutable.Set.Iterator", false, wantKeys, func() (func() bool, func() string) { return erase(iset.Iterator()) }),
		E("fp.Map{}.Iterator", false, nil, func() (func() bool, func() string) { return erase(fp.Map[int, string]{}.Iterator()) }),
		E("fp.Map{}.Keys", false, nil, func() (func() bool, func() string) { return erase(fp.Map[int, string]{}.Keys()) }),
		E("fp.Set{}.Iterator", false, nil, func() (func() bool, func() string) { return erase(fp.Set[int]{}.Iterator()) }),
		E("fp.UnsafeGoSet.Iterator", false, wantKeys, func() (func() bool, func() string) {
			s := fp.UnsafeGoSet[int]{}
			for _, k := range ks {
				s[k] = true
			}
			return erase(s.Iterator())
		}),
		E("iterator.ToList.FromList", true, showInts(xs), func() (func() bool, func() string) {
			return erase(iterator.FromList(iterator.ToList(iterator.Of(xs...))))
		}),
		E("list.Collect.FromList", true, showInts(xs), func() (func() bool, func() string) {
			return erase(iterator.FromList(list.Collect(iterator.Of(xs...))))
		}),
	}
}

var E1 = E(1)

// zeroValueMethods: the zero Iterator must behave as the empty iterator in every method.
func zeroValueMethods() []struct {
	name string
	f    func(it fp.Iterator[int]) string
} {
	type M = struct {
		name string
		f    func(it fp.Iterator[int]) string
	}
	drain := func(it fp.Iterator[int]) string {
		if it.HasNext() {
			return "HasNext=true"
		}
		return Show(it.ToSeq())
	}
	return []M{
		{"All", func(it fp.Iterator[int]) string {
			n := 0
			it.All()(func(int) bool { n++; return true })
			return Show(n)
		}},
		{"ToSeq", func(it fp.Iterator[int]) string { return Show(it.ToSeq()) }},
		{"Count", func(it fp.Iterator[int]) string { return Show(it.Count()) }},
		{"MakeString", func(it fp.Iterator[int]) string { return Show(it.MakeString(",")) }},
		{"HasNext", func(it fp.Iterator[int]) string { return Show(it.HasNext()) }},
		{"NextOption", func(it fp.Iterator[int]) string { return Show(it.NextOption()) }},
		{"IsEmpty", func(it fp.Iterator[int]) string { return Show(it.IsEmpty()) }},
		{"NonEmpty", func(it fp.Iterator[int]) string { return Show(it.NonEmpty()) }},
		{"Find", func(it fp.Iterator[int]) string { return Show(it.Find(func(int) bool { return true })) }},
		{"Exists", func(it fp.Iterator[int]) string { return Show(it.Exists(func(int) bool { return true })) }},
		{"ForAll", func(it fp.Iterator[int]) string { return Show(it.ForAll(func(int) bool { return false })) }},
		{"Foreach", func(it fp.Iterator[int]) string { n := 0; it.Foreach(func(int) { n++ }); return Show(n) }},
		{"Take", func(it fp.Iterator[int]) string { return drain(it.Take(3)) }},
		{"TakeWhile", func(it fp.Iterator[int]) string { return drain(it.TakeWhile(func(int) bool { return true })) }},
		{"Drop", func(it fp.Iterator[int]) string { return drain(it.Drop(2)) }},
		{"DropWhile", func(it fp.Iterator[int]) string { return drain(it.DropWhile(func(int) bool { return false })) }},
		{"Filter", func(it fp.Iterator[int]) string { return drain(it.Filter(func(int) bool { return true })) }},
		{"FilterNot", func(it fp.Iterator[int]) string { return drain(it.FilterNot(func(int) bool { return false })) }},
		{"TapEach", func(it fp.Iterator[int]) string { return drain(it.TapEach(func(int) {})) }},
		{"Map", func(it fp.Iterator[int]) string { return drain(it.Map(func(x int) int { return x })) }},
		{"FlatMap", func(it fp.Iterator[int]) string {
			return drain(it.FlatMap(func(x int) fp.Iterator[int] { return iterator.Of(x) }))
		}},
		{"Concat(zero,zero)", func(it fp.Iterator[int]) string { return drain(it.Concat(fp.Iterator[int]{})) }},
		{"Concat(zero,[1])", func(it fp.Iterator[int]) string {
			c := it.Concat(iterator.Of(1))
			if Show(c.ToSeq()) != "[1]" {
				return "wrong"
			}
			return "[]"
		}},
		{"Concat([1],zero)", func(it fp.Iterator[int]) string {
			c := iterator.Of(1).Concat(it)
			if Show(c.ToSeq()) != "[1]" {
				return "wrong"
			}
			return "[]"
		}},
		{"Appended", func(it fp.Iterator[int]) string {
			if Show(it.Appended(5).ToSeq()) != "[5]" {
				return "wrong"
			}
			return "[]"
		}},
		{"iterator.Map", func(it fp.Iterator[int]) string { return drain(iterator.Map(it, func(x int) int { return x })) }},
		{"iterator.Zip", func(it fp.Iterator[int]) string {
			return Show(iterator.Zip(it, iterator.Of(1, 2)).ToSeq())
		}},
		{"iterator.ZipWithIndex", func(it fp.Iterator[int]) string { return Show(iterator.ZipWithIndex(it).ToSeq()) }},
		{"iterator.Scan", func(it fp.Iterator[int]) string {
			if Show(iterator.Scan(it, 0, func(a, b int) int { return a + b }).ToSeq()) != "[0]" {
				return "wrong"
			}
			return "[]"
		}},
		{"iterator.Fold", func(it fp.Iterator[int]) string {
			return Show(iterator.Fold(it, 0, func(a, b int) int { return a + b + 1 }) != 0)
		}},
		{"iterator.Duplicate", func(it fp.Iterator[int]) string {
			l, r := iterator.Duplicate(it)
			return Show(len(l.ToSeq()) + len(r.ToSeq()))
		}},
		{"iterator.ToList", func(it fp.Iterator[int]) string { return Show(iterator.ToList(it).ToSeq()) }},
		{"iterator.FoldRight", func(it fp.Iterator[int]) string {
			return Show(iterator.FoldRight(it, 0, func(a int, b lazyEvalInt) lazyEvalInt { return b }).Get() != 0)
		}},
	}
}

func emptyAnswer(name string) string {
	switch name {
	case "All", "Count", "Foreach", "iterator.Duplicate":
		return "0"
	case "HasNext", "NonEmpty", "Exists", "iterator.Fold", "iterator.FoldRight":
		return "false"
	case "IsEmpty", "ForAll":
		return "true"
	case "NextOption", "Find":
		return "None"
	case "MakeString":
		return "\"\""
	}
	return "[]"
}

func zeroLaw(name string) {
	if !wants("C20") {
		return
	}
	for _, m := range zeroValueMethods() {
		if name != "" && m.name != name {
			continue
		}
		res := guarded(func() string {
			rr := try1(func() any { return m.f(fp.Iterator[int]{}) })
			if rr.panicked {
				return "panics"
			}
			return rr.val.(string)
		})
		if want := emptyAnswer(m.name); res != want {
			recordFail("Iterator{}."+m.name, "(law zero-value "+m.name+")", "zero-value Iterator: "+m.name+" gives "+res+", the empty iterator gives "+want)
		}
	}
}

// lawsForSeed: protocol of every constructor + terminal laws, all derived from one seed.
func lawsForSeed(s uint64) int {
	checks := 0
	subA := NewRng(s)
	for _, c := range allConstructors(subA) {
		if !wants("C20") {
			break
		}
		checks++
		res := guarded(func() string { return protocolOn(subA, c) })
		if res != "" {
			recordFail(c.name, fmt.Sprintf("(law protocol %s seed=%d)", strings.ReplaceAll(c.name, " ", ""), s), res)
		}
	}
	seedNow = s
	if wants("C12") {
		checks += terminalLaws(NewRng(s+1), recordFail)
	}
	return checks
}

var seedNow uint64

func directFixed(r *Rng, sink *Sink, n int) int {
	checks := len(zeroValueMethods())
	zeroLaw("")
	checks += duplicateConcurrent(600)
	if wants("C12") {
		checks += sharedPrefixLaws(r)
		checks += nilElementLaws()
	}
	for i := 0; i < n; i++ {
		checks += lawsForSeed(r.Next() % 1000000007)
	}
	flushFails(sink)
	return checks
}

// terminalLaws: terminal operations of iterator.* against the eager seq.* on the same data.
func terminalLaws(r *Rng, fail func(key, input, what string)) int {
	xs := randInts(r, 0, 7)
	in := fmt.Sprintf("seed=%d", seedNow)
	checks := 0
	eq := func(key, got, want string) {
		checks++
		if got != want {
			fail(key, "(law eager "+key+" "+in+")", "on xs="+Show(xs)+" iterator gives "+got+", eager seq gives "+want)
		}
	}
	sum := monoid.Sum[int]()
	run := func(f func() string) string {
		return guarded(func() string {
			rr := try1(func() any { return f() })
			if rr.panicked {
				return "panic"
			}
			return rr.val.(string)
		})
	}
	it := func() fp.Iterator[int] { return iterator.Of(xs...) }
	sx := fp.Seq[int](xs)
	ordI := fp.LessFunc[int](func(a, b int) bool { return a < b })
	eq("iterator.Reduce", run(func() string { return Show(iterator.Reduce(it(), sum)) }), Show(seq.Reduce(sx, sum)))
	add := func(a, b int) int { return 2*a + b }
	eq("iterator.Fold", run(func() string { return Show(iterator.Fold(it(), 1, add)) }), Show(seq.Fold(sx, 1, add)))
	m := r.Range(2, 4)
	ft := func(a, b int) fp.Try[int] {
		if Emod(a+b, m) == 0 {
			return fp.Failure[int](E1)
		}
		return fp.Success(a + b)
	}
	eq("iterator.FoldTry", run(func() string { return Show(iterator.FoldTry(it(), 1, ft)) }), Show(seq.FoldTry(sx, 1, ft)))
	fo := func(a, b int) fp.Option[int] {
		if Emod(a+b, m) == 0 {
			return fp.None[int]()
		}
		return fp.Some(a + b)
	}
	eq("iterator.FoldOption", run(func() string { return Show(iterator.FoldOption(it(), 1, fo)) }), Show(seq.FoldOption(sx, 1, fo)))
	fe := func(a int) error {
		if Emod(a, m) == 0 {
			return E(a)
		}
		return nil
	}
	eq("iterator.FoldError", run(func() string { return showErrNil(iterator.FoldError(it(), fe)) }), showErrNil(seq.FoldError(sx, fe)))
	eq("iterator.Min", run(func() string { return Show(iterator.Min(it(), ordI)) }), Show(seq.Min(sx, ordI)))
	eq("iterator.Max", run(func() string { return Show(iterator.Max(it(), ordI)) }), Show(seq.Max(sx, ordI)))
	eq("iterator.Sort", run(func() string { return Show([]int(iterator.Sort(it(), ordI))) }), Show([]int(seq.Sort(sx, ordI))))
	eq("Iterator.MakeString", run(func() string { return Show(it().MakeString("-")) }), Show(sx.MakeString("-")))
	eq("Iterator.Count", run(func() string { return Show(it().Count()) }), Show(sx.Size()))
	key := func(a int) int { return Emod(a, m) }
	showG := func(g map[int]fp.Seq[int]) string {
		ks := []int{}
		for k := range g {
			ks = append(ks, k)
		}
		sort.Ints(ks)
		out := ""
		for _, k := range ks {
			out += fmt.Sprintf("%d:%s;", k, Show([]int(g[k])))
		}
		return out
	}
	eq("iterator.GroupBy", run(func() string { return showG(iterator.GroupBy(it(), key)) }), showG(seq.GroupBy(sx, key)))
	eq("iterator.ToGoSet", run(func() string { return Show(len(iterator.ToGoSet(it()))) }), Show(len(seq.ToGoSet(sx))))
	eq("iterator.ToGoSet", run(func() string { return Show(len(iterator.ToGoSet(it()))) }), Show(len(seq.ToGoSet(sx))))
	hs := hash.Number[int]()
	sortedSet := func(s fp.Set[int]) string { v := s.Iterator().ToSeq(); sort.Ints(v); return Show(v) }
	eq("iterator.ToSet", run(func() string { return sortedSet(iterator.ToSet(it(), hs)) }), sortedSet(seq.ToSet(sx, hs)))
	tup := func(a int) fp.Tuple2[int, int] { return as.Tuple2(Emod(a, 5), a) }
	sortedMap := func(mm fp.Map[int, int]) string {
		v := mm.Iterator().ToSeq()
		sort.Slice(v, func(i, j int) bool { return v[i].I1 < v[j].I1 })
		return Show(v)
	}
	eq("iterator.ToMap", run(func() string { return sortedMap(iterator.ToMap(iterator.Map(it(), tup), hs)) }), sortedMap(seq.ToMap(seq.Map(sx, tup), hs)))
	eq("iterator.ToGoMap", run(func() string { return Show(len(iterator.ToGoMap(iterator.Map(it(), tup)))) }), Show(len(seq.ToGoMap(seq.Map(sx, tup)))))
	// FoldRight hands the step function the REST as a deferred, memoised computation (lazy.TailCall): a step that forces it
	// more than once (peek, then use) must see the same value both times, the source must be pulled once per element and the
	// step must run once per element (C16 run-once; C12 same result as the eager right fold)  [seed C16-7]
	{
		wantV := 0
		for i := len(xs) - 1; i >= 0; i-- {
			wantV = xs[i] + 2*wantV
		}
		want := fmt.Sprintf("%d steps=%d pulls=%d", wantV, len(xs), len(xs))
		twice := func(steps *int) func(int, lazy.Eval[int]) lazy.Eval[int] {
			return func(x int, rest lazy.Eval[int]) lazy.Eval[int] {
				*steps++
				a := rest.Get()
				b := rest.Get()
				if a != b {
					return lazy.Done(-1000000)
				}
				return rest.Map(func(v int) int { return x + v + a })
			}
		}
		eq("iterator.FoldRight/twice", run(func() string {
			steps, pulls, idx := 0, 0, 0
			src := fp.MakeIterator(func() bool { return idx < len(xs) }, func() int { pulls++; v := xs[idx]; idx++; return v })
			e := iterator.FoldRight(src, 0, twice(&steps))
			v1 := e.Get()
			v2 := e.Get()
			if v1 != v2 {
				return fmt.Sprintf("first Get %d, second Get %d", v1, v2)
			}
			return fmt.Sprintf("%d steps=%d pulls=%d", v1, steps, pulls)
		}), want)
		eq("seq.FoldRight/twice", run(func() string {
			steps := 0
			v := seq.FoldRight(sx, 0, twice(&steps)).Get()
			return fmt.Sprintf("%d steps=%d pulls=%d", v, steps, len(xs))
		}), want)
		eq("list.FoldRight/twice", run(func() string {
			steps, pulls, idx := 0, 0, 0
			src := fp.MakeIterator(func() bool { return idx < len(xs) }, func() int { pulls++; v := xs[idx]; idx++; return v })
			v := list.FoldRight(iterator.ToList(src), 0, twice(&steps)).Get()
			return fmt.Sprintf("%d steps=%d pulls=%d", v, steps, pulls)
		}), want)
	}
	checks += listLaws(r, xs, fail)
	return checks
}

// replayDirect re-evaluates one recorded law: (law zero-value M) | (law protocol NAME seed=N) |
// (law eager KEY seed=N).
func replayDirect(line string) string {
	f := strings.Fields(strings.Trim(line, "()"))
	if len(f) < 3 {
		return "bad-law"
	}
	dfails = dfails[:0]
	want := f[2]
	switch f[1] {
	case "zero-value":
		zeroLaw(f[2])
	case "protocol", "eager":
		var s uint64
		fmt.Sscanf(f[len(f)-1], "seed=%d", &s)
		lawsForSeed(s)
	case "concat-shared-prefix":
		// the law draws its shapes from a PRNG: re-run it over a fixed range of seeds and report every failure of that law
		for s := uint64(1); s <= 40; s++ {
			sharedPrefixLaws(NewRng(s))
		}
	}
	out := []string{}
	for _, d := range dfails {
		if f[1] == "zero-value" || f[1] == "concat-shared-prefix" || strings.Contains(d.input, " "+want+" ") {
			out = append(out, d.key+": "+d.what)
		}
	}
	if len(out) == 0 {
		return "law holds"
	}
	return strings.Join(out, "\n")
}

// sharedPrefixLaws (C12; found by the session-6 audit): an iterator value that has NOT been consumed may be extended twice
// (`x := r.Concat(t1); y := r.Concat(t2)`).  Building y consumes nothing, so x must still deliver the elements of r followed by
// those of t1 - "the same elements in the same order as the eager Seq computation" of the expression that built x.
// Iterator.Concat kept the list of its parts in a slice with spare capacity and appended to it in place: building y overwrote
// the last part of x.
func sharedPrefixLaws(r *Rng) int {
	checks := 0
	for rep := 0; rep < 40; rep++ {
		nparts := 1 + r.Intn(4)
		var want []int
		next := 1
		part := func() fp.Iterator[int] {
			k := r.Intn(3)
			xs := []int{}
			for i := 0; i < k; i++ {
				xs = append(xs, next)
				next++
			}
			want = append(want, xs...)
			return iterator.Of(xs...)
		}
		// b is itself a Concat chain (its part list is copied into r's), or a plain iterator
		a := part()
		var b fp.Iterator[int]
		shape := "plain"
		if nparts > 1 {
			b = part()
			for i := 2; i < nparts; i++ {
				b = b.Concat(part())
			}
			shape = fmt.Sprintf("chain%d", nparts-1)
		} else {
			b = part()
		}
		rr := a.Concat(b)
		base := append([]int{}, want...)
		ext := func(it fp.Iterator[int], v int, how int) fp.Iterator[int] {
			switch how {
			case 0:
				return it.Concat(iterator.Of(v))
			case 1:
				return it.Appended(v)
			}
			return it.Concat(iterator.Of(v).Concat(iterator.Of(v + 1)))
		}
		h1, h2 := r.Intn(3), r.Intn(3)
		x := ext(rr, 100, h1)
		_ = ext(rr, 200, h2) // built, never consumed
		wantX := append(append([]int{}, base...), 100)
		if h1 == 2 {
			wantX = append(wantX, 101)
		}
		checks++
		got := guarded(func() string { return Show(x.ToSeq()) })
		if got != Show(wantX) {
			recordFail("Concat.shared-prefix", fmt.Sprintf("(law concat-shared-prefix %s first=%d second=%d base=%s)", shape, h1, h2, Show(base)),
				"x := r.Concat(t1); y := r.Concat(t2) (y never consumed): x delivers "+got+", the eager computation of r ++ t1 gives "+Show(wantX))
		}
	}
	return checks
}

// nilElementLaws (C12; seed C12-12 of round 5): elements of NILABLE type that ARE nil in the middle of a lazy List / Iterator are
// elements like any other ("the same elements in the same order as the corresponding eager fp.Seq computation").  The op lines use
// integers only; here pointer and slice elements with nil in the middle go through the combinators of package list / iterator and
// are compared with the eager seq computation.  (A helper wrapping a head with option.Of instead of fp.Some turns a nil head into
// None, which list.Map / Zip / Scan / FlatMap read as end-of-list.)
func nilElementLaws() int {
	checks := 0
	one, three := 1, 3
	xs := []*int{&one, nil, &three}
	show := func(p *int) int {
		if p == nil {
			return -1
		}
		return *p
	}
	eq := func(name string, got, want string) {
		checks++
		if got != want {
			recordFail("nil-elements."+name, "(law nil-elements "+name+")", "on [&1, nil, &3]: "+name+" gives "+got+", the eager seq computation gives "+want)
		}
	}
	run := func(f func() string) string { return guarded(f) }
	want := Show(seq.Map(xs, show))
	lst := func() fp.List[*int] { return list.Of(xs...) }
	eq("list.Map", run(func() string { return Show(iterator.FromList(list.Map(lst(), show)).ToSeq()) }), want)
	eq("list.Collect", run(func() string { return Show(seq.Map(iterator.FromList(list.Collect(iterator.Of(xs...))).ToSeq(), show)) }), want)
	eq("list.Zip", run(func() string {
		z := list.Zip(lst(), list.Of(10, 20, 30))
		return Show(seq.Map(iterator.FromList(z).ToSeq(), func(t fp.Tuple2[*int, int]) int { return show(t.I1) + t.I2 }))
	}), Show([]int{11, 19, 33}))
	eq("list.Scan", run(func() string {
		return Show(iterator.FromList(list.Scan(lst(), 0, func(acc int, p *int) int { return acc + show(p) })).ToSeq())
	}), Show(seq.Scan(xs, 0, func(acc int, p *int) int { return acc + show(p) })))
	eq("list.FlatMap", run(func() string {
		return Show(iterator.FromList(list.FlatMap(lst(), func(p *int) fp.List[int] { return list.Of(show(p), show(p)) })).ToSeq())
	}), Show([]int{1, 1, -1, -1, 3, 3}))
	eq("list.FilterMap", run(func() string {
		return Show(iterator.FromList(list.FilterMap(lst(), func(p *int) fp.Option[int] { return fp.Some(show(p)) })).ToSeq())
	}), want)
	eq("list.FoldLeft", run(func() string {
		return Show(list.FoldLeft(lst(), 0, func(acc int, p *int) int { return acc*10 + show(p) + 2 }))
	}), Show(seq.Fold(xs, 0, func(acc int, p *int) int { return acc*10 + show(p) + 2 })))
	eq("list.Size", run(func() string { return Show(len(iterator.FromList(lst()).ToSeq())) }), "3")
	eq("iterator.Map", run(func() string { return Show(iterator.Map(iterator.Of(xs...), show).ToSeq()) }), want)
	eq("iterator.Filter", run(func() string {
		return Show(seq.Map(iterator.Of(xs...).Filter(func(p *int) bool { return true }).ToSeq(), show))
	}), want)
	eq("iterator.TakeWhile", run(func() string {
		return Show(seq.Map(iterator.Of(xs...).TakeWhile(func(p *int) bool { return true }).ToSeq(), show))
	}), want)
	eq("iterator.Zip", run(func() string {
		return Show(seq.Map(iterator.Zip(iterator.Of(xs...), iterator.Of(10, 20, 30)).ToSeq(), func(t fp.Tuple2[*int, int]) int { return show(t.I1) + t.I2 }))
	}), Show([]int{11, 19, 33}))
	eq("iterator.ToList", run(func() string {
		return Show(seq.Map(iterator.FromList(iterator.ToList(iterator.Of(xs...))).ToSeq(), show))
	}), want)
	// nil SLICES as elements
	ys := [][]int{{1}, nil, {3}}
	ln := func(s []int) int { return len(s) }
	eq("list.Map-slices", run(func() string { return Show(iterator.FromList(list.Map(list.Of(ys...), ln)).ToSeq()) }), Show(seq.Map(ys, ln)))
	return checks
}
