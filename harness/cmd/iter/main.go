// Correspondence + direct property harness for fp.Iterator / package iterator / lazy fp.List
// (C12: combinators agree with eager Seq semantics, terminate, are lazy; C20: iterator protocol,
// Duplicate/Span/Partition under any interleaving).
package main

import (
	"flag"
	"fmt"
	"os"
	"sort"
	"strings"
	"time"

	"github.com/csgura/fp"
	"github.com/csgura/fp/iterator"
	"github.com/csgura/fp/lazy"
	"github.com/csgura/fp/monoid"
	"github.com/csgura/fp/option"
	"github.com/csgura/fp/seq"
	. "verifharness/common"
)

type It = fp.Iterator[any]

// ------------------------------------------------------------------------------------ watchdog
// Every callback and every instrumented source ticks. A case that ticks more than `budget` times
// is a non-terminating loop of the implementation (every generated case is finite): the tick
// panics with errBudget, which unwinds the library loop and is reported as `timeout`.
// A wall-clock deadline catches loops that never call back.

type errBudget struct{}

var ticks, budget = 0, 200000
var pulls int

func tick() {
	ticks++
	if ticks > budget {
		panic(errBudget{})
	}
}

var wallTimeouts int

// listTooLarge: the eager evaluation of the list expression of a list case exceeds an eighth of the tick budget
func listTooLarge(op *Sx) bool {
	saved := budget
	budget = saved / 8
	defer func() { budget = saved }()
	res := guarded(func() (out string) {
		defer func() {
			if p := recover(); p != nil {
				if _, ok := p.(errBudget); ok {
					panic(p)
				}
				out = "" // a user callback panicked: small enough to get there
			}
		}()
		evalEagerL(op.List[1], 0)
		// the lazy evaluation too: nested FlatMaps whose function returns empty lists make list.FlatMap rebuild the rest of the
		// list in its head thunk AND in its tail thunk (exponential in the nesting depth; slow, not non-terminating)
		if n := len(buildList(op.List[1], 0).ToSeq()); n > 300 {
			// folds with `pair` over hundreds of elements build values whose RENDERING takes the wall-clock watchdog's 20 s on a
			// loaded machine (answer `timeout` against the model's value)
			return "timeout"
		}
		return ""
	})
	return res == "timeout"
}

// guarded runs one case in its own goroutine with a deadline.
func guarded(f func() string) string {
	ticks = 0
	done := make(chan string, 1)
	go func() {
		defer func() {
			if p := recover(); p != nil {
				if _, ok := p.(errBudget); ok {
					done <- "timeout"
					return
				}
				done <- "harness-panic(" + fmt.Sprint(p) + ")"
			}
		}()
		done <- f()
	}()
	select {
	case s := <-done:
		ticks = 0
		return s
	case <-time.After(20 * time.Second):
		wallTimeouts++
		ticks = 0
		return "timeout"
	}
}

func showPanic(p any) string {
	s := ShowPanic(p)
	if strings.HasPrefix(s, "runtime:") && strings.Contains(s, "nil pointer") {
		return "nil-func"
	}
	return s
}

// call runs one step, recovering panics of the implementation (not the budget).
func call(f func() string) (res string, events string) {
	Log = Log[:0]
	res = func() (s string) {
		defer func() {
			if p := recover(); p != nil {
				if _, ok := p.(errBudget); ok {
					panic(p)
				}
				s = "panic(" + showPanic(p) + ")"
			}
		}()
		return f()
	}()
	return res, strings.Join(Log, ",")
}

func tok(name string, f func() string) string {
	res, ev := call(f)
	return fmt.Sprintf("%s=%s#%d{%s}", name, res, pulls, ev)
}

// ------------------------------------------------------------------------------------ callbacks

func f1(s *Sx) func(any) any      { f := F1Of(s); return func(x any) any { tick(); return f(x) } }
func p1(s *Sx) func(any) bool     { f := P1Of(s); return func(x any) bool { tick(); return f(x) } }
func f2(s *Sx) func(any, any) any { f := F2Of(s); return func(x, y any) any { tick(); return f(x, y) } }
func ints(xs []*Sx) []any {
	out := make([]any, len(xs))
	for i, x := range xs {
		out[i] = x.Int()
	}
	return out
}

func instrSrc(id int, xs []any) It {
	idx := 0
	return fp.MakeIterator(func() bool { tick(); return idx < len(xs) }, func() any {
		tick()
		if idx < len(xs) {
			v := xs[idx]
			idx++
			pulls++
			Emit("s%d:%s", id, Show(v))
			return v
		}
		panic("next on empty iterator")
	})
}

func tupAny[A, B any](it fp.Iterator[fp.Tuple2[A, B]]) It {
	return iterator.Map(it, func(t fp.Tuple2[A, B]) any { return t })
}

// buildPipe builds the real iterator described by s; arg is the argument of the enclosing FlatMap.
func buildPipe(s *Sx, arg any) It {
	a := s.List
	switch s.Head() {
	case "src":
		return instrSrc(a[1].Int(), ints(a[2:]))
	case "seq":
		xs := ints(a[1:])
		switch len(xs) % 5 {
		case 0:
			return fp.IteratorOfSeq(xs)
		case 1:
			return iterator.Of(xs...)
		case 2:
			return iterator.FromSeq(fp.Seq[any](xs))
		case 3:
			return iterator.FromSlice(xs)
		}
		return seq.Iterator(fp.Seq[any](xs))
	case "arg":
		n := a[1].Int()
		xs := make([]any, n)
		for i := range xs {
			xs[i] = AsInt(arg) + i
		}
		return iterator.Of(xs...)
	case "gen":
		id, start, step := a[1].Int(), a[2].Int(), a[3].Int()
		n := 0
		return iterator.Generate(func() any {
			tick()
			v := start + step*n
			n++
			pulls++
			Emit("s%d:%d", id, v)
			return v
		})
	case "range":
		return iterator.Map(iterator.Range(a[1].Int(), a[2].Int()), func(i int) any { return i })
	case "rangec":
		return iterator.Map(iterator.RangeClosed(a[1].Int(), a[2].Int()), func(i int) any { return i })
	case "opt":
		if len(a) == 1 {
			return fp.IteratorOfOption(fp.None[any]())
		}
		if a[1].Int()%2 == 0 {
			return iterator.FromOption(fp.Some[any](a[1].Int()))
		}
		return fp.IteratorOfOption(fp.Some[any](a[1].Int()))
	case "empty":
		return iterator.Empty[any]()
	case "zero":
		return It{}
	case "rev":
		if len(a)%2 == 0 {
			return iterator.ReverseSlice(ints(a[1:]))
		}
		return iterator.ReverseSeq(ints(a[1:]))
	case "pullseq":
		id, xs := a[1].Int(), ints(a[2:])
		return fp.MakePullIterator(func(yield func(any) bool) {
			for _, x := range xs {
				tick()
				pulls++
				Emit("s%d:%s", id, Show(x))
				if !yield(x) {
					return
				}
			}
		})
	case "map":
		return iterator.Map(buildPipe(a[1], arg), f1(a[2]))
	case "mmap":
		return buildPipe(a[1], arg).Map(f1(a[2]))
	case "tap":
		id := a[2].Int()
		return buildPipe(a[1], arg).TapEach(func(v any) { tick(); Emit("t%d:%s", id, Show(v)) })
	case "take":
		return buildPipe(a[1], arg).Take(a[2].Int())
	case "drop":
		return buildPipe(a[1], arg).Drop(a[2].Int())
	case "takew":
		return buildPipe(a[1], arg).TakeWhile(p1(a[2]))
	case "dropw":
		return buildPipe(a[1], arg).DropWhile(p1(a[2]))
	case "filter":
		return buildPipe(a[1], arg).Filter(p1(a[2]))
	case "filternot":
		return buildPipe(a[1], arg).FilterNot(p1(a[2]))
	case "concat":
		l := buildPipe(a[1], arg)
		return l.Concat(buildPipe(a[2], arg))
	case "appended":
		return buildPipe(a[1], arg).Appended(a[2].Int())
	case "cons":
		return iterator.Concat[any](a[1].Int(), buildPipe(a[2], arg))
	case "flatmap", "mflatmap":
		id, k := a[2].Int(), a[3]
		fn := func(x any) It { tick(); Emit("k%d:%s", id, Show(x)); return buildPipe(k, x) }
		if s.Head() == "flatmap" {
			return iterator.FlatMap(buildPipe(a[1], arg), fn)
		}
		return buildPipe(a[1], arg).FlatMap(fn)
	case "filtermap":
		id, m := a[2].List[1].Int(), a[2].List[2].Int()
		return iterator.FilterMap(buildPipe(a[1], arg), func(x any) fp.Option[any] {
			tick()
			Emit("o%d:%s", id, Show(x))
			if Emod(AsInt(x), m) == 0 {
				return fp.None[any]()
			}
			return fp.Some[any](AsInt(x) + 1)
		})
	case "scan":
		return iterator.Scan(buildPipe(a[1], arg), any(a[2].Int()), f2(a[3]))
	case "zip":
		l := buildPipe(a[1], arg)
		return tupAny(iterator.Zip(l, buildPipe(a[2], arg)))
	case "zip3":
		l := buildPipe(a[1], arg)
		m := buildPipe(a[2], arg)
		return iterator.Map(iterator.Zip3(l, m, buildPipe(a[3], arg)), func(t fp.Tuple3[any, any, any]) any { return t })
	case "zipidx":
		return tupAny(iterator.ZipWithIndex(buildPipe(a[1], arg)))
	}
	panic("bad pipe " + s.String())
}

func showBool(b bool) string {
	if b {
		return "true"
	}
	return "false"
}

func lessLog(id int) fp.Ord[any] {
	return fp.LessFunc[any](func(a, b any) bool { tick(); Emit("l%d:%s,%s", id, Show(a), Show(b)); return AsInt(a) < AsInt(b) })
}

// a total order: by integer value, ties (non-integers count as 0) by rendering
var plainOrd fp.Ord[any] = fp.LessFunc[any](func(a, b any) bool {
	if AsInt(a) != AsInt(b) {
		return AsInt(a) < AsInt(b)
	}
	return Show(a) < Show(b)
})

func showGroups(m map[int]fp.Seq[any]) string {
	keys := []int{}
	for k := range m {
		keys = append(keys, k)
	}
	sort.Ints(keys)
	parts := []string{}
	for _, k := range keys {
		parts = append(parts, fmt.Sprintf("%d:%s", k, Show([]any(m[k]))))
	}
	return "{" + strings.Join(parts, ",") + "}"
}

func showErrNil(err error) string {
	if err == nil {
		return "nil"
	}
	return ShowErr(err)
}

// stepOp performs one script step on the iterator.
func stepOp(it It, op *Sx) string {
	if !op.IsL {
		switch op.Atom {
		case "H":
			return tok("H", func() string { return showBool(it.HasNext()) })
		case "N":
			return tok("N", func() string { return Show(it.Next()) })
		}
		panic("bad op " + op.String())
	}
	a := op.List
	name := op.Head()
	return tok(name, func() string {
		switch name {
		case "toseq":
			if len(Log)%2 == 0 {
				return Show(it.ToSeq())
			}
			return Show([]any(iterator.ToSeq(it)))
		case "count":
			return Show(it.Count())
		case "nextopt":
			return Show(it.NextOption())
		case "isempty":
			return showBool(it.IsEmpty())
		case "nonempty":
			return showBool(it.NonEmpty())
		case "find":
			return Show(it.Find(p1(a[1])))
		case "exists":
			return showBool(it.Exists(p1(a[1])))
		case "forall":
			return showBool(it.ForAll(p1(a[1])))
		case "foreach":
			id := a[1].Int()
			it.Foreach(func(v any) { tick(); Emit("t%d:%s", id, Show(v)) })
			return "unit"
		case "all":
			p := p1(a[1])
			it.All()(func(v any) bool { return p(v) })
			return "unit"
		case "fold":
			return Show(iterator.Fold(it, any(a[1].Int()), f2(a[2])))
		case "foldtry":
			g, m, e := f2(a[2]), a[3].Int(), a[4].Int()
			return Show(iterator.FoldTry(it, any(a[1].Int()), func(b, x any) fp.Try[any] {
				r := g(b, x)
				if Emod(AsInt(r), m) == 0 {
					return fp.Failure[any](E(e))
				}
				return fp.Success(r)
			}))
		case "foldopt":
			g, m := f2(a[2]), a[3].Int()
			return Show(iterator.FoldOption(it, any(a[1].Int()), func(b, x any) fp.Option[any] {
				r := g(b, x)
				if Emod(AsInt(r), m) == 0 {
					return fp.None[any]()
				}
				return fp.Some(r)
			}))
		case "folderr":
			id, m, e := a[1].Int(), a[2].Int(), a[3].Int()
			return showErrNil(iterator.FoldError(it, func(x any) error {
				tick()
				Emit("e%d:%s", id, Show(x))
				if Emod(AsInt(x), m) == 0 {
					return E(e)
				}
				return nil
			}))
		case "foldr":
			g := f2(a[2])
			return Show(iterator.FoldRight(it, any(a[1].Int()), func(x any, b lazy.Eval[any]) lazy.Eval[any] {
				return b.Map(func(v any) any { return g(x, v) })
			}).Get())
		case "foldrs":
			p := p1(a[1])
			return Show(iterator.FoldRight(it, any(a[2].Int()), func(x any, b lazy.Eval[any]) lazy.Eval[any] {
				if p(x) {
					return lazy.Done(x)
				}
				return b
			}).Get())
		case "reduce":
			id := a[1].Int()
			return Show(iterator.Reduce(it, monoid.New(func() any { return 0 }, func(x, y any) any {
				tick()
				Emit("m%d:%s,%s", id, Show(x), Show(y))
				return AsInt(x) + AsInt(y)
			})))
		case "min":
			return Show(iterator.Min(it, lessLog(a[1].Int())))
		case "max":
			return Show(iterator.Max(it, lessLog(a[1].Int())))
		case "groupby":
			f := f1(a[1])
			return showGroups(iterator.GroupBy(it, func(x any) int { return AsInt(f(x)) }))
		case "sort":
			return Show([]any(iterator.Sort(it, plainOrd)))
		}
		panic("bad op " + op.String())
	})
}

func step2(l, r It, op *Sx) string {
	name := op.Atom
	return tok(name, func() string {
		switch name {
		case "LH":
			return showBool(l.HasNext())
		case "LN":
			return Show(l.Next())
		case "RH":
			return showBool(r.HasNext())
		case "RN":
			return Show(r.Next())
		case "LS":
			return Show(l.ToSeq())
		case "RS":
			return Show(r.ToSeq())
		}
		panic("bad op2 " + name)
	})
}

func runCase(op *Sx) string {
	return guarded(func() string {
		pulls = 0
		a := op.List
		var it It
		b, ev := call(func() string { it = buildPipe(a[1], 0); return "ok" })
		if b != "ok" {
			return fmt.Sprintf("B=%s{%s}", b, ev)
		}
		toks := []string{fmt.Sprintf("B=ok#%d{%s}", pulls, ev)}
		switch op.Head() {
		case "it":
			for _, o := range a[2].List {
				toks = append(toks, stepOp(it, o))
			}
		case "dup", "span", "part":
			var l, r It
			ops := a[len(a)-1].List
			switch op.Head() {
			case "dup":
				l, r = iterator.Duplicate(it)
			case "span":
				l, r = iterator.Span(it, p1(a[2]))
			default:
				l, r = iterator.Partition(it, p1(a[2]))
			}
			for _, o := range ops {
				toks = append(toks, step2(l, r, o))
			}
		default:
			return "bad-op"
		}
		return strings.Join(toks, " ")
	})
}

// ------------------------------------------------------------------------------------ generator

var hist = map[string]int{}

// prop selects the property whose statement is evaluated ("" = both).
var prop string

func genVals(r *Rng, lo, hi int) []*Sx {
	n := r.Range(lo, hi)
	out := make([]*Sx, n)
	for i := range out {
		out[i] = I(r.Range(-3, 9))
	}
	return out
}

func genSource(r *Rng, inFlat bool) *Sx {
	k := r.Intn(20)
	switch {
	case inFlat && k < 12:
		return L(A("arg"), I(r.Range(0, 3)))
	case k < 9:
		return L(append([]*Sx{A("src"), I(NewID())}, genVals(r, 0, 8)...)...)
	case k < 11:
		return L(append([]*Sx{A("seq")}, genVals(r, 0, 6)...)...)
	case k == 11:
		return L(A("range"), I(r.Range(-2, 3)), I(r.Range(-3, 7)))
	case k == 12:
		return L(A("rangec"), I(r.Range(-2, 3)), I(r.Range(-3, 6)))
	case k == 13:
		if r.Bool() {
			return L(A("opt"))
		}
		return L(A("opt"), I(r.Range(-2, 9)))
	case k == 14:
		return L(A("empty"))
	case k == 15:
		return L(A("zero"))
	case k == 16:
		return L(append([]*Sx{A("rev")}, genVals(r, 0, 5)...)...)
	case k == 17 || k == 18:
		return L(append([]*Sx{A("pullseq"), I(NewID())}, genVals(r, 0, 6)...)...)
	}
	// an unbounded generator, cut by Take / TakeWhile
	return genCutInf(r)
}

// genInf: an infinite pipeline (Generate under lazy stages).
func genInf(r *Rng, d int, panicOK bool) *Sx {
	if d <= 0 || r.Intn(3) == 0 {
		return L(A("gen"), I(NewID()), I(r.Range(-3, 3)), I(Pick(r, 1, 1, 1, 2, -1, 3)))
	}
	switch r.Intn(6) {
	case 0:
		return L(A("map"), genInf(r, d-1, panicOK), GenF1(r, panicOK))
	case 1:
		return L(A("tap"), genInf(r, d-1, panicOK), I(NewID()))
	case 2:
		return L(A("scan"), genInf(r, d-1, panicOK), I(r.Range(-2, 3)), GenF2(r, panicOK))
	case 3:
		return L(A("zipidx"), genInf(r, d-1, panicOK))
	case 4:
		// hits are guaranteed: consecutive integers under a modulus test
		m := r.Range(2, 3)
		return L(A("filter"), L(A("gen"), I(NewID()), I(r.Range(-3, 3)), I(Pick(r, 1, -1))), L(A("modeq"), I(NewID()), I(m), I(r.Intn(m))))
	}
	return L(A("mmap"), genInf(r, d-1, panicOK), GenF1(r, panicOK))
}

func genCutInf(r *Rng) *Sx {
	switch r.Intn(3) {
	case 0:
		return L(A("take"), genInf(r, 2, false), I(r.Range(-1, 6)))
	case 1:
		// increasing values eventually fail `lt c`
		return L(A("takew"), L(A("gen"), I(NewID()), I(r.Range(-3, 3)), I(r.Range(1, 3))), L(A("lt"), I(NewID()), I(r.Range(-2, 9))))
	}
	fin := L(append([]*Sx{A("src"), I(NewID())}, genVals(r, 0, 5)...)...)
	if r.Bool() {
		return L(A("zip"), fin, genInf(r, 1, false))
	}
	return L(A("zip"), genInf(r, 1, false), fin)
}

func genInner(r *Rng, panicOK bool) *Sx {
	s := L(A("arg"), I(r.Range(0, 3)))
	switch r.Intn(5) {
	case 0:
		return L(A("map"), s, GenF1(r, panicOK))
	case 1:
		return L(A("filter"), s, GenP1(r, panicOK))
	case 2:
		return L(A("take"), s, I(r.Range(0, 2)))
	case 3:
		return genPipe(r, 1, true, panicOK)
	}
	return s
}

// genPipe: a finite pipeline of at most d stages.
func genPipe(r *Rng, d int, inFlat, panicOK bool) *Sx {
	if d <= 0 {
		return genSource(r, inFlat)
	}
	sub := func() *Sx { return genPipe(r, d-1, inFlat, panicOK) }
	small := func() *Sx { return genPipe(r, r.Intn(2), inFlat, panicOK) }
	switch r.Intn(24) {
	case 0:
		return L(A("map"), sub(), GenF1(r, panicOK))
	case 1:
		return L(A("mmap"), sub(), GenF1(r, panicOK))
	case 2:
		return L(A("tap"), sub(), I(NewID()))
	case 3, 4:
		return L(A("take"), sub(), I(r.Range(-1, 7)))
	case 5, 6:
		return L(A("drop"), sub(), I(r.Range(-1, 6)))
	case 7, 8:
		return L(A("takew"), sub(), GenP1(r, panicOK))
	case 9, 10:
		return L(A("dropw"), sub(), GenP1(r, panicOK))
	case 11, 12:
		return L(A("filter"), sub(), GenP1(r, panicOK))
	case 13:
		return L(A("filternot"), sub(), GenP1(r, panicOK))
	case 14, 15:
		return L(A("concat"), sub(), small())
	case 16:
		if r.Bool() {
			return L(A("appended"), sub(), I(r.Range(-3, 9)))
		}
		return L(A("cons"), I(r.Range(-3, 9)), sub())
	case 17, 18:
		return L(A(Pick(r, "flatmap", "mflatmap")), sub(), I(NewID()), genInner(r, panicOK))
	case 19:
		return L(A("filtermap"), sub(), L(A("omod"), I(NewID()), I(r.Range(2, 3))))
	case 20:
		return L(A("scan"), sub(), I(r.Range(-2, 3)), GenF2(r, panicOK))
	case 21:
		return L(A("zip"), sub(), small())
	case 22:
		if r.Intn(3) == 0 {
			return L(A("zip3"), sub(), small(), small())
		}
		return L(A("concat"), small(), sub())
	}
	return L(A("zipidx"), sub())
}

func genTerminal(r *Rng, panicOK bool) *Sx {
	if prop == "C20" { // the protocol property: methods of Iterator itself
		switch r.Intn(7) {
		case 0, 1:
			return L(A("toseq"))
		case 2:
			return L(A("count"))
		case 3:
			return L(A("nextopt"))
		case 4:
			return L(A(Pick(r, "isempty", "nonempty")))
		case 5:
			return L(A("foreach"), I(NewID()))
		}
		return L(A("all"), GenP1(r, panicOK))
	}
	switch r.Intn(21) {
	case 0, 1, 2:
		return L(A("toseq"))
	case 3:
		return L(A("count"))
	case 4:
		return L(A("nextopt"))
	case 5:
		return L(A(Pick(r, "isempty", "nonempty")))
	case 6:
		return L(A("find"), GenP1(r, panicOK))
	case 7:
		return L(A("exists"), GenP1(r, panicOK))
	case 8:
		return L(A("forall"), GenP1(r, panicOK))
	case 9:
		return L(A("foreach"), I(NewID()))
	case 10:
		return L(A("all"), GenP1(r, panicOK))
	case 11:
		return L(A("fold"), I(r.Range(-2, 3)), GenF2(r, panicOK))
	case 12:
		return L(A("foldtry"), I(r.Range(-2, 3)), GenF2(r, panicOK), I(r.Range(2, 4)), I(r.Range(1, 9)))
	case 13:
		return L(A("foldopt"), I(r.Range(-2, 3)), GenF2(r, panicOK), I(r.Range(2, 4)))
	case 14:
		return L(A("folderr"), I(NewID()), I(r.Range(2, 4)), I(r.Range(1, 9)))
	case 15:
		return L(A("foldr"), I(r.Range(-2, 3)), GenF2(r, panicOK))
	case 16:
		return L(A("foldrs"), GenP1(r, panicOK), I(r.Range(-9, -5)))
	case 17:
		return L(A("reduce"), I(NewID()))
	case 18:
		return L(A(Pick(r, "min", "max")), I(NewID()))
	case 19:
		return L(A("groupby"), L(A("lin"), I(NewID()), I(1), I(0)))
	}
	return L(A("sort"))
}

func genScript(r *Rng, panicOK bool) *Sx {
	n := r.Range(1, 12)
	ops := []*Sx{}
	for i := 0; i < n; i++ {
		switch k := r.Intn(20); {
		case k < 7:
			ops = append(ops, A("H"))
		case k < 17:
			ops = append(ops, A("N"))
		default:
			ops = append(ops, genTerminal(r, panicOK))
		}
	}
	switch r.Intn(4) {
	case 0: // drain and call past the end
		ops = append(ops, L(A("toseq")), A("H"), A("N"), A("H"))
	case 1:
		ops = append(ops, genTerminal(r, panicOK), A("N"), A("H"))
	}
	return L(ops...)
}

func genScript2(r *Rng) *Sx {
	n := r.Range(1, 16)
	ops := []*Sx{}
	style := r.Intn(4)
	for i := 0; i < n; i++ {
		var o string
		switch style {
		case 0: // strictly alternating sides
			o = Pick(r, "LN", "LH")
			if i%2 == 1 {
				o = Pick(r, "RN", "RH")
			}
		case 1: // one side far ahead, then the other
			o = Pick(r, "LN", "LN", "LH")
			if i >= n/2 {
				o = Pick(r, "RN", "RN", "RH")
			}
		default:
			o = Pick(r, "LH", "LN", "LN", "RH", "RN", "RN")
		}
		ops = append(ops, A(o))
	}
	switch r.Intn(4) {
	case 0:
		ops = append(ops, A("LS"), A("RS"), A("LN"), A("RH"))
	case 1:
		ops = append(ops, A("RS"), A("LS"), A("RN"), A("LH"))
	}
	return L(ops...)
}

func genCase(r *Rng) *Sx {
	panicOK := r.Intn(12) == 0
	depth := r.Range(0, 5)
	k := r.Intn(20)
	if prop == "C12" && k >= 13 && r.Intn(3) != 0 { // C12 concentrates on pipelines and terminal operations
		k = 0
	}
	switch {
	case k < 13:
		return L(A("it"), genPipe(r, depth, false, panicOK), genScript(r, panicOK))
	case k < 16:
		return L(A("dup"), genPipe(r, r.Range(0, 2), false, false), genScript2(r))
	case k < 18:
		return L(A("span"), genPipe(r, r.Range(0, 2), false, false), GenP1(r, false), genScript2(r))
	}
	return L(A("part"), genPipe(r, r.Range(0, 2), false, false), GenP1(r, false), genScript2(r))
}

func count(s *Sx) {
	if s.IsL {
		if h := s.Head(); h != "" {
			hist[h]++
		}
		for _, x := range s.List {
			count(x)
		}
	} else if s.Atom != "" && (s.Atom[0] == 'L' || s.Atom[0] == 'R' || s.Atom == "H" || s.Atom == "N") {
		hist["call:"+s.Atom]++
	}
}

func main() {
	seed := flag.Uint64("seed", 1, "PRNG seed")
	n := flag.Int("n", 2000, "number of generated cases")
	out := flag.String("out", ".", "output directory")
	replay := flag.String("replay", "", "run one op line and print the implementation's answer")
	opsFile := flag.String("ops", "", "run the op lines of this file instead of generating")
	flag.StringVar(&prop, "prop", "", "restrict generation and direct checks to one property: C12 | C20 (default both)")
	flag.Parse()
	if *replay != "" {
		if strings.HasPrefix(*replay, "(direct") || strings.HasPrefix(*replay, "(law") {
			fmt.Println(replayDirect(*replay))
			return
		}
		op, err := Parse(*replay)
		if err != nil {
			fmt.Println("bad-op")
			os.Exit(2)
		}
		fmt.Println(dispatch(op))
		dfails = dfails[:0]
		directForCase(op)
		for _, d := range dfails {
			fmt.Println("DIRECT-FAILURE " + d.key + ": " + d.what)
		}
		return
	}
	r := NewRng(*seed)
	sink := NewSink(*out)
	if *opsFile != "" {
		for _, line := range ReadLines(*opsFile) {
			op, err := Parse(line)
			if err != nil {
				continue
			}
			sink.Case(line, func() string { return dispatch(op) })
		}
		sink.Close()
		fmt.Printf("{\"cases\": %d}\n", sink.N)
		return
	}
	nd := 0
	for i := 0; i < *n && wallTimeouts < 3; i++ {
		ResetIDs()
		var op *Sx
		if i%4 == 3 && prop != "C20" {
			op = genListCase(r)
			// a list program whose EAGER reference computation alone needs a good part of the per-case tick budget (nested FlatMaps
			// multiply lengths) is not a test of termination but of the watchdog: at thorough sizes such programs were reported as
			// "does not terminate on a finite list" and as model / implementation mismatches (answer `timeout`) on the unchanged tree
			// (false alarm 16, session 6).  Draw another one.
			for tries := 0; tries < 8 && listTooLarge(op); tries++ {
				hist["list-too-large-redrawn"]++
				ResetIDs()
				op = genListCase(r)
			}
		} else {
			op = genCase(r)
		}
		count(op)
		sink.Case(op.String(), func() string { return dispatch(op) })
		nd += directForCase(op)
		flushFails(sink)
	}
	nd += directFixed(r, sink, *n/20+5)
	sink.Close()
	keys := []string{}
	for k := range hist {
		keys = append(keys, k)
	}
	sort.Strings(keys)
	fmt.Printf("{\"cases\": %d, \"direct_checks\": %d, \"direct_failures\": %d, \"wall_timeouts\": %d, \"histogram\": {", sink.N, nd, sink.DirectFailures, wallTimeouts)
	for i, k := range keys {
		if i > 0 {
			fmt.Print(", ")
		}
		fmt.Printf("%q: %d", k, hist[k])
	}
	fmt.Println("}}")
}

func dispatch(op *Sx) string {
	switch op.Head() {
	case "it", "dup", "span", "part":
		return runCase(op)
	case "list":
		return runListCase(op)
	}
	return "bad-op"
}

var _ = option.Some[int]
