package main

// lazy fp.List / package list: correspondence cases `(list <lexpr> (<op> ...))` and direct laws.

import (
	"fmt"
	"strings"

	"github.com/csgura/fp"
	"github.com/csgura/fp/iterator"
	"github.com/csgura/fp/lazy"
	"github.com/csgura/fp/list"
	"github.com/csgura/fp/monoid"
	"github.com/csgura/fp/seq"
	. "verifharness/common"
)

type lazyEvalInt = lazy.Eval[int]
type Lst = fp.List[any]

func buildList(s *Sx, arg any) Lst {
	a := s.List
	switch s.Head() {
	case "lempty":
		return list.Empty[any]()
	case "lof":
		xs := ints(a[1:])
		switch len(xs) % 3 {
		case 0:
			return list.Of(xs...)
		case 1:
			return list.FromSeq(fp.Seq[any](xs))
		}
		return list.FromSlice(xs)
	case "larg":
		n := a[1].Int()
		xs := make([]any, n)
		for i := range xs {
			xs[i] = AsInt(arg) + i
		}
		return list.Of(xs...)
	case "lapply":
		if a[1].Int()%2 == 0 {
			return list.Apply[any](a[1].Int(), buildList(a[2], arg))
		}
		return list.Concat[any](a[1].Int(), buildList(a[2], arg))
	case "lgen":
		id, n := a[1].Int(), a[2].Int()
		return list.Generate(func(i int) fp.Option[any] {
			tick()
			Emit("gen%d:%d", id, i)
			if i < n {
				return fp.Some[any](i)
			}
			return fp.None[any]()
		})
	case "lrange":
		return list.Map(list.Range(a[1].Int(), a[2].Int()), func(i int) any { return i })
	case "lrangec":
		return list.Map(list.RangeClosed(a[1].Int(), a[2].Int()), func(i int) any { return i })
	case "lrev":
		return list.ReverseSeq(fp.Seq[any](ints(a[1:])))
	case "lcollect":
		if len(a)%2 == 0 {
			return list.Collect(instrSrc(a[1].Int(), ints(a[2:])))
		}
		return iterator.ToList(instrSrc(a[1].Int(), ints(a[2:])))
	case "lopt":
		if len(a) == 1 {
			return list.FromOption(fp.None[any]())
		}
		return list.FromOption(fp.Some[any](a[1].Int()))
	case "lmap":
		return list.Map(buildList(a[1], arg), f1(a[2]))
	case "lflatmap":
		id, k := a[2].Int(), a[3]
		return list.FlatMap(buildList(a[1], arg), func(x any) Lst { tick(); Emit("k%d:%s", id, Show(x)); return buildList(k, x) })
	case "lfiltermap":
		id, m := a[2].List[1].Int(), a[2].List[2].Int()
		return list.FilterMap(buildList(a[1], arg), func(x any) fp.Option[any] {
			tick()
			Emit("o%d:%s", id, Show(x))
			if Emod(AsInt(x), m) == 0 {
				return fp.None[any]()
			}
			return fp.Some[any](AsInt(x) + 1)
		})
	case "lcombine":
		l := buildList(a[1], arg)
		return list.Combine(l, buildList(a[2], arg))
	case "lzip":
		l := buildList(a[1], arg)
		return list.Map(list.Zip(l, buildList(a[2], arg)), func(t fp.Tuple2[any, any]) any { return t })
	case "lzipidx":
		return list.Map(list.ZipWithIndex(buildList(a[1], arg)), func(t fp.Tuple2[int, any]) any { return t })
	case "lscan":
		return list.Scan(buildList(a[1], arg), any(a[2].Int()), f2(a[3]))
	}
	panic("bad lexpr " + s.String())
}

func stepL(l Lst, op *Sx) string {
	a := op.List
	name := op.Head()
	return tok(name, func() string {
		switch name {
		case "isempty":
			return showBool(l.IsEmpty())
		case "head":
			return Show(list.Head(l))
		case "toseq":
			return Show(l.ToSeq())
		case "tailhd":
			// Tail() without a preceding IsEmpty()/Head(): the only way to force a tail cell (and through it the
			// lazy.Call cell of FlatMap) of a list whose head cell panicked (such a list says IsEmpty() = true)
			return Show(list.Head(l.Tail()))
		case "fold":
			return Show(list.Fold(l, any(a[1].Int()), f2(a[2])))
		case "foldleft":
			return Show(list.FoldLeft(l, any(a[1].Int()), f2(a[2])))
		case "foldtry":
			g, m, e := f2(a[2]), a[3].Int(), a[4].Int()
			return Show(list.FoldTry(l, any(a[1].Int()), func(b, x any) fp.Try[any] {
				r := g(b, x)
				if Emod(AsInt(r), m) == 0 {
					return fp.Failure[any](E(e))
				}
				return fp.Success(r)
			}))
		case "foldopt":
			g, m := f2(a[2]), a[3].Int()
			return Show(list.FoldOption(l, any(a[1].Int()), func(b, x any) fp.Option[any] {
				r := g(b, x)
				if Emod(AsInt(r), m) == 0 {
					return fp.None[any]()
				}
				return fp.Some(r)
			}))
		case "folderr":
			id, m, e := a[1].Int(), a[2].Int(), a[3].Int()
			return showErrNil(list.FoldError(l, func(x any) error {
				tick()
				Emit("e%d:%s", id, Show(x))
				if Emod(AsInt(x), m) == 0 {
					return E(e)
				}
				return nil
			}))
		case "foldr":
			g := f2(a[2])
			return Show(list.FoldRight(l, any(a[1].Int()), func(x any, b lazy.Eval[any]) lazy.Eval[any] {
				return b.Map(func(v any) any { return g(x, v) })
			}).Get())
		case "foldrs":
			p := p1(a[1])
			return Show(list.FoldRight(l, any(a[2].Int()), func(x any, b lazy.Eval[any]) lazy.Eval[any] {
				if p(x) {
					return lazy.Done(x)
				}
				return b
			}).Get())
		case "reduce":
			id := a[1].Int()
			return Show(list.Reduce(l, monoid.New(func() any { return 0 }, func(x, y any) any {
				tick()
				Emit("m%d:%s,%s", id, Show(x), Show(y))
				return AsInt(x) + AsInt(y)
			})))
		case "iter":
			it := iterator.FromList(l)
			parts := []string{}
			for _, c := range a[1:] {
				switch c.Atom {
				case "H":
					parts = append(parts, "H:"+showBool(it.HasNext()))
				case "N":
					parts = append(parts, func() (s string) {
						defer func() {
							if p := recover(); p != nil {
								if _, ok := p.(errBudget); ok {
									panic(p)
								}
								s = "N:panic(" + showPanic(p) + ")"
							}
						}()
						return "N:" + Show(it.Next())
					}())
				}
			}
			return "[" + strings.Join(parts, " ") + "]"
		}
		panic("bad list op " + op.String())
	})
}

func runListCase(op *Sx) string {
	return guarded(func() string {
		pulls = 0
		a := op.List
		var l Lst
		b, ev := call(func() string { l = buildList(a[1], 0); return "ok" })
		if b != "ok" {
			return fmt.Sprintf("B=%s{%s}", b, ev)
		}
		toks := []string{fmt.Sprintf("B=ok#%d{%s}", pulls, ev)}
		for _, o := range a[2].List {
			toks = append(toks, stepL(l, o))
		}
		return strings.Join(toks, " ")
	})
}

// ------------------------------------------------------------------------------------ generator

func genLSource(r *Rng, inFlat bool) *Sx {
	k := r.Intn(14)
	switch {
	case inFlat && k < 8:
		return L(A("larg"), I(r.Range(0, 3)))
	case k < 3:
		return L(append([]*Sx{A("lof")}, genVals(r, 0, 7)...)...)
	case k < 6:
		return L(A("lgen"), I(NewID()), I(r.Range(-1, 7)))
	case k < 8:
		return L(append([]*Sx{A("lcollect"), I(NewID())}, genVals(r, 0, 6)...)...)
	case k == 8:
		return L(A(Pick(r, "lrange", "lrangec")), I(r.Range(-2, 3)), I(r.Range(-3, 6)))
	case k == 9:
		return L(append([]*Sx{A("lrev")}, genVals(r, 0, 5)...)...)
	case k == 10:
		if r.Bool() {
			return L(A("lopt"))
		}
		return L(A("lopt"), I(r.Range(-2, 9)))
	case k == 11:
		return L(A("lempty"))
	}
	return L(A("lapply"), I(r.Range(-3, 9)), genLSource(r, inFlat))
}

func genLExpr(r *Rng, d int, inFlat, panicOK bool) *Sx {
	if d <= 0 {
		return genLSource(r, inFlat)
	}
	sub := func() *Sx { return genLExpr(r, d-1, inFlat, panicOK) }
	small := func() *Sx { return genLExpr(r, r.Intn(2), inFlat, panicOK) }
	switch r.Intn(12) {
	case 0, 1, 2:
		return L(A("lmap"), sub(), GenF1(r, panicOK))
	case 3, 4, 5:
		var inner *Sx
		switch r.Intn(4) {
		case 0:
			inner = L(A("larg"), I(r.Range(0, 3)))
		case 1:
			inner = L(A("lmap"), L(A("larg"), I(r.Range(0, 3))), GenF1(r, panicOK))
		default:
			inner = genLExpr(r, 1, true, panicOK)
		}
		if panicOK && r.Intn(3) == 0 {
			// a function that itself panics while BUILDING its result (FlatMap forces the head of its source at
			// construction time): the panic happens inside the lazy.Call cell of the enclosing FlatMap
			inner = L(A("lflatmap"), L(A("lmap"), L(A("larg"), I(r.Range(1, 3))), GenF1(r, true)), I(NewID()),
				L(A("larg"), I(r.Range(0, 2))))
		}
		return L(A("lflatmap"), sub(), I(NewID()), inner)
	case 6:
		return L(A("lfiltermap"), sub(), L(A("omod"), I(NewID()), I(r.Range(2, 3))))
	case 7, 8:
		return L(A("lcombine"), sub(), small())
	case 9:
		return L(A("lzip"), sub(), small())
	case 10:
		return L(A("lzipidx"), sub())
	}
	return L(A("lscan"), sub(), I(r.Range(-2, 3)), GenF2(r, panicOK))
}

func genListOp(r *Rng, panicOK bool) *Sx {
	switch r.Intn(17) {
	case 0, 1, 2, 3:
		return L(A("toseq"))
	case 4:
		return L(A("isempty"))
	case 5:
		return L(A("head"))
	case 6:
		return L(A("fold"), I(r.Range(-2, 3)), GenF2(r, panicOK))
	case 7:
		return L(A("foldleft"), I(r.Range(-2, 3)), GenF2(r, panicOK))
	case 8:
		return L(A("foldtry"), I(r.Range(-2, 3)), GenF2(r, panicOK), I(r.Range(2, 4)), I(r.Range(1, 9)))
	case 9:
		return L(A("foldopt"), I(r.Range(-2, 3)), GenF2(r, panicOK), I(r.Range(2, 4)))
	case 10:
		return L(A("folderr"), I(NewID()), I(r.Range(2, 4)), I(r.Range(1, 9)))
	case 11:
		return L(A("foldr"), I(r.Range(-2, 3)), GenF2(r, panicOK))
	case 12:
		return L(A("foldrs"), GenP1(r, panicOK), I(r.Range(-9, -5)))
	case 13:
		return L(A("reduce"), I(NewID()))
	case 14:
		return L(A("tailhd"))
	}
	n := r.Range(1, 10)
	calls := []*Sx{A("iter")}
	for i := 0; i < n; i++ {
		calls = append(calls, A(Pick(r, "H", "N", "N")))
	}
	return L(calls...)
}

func genListCase(r *Rng) *Sx {
	// one case in ten: callbacks inside the list closures (and of the terminal operations) may panic, and
	// the script goes on operating on the SAME list afterwards (memo cells of panicked closures hand out
	// the zero value: None / the nil list)
	panicOK := r.Intn(10) == 0
	n := r.Range(1, 4)
	if panicOK {
		n = r.Range(2, 6)
		hist["list-panic-case"]++
	}
	ops := []*Sx{}
	for i := 0; i < n; i++ {
		ops = append(ops, genListOp(r, panicOK))
	}
	if panicOK {
		// after whatever panicked: Tail() of the list (forces the tail cell even if the head cell panicked)
		ops = append(ops, L(A("tailhd")), L(A("toseq")))
	}
	return L(A("list"), genLExpr(r, r.Range(0, 4), false, panicOK), L(ops...))
}

// directForListPanic: callbacks may panic.  Whatever the first traversal did (returned or panicked), a
// second traversal of the same list must not run any callback again: every cell whose closure was started
// is done (with its value, or with the zero value if the closure panicked) — "evaluates each cell at most
// once" of C12, evaluated directly.
func directForListPanic(op *Sx) int {
	checks := 0
	res := guarded(func() string {
		e := op.List[1]
		var l Lst
		if b := try1(func() any { l = buildList(e, 0); return nil }); b.panicked {
			return ""
		}
		first := try1(func() any { return Show(l.ToSeq()) })
		Log = Log[:0]
		second := try1(func() any { return Show(l.ToSeq()) })
		checks++
		if len(Log) != 0 {
			return "cells were evaluated again on the second traversal (first traversal panicked: " +
				fmt.Sprint(first.panicked) + "): " + strings.Join(Log, ",")
		}
		checks++
		if !first.panicked && (second.panicked || second.val != first.val) {
			return "second ToSeq differs from the first"
		}
		return ""
	})
	if res == "timeout" {
		recordFail(keyOf(op), op.String(), "does not terminate on a finite input")
	} else if res != "" {
		recordFail(keyOf(op), op.String(), res)
	}
	return checks
}

// evalEagerL: the eager fp.Seq computation of a list expression.
func evalEagerL(s *Sx, arg any) fp.Seq[any] {
	a := s.List
	sub := func(i int) fp.Seq[any] { return evalEagerL(a[i], arg) }
	switch s.Head() {
	case "lempty":
		return fp.Seq[any]{}
	case "lof":
		return ints(a[1:])
	case "larg":
		out := fp.Seq[any]{}
		for i := 0; i < a[1].Int(); i++ {
			out = append(out, AsInt(arg)+i)
		}
		return out
	case "lapply":
		return seq.Concat[any](a[1].Int(), sub(2))
	case "lgen":
		out := fp.Seq[any]{}
		for i := 0; i < a[2].Int(); i++ {
			out = append(out, i)
		}
		return out
	case "lrange", "lrangec":
		out := fp.Seq[any]{}
		hi := a[2].Int()
		if s.Head() == "lrangec" {
			hi++
		}
		for i := a[1].Int(); i < hi; i++ {
			out = append(out, i)
		}
		return out
	case "lrev":
		return fp.Seq[any](ints(a[1:])).Reverse()
	case "lcollect":
		return ints(a[2:])
	case "lopt":
		if len(a) == 1 {
			return fp.Seq[any]{}
		}
		return fp.Seq[any]{a[1].Int()}
	case "lmap":
		return seq.Map(sub(1), F1Of(a[2]))
	case "lflatmap":
		k := a[3]
		return seq.FlatMap(sub(1), func(x any) fp.Seq[any] { return evalEagerL(k, x) })
	case "lfiltermap":
		m := a[2].List[2].Int()
		return seq.FilterMap(sub(1), func(x any) fp.Option[any] {
			if Emod(AsInt(x), m) == 0 {
				return fp.None[any]()
			}
			return fp.Some[any](AsInt(x) + 1)
		})
	case "lcombine":
		return sub(1).Concat(sub(2))
	case "lzip":
		return seq.Map(seq.Zip(sub(1), sub(2)), func(t fp.Tuple2[any, any]) any { return t })
	case "lzipidx":
		return seq.Map(seq.ZipWithIndex(sub(1)), func(t fp.Tuple2[int, any]) any { return t })
	case "lscan":
		return seq.Scan(sub(1), any(a[2].Int()), F2Of(a[3]))
	}
	panic("evalEagerL " + s.String())
}

// directForList: the list's elements equal the eager computation, a second traversal re-runs no
// callback (memoised cells), every terminal operation terminates.
func directForList(op *Sx) int {
	checks := 0
	res := guarded(func() string {
		e := op.List[1]
		ref := evalEagerL(e, 0)
		l := buildList(e, 0)
		got := l.ToSeq()
		checks++
		if Show(got) != Show([]any(ref)) {
			return "ToSeq=" + Show(got) + " eager=" + Show([]any(ref))
		}
		Log = Log[:0]
		again := l.ToSeq()
		checks++
		if Show(again) != Show(got) {
			return "second ToSeq=" + Show(again) + " first=" + Show(got)
		}
		if len(Log) != 0 && strings.Count(e.String(), "(lflatmap ") < 2 {
			// "evaluates each CELL at most once": with nested FlatMaps the head thunk and the tail thunk of a FlatMap cell whose
			// element maps to an empty list each build their own copy of the rest, so a second traversal may walk cells the first
			// one never forced (every cell still runs once; the callbacks run again) - not demanded by C12 (false alarm 16)
			return "memoised cells were evaluated again on the second traversal: " + strings.Join(Log, ",")
		}
		return ""
	})
	if res == "timeout" {
		recordFail(keyOf(op), op.String(), "does not terminate on a finite input")
	} else if res != "" {
		recordFail(keyOf(op), op.String(), res)
	}
	// every operation of the script must terminate (the answers are compared with the oracle)
	for _, o := range op.List[2].List {
		checks++
		one := L(A("list"), op.List[1], L(o))
		if out := runListCase(one); out == "timeout" {
			recordFail("list."+listFn(o.Head()), one.String(), "does not terminate on a finite list")
		}
	}
	return checks
}

func listFn(op string) string {
	switch op {
	case "foldopt":
		return "FoldOption"
	case "foldtry":
		return "FoldTry"
	case "folderr":
		return "FoldError"
	case "foldleft":
		return "FoldLeft"
	case "foldr", "foldrs":
		return "FoldRight"
	case "fold":
		return "Fold"
	case "reduce":
		return "Reduce"
	case "toseq":
		return "ToSeq"
	case "tailhd":
		return "Tail"
	case "iter":
		return "FromList"
	}
	return op
}

// listLaws: package list against eager seq on the same data.
func listLaws(r *Rng, xs []int, fail func(key, input, what string)) int {
	in := fmt.Sprintf("seed=%d", seedNow)
	checks := 0
	eq := func(key, got, want string) {
		checks++
		if got != want {
			fail(key, "(law eager "+key+" "+in+")", "on xs="+Show(xs)+" list gives "+got+", eager seq gives "+want)
		}
	}
	run := func(f func() string) string {
		return guarded(func() string {
			rr := try1(func() any { return f() })
			if rr.panicked {
				return "panic"
			}
			return rr.val.(string)
		})
	}
	n := 0
	tk := func() { n++; tick() }
	sx := fp.Seq[int](xs)
	mk := func() fp.List[int] {
		switch len(xs) % 3 {
		case 0:
			return list.Of(xs...)
		case 1:
			return list.Map(list.Of(xs...), func(v int) int { return v })
		}
		return list.Collect(iterator.Of(xs...))
	}
	m := r.Range(2, 4)
	add := func(a, b int) int { tk(); return 2*a + b }
	eq("list.Fold", run(func() string { return Show(list.Fold(mk(), 1, add)) }), Show(seq.Fold(sx, 1, add)))
	eq("list.FoldLeft", run(func() string { return Show(list.FoldLeft(mk(), 1, add)) }), Show(seq.Fold(sx, 1, add)))
	eq("list.FoldLeftUsingMap", run(func() string { return Show(list.FoldLeftUsingMap(mk(), 1, add)) }), Show(seq.Fold(sx, 1, add)))
	radd := func(a, b int) int { tk(); return a + 2*b }
	foldr := func(s fp.Seq[int]) int {
		acc := 1
		for i := len(s) - 1; i >= 0; i-- {
			acc = radd(s[i], acc)
		}
		return acc
	}
	eq("list.FoldRightUsingMap", run(func() string { return Show(list.FoldRightUsingMap(mk(), 1, radd)) }), Show(foldr(sx)))
	eq("list.FoldRight", run(func() string {
		return Show(list.FoldRight(mk(), 1, func(a int, b lazy.Eval[int]) lazy.Eval[int] {
			return b.Map(func(v int) int { return radd(a, v) })
		}).Get())
	}), Show(foldr(sx)))
	ft := func(a, b int) fp.Try[int] {
		tk()
		if Emod(a+b, m) == 0 {
			return fp.Failure[int](E1)
		}
		return fp.Success(a + b)
	}
	eq("list.FoldTry", run(func() string { return Show(list.FoldTry(mk(), 1, ft)) }), Show(seq.FoldTry(sx, 1, ft)))
	fo := func(a, b int) fp.Option[int] {
		tk()
		if Emod(a+b, m) == 0 {
			return fp.None[int]()
		}
		return fp.Some(a + b)
	}
	eq("list.FoldOption", run(func() string { return Show(list.FoldOption(mk(), 1, fo)) }), Show(seq.FoldOption(sx, 1, fo)))
	fe := func(a int) error {
		tk()
		if Emod(a, m) == 0 {
			return E(a)
		}
		return nil
	}
	eq("list.FoldError", run(func() string { return showErrNil(list.FoldError(mk(), fe)) }), showErrNil(seq.FoldError(sx, fe)))
	sum := monoid.Sum[int]()
	eq("list.Reduce", run(func() string { return Show(list.Reduce(mk(), sum)) }), Show(seq.Reduce(sx, sum)))
	eq("list.FoldMap", run(func() string { return Show(list.FoldMap(mk(), sum, func(a int) int { return 3 * a })) }),
		Show(seq.FoldMap(sx, sum, func(a int) int { return 3 * a })))
	ordI := fp.LessFunc[int](func(a, b int) bool { return a < b })
	eq("list.Min", run(func() string { return Show(list.Min(mk(), ordI)) }), Show(seq.Min(sx, ordI)))
	eq("list.Max", run(func() string { return Show(list.Max(mk(), ordI)) }), Show(seq.Max(sx, ordI)))
	eq("list.Sort", run(func() string { return Show([]int(list.Sort(mk(), ordI))) }), Show([]int(seq.Sort(sx, ordI))))
	eq("list.Scan", run(func() string { return Show(list.Scan(mk(), 1, add).ToSeq()) }), Show([]int(seq.Scan(sx, 1, add))))
	eq("list.ZipWithIndex", run(func() string { return Show(list.ZipWithIndex(mk()).ToSeq()) }), Show([]fp.Tuple2[int, int](seq.ZipWithIndex(sx))))
	eq("list.Zip3", run(func() string { return Show(list.Zip3(mk(), list.Range(0, 4), mk()).ToSeq()) }), Show(func() []fp.Tuple3[int, int, int] {
		out := []fp.Tuple3[int, int, int]{}
		for i := 0; i < len(xs) && i < 4; i++ {
			out = append(out, fp.Tuple3[int, int, int]{I1: xs[i], I2: i, I3: xs[i]})
		}
		return out
	}()))
	key := func(a int) int { return Emod(a, m) }
	eq("list.GroupBy", run(func() string { return Show(len(list.GroupBy(mk(), key))) }), Show(len(seq.GroupBy(sx, key))))
	eq("list.ToGoSet", run(func() string { return Show(len(list.ToGoSet(mk()))) }), Show(len(seq.ToGoSet(sx))))
	eq("list.Head", run(func() string { return Show(list.Head(mk())) }), Show(sx.Head()))
	eq("list.Flatten", run(func() string {
		return Show(list.Flatten(list.Map(mk(), func(v int) fp.List[int] { return list.Of(v, v) })).ToSeq())
	}), Show([]int(seq.FlatMap(sx, func(v int) fp.Seq[int] { return fp.Seq[int]{v, v} }))))
	eq("list.Map2", run(func() string {
		return Show(list.Map2(mk(), list.Of(1, 2), func(a, b int) int { return 10*a + b }).ToSeq())
	}), Show([]int(seq.Map2(sx, fp.Seq[int]{1, 2}, func(a, b int) int { return 10*a + b }))))
	// laziness: an unbounded Generate / Recurrence is cut by taking a prefix through the iterator
	eq("list.Generate(unbounded)", run(func() string {
		cnt := 0
		l := list.Generate(func(i int) fp.Option[int] { tk(); cnt++; return fp.Some(i) })
		got := iterator.FromList(l).Take(len(xs)).ToSeq()
		if cnt > len(xs)+1 {
			return fmt.Sprintf("generator called %d times for %d elements", cnt, len(xs))
		}
		return Show(len(got))
	}), Show(len(xs)))
	eq("list.Recurrence1", run(func() string {
		l := list.Map(list.Recurrence1(1, func(a int) int { tk(); return a + 2 }), func(v int) int { return v })
		return Show(iterator.FromList(l).Take(len(xs)).ToSeq())
	}), Show(func() []int {
		out := []int{}
		for i := 0; i < len(xs); i++ {
			out = append(out, 1+2*i)
		}
		return out
	}()))
	return checks
}
