// Arity-indexed families of package future (C14 / C06): future/applicative_gen.go (ChainN / MonadChainN,
// ApplicativeN / ApplicativeFunctorN; arity 1 hand-written in future_op.go) and future/func_gen.go (LiftAN, LiftMN,
// FlapN, MethodN, FlatMethodN, FuncN, UnitN, ComposeN) with their hand-written bases.
//
// The per-arity call sites are generated (chain_gen.go, by harness/gen_future.py, from the repository's sources).
// Builders can be used in one go `(def (chain N fn step…))` or held and continued later `(cnew chain N fn)`,
// `(cstep b step)` with source completions and task runs in between, so that a method is called while the earlier
// positions are pending, failed or complete.  Every user callback logs the executor of the task it runs in
// (`@u` the caller's executor, `@d` the default one, `@s` synchronously outside any task).
package main

import (
	"fmt"
	"reflect"
	"strings"
	"unsafe"

	"github.com/csgura/fp"
	"github.com/csgura/fp/future"
	"github.com/csgura/fp/hlist"
	"github.com/csgura/fp/iterator"
	"github.com/csgura/fp/monoid"
	. "verifharness/common"
)

type builder interface {
	step(w *world, s *Sx) (builder, Fut, bool)
}

// bldRec: a builder value the scenario holds, with the calls made so far (for the direct evaluation)
type bldRec struct {
	kind  string // chain | applicative
	n     int
	fn    *Sx
	steps []*Sx
	b     builder
}

// curEx: the executor of the task that is running right now ("s": none, the scenario itself is running)
var curEx = "s"

func exArg(s *Sx) []fp.Executor { return exOf(s.List[1]) }

func exOf(x *Sx) []fp.Executor {
	if !x.IsL && x.Atom == "u" {
		return []fp.Executor{userExec{}}
	}
	return nil
}

func optOf(s *Sx) fp.Option[any] {
	if s.Head() == "some" {
		return fp.Some[any](s.List[1].Int())
	}
	return fp.None[any]()
}

func joinShow(xs []any) string {
	parts := make([]string, len(xs))
	for i, x := range xs {
		parts[i] = Show(x)
	}
	return strings.Join(parts, ",")
}

func wsum(xs []any) int {
	t := 0
	for i, x := range xs {
		t += (i + 1) * AsInt(x)
	}
	return t
}

// hlistSlice reads the (unexported) head/tail fields of hlist.Cons values: the contents, head (most recent) first.
func hlistSlice(v any) []any {
	out := []any{}
	for {
		if _, ok := v.(hlist.Nil); ok {
			return out
		}
		rv := reflect.ValueOf(v)
		if rv.Kind() != reflect.Struct || rv.NumField() != 2 {
			return append(out, "?"+fmt.Sprintf("%T", v))
		}
		cp := reflect.New(rv.Type()).Elem()
		cp.Set(rv)
		h := cp.Field(0)
		t := cp.Field(1)
		out = append(out, reflect.NewAt(h.Type(), unsafe.Pointer(h.UnsafeAddr())).Elem().Interface())
		v = reflect.NewAt(t.Type(), unsafe.Pointer(t.UnsafeAddr())).Elem().Interface()
	}
}

// headList: the head of the hlist as the model sees it: [] for hlist.Nil, [x] otherwise
func headList(h any) []any {
	if _, ok := h.(hlist.Nil); ok {
		return []any{}
	}
	return []any{h}
}

// ------------------------------------------------------------------------------------ user callbacks

// kind: the future a callback returns, from the number v it computed
func (w *world) kind(k *Sx, v int) Fut {
	if !k.IsL {
		return future.Successful[any](v) // succ
	}
	switch k.Head() {
	case "failif":
		if Emod(v, k.List[1].Int()) == 0 {
			return future.Failed[any](E(k.List[2].Int()))
		}
		return future.Successful[any](v)
	case "fail":
		return future.Failed[any](E(k.List[1].Int()))
	case "ref":
		return w.h(k.List[1])
	case "map":
		return future.Map(w.h(k.List[1]), lin(k.List[2]))
	}
	panic("bad KIND " + k.String())
}

// (sumN id) | (tupN id): logs fn<id>@<executor>:a1,…,aN
func (w *world) fnN(s *Sx, bid int) func(xs ...any) any {
	id := s.List[1].Int()
	sum := s.Head() == "sumN"
	return func(xs ...any) any {
		Emit("fn%d@%s:%s", id, curEx, joinShow(xs))
		w.onCallback(bid, -1, fmt.Sprintf("fn%d", id), "fn", append([]any{}, xs...))
		if sum {
			return wsum(xs)
		}
		return append([]any{}, xs...)
	}
}

// supInt: the number a supplier returns; in the direct run it depends on WHEN the supplier runs
func (w *world) supInt(id, base int) int {
	if dh != nil {
		v := base + 1000*(w.stmt+1)
		dh.supRec[id] = v
		return v
	}
	return base
}

// (apFutureFunc X (sup id BODY))
func (w *world) supF(s *Sx) func() Fut {
	sup := s.List[2]
	id, body := sup.List[1].Int(), sup.List[2]
	bid, pos := w.curB, w.curPos
	return func() Fut {
		Emit("s%d@%s", id, curEx)
		w.onCallback(bid, pos, fmt.Sprintf("s%d", id), "sup", nil)
		if body.Head() == "succ" {
			return future.Successful[any](w.supInt(id, body.List[1].Int()))
		}
		return w.kind(body, 0)
	}
}

// (apTryFunc X (sup id T))
func (w *world) supT(s *Sx) func() fp.Try[any] {
	sup := s.List[2]
	id, t := sup.List[1].Int(), tryOf(sup.List[2])
	bid, pos := w.curB, w.curPos
	return func() fp.Try[any] {
		Emit("s%d@%s", id, curEx)
		w.onCallback(bid, pos, fmt.Sprintf("s%d", id), "sup", nil)
		return t
	}
}

// (apOptionFunc X (sup id O))
func (w *world) supO(s *Sx) func() fp.Option[any] {
	sup := s.List[2]
	id, o := sup.List[1].Int(), optOf(sup.List[2])
	bid, pos := w.curB, w.curPos
	return func() fp.Option[any] {
		Emit("s%d@%s", id, curEx)
		w.onCallback(bid, pos, fmt.Sprintf("s%d", id), "sup", nil)
		return o
	}
}

// (apFunc X (sup id n))
func (w *world) supV(s *Sx) func() any {
	sup := s.List[2]
	id, n := sup.List[1].Int(), sup.List[2].Int()
	bid, pos := w.curB, w.curPos
	return func() any {
		Emit("s%d@%s", id, curEx)
		w.onCallback(bid, pos, fmt.Sprintf("s%d", id), "sup", nil)
		return w.supInt(id, n)
	}
}

func khCalc(w *world, k *Sx, bid, pos int, h any) int {
	id, a, b := k.List[1].Int(), k.List[2].Int(), k.List[3].Int()
	hd := headList(h)
	Emit("k%d@%s:%s", id, curEx, Show(hd))
	w.onCallback(bid, pos, fmt.Sprintf("k%d", id), "head", hd)
	hv := 0
	if len(hd) == 1 {
		hv = AsInt(hd[0])
	}
	return a*hv + b
}

// (flatMap X (kh id a b KIND))
func kHeadF[HT any](w *world, s *Sx) func(HT) Fut {
	k := s.List[2]
	bid, pos := w.curB, w.curPos
	return func(h HT) Fut { return w.kind(k.List[4], khCalc(w, k, bid, pos, any(h))) }
}

// (map X (kh id a b))
func kHeadV[HT any](w *world, s *Sx) func(HT) any {
	k := s.List[2]
	bid, pos := w.curB, w.curPos
	return func(h HT) any { return khCalc(w, k, bid, pos, any(h)) }
}

func hkCalc(w *world, k *Sx, bid, pos int, h any) int {
	id := k.List[1].Int()
	hl := hlistSlice(h)
	Emit("hk%d@%s:%s", id, curEx, Show(hl))
	w.onCallback(bid, pos, fmt.Sprintf("hk%d", id), "hlist", hl)
	return wsum(hl) + 1
}

// (hlistFlatMap X (hk id KIND))
func kHListF[H any](w *world, s *Sx) func(H) Fut {
	k := s.List[2]
	bid, pos := w.curB, w.curPos
	return func(h H) Fut { return w.kind(k.List[2], hkCalc(w, k, bid, pos, any(h))) }
}

// (hlistMap X (hk id))
func kHListV[H any](w *world, s *Sx) func(H) any {
	k := s.List[2]
	bid, pos := w.curB, w.curPos
	return func(h H) any { return hkCalc(w, k, bid, pos, any(h)) }
}

// (kn id KIND): N-ary, returns a future
func (w *world) knN(s *Sx) func(xs ...any) Fut {
	id := s.List[1].Int()
	return func(xs ...any) Fut {
		Emit("kn%d@%s:%s", id, curEx, joinShow(xs))
		w.onCallback(-1, -1, fmt.Sprintf("kn%d", id), "any", nil)
		return w.kind(s.List[2], wsum(xs))
	}
}

// (kx id KIND): unary, returns a future; `first` = it is ComposeN's first function, which the caller itself calls
func (w *world) kx(s *Sx, first bool) fp.Func1[any, Fut] {
	id := s.List[1].Int()
	return func(v any) Fut {
		Emit("kx%d@%s:%s", id, curEx, Show(v))
		if !first {
			w.onCallback(-1, -1, fmt.Sprintf("kx%d", id), "any", nil)
		}
		return w.kind(s.List[2], AsInt(v)+1)
	}
}

// (fe id mode e): func(…) (R, error); mode 1 returns the error, mode 2 panics
func (w *world) fe(s *Sx) func(xs ...any) (any, error) {
	id, m, e := s.List[1].Int(), s.List[2].Int(), s.List[3].Int()
	return func(xs ...any) (any, error) {
		Emit("fe%d@%s:%s", id, curEx, joinShow(xs))
		w.onCallback(-1, -1, fmt.Sprintf("fe%d", id), "any", nil)
		switch m {
		case 1:
			return nil, E(e)
		case 2:
			panic(e)
		}
		return append([]any{}, xs...), nil
	}
}

// (kt id a b m e): unary; r = a*v+b, failing with e when m != 0 divides r; logs kt<id>@<executor>:v
func (w *world) ktCalc(s *Sx, v any) (int, bool, int) {
	id, a, b, m, e := s.List[1].Int(), s.List[2].Int(), s.List[3].Int(), s.List[4].Int(), s.List[5].Int()
	Emit("kt%d@%s:%s", id, curEx, Show(v))
	r := a*AsInt(v) + b
	return r, m != 0 && Emod(r, m) == 0, e
}

func ktV(s *Sx, v any) (int, bool, int) {
	a, b, m, e := s.List[2].Int(), s.List[3].Int(), s.List[4].Int(), s.List[5].Int()
	r := a*AsInt(v) + b
	return r, m != 0 && Emod(r, m) == 0, e
}

func toSeqAny(x any) fp.Seq[any] {
	switch v := x.(type) {
	case []any:
		return fp.Seq[any](v)
	case fp.Seq[any]:
		return v
	}
	return fp.Seq[any]{x}
}

func seqToAny(xs fp.Seq[any]) any { return []any(xs) }

func intsOf(xs []*Sx) []any {
	out := make([]any, len(xs))
	for i, x := range xs {
		out[i] = x.Int()
	}
	return out
}

func (w *world) handles(xs []*Sx) []Fut {
	out := make([]Fut, len(xs))
	for i, x := range xs {
		out[i] = w.h(x)
	}
	return out
}

// ------------------------------------------------------------------------------------ builders

func (w *world) newBld(kind string, n int, fn *Sx) int {
	bid := len(w.blds)
	rec := &bldRec{kind: kind, n: n, fn: fn}
	w.blds = append(w.blds, rec)
	f := w.fnN(fn, bid)
	if kind == "chain" {
		rec.b = newChain(n, f)
	} else {
		rec.b = newApplicative(n, f)
	}
	return bid
}

// stepBld calls one method; done: it was the last one and fut is the final future
func (w *world) stepBld(bid int, st *Sx) (fut Fut, done bool) {
	rec := w.blds[bid]
	w.curB, w.curPos = bid, len(rec.steps)
	nb, fut, done := rec.b.step(w, st)
	w.curB, w.curPos = -1, -1
	rec.steps = append(rec.steps, st)
	rec.b = nb
	return fut, done
}

func (rec *bldRec) sx() *Sx {
	xs := []*Sx{A(rec.kind), I(rec.n), rec.fn}
	return L(append(xs, rec.steps...)...)
}

// buildFam: the definitions of this file; ok=false: not one of them
func (w *world) buildFam(s *Sx) (Fut, bool) {
	a := s.List
	w.curB, w.curPos = -1, -1
	switch s.Head() {
	case "chain", "applicative":
		bid := w.newBld(s.Head(), a[1].Int(), a[2])
		var fut Fut
		for _, st := range a[3:] {
			fut, _ = w.stepBld(bid, st)
		}
		return fut, true
	case "liftAN": // (liftA X FN H…)
		hs := w.handles(a[3:])
		return callLiftA(len(hs), w.fnN(a[2], -1), exOf(a[1]), hs), true
	case "zipN": // (zipN H…)
		hs := w.handles(a[1:])
		return callZip(len(hs), hs), true
	case "liftMN": // (liftM X KN H…)
		hs := w.handles(a[3:])
		return callLiftM(len(hs), w.knN(a[2]), exOf(a[1]), hs), true
	case "flap": // (flap X FN TF V…)
		vs := intsOf(a[4:])
		return callFlap(w, len(vs), w.fnN(a[2], -1), a[3], exOf(a[1]), vs), true
	case "method": // (method N X FN H V…)
		return callMethod(a[1].Int(), w.fnN(a[3], -1), exOf(a[2]), w.h(a[4]), intsOf(a[5:])), true
	case "flatMethod": // (flatMethod N X KN H V…)
		return callFlatMethod(a[1].Int(), w.knN(a[3]), exOf(a[2]), w.h(a[4]), intsOf(a[5:])), true
	case "func": // (func X FE V…)
		vs := intsOf(a[3:])
		return callFunc(len(vs), w.fe(a[2]), exOf(a[1]), vs), true
	case "unitf": // (unitf X FE V…)
		vs := intsOf(a[3:])
		return callUnit(len(vs), w.fe(a[2]), exOf(a[1]), vs), true
	case "apx": // (apx X FN H1 H2): future.Ap on a function future derived from H1
		fn := w.fnN(a[2], -1)
		tf := future.Map(w.h(a[3]), func(x any) fp.Func1[any, any] { return func(y any) any { return fn(x, y) } })
		return future.Ap(tf, w.h(a[4]), exOf(a[1])...), true
	case "apFuncx": // (apFuncx X FN H1 (sup id BODY))
		fn := w.fnN(a[2], -1)
		tf := future.Map(w.h(a[3]), func(x any) fp.Func1[any, any] { return func(y any) any { return fn(x, y) } })
		return future.ApFunc(tf, w.supF(L(A("apFutureFunc"), a[1], a[4])), exOf(a[1])...), true
	case "map2x": // (map2x X FN A B): future.Map2 itself, with an explicit executor
		fn := w.fnN(a[2], -1)
		return future.Map2(w.h(a[3]), w.h(a[4]), func(x, y any) any { return fn(x, y) }, exOf(a[1])...), true
	case "replace": // (replace H V)
		return future.Replace(w.h(a[1]), any(a[2].Int())), true
	case "withx": // (withx X FN H V): future.With(withf, H)(V)
		fn := w.fnN(a[2], -1)
		return future.With(func(x, y any) any { return fn(x, y) }, w.h(a[3]), exOf(a[1])...)(any(a[4].Int())), true
	case "fromTry":
		return future.FromTry(tryOf(a[1])), true
	case "fromOption":
		return future.FromOption(optOf(a[1])), true
	case "composeTry": // (composeTry X V KT KX)
		f1 := func(v any) fp.Try[any] {
			r, fail, e := w.ktCalc(a[3], v)
			if fail {
				return fp.Failure[any](E(e))
			}
			return fp.Success[any](r)
		}
		return future.ComposeTry(f1, w.kx(a[4], false), exOf(a[1])...)(any(a[2].Int())), true
	case "composeOption":
		f1 := func(v any) fp.Option[any] {
			r, fail, _ := w.ktCalc(a[3], v)
			if fail {
				return fp.None[any]()
			}
			return fp.Some[any](r)
		}
		return future.ComposeOption(f1, w.kx(a[4], false), exOf(a[1])...)(any(a[2].Int())), true
	case "composePure": // (composePure V KT)
		return future.ComposePure(func(v any) any { r, _, _ := w.ktCalc(a[2], v); return any(r) })(any(a[1].Int())), true
	case "traverseSlice": // (traverseSlice KF x…)
		xs := []any{}
		for _, x := range a[2:] {
			xs = append(xs, x.Int())
		}
		return future.Map(future.TraverseSlice(xs, w.kf(a[1]), ctx(w.mode)...), func(xs []any) any { return xs }), true
	case "traverseFunc": // (traverseFunc KF x…): future.TraverseFunc(far)(iterator)
		xs := []any{}
		for _, x := range a[2:] {
			xs = append(xs, x.Int())
		}
		return future.Map(future.TraverseFunc(w.kf(a[1]), ctx(w.mode)...)(iterator.FromSeq(xs)), func(it fp.Iterator[any]) any { return []any(it.ToSeq()) }), true
	case "monoidFut": // (monoidFut FN A B): monoid.Future(m).Combine(A, B) with m.Combine = FN
		fn := w.fnN(a[1], -1)
		m := monoid.New(func() any { Emit("mzero"); return 0 }, func(x, y any) any { return fn(x, y) })
		return monoid.Future(m).Combine(w.h(a[2]), w.h(a[3])), true
	case "monoidFutEmpty": // (monoidFutEmpty V): monoid.Future(m).Empty() with m.Empty() = V
		v := a[1].Int()
		m := monoid.New(func() any { return v }, func(x, y any) any { Emit("mcombine"); return x })
		return monoid.Future(m).Empty(), true
	case "sequenceIt": // (sequenceIt H…)
		return future.Map(future.SequenceIterator(iterator.FromSeq(w.handles(a[1:])), ctx(w.mode)...), func(it fp.Iterator[any]) any { return []any(it.ToSeq()) }), true
	case "flatMapTraverseSeq": // (flatMapTraverseSeq H KF)
		return future.Map(future.FlatMapTraverseSeq(future.Map(w.h(a[1]), toSeqAny), w.kf(a[2]), ctx(w.mode)...), seqToAny), true
	case "flatMapTraverseSlice":
		ta := future.Map(w.h(a[1]), func(x any) []any { return []any(toSeqAny(x)) })
		return future.Map(future.FlatMapTraverseSlice(ta, w.kf(a[2]), ctx(w.mode)...), func(xs []any) any { return xs }), true
	case "mapSeqLift": // (mapSeqLift X H KT)
		f := func(v any) any { r, _, _ := w.ktCalc(a[3], v); return any(r) }
		if a[2].Head() == "slice" {
			ta := future.Map(w.h(a[2].List[1]), func(x any) []any { return []any(toSeqAny(x)) })
			return future.Map(future.MapSliceLift(ta, f, exOf(a[1])...), func(xs []any) any { return xs }), true
		}
		return future.Map(future.MapSeqLift(future.Map(w.h(a[2]), toSeqAny), f, exOf(a[1])...), seqToAny), true
	case "func0": // (func0 X FE)
		fe := w.fe(a[2])
		return future.Func0(func() (any, error) { return fe() }, exOf(a[1])...)(fp.Unit{}), true
	case "composeN": // (composeN X V K…)
		ks := []fp.Func1[any, Fut]{}
		for i, k := range a[3:] {
			ks = append(ks, w.kx(k, i == 0))
		}
		return callCompose(len(ks), ks, exOf(a[1]), any(a[2].Int())), true
	}
	return Fut{}, false
}

// ------------------------------------------------------------------------------------ generator

var chainKinds = []string{"apFuture", "ap", "apTry", "apOption", "apFutureFunc", "apTryFunc", "apOptionFunc", "apFunc",
	"flatMap", "map", "hlistFlatMap", "hlistMap"}

var focusCtr int
var covChain = map[string]bool{}

func genX(r *Rng) *Sx { return A(Pick(r, "u", "d")) }

func genKind(r *Rng, nsrc, ndef int) *Sx {
	switch r.Intn(8) {
	case 0:
		return L(A("failif"), I(r.Range(2, 3)), I(r.Range(1, 9)))
	case 1:
		return L(A("fail"), I(r.Range(1, 9)))
	case 2:
		return L(A("ref"), genH(r, nsrc, ndef))
	case 3:
		return L(A("map"), genH(r, nsrc, ndef), genLin(r))
	}
	return A("succ")
}

func genOperandTry(r *Rng) *Sx {
	if r.Intn(4) == 0 {
		return L(A("fail"), I(r.Range(1, 9)))
	}
	return L(A("succ"), I(r.Range(-3, 9)))
}

func genStep(r *Rng, kind string, nsrc, ndef int) *Sx {
	switch kind {
	case "apFuture":
		return L(A(kind), genH(r, nsrc, ndef))
	case "ap":
		return L(A(kind), I(r.Range(-3, 9)))
	case "apTry":
		return L(A(kind), genOperandTry(r))
	case "apOption":
		if r.Intn(4) == 0 {
			return L(A(kind), L(A("none")))
		}
		return L(A(kind), L(A("some"), I(r.Range(-3, 9))))
	case "apFutureFunc":
		body := genKind(r, nsrc, ndef)
		if !body.IsL || body.Head() == "failif" {
			body = L(A("succ"), I(r.Range(-3, 9)))
		}
		return L(A(kind), genX(r), L(A("sup"), I(NewID()), body))
	case "apTryFunc":
		return L(A(kind), genX(r), L(A("sup"), I(NewID()), genOperandTry(r)))
	case "apOptionFunc":
		o := L(A("some"), I(r.Range(-3, 9)))
		if r.Intn(4) == 0 {
			o = L(A("none"))
		}
		return L(A(kind), genX(r), L(A("sup"), I(NewID()), o))
	case "apFunc":
		return L(A(kind), genX(r), L(A("sup"), I(NewID()), I(r.Range(-3, 9))))
	case "flatMap":
		return L(A(kind), genX(r), L(A("kh"), I(NewID()), I(r.Range(-2, 3)), I(r.Range(-3, 5)), genKind(r, nsrc, ndef)))
	case "map":
		return L(A(kind), genX(r), L(A("kh"), I(NewID()), I(r.Range(-2, 3)), I(r.Range(-3, 5))))
	case "hlistFlatMap":
		return L(A(kind), genX(r), L(A("hk"), I(NewID()), genKind(r, nsrc, ndef)))
	case "hlistMap":
		return L(A(kind), genX(r), L(A("hk"), I(NewID())))
	}
	panic(kind)
}

func genFN(r *Rng) *Sx { return L(A(Pick(r, "sumN", "tupN")), I(NewID())) }

// builderPlan: arity and the method of every position; one position is the round-robin FOCUS
// (receiver arity x method), so that every method of every receiver arity is reached quickly.
func builderPlan(r *Rng, kind string) (n int, kinds []string) {
	ars := genArities[kind]
	if len(ars) == 0 {
		return 0, nil
	}
	nk := 12
	if kind == "applicative" {
		nk = 8
	}
	focusCtr++
	maxN := ars[len(ars)-1]
	k := 1 + (focusCtr/nk)%maxN // receiver arity of the focus
	m := chainKinds[focusCtr%nk]
	n = k + r.Intn(maxN-k+1)
	if r.Intn(3) == 0 { // keep many chains short
		n = k
	}
	for !containsInt(ars, n) {
		n = ars[r.Intn(len(ars))]
		if n < k {
			k = n
		}
	}
	for i := 0; i < n; i++ {
		kinds = append(kinds, chainKinds[r.Intn(nk)])
	}
	kinds[n-k] = m
	for i, kd := range kinds {
		covChain[fmt.Sprintf("%s.%d.%s", kind, n-i, kd)] = true
		hist[kind+"."+kd]++
	}
	hist[fmt.Sprintf("%s/%d", kind, n)]++
	return n, kinds
}

func containsInt(xs []int, x int) bool {
	for _, y := range xs {
		if y == x {
			return true
		}
	}
	return false
}

var famCtr = map[string]int{}
var handCtr, sliceCtr int

func pickArity(r *Rng, fam string, lo int) int {
	ars := []int{}
	for _, a := range genArities[fam] {
		if a >= lo {
			ars = append(ars, a)
		}
	}
	if len(ars) == 0 {
		return 0
	}
	// ARITY2: mostly round-robin per family (every member x arity is reached within a few draws, whatever the
	// seed and however small the run); every third draw stays random
	famCtr[fam]++
	n := ars[(famCtr[fam]/2)%len(ars)]
	if famCtr[fam]%3 == 0 {
		n = ars[r.Intn(len(ars))]
	}
	hist[fmt.Sprintf("%s/%d", strings.TrimPrefix(fam, "future."), n)]++
	return n
}

func genInts(r *Rng, n int) []*Sx {
	out := []*Sx{}
	for i := 0; i < n; i++ {
		out = append(out, I(r.Range(-3, 9)))
	}
	return out
}

func genHs(r *Rng, n, nsrc, ndef int) []*Sx {
	out := []*Sx{}
	for i := 0; i < n; i++ {
		out = append(out, genH(r, nsrc, ndef))
	}
	return out
}

func genFE(r *Rng) *Sx {
	m := 0
	switch r.Intn(6) {
	case 0:
		m = 1
	case 1:
		m = 2
	}
	return L(A("fe"), I(NewID()), I(m), I(r.Range(1, 9)))
}

// genFam: one definition of the arity-indexed families; nil if the family does not exist in the source
func genFam(r *Rng, nsrc, ndef int) *Sx {
	cat := func(head []*Sx, tail []*Sx) *Sx { return L(append(head, tail...)...) }
	switch r.Intn(17) {
	case 14, 15, 16:
		return genHand(r, nsrc, ndef)
	case 0, 1, 2:
		n, kinds := builderPlan(r, "chain")
		if n == 0 {
			return nil
		}
		xs := []*Sx{A("chain"), I(n), genFN(r)}
		for _, kd := range kinds {
			xs = append(xs, genStep(r, kd, nsrc, ndef))
		}
		return L(xs...)
	case 3, 4:
		n, kinds := builderPlan(r, "applicative")
		if n == 0 {
			return nil
		}
		xs := []*Sx{A("applicative"), I(n), genFN(r)}
		for _, kd := range kinds {
			xs = append(xs, genStep(r, kd, nsrc, ndef))
		}
		return L(xs...)
	case 5:
		if n := pickArity(r, "future.LiftAN", 1); n > 0 {
			return cat([]*Sx{A("liftAN"), genX(r), genFN(r)}, genHs(r, n, nsrc, ndef))
		}
	case 6:
		if n := pickArity(r, "future.LiftMN", 1); n > 0 {
			return cat([]*Sx{A("liftMN"), genX(r), L(A("kn"), I(NewID()), genKind(r, nsrc, ndef))}, genHs(r, n, nsrc, ndef))
		}
	case 7:
		if n := pickArity(r, "future.FlapN", 1); n > 0 {
			tf := L(A("tfs"))
			if r.Bool() {
				tf = L(A("tfm"), genH(r, nsrc, ndef))
			}
			return cat([]*Sx{A("flap"), genX(r), genFN(r), tf}, genInts(r, n))
		}
	case 8:
		if n := pickArity(r, "future.MethodN", 1); n > 0 {
			rest := n - 1
			if n <= 2 {
				rest = n
			}
			return cat([]*Sx{A("method"), I(n), genX(r), genFN(r), genH(r, nsrc, ndef)}, genInts(r, rest))
		}
	case 9:
		if n := pickArity(r, "future.FlatMethodN", 1); n > 0 {
			rest := n - 1
			if n <= 2 {
				rest = n
			}
			return cat([]*Sx{A("flatMethod"), I(n), genX(r), L(A("kn"), I(NewID()), genKind(r, nsrc, ndef)), genH(r, nsrc, ndef)}, genInts(r, rest))
		}
	case 10:
		if n := pickArity(r, "future.FuncN", 1); n > 0 {
			return cat([]*Sx{A("func"), genX(r), genFE(r)}, genInts(r, n))
		}
	case 11:
		if n := pickArity(r, "future.UnitN", 1); n > 0 {
			return cat([]*Sx{A("unitf"), genX(r), genFE(r)}, genInts(r, n))
		}
	case 12:
		if n := pickArity(r, "future.ComposeN", 2); n > 0 {
			ks := []*Sx{}
			for i := 0; i < n; i++ {
				ks = append(ks, L(A("kx"), I(NewID()), genKind(r, nsrc, ndef)))
			}
			return cat([]*Sx{A("composeN"), genX(r), I(r.Range(-3, 9))}, ks)
		}
	case 13:
		if n := pickArity(r, "future.ZipN", 2); n > 0 {
			return cat([]*Sx{A("zipN")}, genHs(r, n, nsrc, ndef))
		}
	}
	return nil
}

func genKT(r *Rng) *Sx {
	m := 0
	if r.Intn(3) == 0 {
		m = r.Range(2, 3)
	}
	return L(A("kt"), I(NewID()), I(r.Range(-2, 3)), I(r.Range(-3, 5)), I(m), I(r.Range(1, 9)))
}

// genHand: the hand-written combinators of future_op.go that are not families
func genHand(r *Rng, nsrc, ndef int) *Sx {
	h := func() *Sx { return genH(r, nsrc, ndef) }
	kx := func() *Sx { return L(A("kx"), I(NewID()), genKind(r, nsrc, ndef)) }
	// ARITY2: round-robin over the hand-written combinators (every one is reached in every run)
	handCtr++
	k := handCtr % 18
	if handCtr%4 == 0 {
		k = r.Intn(18)
	}
	hist["hand"]++
	switch k {
	case 15:
		xs := []*Sx{A("traverseFunc"), genKF(r, nsrc, ndef)}
		for i, n := 0, r.Intn(4); i < n; i++ {
			xs = append(xs, I(r.Range(0, 6)))
		}
		hist["hand:traverseFunc"]++
		return L(xs...)
	case 16:
		hist["hand:monoidFut"]++
		return L(A("monoidFut"), genFN(r), h(), h())
	case 17:
		hist["hand:monoidFutEmpty"]++
		return L(A("monoidFutEmpty"), I(r.Range(-3, 9)))
	case 0:
		return L(A("apx"), genX(r), genFN(r), h(), h())
	case 1:
		body := genKind(r, nsrc, ndef)
		if !body.IsL || body.Head() == "failif" {
			body = L(A("succ"), I(r.Range(-3, 9)))
		}
		return L(A("apFuncx"), genX(r), genFN(r), h(), L(A("sup"), I(NewID()), body))
	case 2:
		return L(A("map2x"), genX(r), genFN(r), h(), h())
	case 3:
		return L(A("replace"), h(), I(r.Range(-3, 9)))
	case 4:
		return L(A("withx"), genX(r), genFN(r), h(), I(r.Range(-3, 9)))
	case 5:
		return L(A("fromTry"), genOperandTry(r))
	case 6:
		if r.Bool() {
			return L(A("fromOption"), L(A("none")))
		}
		return L(A("fromOption"), L(A("some"), I(r.Range(-3, 9))))
	case 7:
		return L(A("composeTry"), genX(r), I(r.Range(-3, 9)), genKT(r), kx())
	case 8:
		return L(A("composeOption"), genX(r), I(r.Range(-3, 9)), genKT(r), kx())
	case 9:
		return L(A("composePure"), I(r.Range(-3, 9)), genKT(r))
	case 10:
		xs := []*Sx{A("traverseSlice"), genKF(r, nsrc, ndef)}
		for i, n := 0, r.Intn(4); i < n; i++ {
			xs = append(xs, I(r.Range(0, 6)))
		}
		return L(xs...)
	case 11:
		xs := []*Sx{A("sequenceIt")}
		for i, n := 0, r.Intn(4); i < n; i++ {
			xs = append(xs, h())
		}
		return L(xs...)
	case 12:
		return L(A(Pick(r, "flatMapTraverseSeq", "flatMapTraverseSlice")), h(), genKF(r, nsrc, ndef))
	case 13:
		sliceCtr++
		if sliceCtr%2 == 0 {
			hist["hand:mapSliceLift"]++
			return L(A("mapSeqLift"), genX(r), L(A("slice"), h()), genKT(r))
		}
		hist["hand:mapSeqLift"]++
		return L(A("mapSeqLift"), genX(r), h(), genKT(r))
	case 14:
		return L(A("func0"), genX(r), genFE(r))
	}
	return L(A("map2x"), genX(r), genFN(r), h(), h())
}

// genOrderedScenario: operand-ORDER scenarios.  Every source gets its own error code; some sources are failed, some
// succeed, some stay pending while multi-operand combinators are built over them in random arrangements, with a
// drain + snapshot after every completion: an EARLIER operand failed while a LATER one is pending (the result must be
// determined at once) or failed with a different error (the earlier error must win).
func genOrderedScenario(r *Rng) *Sx {
	ResetIDs()
	nsrc := r.Range(2, 4)
	stmts := []*Sx{A("scenario"), I(nsrc), I(r.Intn(2))}
	fate := make([]*Sx, nsrc) // what each source will complete with
	for i := range fate {
		if r.Intn(5) < 3 {
			fate[i] = L(A("fail"), I(i+1))
		} else {
			fate[i] = L(A("succ"), I(r.Range(-3, 9)))
		}
	}
	order := []int{}
	for i := 0; i < nsrc; i++ {
		order = append(order, i)
	}
	for i := nsrc - 1; i > 0; i-- {
		j := r.Intn(i + 1)
		order[i], order[j] = order[j], order[i]
	}
	early := r.Intn(nsrc + 1) // how many sources complete before the definitions
	for _, i := range order[:early] {
		stmts = append(stmts, L(A("src"), I(i), fate[i]))
	}
	src := func() *Sx { return L(A("s"), I(r.Intn(nsrc))) }
	srcs := func(n int) []*Sx {
		out := []*Sx{}
		for i := 0; i < n; i++ {
			out = append(out, src())
		}
		return out
	}
	cat := func(head []*Sx, tail []*Sx) *Sx { return L(append(head, tail...)...) }
	ndefs := r.Range(2, 6)
	for d := 0; d < ndefs; d++ {
		var def *Sx
		switch r.Intn(16) {
		case 0, 1, 14:
			if n := pickArity(r, "future.LiftMN", 2); n > 0 {
				def = cat([]*Sx{A("liftMN"), genX(r), L(A("kn"), I(NewID()), A("succ"))}, srcs(n))
			}
		case 2, 3, 15:
			if n := pickArity(r, "future.LiftAN", 2); n > 0 {
				def = cat([]*Sx{A("liftAN"), genX(r), genFN(r)}, srcs(n))
			}
		case 4:
			if n := pickArity(r, "future.ZipN", 2); n > 0 {
				def = cat([]*Sx{A("zipN")}, srcs(n))
			}
		case 5:
			def = L(A("map2x"), genX(r), genFN(r), src(), src())
			if r.Bool() { // ARITY2: monoid.Future(m).Combine: operand order under every completion order
				def = L(A("monoidFut"), genFN(r), src(), src())
			}
		case 6:
			def = L(A("apx"), genX(r), genFN(r), src(), src())
		case 7:
			def = L(A("map2"), src(), src(), genF2(r))
		case 8:
			def = cat([]*Sx{A("sequence")}, srcs(r.Range(2, 4)))
		case 9:
			def = Pick(r, L(A("zip"), src(), src()), L(A("zip3"), src(), src(), src()), L(A("liftA3"), L(A("g3"), I(NewID())), src(), src(), src()),
				cat([]*Sx{A("sequenceIt")}, srcs(r.Range(2, 4))))
		case 10, 11:
			kind := Pick(r, "chain", "applicative")
			if n, kinds := builderPlan(r, kind); n > 0 {
				xs := []*Sx{A(kind), I(n), genFN(r)}
				for _, kd := range kinds {
					if r.Intn(3) != 0 {
						xs = append(xs, L(A("apFuture"), src()))
					} else {
						xs = append(xs, genStep(r, kd, nsrc, d))
					}
				}
				def = L(xs...)
			}
		case 12:
			def = L(A("m.flatMap"), src(), L(A("kf"), I(NewID()), A("ref"), src()))
		case 13:
			def = L(A("flatMap"), src(), L(A("kf"), I(NewID()), A("map"), src(), genLin(r)))
		}
		if def == nil {
			def = L(A("map2x"), genX(r), genFN(r), src(), src())
		}
		hist["ordered."+def.Head()]++
		stmts = append(stmts, L(A("def"), def))
	}
	stmts = append(stmts, L(A("drain")), L(A("snap")))
	for _, i := range order[early:] {
		stmts = append(stmts, L(A("src"), I(i), fate[i]))
		if r.Intn(4) == 0 {
			stmts = append(stmts, L(A("run"), I(r.Intn(3))))
		}
		stmts = append(stmts, L(A("drain")), L(A("snap")))
	}
	hist["ordered"]++
	return L(stmts...)
}

// ------------------------------------------------------------------------------------ direct (model-free) checks

// dHook is installed for the direct run only.
type dHook struct {
	sink   *Sink
	op     *Sx
	failed *bool
	calls  map[string]int
	supRec map[int]int // supplier id -> the (time dependent) number it returned
}

var dh *dHook

func (d *dHook) fail(key, what string) {
	if *d.failed {
		return
	}
	*d.failed = true
	d.sink.DirectFail(key, d.op.String(), what)
}

// onCallback: called from inside every supplier / callback / fn of this file, at the moment it runs.
func (w *world) onCallback(bid, pos int, name, what string, arg any) {
	if dh == nil {
		return
	}
	directChecks++
	dh.calls[name]++
	if dh.calls[name] > 1 {
		dh.fail("futchain/callback-twice", fmt.Sprintf("%s ran %d times", name, dh.calls[name]))
	}
	if curEx == "s" {
		dh.fail("futchain/eager", fmt.Sprintf("after statement %d: %s ran synchronously, while the future was being constructed (no task running)", w.stmt, name))
		return
	}
	if bid < 0 {
		return
	}
	rec := w.blds[bid]
	if what == "fn" {
		pos = rec.n
		if len(rec.steps) < rec.n {
			dh.fail("futchain/fn-early", fmt.Sprintf("%s ran after %d of %d method calls", name, len(rec.steps), rec.n))
			return
		}
	}
	c := &evalCtx{w: w, defs: w.defSx}
	vals, st := c.prefix(rec.steps, pos)
	directChecks++
	if !st.ok && c.usesApply(rec.sx()) {
		return // an earlier position waits for a task-completed future (Apply/FuncN): not a function of the sources
	}
	if !st.ok {
		dh.fail("futchain/callback-before-determined", fmt.Sprintf("after statement %d: %s (position %d of builder %s) ran although an earlier position is not determined yet", w.stmt, name, pos+1, rec.sx()))
		return
	}
	if !st.t.IsSuccess() {
		dh.fail("futchain/callback-after-failure", fmt.Sprintf("after statement %d: %s (position %d of builder %s) ran although an earlier position failed with %s", w.stmt, name, pos+1, rec.sx(), Show(st.t)))
		return
	}
	var want []any
	switch what {
	case "head":
		want = []any{}
		if len(vals) > 0 {
			want = []any{vals[len(vals)-1]}
		}
	case "hlist":
		want = []any{}
		for i := len(vals) - 1; i >= 0; i-- {
			want = append(want, vals[i])
		}
	case "fn":
		want = vals
	default:
		return
	}
	if Show(arg) != Show(want) {
		dh.fail("futchain/callback-args", fmt.Sprintf("after statement %d: %s (position %d of builder %s) received %s but the values so far are %s", w.stmt, name, pos+1, rec.sx(), Show(arg), Show(want)))
	}
}

// supplierLiveness: at quiescence, a supplier whose earlier positions are all determined successes must have run
func (w *world) supplierLiveness() {
	if dh == nil {
		return
	}
	c := &evalCtx{w: w, defs: w.defSx}
	for _, rec := range w.blds {
		for i, st := range rec.steps {
			id, base := -1, 0
			switch st.Head() {
			case "apFunc":
				id, base = st.List[2].List[1].Int(), 0
			case "apFutureFunc":
				if st.List[2].List[2].Head() == "succ" {
					id = st.List[2].List[1].Int()
				}
			}
			_ = base
			if id < 0 {
				continue
			}
			if _, ran := dh.supRec[id]; ran {
				continue
			}
			directChecks++
			if _, pst := c.prefix(rec.steps, i); pst.ok && pst.t.IsSuccess() && !c.usesApply(rec.sx()) {
				dh.fail("futchain/supplier-not-run", fmt.Sprintf("after statement %d (no runnable task left): supplier s%d (position %d of builder %s) has not run although every earlier position is a determined success", w.stmt, id, i+1, rec.sx()))
			}
		}
	}
}

func (c *evalCtx) kindV(k *Sx, v int) tv {
	if !k.IsL {
		return det(fp.Success[any](v))
	}
	switch k.Head() {
	case "failif":
		if Emod(v, k.List[1].Int()) == 0 {
			return det(fp.Failure[any](E(k.List[2].Int())))
		}
		return det(fp.Success[any](v))
	case "fail":
		return det(fp.Failure[any](E(k.List[1].Int())))
	case "ref":
		return c.h(k.List[1])
	case "map":
		return fmap(c.h(k.List[1]), func(x any) any { return linV(k.List[2], x) })
	}
	panic("bad KIND")
}

// supNum: the number a supplier returned when it ran; ok=false: it has not run yet
func supNum(id, base int) tv {
	if dh != nil {
		if v, ok := dh.supRec[id]; ok {
			return det(fp.Success[any](v))
		}
		return undet
	}
	return det(fp.Success[any](base))
}

// operand: what one method call contributes, given the values of the earlier positions (oldest first)
func (c *evalCtx) operand(st *Sx, vals []any) tv {
	a := st.List
	switch st.Head() {
	case "apFuture":
		return c.h(a[1])
	case "ap":
		return det(fp.Success[any](a[1].Int()))
	case "apTry":
		return det(tryOf(a[1]))
	case "apOption":
		if a[1].Head() == "some" {
			return det(fp.Success[any](a[1].List[1].Int()))
		}
		return det(fp.Failure[any](fp.ErrOptionEmpty))
	case "apFutureFunc":
		sup := a[2]
		if sup.List[2].Head() == "succ" {
			return supNum(sup.List[1].Int(), sup.List[2].List[1].Int())
		}
		return c.kindV(sup.List[2], 0)
	case "apTryFunc":
		return det(tryOf(a[2].List[2]))
	case "apOptionFunc":
		if a[2].List[2].Head() == "some" {
			return det(fp.Success[any](a[2].List[2].List[1].Int()))
		}
		return det(fp.Failure[any](fp.ErrOptionEmpty))
	case "apFunc":
		return supNum(a[2].List[1].Int(), a[2].List[2].Int())
	case "flatMap", "map":
		k := a[2]
		hv := 0
		if len(vals) > 0 {
			hv = AsInt(vals[len(vals)-1])
		}
		v := k.List[2].Int()*hv + k.List[3].Int()
		if st.Head() == "map" {
			return det(fp.Success[any](v))
		}
		return c.kindV(k.List[4], v)
	case "hlistFlatMap", "hlistMap":
		hl := []any{}
		for i := len(vals) - 1; i >= 0; i-- {
			hl = append(hl, vals[i])
		}
		v := wsum(hl) + 1
		if st.Head() == "hlistMap" {
			return det(fp.Success[any](v))
		}
		return c.kindV(a[2].List[2], v)
	}
	panic("bad step " + st.String())
}

// prefix: the values of positions [0, upto) if they are all determined successes; otherwise the first position
// that is not (left to right): its failure, or undetermined
func (c *evalCtx) prefix(steps []*Sx, upto int) ([]any, tv) {
	vals := []any{}
	for i := 0; i < upto && i < len(steps); i++ {
		o := c.operand(steps[i], vals)
		if !o.ok {
			return nil, undet
		}
		if !o.t.IsSuccess() {
			return nil, o
		}
		vals = append(vals, o.t.Get())
	}
	return vals, det(fp.Success[any](nil))
}

func fnV(fn *Sx, vals []any) any {
	if fn.Head() == "sumN" {
		return wsum(vals)
	}
	return append([]any{}, vals...)
}

func (c *evalCtx) hsAll(hs []*Sx) ([]any, tv) {
	vals := []any{}
	for _, h := range hs {
		o := c.h(h)
		if !o.ok {
			return nil, undet
		}
		if !o.t.IsSuccess() {
			return nil, o
		}
		vals = append(vals, o.t.Get())
	}
	return vals, det(fp.Success[any](nil))
}

func feResult(fe *Sx, vals []any) fp.Try[any] {
	switch fe.List[2].Int() {
	case 1:
		return fp.Failure[any](E(fe.List[3].Int()))
	case 2:
		return fp.Failure[any](fmt.Errorf("panic"))
	}
	return fp.Success[any](append([]any{}, vals...))
}

// famDef: the defining equation of each family, over fp.Try, three-valued
func (c *evalCtx) famDef(s *Sx) (tv, bool) {
	a := s.List
	switch s.Head() {
	case "chain", "applicative":
		vals, st := c.prefix(a[3:], a[1].Int())
		if !st.ok || !st.t.IsSuccess() {
			return st, true
		}
		return det(fp.Success(fnV(a[2], vals))), true
	case "liftAN":
		vals, st := c.hsAll(a[3:])
		if !st.ok || !st.t.IsSuccess() {
			return st, true
		}
		return det(fp.Success(fnV(a[2], vals))), true
	case "zipN":
		vals, st := c.hsAll(a[1:])
		if !st.ok || !st.t.IsSuccess() {
			return st, true
		}
		return det(fp.Success[any](vals)), true
	case "liftMN":
		vals, st := c.hsAll(a[3:])
		if !st.ok || !st.t.IsSuccess() {
			return st, true
		}
		return c.kindV(a[2].List[2], wsum(vals)), true
	case "flap":
		if a[3].Head() == "tfm" {
			t := c.h(a[3].List[1])
			if !t.ok || !t.t.IsSuccess() {
				return t, true
			}
		}
		return det(fp.Success(fnV(a[2], intsOf(a[4:])))), true
	case "method":
		return fmap(c.h(a[4]), func(x any) any { return fnV(a[3], append([]any{x}, intsOf(a[5:])...)) }), true
	case "flatMethod":
		return bind(c.h(a[4]), func(x any) tv { return c.kindV(a[3].List[2], wsum(append([]any{x}, intsOf(a[5:])...))) }), true
	case "func":
		return tv{ok: false, t: feResult(a[2], intsOf(a[3:]))}, true
	case "unitf":
		r := feResult(a[2], intsOf(a[3:]))
		if r.IsSuccess() {
			r = fp.Success[any](fp.Unit{})
		}
		return tv{ok: false, t: r}, true
	case "monoidFut": // left operand first, whatever completes first
		return bind(c.h(a[2]), func(x any) tv { return fmap(c.h(a[3]), func(y any) any { return fnV(a[1], []any{x, y}) }) }), true
	case "monoidFutEmpty":
		return det(fp.Success[any](a[1].Int())), true
	case "apx", "map2x":
		i := 3
		return bind(c.h(a[i]), func(x any) tv { return fmap(c.h(a[i+1]), func(y any) any { return fnV(a[2], []any{x, y}) }) }), true
	case "apFuncx":
		return bind(c.h(a[3]), func(x any) tv {
			return fmap(c.operand(L(A("apFutureFunc"), a[1], a[4]), nil), func(y any) any { return fnV(a[2], []any{x, y}) })
		}), true
	case "replace":
		return fmap(c.h(a[1]), func(any) any { return a[2].Int() }), true
	case "withx":
		return fmap(c.h(a[3]), func(b any) any { return fnV(a[2], []any{a[4].Int(), b}) }), true
	case "fromTry":
		return det(tryOf(a[1])), true
	case "fromOption":
		if a[1].Head() == "some" {
			return det(fp.Success[any](a[1].List[1].Int())), true
		}
		return det(fp.Failure[any](fp.ErrOptionEmpty)), true
	case "composeTry", "composeOption":
		r, fail, e := ktV(a[3], a[2].Int())
		if fail {
			if s.Head() == "composeOption" {
				return det(fp.Failure[any](fp.ErrOptionEmpty)), true
			}
			return det(fp.Failure[any](E(e))), true
		}
		return c.kindV(a[4].List[2], r+1), true
	case "composePure":
		r, _, _ := ktV(a[2], a[1].Int())
		return det(fp.Success[any](r)), true
	case "traverseSlice", "traverseFunc":
		acc := det(fp.Success[any]([]any{}))
		for _, e := range a[2:] {
			e := e
			acc = bind(acc, func(l any) tv {
				return fmap(c.kf(a[1], e.Int()), func(v any) any { return append(append([]any{}, l.([]any)...), v) })
			})
		}
		return acc, true
	case "sequenceIt":
		xs := []tv{}
		for _, hh := range a[1:] {
			xs = append(xs, c.h(hh))
		}
		return seqAll(xs), true
	case "flatMapTraverseSeq", "flatMapTraverseSlice":
		return bind(c.h(a[1]), func(x any) tv {
			acc := det(fp.Success[any]([]any{}))
			for _, e := range toSeqAny(x) {
				e := e
				acc = bind(acc, func(l any) tv {
					return fmap(c.kf(a[2], e), func(v any) any { return append(append([]any{}, l.([]any)...), v) })
				})
			}
			return acc
		}), true
	case "mapSeqLift":
		hh := a[2]
		if hh.Head() == "slice" {
			hh = hh.List[1]
		}
		return fmap(c.h(hh), func(x any) any {
			out := []any{}
			for _, e := range toSeqAny(x) {
				r, _, _ := ktV(a[3], e)
				out = append(out, r)
			}
			return out
		}), true
	case "func0":
		return tv{ok: false, t: feResult(a[2], nil)}, true
	case "composeN":
		acc := det(fp.Success[any](a[2].Int()))
		for _, k := range a[3:] {
			k := k
			acc = bind(acc, func(v any) tv { return c.kindV(k.List[2], AsInt(v)+1) })
		}
		return acc, true
	}
	return undet, false
}
