// Correspondence + direct harness for fp.Future / package future at task granularity (C06).
// Every task the library spawns (default executors through the verif spawn hook, and a user-supplied
// executor) lands in one pool owned by this harness; a scenario is a script of constructions,
// source completions and "run the i-th pooled task" events, so a schedule replays exactly.
package main

import (
	"flag"
	"fmt"
	"os"
	"regexp"
	"runtime/debug"
	"strconv"
	"strings"

	"github.com/csgura/fp"
	"github.com/csgura/fp/future"
	"github.com/csgura/fp/iterator"
	"github.com/csgura/fp/promise"
	. "verifharness/common"
)

type Fut = fp.Future[any]

// ptask: a pooled task and the executor it was handed to ("u": the user-supplied executor, "d": a default
// executor, caught by the spawn hook)
type ptask struct {
	run func()
	ex  string
}

var pool []ptask

type userExec struct{}

func (userExec) ExecuteUnsafe(r fp.Runnable) { pool = append(pool, ptask{r.Run, "u"}) }

func runPooled(t ptask) {
	curEx = t.ex
	defer func() { curEx = "s" }()
	t.run()
}

// ctx returns the executor argument for combinators that accept one: mode 0 = none (default executor,
// captured by the spawn hook), mode 1 = the user-supplied executor.
func ctx(mode int) []fp.Executor {
	if mode == 1 {
		return []fp.Executor{userExec{}}
	}
	return nil
}

type world struct {
	srcP []fp.Promise[any]
	defs []Fut
	mode int
	// arity-indexed builders (chain.go)
	defSx        []*Sx // the definition each entry of defs was built from
	blds         []*bldRec
	curB, curPos int
	stmt         int // index of the statement being executed
}

func (w *world) h(s *Sx) Fut {
	if s.Head() == "s" {
		return w.srcP[s.List[1].Int()].Future()
	}
	return w.defs[s.List[1].Int()]
}

func lin(s *Sx) func(any) any {
	id, a, b := s.List[1].Int(), s.List[2].Int(), s.List[3].Int()
	return func(x any) any { Emit("f%d:%s", id, Show(x)); return a*AsInt(x) + b }
}

func f2(s *Sx) func(any, any) any {
	id := s.List[1].Int()
	switch s.Head() {
	case "add":
		return func(x, y any) any { Emit("g%d:%s,%s", id, Show(x), Show(y)); return AsInt(x) + 2*AsInt(y) }
	default: // pair
		return func(x, y any) any { Emit("g%d:%s,%s", id, Show(x), Show(y)); return []any{x, y} }
	}
}

func tryOf(s *Sx) fp.Try[any] {
	if s.Head() == "succ" {
		return fp.Success[any](s.List[1].Int())
	}
	return fp.Failure[any](E(s.List[1].Int()))
}

// kf: a user function returning a future
func (w *world) kfBody(s *Sx, v any) Fut {
	id := s.List[1].Int()
	switch s.List[2].Atom {
	case "succ":
		return future.Successful[any](s.List[3].Int()*AsInt(v) + s.List[4].Int())
	case "fail":
		return future.Failed[any](E(s.List[3].Int()))
	case "ref":
		return w.h(s.List[3])
	case "map":
		return future.Map(w.h(s.List[3]), lin(s.List[4]), ctx(w.mode)...)
	case "apply":
		n := s.List[3].Int()
		return future.Apply(func() any { Emit("ap%d", id); return AsInt(v) + n }, ctx(w.mode)...)
	case "failif":
		if Emod(AsInt(v), s.List[3].Int()) == 0 {
			return future.Failed[any](E(s.List[4].Int()))
		}
		return future.Successful[any](AsInt(v) + 1)
	}
	panic("bad kf " + s.String())
}

func (w *world) kf(s *Sx) func(any) Fut {
	id := s.List[1].Int()
	return func(v any) Fut { Emit("kf%d:%s", id, Show(v)); return w.kfBody(s, v) }
}

func (w *world) build(s *Sx) Fut {
	a := s.List
	c := ctx(w.mode)
	switch s.Head() {
	case "successful":
		return future.Successful[any](a[1].Int())
	case "failed":
		return future.Failed[any](E(a[1].Int()))
	case "apply":
		id := a[1].Int()
		b := a[2]
		return future.Apply(func() any {
			Emit("ap%d", id)
			if b.Head() == "panic" {
				panic(b.List[1].Int())
			}
			return b.List[1].Int()
		}, c...)
	case "apply2":
		id := a[1].Int()
		b := a[2]
		return future.Apply2(func() (any, error) {
			Emit("ap%d", id)
			switch b.Head() {
			case "panic":
				panic(b.List[1].Int())
			case "reterr":
				return b.List[1].Int(), E(b.List[2].Int())
			}
			return b.List[1].Int(), nil
		}, c...)
	case "map":
		return future.Map(w.h(a[1]), lin(a[2]), c...)
	case "flatMap":
		return future.FlatMap(w.h(a[1]), w.kf(a[2]), c...)
	case "map2":
		return future.Map2(w.h(a[1]), w.h(a[2]), f2(a[3]), c...)
	case "zip":
		return future.Map(future.Zip(w.h(a[1]), w.h(a[2])), func(t fp.Tuple2[any, any]) any { return []any{t.I1, t.I2} }, c...)
	case "liftM":
		return future.LiftM(w.kf(a[2]), c...)(w.h(a[1]))
	case "compose":
		return future.Compose(w.kf(a[1]), w.kf(a[2]), c...)(any(a[3].Int()))
	case "liftA3":
		g := a[1].List[1].Int()
		return future.LiftA3(func(x, y, z any) any {
			Emit("g%d:%s,%s,%s", g, Show(x), Show(y), Show(z))
			return []any{x, y, z}
		}, c...)(w.h(a[2]), w.h(a[3]), w.h(a[4]))
	case "zip3":
		return future.Map(future.Zip3(w.h(a[1]), w.h(a[2]), w.h(a[3])), func(t fp.Tuple3[any, any, any]) any { return []any{t.I1, t.I2, t.I3} }, c...)
	case "method1":
		return future.Method1(w.h(a[1]), f2(a[2]), c...)(any(a[3].Int()))
	case "flapMap":
		return future.FlapMap(f2(a[1]), w.h(a[2]), c...)(any(a[3].Int()))
	case "transform":
		id := a[2].Int()
		return future.Transform(w.h(a[1]), func(t fp.Try[any]) fp.Try[any] {
			Emit("tf%d:%s", id, Show(t))
			if t.IsSuccess() {
				return fp.Success[any](AsInt(t.Get()) + 1)
			}
			if ce, ok := t.Failed().Get().(CodeErr); ok {
				return fp.Success[any](int(ce))
			}
			return t
		}, c...)
	case "transformWith":
		id := a[2].Int()
		alt := w.h(a[3])
		return future.TransformWith(w.h(a[1]), func(t fp.Try[any]) Fut {
			Emit("tw%d:%s", id, Show(t))
			if t.IsSuccess() {
				return future.Successful[any](AsInt(t.Get()) * 2)
			}
			return alt
		}, c...)
	case "sequence":
		fs := []Fut{}
		for _, x := range a[1:] {
			fs = append(fs, w.h(x))
		}
		return future.Map(future.Sequence(fs, c...), func(xs []any) any { return xs }, c...)
	case "traverseSeq":
		xs := fp.Seq[any]{}
		for _, x := range a[2:] {
			xs = append(xs, x.Int())
		}
		return future.Map(future.TraverseSeq(xs, w.kf(a[1]), c...), func(xs fp.Seq[any]) any { return []any(xs) }, c...)
	case "traverse":
		xs := []any{}
		for _, x := range a[2:] {
			xs = append(xs, x.Int())
		}
		return future.Map(future.Traverse(iterator.FromSeq(xs), w.kf(a[1]), c...), func(it fp.Iterator[any]) any { return []any(it.ToSeq()) }, c...)
	case "m.map":
		return w.h(a[1]).Map(lin(a[2]), c...)
	case "m.flatMap":
		return w.h(a[1]).FlatMap(w.kf(a[2]), c...)
	case "m.recover":
		id, v := a[2].Int(), a[3].Int()
		return w.h(a[1]).Recover(func(e error) any { Emit("h%d:%s", id, ShowErr(e)); return v }, c...)
	case "m.recoverCase":
		id, e0, v := a[2].Int(), a[3].Int(), a[4].Int()
		return w.h(a[1]).RecoverCase(func(e error) bool { Emit("pe%d:%s", id, ShowErr(e)); return e == E(e0) },
			func(e error) any { Emit("h%d:%s", id, ShowErr(e)); return v }, c...)
	case "m.recoverWith":
		k := a[2]
		id := k.List[1].Int()
		return w.h(a[1]).RecoverWith(func(e error) Fut { Emit("ke%d:%s", id, ShowErr(e)); return w.kfBody(k, 0) }, c...)
	case "m.recoverCaseWith":
		k := a[3]
		id, e0 := k.List[1].Int(), a[2].Int()
		return w.h(a[1]).RecoverCaseWith(func(e error) bool { return e == E(e0) },
			func(e error) Fut { Emit("ke%d:%s", id, ShowErr(e)); return w.kfBody(k, 0) }, c...)
	case "m.or":
		k := a[2]
		id := k.List[1].Int()
		return w.h(a[1]).Or(func() Fut { Emit("ke%d", id); return w.kfBody(k, 0) })
	case "m.orFuture":
		return w.h(a[1]).OrFuture(w.h(a[2]))
	case "m.failed":
		return future.Map(w.h(a[1]).Failed(), func(e error) any { return ShowErr(e) }, c...)
	// futures of futures, nested (work package HOF): the inner definition is built in place
	case "flattenS": // Flatten(Successful(D))
		return future.Flatten(future.Successful[Fut](w.build(a[1])))
	case "flattenSS": // Flatten(Flatten(Successful(Successful(D)))): a future of a future of a future
		return future.Flatten(future.Flatten(future.Successful[fp.Future[Fut]](future.Successful[Fut](w.build(a[1])))))
	case "liftMF": // LiftM(kf)(D): the lifted function is applied to a freshly built future
		return future.LiftM(w.kf(a[2]), c...)(w.build(a[1]))
	case "liftMM": // LiftM(v => LiftM(kf2)(kf1(v)))(h): the user function itself builds a future of a future
		k1 := a[2]
		id1 := k1.List[1].Int()
		return future.LiftM(func(v any) Fut {
			Emit("kf%d:%s", id1, Show(v))
			return future.LiftM(w.kf(a[3]), c...)(w.kfBody(k1, v))
		}, c...)(w.h(a[1]))
	}
	if f, ok := w.buildFam(s); ok {
		return f
	}
	panic("bad FEXPR " + s.String())
}

func status(f Fut) string {
	if f.IsCompleted() {
		return Show(f.Value())
	}
	return "pending"
}

func (w *world) snapshot() string {
	parts := []string{}
	for i, p := range w.srcP {
		parts = append(parts, fmt.Sprintf("s%d=%s", i, status(p.Future())))
	}
	for i, d := range w.defs {
		parts = append(parts, fmt.Sprintf("d%d=%s", i, status(d)))
	}
	return strings.Join(parts, " ") + fmt.Sprintf(" pool=%d", len(pool))
}

func runScenario(op *Sx, checkDirect func(w *world, stmts []*Sx, upto int, quiescent bool)) string {
	pool = nil
	curEx = "s"
	fp.VerifSetSpawnHook(func(run func()) bool { pool = append(pool, ptask{run, "d"}); return true })
	a := op.List
	w := &world{mode: a[2].Int(), curB: -1, curPos: -1}
	for i := 0; i < a[1].Int(); i++ {
		w.srcP = append(w.srcP, promise.New[any]())
	}
	out := []string{}
	stmts := a[3:]
	for si, st := range stmts {
		w.stmt = si
		switch st.Head() {
		case "def":
			w.defs = append(w.defs, w.build(st.List[1]))
			w.defSx = append(w.defSx, st.List[1])
		case "cnew": // (cnew chain|applicative N FN)
			w.newBld(st.List[1].Atom, st.List[2].Int(), st.List[3])
		case "cstep": // (cstep b STEP)
			bid := st.List[1].Int()
			if fut, done := w.stepBld(bid, st.List[2]); done {
				w.defs = append(w.defs, fut)
				w.defSx = append(w.defSx, w.blds[bid].sx())
			}
		case "mark":
			Emit("mark%d", st.List[1].Int())
		case "obs":
			id := st.List[2].Int()
			w.h(st.List[1]).OnComplete(func(t fp.Try[any]) { Emit("obs%d:%s", id, Show(t)) }, ctx(w.mode)...)
		case "src":
			ok := w.srcP[st.List[1].Int()].Complete(tryOf(st.List[2]))
			Emit("src%d:%v", st.List[1].Int(), ok)
		case "run":
			i := st.List[1].Int()
			if i < len(pool) {
				t := pool[i]
				pool = append(pool[:i:i], pool[i+1:]...)
				runPooled(t)
			}
		case "drain":
			for len(pool) > 0 {
				t := pool[0]
				pool = pool[1:]
				runPooled(t)
			}
		case "snap":
			out = append(out, w.snapshot())
		}
		if checkDirect != nil {
			checkDirect(w, stmts, si, len(pool) == 0)
		}
	}
	out = append(out, w.snapshot())
	return strings.Join(out, " ; ")
}

// ------------------------------------------------------------------------------------ generator

func genH(r *Rng, nsrc, ndef int) *Sx {
	if ndef > 0 && r.Intn(3) != 0 {
		return L(A("d"), I(r.Intn(ndef)))
	}
	return L(A("s"), I(r.Intn(nsrc)))
}

func genLin(r *Rng) *Sx { return L(A("lin"), I(NewID()), I(r.Range(-2, 3)), I(r.Range(-3, 5))) }

func genKF(r *Rng, nsrc, ndef int) *Sx {
	id := NewID()
	switch r.Intn(8) {
	case 0, 1:
		return L(A("kf"), I(id), A("succ"), I(r.Range(-2, 3)), I(r.Range(-3, 5)))
	case 2:
		return L(A("kf"), I(id), A("fail"), I(r.Range(1, 9)))
	case 3:
		return L(A("kf"), I(id), A("ref"), genH(r, nsrc, ndef))
	case 4, 5:
		return L(A("kf"), I(id), A("map"), genH(r, nsrc, ndef), genLin(r))
	case 6:
		return L(A("kf"), I(id), A("apply"), I(r.Range(0, 5)))
	}
	return L(A("kf"), I(id), A("failif"), I(r.Range(2, 3)), I(r.Range(1, 9)))
}

func genF2(r *Rng) *Sx { return L(A(Pick(r, "add", "pair")), I(NewID())) }

// genHO: nested futures of futures (Flatten / Successful of a future / LiftM inside LiftM), work package HOF
func genHO(r *Rng, nsrc, ndef int) *Sx {
	inner := func() *Sx {
		if r.Intn(3) == 0 {
			return L(A("liftM"), genH(r, nsrc, ndef), genKF(r, nsrc, ndef))
		}
		return genPlainDef(r, nsrc, ndef)
	}
	switch r.Intn(6) {
	case 0, 1:
		if r.Intn(4) == 0 {
			return L(A("flattenS"), L(A("flattenS"), inner()))
		}
		return L(A("flattenS"), inner())
	case 2:
		return L(A("flattenSS"), inner())
	case 3:
		return L(A("liftMF"), inner(), genKF(r, nsrc, ndef))
	}
	return L(A("liftMM"), genH(r, nsrc, ndef), genKF(r, nsrc, ndef), genKF(r, nsrc, ndef))
}

func genDef(r *Rng, nsrc, ndef int) *Sx {
	if r.Intn(100) < 8 {
		d := genHO(r, nsrc, ndef)
		hist["ho."+d.Head()]++
		return d
	}
	if r.Intn(100) < 40 {
		if d := genFam(r, nsrc, ndef); d != nil {
			return d
		}
	}
	return genPlainDef(r, nsrc, ndef)
}

func genPlainDef(r *Rng, nsrc, ndef int) *Sx {
	h := func() *Sx { return genH(r, nsrc, ndef) }
	switch r.Intn(30) {
	case 0:
		return L(A("successful"), I(r.Range(-3, 9)))
	case 1:
		return L(A("failed"), I(r.Range(1, 9)))
	case 2:
		return L(A("apply"), I(NewID()), Pick(r, L(A("ret"), I(r.Range(0, 9))), L(A("ret"), I(r.Range(0, 9))), L(A("panic"), I(r.Range(1, 9)))))
	case 3:
		return L(A("apply2"), I(NewID()), Pick(r, L(A("ret"), I(r.Range(0, 9))), L(A("reterr"), I(1), I(r.Range(1, 9))), L(A("panic"), I(r.Range(1, 9)))))
	case 4, 5:
		return L(A("map"), h(), genLin(r))
	case 6, 7, 8:
		return L(A("flatMap"), h(), genKF(r, nsrc, ndef))
	case 9, 10:
		return L(A("map2"), h(), h(), genF2(r))
	case 11:
		return L(A("zip"), h(), h())
	case 12:
		return L(A("liftM"), h(), genKF(r, nsrc, ndef))
	case 13:
		return L(A("compose"), genKF(r, nsrc, ndef), genKF(r, nsrc, ndef), I(r.Range(-3, 9)))
	case 14:
		return L(A("liftA3"), L(A("g3"), I(NewID())), h(), h(), h())
	case 15:
		return L(A("zip3"), h(), h(), h())
	case 16:
		return L(A("method1"), h(), genF2(r), I(r.Range(-3, 9)))
	case 17:
		return L(A("flapMap"), genF2(r), h(), I(r.Range(-3, 9)))
	case 18:
		return L(A("transform"), h(), I(NewID()))
	case 19:
		return L(A("transformWith"), h(), I(NewID()), h())
	case 20:
		xs := []*Sx{A("sequence")}
		for i, n := 0, r.Intn(4); i < n; i++ {
			xs = append(xs, h())
		}
		return L(xs...)
	case 21:
		xs := []*Sx{A(Pick(r, "traverseSeq", "traverse")), genKF(r, nsrc, ndef)}
		for i, n := 0, r.Intn(4); i < n; i++ {
			xs = append(xs, I(r.Range(0, 6)))
		}
		return L(xs...)
	case 22:
		return L(A("m.map"), h(), genLin(r))
	case 23:
		return L(A("m.flatMap"), h(), genKF(r, nsrc, ndef))
	case 24:
		return L(A("m.recover"), h(), I(NewID()), I(r.Range(0, 9)))
	case 25:
		return L(A("m.recoverWith"), h(), genKF(r, nsrc, ndef))
	case 26:
		return L(A("m.or"), h(), genKF(r, nsrc, ndef))
	case 27:
		return L(A("m.orFuture"), h(), h())
	case 28:
		if r.Bool() {
			return L(A("m.recoverCase"), h(), I(NewID()), I(r.Range(1, 4)), I(r.Range(0, 9)))
		}
		return L(A("m.recoverCaseWith"), h(), I(r.Range(1, 4)), genKF(r, nsrc, ndef))
	}
	return L(A("m.failed"), h())
}

func genT(r *Rng) *Sx {
	if r.Intn(3) == 0 {
		return L(A("fail"), I(r.Range(1, 4)))
	}
	return L(A("succ"), I(r.Range(-3, 9)))
}

var hist = map[string]int{}

func genScenario(r *Rng) *Sx {
	if r.Intn(4) == 0 {
		return genOrderedScenario(r)
	}
	ResetIDs()
	nsrc := r.Range(1, 3)
	mode := r.Intn(2)
	stmts := []*Sx{A("scenario"), I(nsrc), I(mode)}
	ndef := 0
	pending := []int{}
	for i := 0; i < nsrc; i++ {
		pending = append(pending, i)
	}
	poolEstimate := 0
	steps := r.Range(3, 14)
	// builders held by the scenario: index, remaining method kinds
	type openB struct {
		bid   int
		kinds []string
	}
	open := []*openB{}
	nbld := 0
	stepOpen := func() {
		j := r.Intn(len(open))
		o := open[j]
		stmts = append(stmts, L(A("cstep"), I(o.bid), genStep(r, o.kinds[0], nsrc, ndef)))
		o.kinds = o.kinds[1:]
		poolEstimate += 3
		if len(o.kinds) == 0 {
			open = append(open[:j], open[j+1:]...)
			ndef++
		}
	}
	for i := 0; i < steps; i++ {
		switch k := r.Intn(12); {
		case k == 10 && len(open) < 2:
			kind := Pick(r, "chain", "chain", "applicative")
			if n, kinds := builderPlan(r, kind); n > 0 {
				stmts = append(stmts, L(A("cnew"), A(kind), I(n), genFN(r)))
				open = append(open, &openB{nbld, kinds})
				nbld++
				hist["staged."+kind]++
			}
		case k >= 10 && len(open) > 0, k == 9 && len(open) > 0 && r.Bool():
			stepOpen()
		case k == 11 || (k == 9 && r.Intn(3) == 0):
			stmts = append(stmts, L(A("mark"), I(i)))
		case k < 4 && ndef < 6:
			d := genDef(r, nsrc, ndef)
			hist[d.Head()]++
			stmts = append(stmts, L(A("def"), d))
			ndef++
			poolEstimate += 2
			if d.Head() == "chain" || d.Head() == "applicative" {
				nbld++ // one-shot builders take a builder slot too
			}
		case k == 4:
			stmts = append(stmts, L(A("obs"), genH(r, nsrc, ndef), I(NewID())))
			poolEstimate++
		case k <= 6 && len(pending) > 0:
			j := r.Intn(len(pending))
			stmts = append(stmts, L(A("src"), I(pending[j]), genT(r)))
			pending = append(pending[:j], pending[j+1:]...)
			poolEstimate += 2
		case k == 7 && r.Intn(3) == 0:
			stmts = append(stmts, L(A("drain")), L(A("snap")))
		case k == 7 && r.Intn(4) == 0 && nsrc > 0:
			// a second completion attempt of a source: must return false and change nothing
			stmts = append(stmts, L(A("src"), I(r.Intn(nsrc)), genT(r)))
		default:
			stmts = append(stmts, L(A("run"), I(r.Intn(poolEstimate+1))))
		}
	}
	// finish the builders still open, with task runs in between
	for len(open) > 0 {
		stepOpen()
		if r.Intn(3) == 0 {
			stmts = append(stmts, L(A("run"), I(r.Intn(poolEstimate+1))))
		}
		if r.Intn(6) == 0 {
			stmts = append(stmts, L(A("drain")))
		}
	}
	stmts = append(stmts, L(A("drain")), L(A("snap")))
	for _, p := range pending {
		stmts = append(stmts, L(A("src"), I(p), genT(r)))
		// run a few tasks out of order before draining
		stmts = append(stmts, L(A("run"), I(r.Intn(3))), L(A("run"), I(r.Intn(3))))
	}
	stmts = append(stmts, L(A("drain")))
	return L(stmts...)
}

func runCase(op *Sx) string { return Outcome(func() string { return runScenario(op, nil) }) }

var directChecks int

// staleGlue: chain_gen.go must have been generated from the very sources this binary is linked against: re-scan the
// replaced module's future package and compare the arities found with the compiled-in table.
func staleGlue() []string {
	bi, ok := debug.ReadBuildInfo()
	if !ok {
		return nil
	}
	dir := ""
	for _, d := range bi.Deps {
		if d.Path == "github.com/csgura/fp" && d.Replace != nil {
			dir = d.Replace.Path
		}
	}
	if dir == "" {
		return nil
	}
	src := ""
	for _, f := range []string{"future/applicative_gen.go", "future/func_gen.go", "future/future_op.go"} {
		b, err := os.ReadFile(dir + "/" + f)
		if err != nil {
			return []string{"cannot read " + dir + "/" + f + " to verify the generated glue"}
		}
		src += string(b) + "\n"
	}
	out := []string{}
	for fam, want := range genArities {
		name := strings.TrimSuffix(strings.TrimPrefix(fam, "future."), "N")
		if !strings.HasPrefix(fam, "future.") || name == "Zip" {
			continue
		}
		got := map[int]bool{}
		for _, m := range regexp.MustCompile(`(?m)^func `+name+`(\d+)\[`).FindAllStringSubmatch(src, -1) {
			if k, _ := strconv.Atoi(m[1]); k >= 1 {
				got[k] = true
			}
		}
		for _, base := range []struct{ fam, fn string }{{"future.LiftAN", "Lift"}, {"future.LiftMN", "LiftM"}, {"future.FlapN", "Flap"}} {
			if fam == base.fam && regexp.MustCompile(`(?m)^func `+base.fn+`\[`).MatchString(src) {
				got[1] = true
			}
		}
		for _, k := range want {
			if !got[k] {
				out = append(out, fmt.Sprintf("%s: arity %d is in the generated glue but not in %s (re-run gen_future.py)", fam, k, dir))
			}
			delete(got, k)
		}
		for k := range got {
			out = append(out, fmt.Sprintf("%s: arity %d exists in %s but not in the generated glue (re-run gen_future.py)", fam, k, dir))
		}
	}
	return out
}

func main() {
	seed := flag.Uint64("seed", 1, "PRNG seed")
	n := flag.Int("n", 2000, "cases")
	out := flag.String("out", ".", "output directory")
	replay := flag.String("replay", "", "run one op line")
	opsFile := flag.String("ops", "", "run op lines of this file")
	flag.Parse()
	if *replay != "" {
		op, err := Parse(*replay)
		if err != nil {
			fmt.Println("bad-op")
			os.Exit(2)
		}
		fmt.Println(runCase(op))
		return
	}
	r := NewRng(*seed)
	sink := NewSink(*out)
	if *opsFile != "" {
		for _, line := range ReadLines(*opsFile) {
			if op, err := Parse(line); err == nil {
				sink.Case(line, func() string { return runCase(op) })
			}
		}
		sink.Close()
		fmt.Printf("{\"cases\": %d}\n", sink.N)
		return
	}
	for _, c := range genCoverage {
		sink.DirectFail("coverage", "gen_future.py", c)
	}
	for _, c := range staleGlue() {
		sink.DirectFail("coverage", "gen_future.py", c)
	}
	directChecks += panicValueChecks(sink)
	for i := 0; i < *n; i++ {
		op := genScenario(r)
		sink.Case(op.String(), func() string { return runCase(op) })
		directCase(op, sink)
	}
	sink.Close()
	nc, na := 0, 0
	for k := range covChain {
		if strings.HasPrefix(k, "chain.") {
			nc++
		} else {
			na++
		}
	}
	hist["cov.MonadChainN receiver x method"] = nc
	hist["cov.ApplicativeFunctorN receiver x method"] = na
	parts := []string{}
	for k, v := range hist {
		parts = append(parts, fmt.Sprintf("%q: %d", k, v))
	}
	fmt.Printf("{\"cases\": %d, \"direct_checks\": %d, \"direct_failures\": %d, \"histogram\": {%s}}\n", sink.N, directChecks, sink.DirectFailures, strings.Join(parts, ", "))
}
