package main

import (
	"fmt"
	"strings"

	"github.com/csgura/fp"
	. "verifharness/common"
)

// The property statement, evaluated without any model: the value a derived future must have is the
// value of the same expression over fp.Try on the sources' results; three-valued (ok=false: the
// sources it depends on are not all complete yet). Left-to-right short-circuit as in package try.

type tv struct {
	t  fp.Try[any]
	ok bool
}

var undet = tv{}

func det(t fp.Try[any]) tv { return tv{t, true} }

type evalCtx struct {
	w     *world
	defs  []*Sx // definitions so far
	depth int
}

func linV(s *Sx, x any) any { return s.List[2].Int()*AsInt(x) + s.List[3].Int() }

func f2V(s *Sx, x, y any) any {
	if s.Head() == "add" {
		return AsInt(x) + 2*AsInt(y)
	}
	return []any{x, y}
}

func (c *evalCtx) h(s *Sx) tv {
	if s.Head() == "s" {
		f := c.w.srcP[s.List[1].Int()].Future()
		if f.IsCompleted() {
			return det(f.Value())
		}
		return undet
	}
	j := s.List[1].Int()
	switch c.defs[j].Head() {
	case "apply", "apply2", "func", "unitf", "func0":
		// a task-completed future is its own source: once its task has run, its result is what it is
		if c.w.defs[j].IsCompleted() {
			return det(c.w.defs[j].Value())
		}
	}
	return c.def(c.defs[j])
}

func bind(a tv, k func(v any) tv) tv {
	if !a.ok {
		return undet
	}
	if a.t.IsSuccess() {
		return k(a.t.Get())
	}
	return det(fp.Failure[any](a.t.Failed().Get()))
}

func fmap(a tv, f func(v any) any) tv {
	return bind(a, func(v any) tv { return det(fp.Success(f(v))) })
}

func (c *evalCtx) kf(s *Sx, v any) tv {
	switch s.List[2].Atom {
	case "succ":
		return det(fp.Success[any](s.List[3].Int()*AsInt(v) + s.List[4].Int()))
	case "fail":
		return det(fp.Failure[any](E(s.List[3].Int())))
	case "ref":
		return c.h(s.List[3])
	case "map":
		return fmap(c.h(s.List[3]), func(x any) any { return linV(s.List[4], x) })
	case "apply":
		return det(fp.Success[any](AsInt(v) + s.List[3].Int()))
	case "failif":
		if Emod(AsInt(v), s.List[3].Int()) == 0 {
			return det(fp.Failure[any](E(s.List[4].Int())))
		}
		return det(fp.Success[any](AsInt(v) + 1))
	}
	panic("bad kf")
}

func seqAll(xs []tv) tv {
	acc := det(fp.Success[any]([]any{}))
	for _, x := range xs {
		x := x
		acc = bind(acc, func(l any) tv {
			return fmap(x, func(v any) any { return append(append([]any{}, l.([]any)...), v) })
		})
	}
	return acc
}

func (c *evalCtx) def(s *Sx) tv {
	a := s.List
	if t, ok := c.famDef(s); ok {
		return t
	}
	switch s.Head() {
	case "successful":
		return det(fp.Success[any](a[1].Int()))
	case "failed":
		return det(fp.Failure[any](E(a[1].Int())))
	case "apply", "apply2":
		// the value is determined as soon as its task has run; before that the future must be pending.
		// Whether the task has run is not a function of the sources, so "apply" is treated as its own source:
		return tv{ok: false, t: applyResult(a[2])}
	case "map", "m.map":
		return fmap(c.h(a[1]), func(x any) any { return linV(a[2], x) })
	case "flatMap", "liftM", "m.flatMap":
		return bind(c.h(a[1]), func(v any) tv { return c.kf(a[2], v) })
	case "flattenS", "flattenSS":
		// Flatten(Successful(D)) over fp.Try is D
		return c.def(a[1])
	case "liftMF":
		return bind(c.def(a[1]), func(v any) tv { return c.kf(a[2], v) })
	case "liftMM":
		return bind(c.h(a[1]), func(v any) tv { return bind(c.kf(a[2], v), func(x any) tv { return c.kf(a[3], x) }) })
	case "map2":
		return bind(c.h(a[1]), func(x any) tv { return fmap(c.h(a[2]), func(y any) any { return f2V(a[3], x, y) }) })
	case "zip":
		return bind(c.h(a[1]), func(x any) tv { return fmap(c.h(a[2]), func(y any) any { return []any{x, y} }) })
	case "compose":
		return bind(c.kf(a[1], a[3].Int()), func(v any) tv { return c.kf(a[2], v) })
	case "liftA3":
		return seqAll([]tv{c.h(a[2]), c.h(a[3]), c.h(a[4])})
	case "zip3":
		return seqAll([]tv{c.h(a[1]), c.h(a[2]), c.h(a[3])})
	case "method1":
		return fmap(c.h(a[1]), func(x any) any { return f2V(a[2], x, a[3].Int()) })
	case "flapMap":
		return fmap(c.h(a[2]), func(x any) any { return f2V(a[1], x, a[3].Int()) })
	case "transform":
		x := c.h(a[1])
		if !x.ok {
			return undet
		}
		if x.t.IsSuccess() {
			return det(fp.Success[any](AsInt(x.t.Get()) + 1))
		}
		if ce, ok := x.t.Failed().Get().(CodeErr); ok {
			return det(fp.Success[any](int(ce)))
		}
		return x
	case "transformWith":
		x := c.h(a[1])
		if !x.ok {
			return undet
		}
		if x.t.IsSuccess() {
			return det(fp.Success[any](AsInt(x.t.Get()) * 2))
		}
		return c.h(a[3])
	case "sequence":
		xs := []tv{}
		for _, hh := range a[1:] {
			xs = append(xs, c.h(hh))
		}
		return seqAll(xs)
	case "traverseSeq", "traverse":
		acc := det(fp.Success[any]([]any{}))
		for _, e := range a[2:] {
			e := e
			acc = bind(acc, func(l any) tv {
				return fmap(c.kf(a[1], e.Int()), func(v any) any { return append(append([]any{}, l.([]any)...), v) })
			})
		}
		return acc
	case "m.recover":
		x := c.h(a[1])
		if !x.ok || x.t.IsSuccess() {
			return x
		}
		return det(fp.Success[any](a[3].Int()))
	case "m.recoverCase":
		x := c.h(a[1])
		if !x.ok || x.t.IsSuccess() {
			return x
		}
		if x.t.Failed().Get() == E(a[3].Int()) {
			return det(fp.Success[any](a[4].Int()))
		}
		return x
	case "m.recoverWith", "m.or":
		x := c.h(a[1])
		if !x.ok || x.t.IsSuccess() {
			return x
		}
		return c.kf(a[2], 0)
	case "m.recoverCaseWith":
		x := c.h(a[1])
		if !x.ok || x.t.IsSuccess() {
			return x
		}
		if x.t.Failed().Get() == E(a[2].Int()) {
			return c.kf(a[3], 0)
		}
		return x
	case "m.orFuture":
		x := c.h(a[1])
		if !x.ok || x.t.IsSuccess() {
			return x
		}
		return c.h(a[2])
	case "m.failed":
		x := c.h(a[1])
		if !x.ok {
			return undet
		}
		if x.t.IsSuccess() {
			return det(fp.Failure[any](fp.ErrFutureNotFailed))
		}
		return det(fp.Success[any](ShowErr(x.t.Failed().Get())))
	}
	panic("bad def " + s.String())
}

func applyResult(b *Sx) fp.Try[any] {
	switch b.Head() {
	case "panic":
		return fp.Failure[any](fmt.Errorf("panic"))
	case "reterr":
		return fp.Failure[any](E(b.List[2].Int()))
	}
	return fp.Success[any](b.List[1].Int())
}

// usesApply: the expression (transitively) depends on a task-completed future (Apply, or a kf that
// calls Apply): for those "determined" also depends on the schedule, so only soundness of the VALUE
// is checked while tasks are pending, and completeness at quiescence.
func (c *evalCtx) usesApply(s *Sx) bool {
	if !s.IsL {
		return false
	}
	switch s.Head() {
	case "apply", "apply2", "func", "unitf", "func0":
		return true
	case "d":
		return c.usesApply(c.defs[s.List[1].Int()])
	case "kf":
		if s.List[2].Atom == "apply" {
			return true
		}
	}
	for _, x := range s.List {
		if c.usesApply(x) {
			return true
		}
	}
	return false
}

func sameTry(a, b fp.Try[any]) bool {
	if a.IsSuccess() != b.IsSuccess() {
		return false
	}
	if a.IsSuccess() {
		return Show(a.Get()) == Show(b.Get())
	}
	// failures: Apply's panic error carries a stack; compare success/failure only there, but user errors exactly
	// (WHICH failure wins is the left-to-right short-circuit)
	ea, oka := a.Failed().Get().(CodeErr)
	eb, okb := b.Failed().Get().(CodeErr)
	if oka && okb {
		return ea == eb
	}
	return true
}

func directCase(op *Sx, sink *Sink) {
	failed := false
	obsSeen := map[string]int{}
	dh = &dHook{sink: sink, op: op, failed: &failed, calls: map[string]int{}, supRec: map[int]int{}}
	defer func() { dh = nil }()
	res := Outcome(func() string {
		return runScenario(op, func(w *world, stmts []*Sx, upto int, quiescent bool) {
			if failed {
				return
			}
			c := &evalCtx{w: w, defs: w.defSx}
			if quiescent {
				w.supplierLiveness()
			}
			for i, d := range w.defs {
				directChecks++
				want := c.def(c.defs[i])
				viaTask := c.usesApply(c.defs[i])
				if d.IsCompleted() {
					got := d.Value()
					if want.ok && !sameTry(got, want.t) {
						failed = true
						sink.DirectFail("future/value", op.String(), fmt.Sprintf("after statement %d: d%d completed with %s but the expression evaluates to %s over fp.Try", upto, i, Show(got), Show(want.t)))
					} else if !want.ok && !viaTask {
						failed = true
						sink.DirectFail("future/early", op.String(), fmt.Sprintf("after statement %d: d%d completed with %s although the sources it depends on are not complete", upto, i, Show(got)))
					}
				} else if quiescent && want.ok {
					failed = true
					sink.DirectFail("future/not-completed", op.String(), fmt.Sprintf("after statement %d (no runnable task left): d%d is still pending although it is determined: %s", upto, i, Show(want.t)))
				} else if quiescent && viaTask && !want.ok {
					// every Apply task has run at quiescence: a future that only waits for tasks must be complete
					if w2 := c.defPendingOnlyOnTasks(c.defs[i]); w2 {
						failed = true
						sink.DirectFail("future/apply-not-completed", op.String(), fmt.Sprintf("after statement %d (no runnable task left): d%d created by Apply (or depending only on it) is still pending", upto, i))
					}
				}
			}
		})
	})
	// observers: each registered OnComplete callback runs at most once; exactly once if its future completed
	if idx := strings.Index(res, " | "); idx >= 0 {
		for _, ev := range strings.Split(res[idx+3:], ",") {
			if strings.HasPrefix(ev, "obs") {
				obsSeen[strings.SplitN(ev, ":", 2)[0]]++
			}
		}
	}
	for k, n := range obsSeen {
		directChecks++
		if n > 1 {
			sink.DirectFail("future/callback-twice", op.String(), fmt.Sprintf("observer %s ran %d times", k, n))
		}
	}
}

// defPendingOnlyOnTasks: the definition is a bare Apply/Apply2 (its completion needs nothing but its own task).
func (c *evalCtx) defPendingOnlyOnTasks(s *Sx) bool {
	return s.Head() == "apply" || s.Head() == "apply2" || s.Head() == "func" || s.Head() == "func0"
}
