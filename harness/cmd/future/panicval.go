package main

import (
	"errors"
	"fmt"
	"reflect"

	"github.com/csgura/fp"
	"github.com/csgura/fp/future"
	"github.com/csgura/fp/try"
	. "verifharness/common"
)

// C02: "try.Of/Call/CallUnit and future.Apply/Apply2 turn any panic of the supplied function into a Failure that EXPOSES the
// panic value": the value itself - same dynamic type, same identity - must be recoverable from the failure (through the
// `Panic() any` method of the error), not merely a rendering of it.  The correspondence compares canonical renderings, so this
// is a direct check over panic values of several dynamic types.  Seed C02-11: fp.PanicError storing fmt.Sprint(value).
type inlineExec struct{}

func (inlineExec) ExecuteUnsafe(r fp.Runnable) { r.Run() }

type panicPayload struct {
	A int
	B string
}

// a user error type that happens to have the method set of try.Panic (seed C02-12: a recover handler that does not re-wrap a
// panic value which "already is a captured panic" exposes the INNER cause instead of the value the function panicked with)
type userPanicErr struct{ inner any }

func (u *userPanicErr) Error() string { return "userPanicErr" }
func (u *userPanicErr) Panic() any    { return u.inner }
func (u *userPanicErr) Stack() []byte { return nil }

func panicValueChecks(sink *Sink) int {
	sentinel := errors.New("sentinel")
	var nilMap map[string]int
	vals := []struct {
		name string
		v    any
	}{
		{"int", 7}, {"string", "boom"}, {"error", error(sentinel)}, {"struct", panicPayload{3, "x"}},
		{"pointer", &panicPayload{4, "y"}}, {"code-error", error(E(5))},
		// values WITH A HISTORY: the error of an earlier captured panic (what `inner.Get()` re-panics with), through try and
		// through future, and a user error type with Panic()/Stack() methods: the failure must expose THAT value, not its cause
		{"captured-try-panic", try.Of(func() int { panic("disk full") }).Failed().Get()},
		{"captured-fp-panic", fp.PanicError("disk full")},
		{"user-panic-type", error(&userPanicErr{"inner cause"})},
	}
	checks := 0
	exposes := func(where, name string, want any, err error) {
		checks++
		in := fmt.Sprintf("(law panic-value-exposed %s %s)", where, name)
		p, ok := err.(interface{ Panic() any })
		if !ok {
			sink.DirectFail("C02.panic-exposed", in, fmt.Sprintf("the failure %T does not expose a panic value", err))
			return
		}
		got := p.Panic()
		same := reflect.TypeOf(got) == reflect.TypeOf(want)
		if same {
			if reflect.TypeOf(want).Comparable() {
				same = got == want
			} else {
				same = reflect.DeepEqual(got, want)
			}
		}
		if !same {
			sink.DirectFail("C02.panic-exposed", in, fmt.Sprintf("panicked with %#v (%T), the failure exposes %#v (%T)", want, want, got, got))
		}
	}
	// the harness's spawn hook parks default-executor tasks in its own pool: these futures run on an inline executor
	var inline fp.Executor = inlineExec{}
	for _, pv := range vals {
		v := pv.v
		if t := try.Of(func() int { panic(v) }); t.IsFailure() {
			exposes("try.Of", pv.name, v, t.Failed().Get())
		} else {
			sink.DirectFail("C02.panic-exposed", "(law panic-value-exposed try.Of "+pv.name+")", "a panic became a Success")
		}
		if t := try.Call(func() (int, error) { panic(v) }); t.IsFailure() {
			exposes("try.Call", pv.name, v, t.Failed().Get())
		}
		if t := try.CallUnit(func() error { panic(v) }); t.IsFailure() {
			exposes("try.CallUnit", pv.name, v, t.Failed().Get())
		}
		for _, mk := range []struct {
			name string
			f    func() fp.Future[int]
		}{
			{"future.Apply", func() fp.Future[int] { return future.Apply(func() int { panic(v) }, inline) }},
			{"future.Apply2", func() fp.Future[int] { return future.Apply2(func() (int, error) { panic(v) }, inline) }},
		} {
			t := future.Await(mk.f(), 5_000_000_000)
			if t.IsFailure() {
				exposes(mk.name, pv.name, v, t.Failed().Get())
			} else {
				sink.DirectFail("C02.panic-exposed", "(law panic-value-exposed "+mk.name+" "+pv.name+")", "a panic became "+Show(t))
			}
		}
	}
	// a runtime error (nil-map write) inside the function is a panic value like any other: a runtime.Error
	{
		t := future.Await(future.Apply(func() int { nilMap["a"] = 1; return 0 }, inline), 5_000_000_000)
		checks++
		if t.IsSuccess() {
			sink.DirectFail("C02.panic-exposed", "(law panic-value-exposed future.Apply runtime-error)", "a runtime panic became a Success")
		} else if p, ok := t.Failed().Get().(interface{ Panic() any }); !ok {
			sink.DirectFail("C02.panic-exposed", "(law panic-value-exposed future.Apply runtime-error)", "no panic value exposed")
		} else if _, isRT := p.Panic().(interface{ RuntimeError() }); !isRT {
			sink.DirectFail("C02.panic-exposed", "(law panic-value-exposed future.Apply runtime-error)", fmt.Sprintf("exposes %T instead of the runtime.Error", p.Panic()))
		}
	}
	return checks
}
