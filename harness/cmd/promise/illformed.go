package main

import (
	"fmt"
	"reflect"

	"github.com/csgura/fp"
	. "verifharness/common"
)

// C05: "Value and every observer see EXACTLY that call's result" - also when the result is not a well-formed Try (the zero value
// fp.Try[T]{} or Failure(nil), on which Failed().Get() panics).  The scheduler scenarios complete with Success(n) / Failure(e_n)
// only, and the correspondence compares renderings; here the Try VALUE a listener registered BEFORE completion receives, the value
// a listener registered AFTER completion receives and Value() are compared with the value the winning Complete was given
// (reflect.DeepEqual over the Try struct).  Model-free.  Seed C05-12: the completion "repairs" an ill-formed Try before storing
// it but hands the unrepaired one to the listeners registered earlier.
type inlineExecP struct{}

func (inlineExecP) ExecuteUnsafe(r fp.Runnable) { r.Run() }

func illFormedChecks(sink *Sink) int {
	checks := 0
	results := []struct {
		name string
		t    fp.Try[int]
	}{
		{"success", fp.Success(3)}, {"success-zero", fp.Success(0)}, {"failure", fp.Failure[int](E(4))},
		{"zero-try", fp.Try[int]{}}, {"failure-nil", fp.Failure[int](nil)},
	}
	var inline fp.Executor = inlineExecP{}
	for _, rc := range results {
		for early := 0; early <= 2; early++ {
			in := fmt.Sprintf("(law observers-see-exactly-the-result %s early=%d)", rc.name, early)
			p := fp.NewPromise[int]()
			fut := p.Future()
			seen := []fp.Try[int]{}
			for i := 0; i < early; i++ {
				fut.OnComplete(func(t fp.Try[int]) { seen = append(seen, t) }, inline)
			}
			ok := p.Complete(rc.t)
			checks++
			if !ok {
				sink.DirectFail("Promise.single-assignment", in, "the only Complete call returned false")
				continue
			}
			fut.OnComplete(func(t fp.Try[int]) { seen = append(seen, t) }, inline)
			if fut.IsCompleted() {
				seen = append(seen, fut.Value())
			} else {
				sink.DirectFail("Promise.single-assignment", in, "IsCompleted() is false after Complete returned true")
			}
			checks++
			if len(seen) != early+2 {
				sink.DirectFail("Promise.exactly-once", in, fmt.Sprintf("%d observations, want %d", len(seen), early+2))
			}
			for i, t := range seen {
				checks++
				if !reflect.DeepEqual(t, rc.t) {
					who := "a listener registered before completion"
					if i == early {
						who = "a listener registered after completion"
					} else if i > early {
						who = "Value()"
					}
					sink.DirectFail("Promise.single-assignment", in, fmt.Sprintf("%s sees %s (success=%v), the winning Complete passed %s (success=%v)",
						who, Show(t), t.IsSuccess(), Show(rc.t), rc.t.IsSuccess()))
				}
			}
			// a second completion is rejected and changes nothing
			checks++
			if p.Complete(fp.Success(99)) {
				sink.DirectFail("Promise.single-assignment", in, "a second Complete returned true")
			}
			if !fut.IsCompleted() || !reflect.DeepEqual(fut.Value(), rc.t) {
				sink.DirectFail("Promise.single-assignment", in, "Value() changed after a rejected second Complete")
			}
		}
	}
	return checks
}
