// Correspondence + direct-property harness for fp.Promise / fp.Future (property C05).
//
// A case is a set of logical threads (Complete / Register / Observe programs on ONE promise) and a
// schedule. The cooperative scheduler (common.Coop) replays the schedule on the real library at
// the granularity of its atomic operations (yield hooks under build tag `verif`), then drives the
// rest round-robin. The answer line (trace of yield points, delivered callbacks, final state) is
// compared with the Lean oracle; the property statement itself (single assignment, exactly-once
// delivery, never before completion, zero value) is evaluated directly on the implementation's log.
package main

import (
	"flag"
	"fmt"
	"os"
	"sort"
	"strings"
	"sync"
	"sync/atomic"
	"time"

	"github.com/csgura/fp"
	. "verifharness/common"
)

var hist = map[string]int{}

// ------------------------------------------------------------------------------------ one case

type prog struct {
	kind string // complete | register | observe
	api  string
	ok   bool // complete: success?
	val  int
	id   int    // register: callback id
	exec string // register: go | nil | own
}

func (p prog) sx() *Sx {
	switch p.kind {
	case "complete":
		r := L(A("fail"), I(p.val))
		if p.ok {
			r = L(A("succ"), I(p.val))
		}
		return L(A("complete"), A(p.api), r)
	case "register":
		return L(A("register"), A(p.api), I(p.id), A(p.exec))
	}
	return L(A("observe"))
}

func progOf(s *Sx) prog {
	switch s.Head() {
	case "complete":
		return prog{kind: "complete", api: s.List[1].Atom, ok: s.List[2].Head() == "succ", val: s.List[2].List[1].Int()}
	case "register":
		return prog{kind: "register", api: s.List[1].Atom, id: s.List[2].Int(), exec: s.List[3].Atom}
	}
	return prog{kind: "observe"}
}

func (p prog) result() fp.Try[int] {
	if p.ok {
		return fp.Success(p.val)
	}
	return fp.Failure[int](E(p.val))
}

type ownExec struct{ c *Coop }

func (e ownExec) ExecuteUnsafe(r fp.Runnable) {
	e.c.Yield("spawn", nil)
	r.Run()
}

type delivery struct {
	id        int
	shown     string
	completed bool // was the promise completed when the callback ran?
}

type caseResult struct {
	answer     string
	rets       []string
	deliveries []delivery
	observed   []string // values seen by observers that found the promise completed
	completed  bool
	value      string
	hung       bool
	casFails   int
}

func runCase(head string, zero bool, progs []prog, sched []int) caseResult {
	c := NewCoop()
	var p fp.Promise[int]
	if !zero {
		p = fp.NewPromise[int]()
	}
	fut := p.Future()
	res := caseResult{}
	fp.VerifSetYieldHook(func(point string) { c.Yield(point, nil) })
	fp.VerifSetSpawnHook(func(run func()) bool {
		c.Yield("spawn", nil)
		run()
		return true
	})
	defer fp.VerifSetYieldHook(nil)
	defer fp.VerifSetSpawnHook(nil)
	deliver := func(id int, shown string) {
		c.Mute = true
		done := p.IsCompleted()
		c.Mute = false
		res.deliveries = append(res.deliveries, delivery{id, shown, done})
	}
	for _, pr := range progs {
		pr := pr
		c.Spawn(func() string {
			switch pr.kind {
			case "complete":
				var b bool
				switch pr.api {
				case "success":
					b = p.Success(pr.val)
				case "failure":
					b = p.Failure(E(pr.val))
				default:
					b = p.Complete(pr.result())
				}
				return fmt.Sprintf("ret:%v", b)
			case "register":
				var ctx []fp.Executor
				switch pr.exec {
				case "nil":
					ctx = []fp.Executor{nil}
				case "own":
					ctx = []fp.Executor{ownExec{c}}
				}
				switch pr.api {
				case "oncomplete":
					fut.OnComplete(func(t fp.Try[int]) { deliver(pr.id, Show(t)) }, ctx...)
				case "onsuccess":
					fut.OnSuccess(func(v int) { deliver(pr.id, Show(v)) }, ctx...)
				case "foreach":
					fut.Foreach(func(v int) { deliver(pr.id, Show(v)) }, ctx...)
				case "onfailure":
					fut.OnFailure(func(err error) { deliver(pr.id, ShowErr(err)) }, ctx...)
				}
				return "ret"
			default:
				if fut.IsCompleted() {
					res.observed = append(res.observed, Show(fut.Value()))
					return "ret:done"
				}
				return "ret:pending"
			}
		})
	}
	tr := make([]string, 0, len(sched))
	prev := map[int]string{}
	for _, t := range c.Threads {
		prev[t.ID] = t.Point
	}
	note := func(t int, p string) {
		if p == "get" && prev[t] == "cas" {
			res.casFails++
		}
		prev[t] = p
	}
	for _, t := range sched {
		p := c.Step(t)
		note(t, p)
		tr = append(tr, fmt.Sprintf("%d>%s", t, p))
	}
	tr2 := c.Finish(10000)
	for _, e := range tr2 {
		var t int
		var p string
		fmt.Sscanf(e, "%d>%s", &t, &p)
		note(t, p)
	}
	res.hung = c.Hung
	for _, t := range c.Threads {
		res.rets = append(res.rets, t.Point)
	}
	res.completed = p.IsCompleted()
	fin := "completed=false"
	if res.completed {
		res.value = Show(p.Value())
		fin = "completed=true value=" + res.value
	}
	dl := make([]string, len(res.deliveries))
	for i, d := range res.deliveries {
		dl[i] = fmt.Sprintf("c%d:%s", d.id, d.shown)
	}
	res.answer = fmt.Sprintf("%s ; %s | %s | rets=[%s] %s", strings.Join(tr, " "), strings.Join(tr2, " "),
		strings.Join(dl, ","), strings.Join(res.rets, ","), fin)
	if res.hung {
		res.answer += " HANG"
	}
	_ = head
	return res
}

func opLine(head string, zero bool, progs []prog, sched []int) string {
	ps := []*Sx{A("progs")}
	for _, p := range progs {
		ps = append(ps, p.sx())
	}
	ss := []*Sx{A("sched")}
	for _, t := range sched {
		ss = append(ss, I(t))
	}
	z := 0
	if zero {
		z = 1
	}
	return L(A(head), I(z), L(ps...), L(ss...)).String()
}

func parseOp(line string) (head string, zero bool, progs []prog, sched []int, ok bool) {
	op, err := Parse(line)
	if err != nil || !op.IsL || len(op.List) != 4 {
		return
	}
	head = op.Head()
	zero = op.List[1].Int() != 0
	for _, s := range op.List[2].List[1:] {
		progs = append(progs, progOf(s))
	}
	for _, s := range op.List[3].List[1:] {
		sched = append(sched, s.Int())
	}
	ok = true
	return
}

// ------------------------------------------------------------------------------------ direct checks
// The property statement evaluated on the implementation's own log; no model involved.

func wants(api string, ok bool) bool {
	switch api {
	case "oncomplete":
		return true
	case "onfailure":
		return !ok
	}
	return ok
}

func directCheck(sink *Sink, line string, zero bool, progs []prog, r caseResult) int {
	checks := 0
	fail := func(key, what string) { sink.DirectFail(key, line, what) }
	if r.hung {
		fail("Promise.termination", "a granted thread neither yielded nor finished: "+strings.Join(r.rets, ","))
		return 1
	}
	// single assignment
	winners, completers := []int{}, 0
	for i, p := range progs {
		if p.kind == "complete" {
			completers++
			if r.rets[i] == "ret:true" {
				winners = append(winners, i)
			}
		}
		if strings.HasPrefix(r.rets[i], "panic") {
			fail("Promise.no-panic", fmt.Sprintf("thread %d: %s", i, r.rets[i]))
		}
	}
	checks++
	wantWinners := 0
	if completers > 0 && !zero {
		wantWinners = 1
	}
	if len(winners) != wantWinners {
		fail("Promise.single-assignment", fmt.Sprintf("%d Complete calls returned true, want %d", len(winners), wantWinners))
	}
	checks++
	if r.completed != (wantWinners == 1) {
		fail("Promise.single-assignment", fmt.Sprintf("IsCompleted=%v after quiescence with %d completers (zero=%v)", r.completed, completers, zero))
	}
	var final fp.Try[int]
	finalOK := false
	if len(winners) == 1 {
		final = progs[winners[0]].result()
		finalOK = progs[winners[0]].ok
		checks++
		if r.completed && r.value != Show(final) {
			fail("Promise.single-assignment", "Value()="+r.value+" but the winning Complete passed "+Show(final))
		}
		for _, o := range r.observed {
			checks++
			if o != Show(final) {
				fail("Promise.single-assignment", "an observer saw "+o+" but the winning Complete passed "+Show(final))
			}
		}
	}
	// callbacks: never before completion, exactly once subject to the filter, with the result
	count := map[int]int{}
	for _, d := range r.deliveries {
		count[d.id]++
		checks++
		if !d.completed {
			fail("Promise.no-callback-before-completion", fmt.Sprintf("callback c%d ran while IsCompleted()=false", d.id))
		}
	}
	for _, p := range progs {
		if p.kind != "register" {
			continue
		}
		checks++
		want := 0
		if len(winners) == 1 && wants(p.api, finalOK) {
			want = 1
		}
		if count[p.id] != want {
			fail("Promise.exactly-once", fmt.Sprintf("callback c%d (%s) delivered %d times, want %d (completed=%v)", p.id, p.api, count[p.id], want, r.completed))
		}
		if want == 1 && count[p.id] >= 1 {
			exp := ""
			switch p.api {
			case "oncomplete":
				exp = Show(final)
			case "onfailure":
				exp = ShowErr(E(progs[winners[0]].val))
			default:
				exp = Show(progs[winners[0]].val)
			}
			for _, d := range r.deliveries {
				if d.id == p.id && d.shown != exp {
					fail("Promise.exactly-once", fmt.Sprintf("callback c%d received %s, want %s", p.id, d.shown, exp))
				}
			}
		}
	}
	return checks
}

// ------------------------------------------------------------------------------------ generation

type config struct {
	zero  bool
	pre   int
	progs []prog // the first `pre` are registrations that the schedule runs to completion first
}

func genConfig(r *Rng) config {
	cfg := config{}
	cfg.zero = r.Intn(25) == 0
	cfg.pre = Pick(r, 0, 0, 1, 2, 3, 3, 3, 4, 5, 5, 6)
	id := 0
	reg := func() prog {
		id++
		return prog{kind: "register", api: Pick(r, "oncomplete", "oncomplete", "onsuccess", "onfailure", "foreach"), id: id,
			exec: Pick(r, "go", "go", "go", "nil", "own")}
	}
	for i := 0; i < cfg.pre; i++ {
		cfg.progs = append(cfg.progs, reg())
	}
	n := r.Range(2, 4)
	shape := r.Intn(10)
	for i := 0; i < n; i++ {
		k := r.Intn(10)
		switch {
		case shape == 0: // registrars only (promise never completed)
			cfg.progs = append(cfg.progs, reg())
		case shape == 1 && i < 2: // racing completers
			cfg.progs = append(cfg.progs, genComplete(r))
		case k < 5:
			cfg.progs = append(cfg.progs, reg())
		case k < 8:
			cfg.progs = append(cfg.progs, genComplete(r))
		default:
			cfg.progs = append(cfg.progs, prog{kind: "observe"})
		}
	}
	return cfg
}

func genComplete(r *Rng) prog {
	ok := r.Intn(3) != 0
	api := "complete"
	if r.Bool() {
		if ok {
			api = "success"
		} else {
			api = "failure"
		}
	}
	return prog{kind: "complete", api: api, ok: ok, val: r.Range(1, 9)}
}

// prefix that runs the pre-registrations sequentially to completion (get,cas / get,append,cas)
func prePrefix(cfg config) []int {
	s := []int{}
	if cfg.zero {
		return s
	}
	for i := 0; i < cfg.pre; i++ {
		s = append(s, i, i)
		if i > 0 {
			s = append(s, i)
		}
	}
	return s
}

func genSched(r *Rng, cfg config) ([]int, string) {
	s := prePrefix(cfg)
	n := len(cfg.progs)
	conc := []int{}
	for i := cfg.pre; i < n; i++ {
		conc = append(conc, i)
	}
	kind := Pick(r, "uniform", "uniform", "lockstep", "bursty", "complete-first", "complete-last", "wild")
	length := r.Range(4, 8*len(conc))
	switch kind {
	case "uniform":
		for i := 0; i < length; i++ {
			s = append(s, conc[r.Intn(len(conc))])
		}
	case "lockstep": // all threads advance one block at a time, in a random fixed order
		order := append([]int{}, conc...)
		for i := len(order) - 1; i > 0; i-- {
			j := r.Intn(i + 1)
			order[i], order[j] = order[j], order[i]
		}
		for round := 0; round < r.Range(2, 6); round++ {
			s = append(s, order...)
		}
	case "bursty":
		for len(s) < len(prePrefix(cfg))+length {
			t := conc[r.Intn(len(conc))]
			for k := r.Range(1, 3); k > 0; k-- {
				s = append(s, t)
			}
		}
	case "complete-first", "complete-last":
		cs, rs := []int{}, []int{}
		for _, t := range conc {
			if cfg.progs[t].kind == "complete" {
				cs = append(cs, t)
			} else {
				rs = append(rs, t)
			}
		}
		first, second := cs, rs
		if kind == "complete-last" {
			first, second = rs, cs
		}
		for _, grp := range [][]int{first, second} {
			if len(grp) == 0 {
				continue
			}
			for i := 0; i < 4*len(grp); i++ {
				s = append(s, grp[r.Intn(len(grp))])
			}
		}
	case "wild": // includes ids of finished / pre / nonexistent threads (skipped entries)
		for i := 0; i < length; i++ {
			s = append(s, r.Intn(n+1))
		}
	}
	return s, kind
}

// exhaustive enumeration of all maximal interleavings of the concurrent threads of cfg (stateless
// DFS on the real implementation), at most limit schedules. fn is called for each.
func exhaustive(cfg config, limit int, fn func(sched []int)) int {
	pre := prePrefix(cfg)
	stack := [][]int{pre}
	seen := 0
	for len(stack) > 0 && seen < limit {
		prefix := stack[len(stack)-1]
		stack = stack[:len(stack)-1]
		// run prefix, then always the lowest live thread; collect alternatives
		full, alts := explore(cfg, prefix)
		for i := len(full) - 1; i >= len(prefix); i-- {
			for _, a := range alts[i] {
				np := append(append([]int{}, full[:i]...), a)
				stack = append(stack, np)
			}
		}
		seen++
		fn(full)
	}
	return seen
}

// explore runs prefix then lowest-live-first on a throw-away promise just to learn the shape of the
// schedule tree (which threads are live at each step).
func explore(cfg config, prefix []int) (full []int, alts map[int][]int) {
	c := NewCoop()
	var p fp.Promise[int]
	if !cfg.zero {
		p = fp.NewPromise[int]()
	}
	fut := p.Future()
	fp.VerifSetYieldHook(func(point string) { c.Yield(point, nil) })
	fp.VerifSetSpawnHook(func(run func()) bool { c.Yield("spawn", nil); run(); return true })
	defer fp.VerifSetYieldHook(nil)
	defer fp.VerifSetSpawnHook(nil)
	for _, pr := range cfg.progs {
		pr := pr
		c.Spawn(func() string {
			switch pr.kind {
			case "complete":
				p.Complete(pr.result())
			case "register":
				fut.OnComplete(func(fp.Try[int]) {})
			default:
				if fut.IsCompleted() {
					fut.Value()
				}
			}
			return "ret"
		})
	}
	alts = map[int][]int{}
	for _, t := range prefix {
		c.Step(t)
		full = append(full, t)
	}
	for !c.AllFinished() && !c.Hung {
		live := c.Live()
		if len(live) == 0 {
			break
		}
		alts[len(full)] = live[1:]
		c.Step(live[0])
		full = append(full, live[0])
	}
	return
}

// ------------------------------------------------------------------------------------ stress
// Real goroutines, no hooks: racing registrations against a completion; exactly-once checked on
// per-callback counters.

func stress(sink *Sink, r *Rng, iters int) (checks int) {
	fp.VerifSetYieldHook(nil)
	fp.VerifSetSpawnHook(nil)
	violations := 0
	for it := 0; it < iters && violations < 5; it++ {
		pre := Pick(r, 0, 1, 3, 3, 5, 6, 7)
		nreg := r.Range(2, 6)
		p := fp.NewPromise[int]()
		fut := p.Future()
		total := pre + nreg
		counts := make([]int32, total)
		var wg sync.WaitGroup
		wg.Add(total)
		reg := func(i int) {
			fut.OnComplete(func(t fp.Try[int]) {
				if atomic.AddInt32(&counts[i], 1) == 1 {
					wg.Done()
				}
			})
		}
		for i := 0; i < pre; i++ {
			reg(i)
		}
		start := make(chan struct{})
		var launched sync.WaitGroup
		var trues int32
		for i := pre; i < total; i++ {
			i := i
			launched.Add(1)
			go func() { defer launched.Done(); <-start; reg(i) }()
		}
		ncomp := r.Range(1, 2)
		late := r.Bool()
		for k := 0; k < ncomp; k++ {
			launched.Add(1)
			go func() {
				defer launched.Done()
				<-start
				if late {
					time.Sleep(20 * time.Microsecond)
				}
				if p.Success(7) {
					atomic.AddInt32(&trues, 1)
				}
			}()
		}
		close(start)
		launched.Wait()
		done := make(chan struct{})
		go func() { wg.Wait(); close(done) }()
		select {
		case <-done:
		case <-time.After(5 * time.Second): // only a lost callback gets here
		}
		time.Sleep(50 * time.Microsecond) // let duplicate deliveries land
		checks += 2
		desc := fmt.Sprintf("(stress pre=%d registrars=%d completers=%d)", pre, nreg, ncomp)
		if trues != 1 {
			sink.DirectFail("Promise.single-assignment(stress)", desc, fmt.Sprintf("%d Success calls returned true", trues))
		}
		bad := []string{}
		for i := range counts {
			if n := atomic.LoadInt32(&counts[i]); n != 1 {
				bad = append(bad, fmt.Sprintf("c%d x%d", i, n))
			}
		}
		if len(bad) > 0 {
			sink.DirectFail("Promise.exactly-once(stress)", desc, "callbacks not delivered exactly once: "+strings.Join(bad, " "))
			hist["stress:violations"]++
			violations++
		}
		hist["stress:iterations"]++
	}
	return
}

// ------------------------------------------------------------------------------------ main

func main() {
	seed := flag.Uint64("seed", 1, "PRNG seed")
	n := flag.Int("n", 2000, "number of generated cases")
	out := flag.String("out", ".", "output directory")
	replay := flag.String("replay", "", "run one op line and print the implementation's answer")
	opsFile := flag.String("ops", "", "run the op lines of this file instead of generating")
	model := flag.String("model", "fixed", "which Lean model the op lines select: fixed (property) | asis (future.go as written)")
	nstress := flag.Int("stress", -1, "stress iterations with real goroutines (default n/10)")
	flag.Parse()
	head := "promise"
	if *model == "asis" {
		head = "promise-asis"
	}
	if strings.HasPrefix(*replay, "(stress") {
		d, _ := os.MkdirTemp("", "stress")
		sink := NewSink(d)
		n := stress(sink, NewRng(SeedMix(*seed)), 20000)
		sink.Close()
		fmt.Printf("stress: %d checks, %d violations of exactly-once/single-assignment\n", n, sink.DirectFailures)
		return
	}
	if *replay != "" {
		h, zero, progs, sched, ok := parseOp(*replay)
		if !ok {
			fmt.Println("bad-op")
			os.Exit(2)
		}
		fmt.Println(runCase(h, zero, progs, sched).answer)
		return
	}
	r := NewRng(SeedMix(*seed))
	sink := NewSink(*out)
	checks := 0
	if *opsFile != "" {
		for _, line := range ReadLines(*opsFile) {
			h, zero, progs, sched, ok := parseOp(line)
			if !ok {
				continue
			}
			var res caseResult
			sink.Case(line, func() string { res = runCase(h, zero, progs, sched); return res.answer })
			checks += directCheck(sink, line, zero, progs, res)
		}
		sink.Close()
		fmt.Printf("{\"cases\": %d, \"direct_checks\": %d, \"direct_failures\": %d}\n", sink.N, checks, sink.DirectFailures)
		return
	}
	record := func(cfg config, sched []int, kind string, res caseResult) {
		hist["sched:"+kind]++
		hist[fmt.Sprintf("pre:%d", cfg.pre)]++
		hist[fmt.Sprintf("threads:%d", len(cfg.progs)-cfg.pre)]++
		for _, p := range cfg.progs[cfg.pre:] {
			hist["prog:"+p.kind]++
			if p.kind == "register" {
				hist["api:"+p.api]++
				hist["exec:"+p.exec]++
			}
		}
		if cfg.zero {
			hist["zero-value"]++
		}
		if res.completed {
			hist["outcome:completed"]++
		} else {
			hist["outcome:pending"]++
		}
		cf := res.casFails
		if cf > 3 {
			cf = 3
		}
		hist[fmt.Sprintf("cas-failures:%d", cf)]++
		for _, p := range res.rets {
			hist["ret:"+p]++
		}
	}
	// random + biased schedules
	nExh := *n / 5
	for i := 0; i < *n-nExh; i++ {
		cfg := genConfig(r)
		sched, kind := genSched(r, cfg)
		line := opLine(head, cfg.zero, cfg.progs, sched)
		var res caseResult
		sink.Case(line, func() string { res = runCase(head, cfg.zero, cfg.progs, sched); return res.answer })
		checks += directCheck(sink, line, cfg.zero, cfg.progs, res)
		record(cfg, sched, kind, res)
	}
	// exhaustive-small: every interleaving of small configurations
	for done := 0; done < nExh; {
		cfg := config{pre: Pick(r, 0, 1, 2, 3, 3, 5)}
		id := 0
		for i := 0; i < cfg.pre; i++ {
			id++
			cfg.progs = append(cfg.progs, prog{kind: "register", api: "oncomplete", id: id, exec: "go"})
		}
		shape := r.Intn(4)
		addReg := func() {
			id++
			cfg.progs = append(cfg.progs, prog{kind: "register", api: Pick(r, "oncomplete", "onsuccess", "onfailure"), id: id, exec: "go"})
		}
		switch shape {
		case 0:
			addReg()
			addReg()
		case 1:
			addReg()
			cfg.progs = append(cfg.progs, genComplete(r))
		case 2:
			addReg()
			addReg()
			cfg.progs = append(cfg.progs, genComplete(r))
		default:
			cfg.progs = append(cfg.progs, genComplete(r), genComplete(r))
			addReg()
		}
		limit := nExh - done
		if limit > 400 {
			limit = 400
		}
		done += exhaustive(cfg, limit, func(sched []int) {
			line := opLine(head, cfg.zero, cfg.progs, sched)
			var res caseResult
			sink.Case(line, func() string { res = runCase(head, cfg.zero, cfg.progs, sched); return res.answer })
			checks += directCheck(sink, line, cfg.zero, cfg.progs, res)
			record(cfg, sched, "exhaustive", res)
		})
	}
	ns := *nstress
	if ns < 0 {
		ns = *n / 10
	}
	checks += stress(sink, r, ns)
	checks += illFormedChecks(sink)
	sink.Close()
	fmt.Printf("{\"cases\": %d, \"direct_checks\": %d, \"direct_failures\": %d, \"histogram\": {", sink.N, checks, sink.DirectFailures)
	keys := []string{}
	for k := range hist {
		keys = append(keys, k)
	}
	sort.Strings(keys)
	for i, k := range keys {
		if i > 0 {
			fmt.Print(", ")
		}
		fmt.Printf("%q: %d", k, hist[k])
	}
	fmt.Println("}}")
}
