// atomfacts: regenerates FpVerif/Gen/AtomFacts.lean from the repository's source on every run (Tie C of DESIGN.md).
//
// For every function / method / closure of the files whose code the concurrency models of C05 (Promise), C19
// (CopyOnWriteMap), C06 (Future combinators) and C16 (memo cells) describe, it extracts the SHAPE of the
// shared-memory operations in evaluation order, as a regular structure (sequence / branch / loop) over events:
//
//	yield <label>      verifhook.Yield("label")        (the boundary of an atomic block of the Lean step machines)
//	load store cas rmw sync/atomic functions and methods of sync/atomic types (recognised by go/types, not by name)
//	lock unlock deferUnlock   sync.Mutex / sync.RWMutex
//	onceDo <closure>   sync.Once.Do
//	append             the builtin (in-place write into a backing array that may be shared)
//	call <callee>      a function / method / interface method DECLARED in the analysed set (incl. internal/atomic wrappers)
//	cb                 a call of a func-typed VALUE (parameter, local, field, captured variable): a user callback
//	rvar/wvar <n>      read / write of a local variable that some closure assigns while another function level declared it
//	fload/fstore <f>   read / write of a struct field (declared in the analysed files) that is assigned anywhere in them
//	spawnHook goStmt   verifhook.Spawn(...), `go` statement
//	ret panic          return statement, builtin panic
//	other <what>       any other synchronisation construct (select, channel send/receive, sync.WaitGroup ...): never expected
//
// Pure code produces no events: renaming locals or reordering pure statements leaves the table unchanged.
// The committed theorems of FpVerif/Spec/C05Facts.lean, C19Facts.lean, C16AtomFacts.lean decide expectations about the table.
//
// usage: atomfacts REPO OUT.lean
package main

import (
	"fmt"
	"go/ast"
	"go/parser"
	"go/token"
	"go/types"
	"os"
	"path/filepath"
	"sort"
	"strconv"
	"strings"
)

// ---- what to analyse ------------------------------------------------------------------------------------------------

type target struct {
	pkg   string   // import path
	file  string   // relative to the repository
	funcs []string // nil: every function of the file; else only the named top-level functions (qualified like the table)
}

var targets = []target{
	{modPath + "/internal/atomic", "internal/atomic/atomic.go", nil},
	{modPath, "future.go", nil},
	{modPath + "/promise", "promise/promise_op.go", nil},
	{modPath + "/promise", "promise/future_op.go", nil},
	{modPath + "/future", "future/future_op.go", nil},
	{modPath + "/mutable", "mutable/copyonwrite.go", nil},
	{modPath + "/lazy", "lazy/lazy.go", []string{"lazy.Memoize"}},
	{modPath, "fp.go", []string{"fp.Memoize"}},
	{modPath + "/fn1", "fn1/fn1.go", []string{"fn1.Memoize"}},
}

// ---- the shape ------------------------------------------------------------------------------------------------------

type node struct {
	kind string // "ev", "br", "loop"
	ev   string // Lean term of the event (kind == "ev")
	alts [][]node
	body []node
}

func ev(s string) node { return node{kind: "ev", ev: s} }

func lean(ns []node) string {
	parts := make([]string, len(ns))
	for i, n := range ns {
		switch n.kind {
		case "ev":
			parts[i] = n.ev
		case "br":
			as := make([]string, len(n.alts))
			for j, a := range n.alts {
				as[j] = lean(a)
			}
			parts[i] = "br [" + strings.Join(as, ", ") + "]"
		case "loop":
			parts[i] = "loop (" + lean(n.body) + ")"
		}
	}
	return "seq [" + strings.Join(parts, ", ") + "]"
}

func empty(ns []node) bool { return len(ns) == 0 }

// branch with at least one non-empty alternative; loops with a non-empty body
func mkBr(alts [][]node) []node {
	for _, a := range alts {
		if !empty(a) {
			return []node{{kind: "br", alts: alts}}
		}
	}
	return nil
}

func mkLoop(body []node) []node {
	if empty(body) {
		return nil
	}
	return []node{{kind: "loop", body: body}}
}

// ---- extraction -----------------------------------------------------------------------------------------------------

type extractor struct {
	l           *loader
	targetFiles map[string]bool         // absolute file names
	selected    map[types.Object]bool   // extracted top-level functions
	fields      map[*types.Var]bool     // struct fields assigned somewhere in the extracted functions
	out         []fnOut
	warnings    []string
}

type fnOut struct {
	file, name string
	body       []node
}

type fctx struct {
	x      *extractor
	info   *types.Info
	name   string               // name of the function being walked
	shared map[*types.Var]int   // shared captured variables of the enclosing top-level function
	nlit   int                  // closures numbered in source order
	lits   []pendingLit
}

type pendingLit struct {
	name string
	lit  *ast.FuncLit
}

func pkgShort(p *types.Package) string {
	if p == nil {
		return ""
	}
	return p.Name()
}

func namedOf(t types.Type) *types.Named {
	t = types.Unalias(t)
	if p, ok := t.(*types.Pointer); ok {
		t = types.Unalias(p.Elem())
	}
	n, _ := t.(*types.Named)
	return n
}

// qualified name of a declared function / method / interface method: pkg.Func, pkg.Type.Method
func funcName(f *types.Func) string {
	f = f.Origin()
	sig := f.Type().(*types.Signature)
	if r := sig.Recv(); r != nil {
		if n := namedOf(r.Type()); n != nil {
			return pkgShort(f.Pkg()) + "." + n.Obj().Name() + "." + f.Name()
		}
		return pkgShort(f.Pkg()) + ".?." + f.Name()
	}
	return pkgShort(f.Pkg()) + "." + f.Name()
}

func (x *extractor) inTargetFile(pos token.Pos) bool {
	if !pos.IsValid() {
		return false
	}
	return x.targetFiles[x.l.fset.Position(pos).Filename]
}

func unparen(e ast.Expr) ast.Expr {
	for {
		p, ok := e.(*ast.ParenExpr)
		if !ok {
			return e
		}
		e = p.X
	}
}

func (c *fctx) calleeObj(call *ast.CallExpr) types.Object {
	fun := unparen(call.Fun)
	switch f := fun.(type) {
	case *ast.IndexExpr:
		fun = unparen(f.X)
	case *ast.IndexListExpr:
		fun = unparen(f.X)
	}
	switch f := fun.(type) {
	case *ast.Ident:
		return c.info.Uses[f]
	case *ast.SelectorExpr:
		if sel := c.info.Selections[f]; sel != nil {
			return sel.Obj()
		}
		return c.info.Uses[f.Sel]
	}
	return nil
}

func isPkg(o types.Object, path string) bool {
	return o != nil && o.Pkg() != nil && o.Pkg().Path() == path
}

func atomicKind(name string) string {
	switch {
	case strings.HasPrefix(name, "Load"):
		return ".load"
	case strings.HasPrefix(name, "Store"):
		return ".store"
	case strings.HasPrefix(name, "CompareAndSwap"):
		return ".cas"
	case strings.HasPrefix(name, "Swap"), strings.HasPrefix(name, "Add"), strings.HasPrefix(name, "And"), strings.HasPrefix(name, "Or"):
		return ".rmw"
	}
	return ""
}

func q(s string) string { return strconv.Quote(s) }

// events of the call itself (operands already walked)
func (c *fctx) callEvent(call *ast.CallExpr, onceArg string) []node {
	if tv, ok := c.info.Types[call.Fun]; ok && tv.IsType() {
		return nil // conversion
	}
	obj := c.calleeObj(call)
	switch o := obj.(type) {
	case *types.Builtin:
		switch o.Name() {
		case "append":
			return []node{ev("a .append")}
		case "panic":
			return []node{ev("a .panic")}
		case "close":
			return []node{ev("a (.other " + q("close") + ")")}
		}
		return nil
	case *types.Func:
		name := o.Name()
		recv := o.Type().(*types.Signature).Recv()
		switch {
		case isPkg(o, modPath+"/internal/verifhook"):
			if name == "Yield" {
				label := "?"
				if len(call.Args) == 1 {
					if bl, ok := call.Args[0].(*ast.BasicLit); ok && bl.Kind == token.STRING {
						label, _ = strconv.Unquote(bl.Value)
					} else {
						c.x.warnings = append(c.x.warnings, c.name+": Yield with a non-literal label")
					}
				}
				return []node{ev("y " + q(label))}
			}
			if name == "Spawn" {
				return []node{ev("a .spawnHook")}
			}
			return []node{ev("a (.other " + q("verifhook."+name) + ")")}
		case isPkg(o, "sync/atomic"):
			if k := atomicKind(name); k != "" {
				return []node{ev("a " + k)}
			}
			return []node{ev("a (.other " + q("atomic."+name) + ")")}
		case isPkg(o, "sync") && recv != nil:
			tn := ""
			if n := namedOf(recv.Type()); n != nil {
				tn = n.Obj().Name()
			}
			switch {
			case (tn == "Mutex" || tn == "RWMutex") && name == "Lock":
				return []node{ev("a .lock")}
			case (tn == "Mutex" || tn == "RWMutex") && name == "Unlock":
				return []node{ev("a .unlock")}
			case tn == "Once" && name == "Do":
				return []node{ev("a (.onceDo " + q(onceArg) + ")")}
			}
			return []node{ev("a (.other " + q("sync."+tn+"."+name) + ")")}
		case isPkg(o, "sync"):
			return []node{ev("a (.other " + q("sync."+name) + ")")}
		}
		// declared in the analysed set: an extracted function, or a method / interface method declared in a target file
		org := o.Origin()
		if c.x.selected[org] || (recv != nil && c.x.inTargetFile(org.Pos())) {
			return []node{ev("a (.call " + q(funcName(org)) + ")")}
		}
		return nil
	case *types.Var:
		// a func-typed value: parameter, local, captured variable, struct field
		return []node{ev("a .cb")}
	case nil:
		// calling the result of an expression (f(x)(y), closures called in place ...)
		if tv, ok := c.info.Types[call.Fun]; ok {
			if _, isSig := types.Unalias(tv.Type).Underlying().(*types.Signature); isSig {
				return []node{ev("a .cb")}
			}
		}
	}
	return nil
}

func (c *fctx) exprs(es []ast.Expr) []node {
	var out []node
	for _, e := range es {
		out = append(out, c.expr(e)...)
	}
	return out
}

func (c *fctx) fieldOf(sel *ast.SelectorExpr) *types.Var {
	if s := c.info.Selections[sel]; s != nil && s.Kind() == types.FieldVal {
		if v, ok := s.Obj().(*types.Var); ok {
			return v.Origin()
		}
	}
	return nil
}

// events of evaluating e, in Go's evaluation order (operands left to right, then the operation)
func (c *fctx) expr(e ast.Expr) []node {
	switch v := e.(type) {
	case nil:
		return nil
	case *ast.Ident:
		if o, ok := c.info.Uses[v].(*types.Var); ok {
			if i, sh := c.shared[o]; sh {
				return []node{ev(fmt.Sprintf("a (.rvar %d)", i))}
			}
		}
		return nil
	case *ast.BasicLit:
		return nil
	case *ast.FuncLit:
		c.newLit(v)
		return nil
	case *ast.ParenExpr:
		return c.expr(v.X)
	case *ast.SelectorExpr:
		out := c.expr(v.X)
		if f := c.fieldOf(v); f != nil && c.x.fields[f] {
			out = append(out, ev("a (.fload "+q(f.Name())+")"))
		}
		return out
	case *ast.IndexExpr:
		return append(c.expr(v.X), c.expr(v.Index)...)
	case *ast.IndexListExpr:
		return append(c.expr(v.X), c.exprs(v.Indices)...)
	case *ast.SliceExpr:
		out := c.expr(v.X)
		out = append(out, c.expr(v.Low)...)
		out = append(out, c.expr(v.High)...)
		return append(out, c.expr(v.Max)...)
	case *ast.TypeAssertExpr:
		return c.expr(v.X)
	case *ast.StarExpr:
		return c.expr(v.X)
	case *ast.UnaryExpr:
		out := c.expr(v.X)
		if v.Op == token.ARROW {
			out = append(out, ev("a (.other "+q("recv")+")"))
		}
		return out
	case *ast.BinaryExpr:
		out := c.expr(v.X)
		ys := c.expr(v.Y)
		if v.Op == token.LAND || v.Op == token.LOR {
			return append(out, mkBr([][]node{ys, nil})...)
		}
		return append(out, ys...)
	case *ast.KeyValueExpr:
		return append(c.expr(v.Key), c.expr(v.Value)...)
	case *ast.CompositeLit:
		return c.exprs(v.Elts)
	case *ast.CallExpr:
		var out []node
		// the function operand: for a method call the receiver expression
		fun := unparen(v.Fun)
		switch f := fun.(type) {
		case *ast.IndexExpr:
			fun = unparen(f.X)
		case *ast.IndexListExpr:
			fun = unparen(f.X)
		}
		switch f := fun.(type) {
		case *ast.SelectorExpr:
			out = append(out, c.expr(f.X)...)
			if fld := c.fieldOf(f); fld != nil && c.x.fields[fld] {
				out = append(out, ev("a (.fload "+q(fld.Name())+")"))
			}
		case *ast.Ident:
			out = append(out, c.expr(f)...)
		case *ast.FuncLit:
			c.newLit(f)
		default:
			if tv, ok := c.info.Types[v.Fun]; !ok || !tv.IsType() {
				out = append(out, c.expr(fun)...)
			}
		}
		onceArg := ""
		for _, a := range v.Args {
			if fl, ok := unparen(a).(*ast.FuncLit); ok {
				onceArg = c.newLit(fl)
			} else {
				out = append(out, c.expr(a)...)
			}
		}
		return append(out, c.callEvent(v, onceArg)...)
	case *ast.ArrayType, *ast.MapType, *ast.FuncType, *ast.InterfaceType, *ast.StructType, *ast.ChanType, *ast.Ellipsis:
		return nil
	}
	c.x.warnings = append(c.x.warnings, fmt.Sprintf("%s: unhandled expression %T", c.name, e))
	return []node{ev("a (.other " + q(fmt.Sprintf("%T", e)) + ")")}
}

func (c *fctx) newLit(l *ast.FuncLit) string {
	c.nlit++
	name := c.name + "$" + strconv.Itoa(c.nlit)
	c.lits = append(c.lits, pendingLit{name, l})
	return name
}

// assignment target: the write itself
func (c *fctx) lhs(e ast.Expr) []node {
	switch v := unparen(e).(type) {
	case *ast.Ident:
		var o types.Object = c.info.Uses[v]
		if o == nil {
			o = c.info.Defs[v]
		}
		if vr, ok := o.(*types.Var); ok {
			if i, sh := c.shared[vr]; sh {
				return []node{ev(fmt.Sprintf("a (.wvar %d)", i))}
			}
		}
		return nil
	case *ast.SelectorExpr:
		out := c.expr(v.X)
		if f := c.fieldOf(v); f != nil && c.x.fields[f] {
			out = append(out, ev("a (.fstore "+q(f.Name())+")"))
		}
		return out
	case *ast.IndexExpr:
		return append(c.expr(v.X), c.expr(v.Index)...)
	case *ast.StarExpr:
		return c.expr(v.X)
	}
	return c.expr(e)
}

func (c *fctx) stmts(ss []ast.Stmt) []node {
	var out []node
	for _, s := range ss {
		out = append(out, c.stmt(s)...)
	}
	return out
}

func (c *fctx) stmt(s ast.Stmt) []node {
	switch v := s.(type) {
	case nil:
		return nil
	case *ast.ExprStmt:
		return c.expr(v.X)
	case *ast.AssignStmt:
		out := c.exprs(v.Rhs)
		if v.Tok != token.ASSIGN && v.Tok != token.DEFINE { // x op= y reads x
			out = append(out, c.exprs(v.Lhs)...)
		}
		for _, l := range v.Lhs {
			out = append(out, c.lhs(l)...)
		}
		return out
	case *ast.IncDecStmt:
		return append(c.expr(v.X), c.lhs(v.X)...)
	case *ast.DeclStmt:
		var out []node
		if gd, ok := v.Decl.(*ast.GenDecl); ok {
			for _, sp := range gd.Specs {
				if vs, ok := sp.(*ast.ValueSpec); ok {
					out = append(out, c.exprs(vs.Values)...)
				}
			}
		}
		return out
	case *ast.ReturnStmt:
		return append(c.exprs(v.Results), ev("a .ret"))
	case *ast.BlockStmt:
		return c.stmts(v.List)
	case *ast.IfStmt:
		out := c.stmt(v.Init)
		out = append(out, c.expr(v.Cond)...)
		return append(out, mkBr([][]node{c.stmts(v.Body.List), c.stmt(v.Else)})...)
	case *ast.SwitchStmt:
		out := c.stmt(v.Init)
		out = append(out, c.expr(v.Tag)...)
		return append(out, c.clauses(v.Body)...)
	case *ast.TypeSwitchStmt:
		out := c.stmt(v.Init)
		switch a := v.Assign.(type) {
		case *ast.AssignStmt:
			out = append(out, c.exprs(a.Rhs)...)
		case *ast.ExprStmt:
			out = append(out, c.expr(a.X)...)
		}
		return append(out, c.clauses(v.Body)...)
	case *ast.ForStmt:
		out := c.stmt(v.Init)
		body := c.expr(v.Cond)
		body = append(body, c.stmts(v.Body.List)...)
		body = append(body, c.stmt(v.Post)...)
		return append(out, mkLoop(body)...)
	case *ast.RangeStmt:
		out := c.expr(v.X)
		return append(out, mkLoop(c.stmts(v.Body.List))...)
	case *ast.DeferStmt:
		out := []node{}
		if sel, ok := unparen(v.Call.Fun).(*ast.SelectorExpr); ok {
			out = append(out, c.expr(sel.X)...)
		}
		for _, a := range v.Call.Args {
			out = append(out, c.expr(a)...)
		}
		evs := c.callEvent(v.Call, "")
		if len(evs) == 1 && evs[0].ev == "a .unlock" {
			return append(out, ev("a .deferUnlock"))
		}
		if fl, ok := unparen(v.Call.Fun).(*ast.FuncLit); ok {
			return append(out, ev("a (.other "+q("defer "+c.newLit(fl))+")"))
		}
		if len(evs) > 0 {
			return append(out, ev("a (.other "+q("defer "+evs[0].ev)+")"))
		}
		return out
	case *ast.GoStmt:
		out := []node{}
		if sel, ok := unparen(v.Call.Fun).(*ast.SelectorExpr); ok {
			out = append(out, c.expr(sel.X)...)
		}
		if fl, ok := unparen(v.Call.Fun).(*ast.FuncLit); ok {
			c.newLit(fl)
		}
		for _, a := range v.Call.Args {
			out = append(out, c.expr(a)...)
		}
		return append(out, ev("a .goStmt"))
	case *ast.LabeledStmt:
		return c.stmt(v.Stmt)
	case *ast.BranchStmt:
		return []node{ev("a (.other " + q(v.Tok.String()) + ")")}
	case *ast.SendStmt:
		out := append(c.expr(v.Chan), c.expr(v.Value)...)
		return append(out, ev("a (.other "+q("send")+")"))
	case *ast.SelectStmt:
		return []node{ev("a (.other " + q("select") + ")")}
	case *ast.EmptyStmt:
		return nil
	}
	c.x.warnings = append(c.x.warnings, fmt.Sprintf("%s: unhandled statement %T", c.name, s))
	return []node{ev("a (.other " + q(fmt.Sprintf("%T", s)) + ")")}
}

// case clauses of a switch / type switch: one alternative per clause, plus the empty one when there is no default
func (c *fctx) clauses(body *ast.BlockStmt) []node {
	var alts [][]node
	hasDefault := false
	for _, cl := range body.List {
		cc := cl.(*ast.CaseClause)
		if cc.List == nil {
			hasDefault = true
		}
		var a []node
		for _, e := range cc.List {
			if tv, ok := c.info.Types[e]; ok && tv.IsType() {
				continue
			}
			a = append(a, c.expr(e)...)
		}
		a = append(a, c.stmts(cc.Body)...)
		alts = append(alts, a)
	}
	if !hasDefault {
		alts = append(alts, nil)
	}
	return mkBr(alts)
}

// ---- shared captured variables ----------------------------------------------------------------------------------------

// variables declared at one function level of fd and ASSIGNED inside a closure nested below that level
func sharedVars(info *types.Info, fd *ast.FuncDecl) map[*types.Var]int {
	type rng struct{ pos, end token.Pos }
	var lits []rng
	ast.Inspect(fd.Body, func(n ast.Node) bool {
		if fl, ok := n.(*ast.FuncLit); ok {
			lits = append(lits, rng{fl.Pos(), fl.End()})
		}
		return true
	})
	level := func(p token.Pos) int { // index of the innermost closure containing p, -1 = the declared function itself
		best, size := -1, token.Pos(1<<40)
		for i, r := range lits {
			if r.pos <= p && p < r.end && r.end-r.pos < size {
				best, size = i, r.end-r.pos
			}
		}
		return best
	}
	local := func(id *ast.Ident) *types.Var {
		v, ok := info.Uses[id].(*types.Var)
		if !ok || v.IsField() || v.Pos() < fd.Pos() || v.Pos() >= fd.End() {
			return nil
		}
		return v
	}
	marked := map[*types.Var]bool{}
	mark := func(e ast.Expr) {
		if id, ok := unparen(e).(*ast.Ident); ok {
			if v := local(id); v != nil && level(v.Pos()) != level(id.Pos()) {
				marked[v] = true
			}
		}
	}
	ast.Inspect(fd.Body, func(n ast.Node) bool {
		switch v := n.(type) {
		case *ast.AssignStmt:
			for _, l := range v.Lhs {
				mark(l)
			}
		case *ast.IncDecStmt:
			mark(v.X)
		case *ast.UnaryExpr:
			if v.Op == token.AND {
				mark(v.X)
			}
		case *ast.RangeStmt:
			if v.Tok == token.ASSIGN {
				mark(v.Key)
				mark(v.Value)
			}
		}
		return true
	})
	var vs []*types.Var
	for v := range marked {
		vs = append(vs, v)
	}
	sort.Slice(vs, func(i, j int) bool { return vs[i].Pos() < vs[j].Pos() })
	out := map[*types.Var]int{}
	for i, v := range vs {
		out[v] = i
	}
	return out
}

// ---- driver ---------------------------------------------------------------------------------------------------------

func main() {
	repo, out := os.Args[1], os.Args[2]
	repo, _ = filepath.Abs(repo)
	bodies := map[string]bool{}
	for _, t := range targets {
		bodies[t.pkg] = true
	}
	l := newLoader(repo, bodies)
	x := &extractor{l: l, targetFiles: map[string]bool{}, selected: map[types.Object]bool{}, fields: map[*types.Var]bool{}}
	for _, t := range targets {
		if _, err := l.load(t.pkg); err != nil {
			fmt.Fprintln(os.Stderr, "atomfacts:", err)
			os.Exit(1)
		}
		x.targetFiles[filepath.Join(repo, t.file)] = true
	}
	if len(l.errs) > 0 {
		fmt.Fprintln(os.Stderr, "atomfacts: type errors in the analysed packages:", strings.Join(l.errs[:min(len(l.errs), 5)], "; "))
		os.Exit(1)
	}
	// the functions to extract
	type item struct {
		t    target
		info *types.Info
		fd   *ast.FuncDecl
		obj  *types.Func
	}
	var items []item
	for _, t := range targets {
		info := l.infos[t.pkg]
		found := false
		for _, af := range l.files[t.pkg] {
			if l.fset.Position(af.Pos()).Filename != filepath.Join(repo, t.file) {
				continue
			}
			found = true
			for _, d := range af.Decls {
				fd, ok := d.(*ast.FuncDecl)
				if !ok || fd.Body == nil {
					continue
				}
				obj, _ := info.Defs[fd.Name].(*types.Func)
				if obj == nil {
					continue
				}
				if t.funcs != nil {
					keep := false
					for _, n := range t.funcs {
						keep = keep || n == funcName(obj)
					}
					if !keep {
						continue
					}
				}
				x.selected[obj] = true
				items = append(items, item{t, info, fd, obj})
			}
		}
		if !found {
			fmt.Fprintln(os.Stderr, "atomfacts: file not found in its package:", t.file)
			os.Exit(1)
		}
	}
	// struct fields (declared in the analysed files) assigned anywhere in the extracted functions
	for _, it := range items {
		tmp := &fctx{x: x, info: it.info}
		atomicArg := map[ast.Expr]bool{} // &x.f handed directly to a sync/atomic function IS the atomic access, not a plain one
		ast.Inspect(it.fd.Body, func(n ast.Node) bool {
			if call, ok := n.(*ast.CallExpr); ok {
				if o, ok := tmp.calleeObj(call).(*types.Func); ok && isPkg(o, "sync/atomic") {
					for _, a := range call.Args {
						atomicArg[unparen(a)] = true
					}
				}
			}
			markSel := func(e ast.Expr) {
				if sel, ok := unparen(e).(*ast.SelectorExpr); ok {
					if s := it.info.Selections[sel]; s != nil && s.Kind() == types.FieldVal {
						if v, ok := s.Obj().(*types.Var); ok && x.inTargetFile(v.Origin().Pos()) {
							x.fields[v.Origin()] = true
						}
					}
				}
			}
			switch v := n.(type) {
			case *ast.AssignStmt:
				for _, lh := range v.Lhs {
					markSel(lh)
				}
			case *ast.IncDecStmt:
				markSel(v.X)
			case *ast.UnaryExpr:
				if v.Op == token.AND && !atomicArg[v] {
					markSel(v.X)
				}
			}
			return true
		})
	}
	for _, it := range items {
		shared := sharedVars(it.info, it.fd)
		var work []pendingLit
		c := &fctx{x: x, info: it.info, name: funcName(it.obj), shared: shared}
		x.out = append(x.out, fnOut{it.t.file, c.name, c.stmts(it.fd.Body.List)})
		work = append(work, c.lits...)
		for len(work) > 0 {
			pl := work[0]
			work = work[1:]
			cc := &fctx{x: x, info: it.info, name: pl.name, shared: shared}
			x.out = append(x.out, fnOut{it.t.file, pl.name, cc.stmts(pl.lit.Body.List)})
			work = append(cc.lits, work...)
		}
	}
	// which named (non-generic) types of the analysed packages implement the interfaces declared in the analysed files
	type impl struct {
		iface string
		types []string
	}
	var impls []impl
	seenPkg := map[string]bool{}
	unfiltered := map[string]bool{}
	for _, t := range targets {
		if t.funcs == nil {
			unfiltered[filepath.Join(repo, t.file)] = true
		}
	}
	var pkgs []*types.Package
	for _, t := range targets {
		if !seenPkg[t.pkg] {
			seenPkg[t.pkg] = true
			pkgs = append(pkgs, l.pkgs[t.pkg])
		}
	}
	for _, p := range pkgs {
		for _, n := range p.Scope().Names() {
			tn, ok := p.Scope().Lookup(n).(*types.TypeName)
			if !ok || !unfiltered[l.fset.Position(tn.Pos()).Filename] {
				continue
			}
			named, ok := types.Unalias(tn.Type()).(*types.Named)
			if !ok || named.TypeParams().Len() > 0 {
				continue
			}
			it, ok := named.Underlying().(*types.Interface)
			if !ok || it.NumMethods() == 0 {
				continue
			}
			im := impl{iface: pkgShort(p) + "." + n}
			for _, p2 := range pkgs {
				for _, n2 := range p2.Scope().Names() {
					tn2, ok := p2.Scope().Lookup(n2).(*types.TypeName)
					if !ok {
						continue
					}
					nm2, ok := types.Unalias(tn2.Type()).(*types.Named)
					if !ok || nm2.TypeParams().Len() > 0 || types.IsInterface(nm2) {
						continue
					}
					if types.Implements(nm2, it) || types.Implements(types.NewPointer(nm2), it) {
						im.types = append(im.types, pkgShort(p2)+"."+n2)
					}
				}
			}
			impls = append(impls, im)
		}
	}

	var b strings.Builder
	b.WriteString("-- GENERATED by harness/cmd/atomfacts from the repository's source; do not edit.\n")
	b.WriteString("import FpVerif.Model.AtomShape\n")
	b.WriteString("namespace FpVerif.Gen.Atom\nopen FpVerif.AtomShape\n\n")
	b.WriteString("def funcs : List AFunc := [\n")
	nev := 0
	hist := map[string]int{}
	var count func(ns []node)
	count = func(ns []node) {
		for _, n := range ns {
			switch n.kind {
			case "ev":
				nev++
				k := strings.TrimPrefix(strings.TrimPrefix(n.ev, "a "), "(")
				k = strings.TrimPrefix(k, ".")
				if strings.HasPrefix(n.ev, "y ") {
					k = "yield"
				}
				if i := strings.IndexByte(k, ' '); i >= 0 {
					k = k[:i]
				}
				hist[k]++
			case "br":
				hist["br"]++
				for _, a := range n.alts {
					count(a)
				}
			case "loop":
				hist["loop"]++
				count(n.body)
			}
		}
	}
	for i, f := range x.out {
		sep := ","
		if i == len(x.out)-1 {
			sep = ""
		}
		fmt.Fprintf(&b, "  ⟨%s, %s,\n    %s⟩%s\n", q(f.file), q(f.name), lean(f.body), sep)
		count(f.body)
	}
	b.WriteString("]\n\n")
	b.WriteString("/-- interfaces declared in the analysed files and the named types of the analysed packages implementing them -/\n")
	b.WriteString("def impls : List (String × List String) := [\n")
	for i, im := range impls {
		ts := make([]string, len(im.types))
		for j, t := range im.types {
			ts[j] = q(t)
		}
		sep := ","
		if i == len(impls)-1 {
			sep = ""
		}
		fmt.Fprintf(&b, "  (%s, [%s])%s\n", q(im.iface), strings.Join(ts, ", "), sep)
	}
	b.WriteString("]\n\n")
	// who selects a CELL FIELD (a struct field declared in a fully analysed file whose type comes from sync, sync/atomic,
	// internal/atomic, or is an unsafe.Pointer) — in ANY file of the type-checked packages, not only the analysed ones
	cellFields := map[*types.Var]string{}
	for _, p := range pkgs {
		for _, n := range p.Scope().Names() {
			tn, ok := p.Scope().Lookup(n).(*types.TypeName)
			if !ok || !unfiltered[l.fset.Position(tn.Pos()).Filename] {
				continue
			}
			st, ok := tn.Type().Underlying().(*types.Struct)
			if !ok {
				continue
			}
			for i := 0; i < st.NumFields(); i++ {
				f := st.Field(i)
				ft := types.Unalias(f.Type())
				cell := false
				if b, ok := ft.(*types.Basic); ok && b.Kind() == types.UnsafePointer {
					cell = true
				}
				if nm := namedOf(ft); nm != nil && nm.Obj().Pkg() != nil {
					switch nm.Obj().Pkg().Path() {
					case "sync", "sync/atomic", modPath + "/internal/atomic":
						cell = true
					}
				}
				if cell {
					cellFields[f] = pkgShort(p) + "." + n + "." + f.Name()
				}
			}
		}
	}
	type fieldUse struct{ field, file, fn string }
	var uses []fieldUse
	seenUse := map[fieldUse]bool{}
	var pkgPaths []string
	for pp := range bodies {
		pkgPaths = append(pkgPaths, pp)
	}
	sort.Strings(pkgPaths)
	for _, pp := range pkgPaths {
		info := l.infos[pp]
		for _, af := range l.files[pp] {
			rel, _ := filepath.Rel(repo, l.fset.Position(af.Pos()).Filename)
			for _, d := range af.Decls {
				fd, ok := d.(*ast.FuncDecl)
				if !ok || fd.Body == nil {
					continue
				}
				fname := fd.Name.Name
				if obj, ok := info.Defs[fd.Name].(*types.Func); ok {
					fname = funcName(obj)
				}
				ast.Inspect(fd.Body, func(n ast.Node) bool {
					if sel, ok := n.(*ast.SelectorExpr); ok {
						if s := info.Selections[sel]; s != nil && s.Kind() == types.FieldVal {
							if v, ok := s.Obj().(*types.Var); ok {
								if q, ok := cellFields[v.Origin()]; ok {
									u := fieldUse{q, filepath.ToSlash(rel), fname}
									if !seenUse[u] {
										seenUse[u] = true
										uses = append(uses, u)
									}
								}
							}
						}
					}
					return true
				})
			}
		}
	}
	sort.SliceStable(uses, func(i, j int) bool { return uses[i].field < uses[j].field })
	b.WriteString("/-- every function (of ANY file of the type-checked packages) that selects a cell field: (field, file, function) -/\n")
	b.WriteString("def cellFieldUsers : List (String × String × String) := [\n")
	for i, u := range uses {
		sep := ","
		if i == len(uses)-1 {
			sep = ""
		}
		fmt.Fprintf(&b, "  (%s, %s, %s)%s\n", q(u.field), q(u.file), q(u.fn), sep)
	}
	b.WriteString("]\n\n")
	// non-test files of the whole repository importing internal/atomic
	var importers []string
	filepath.WalkDir(repo, func(p string, d os.DirEntry, err error) error {
		if err != nil {
			return nil
		}
		if d.IsDir() {
			if n := d.Name(); p != repo && (strings.HasPrefix(n, ".") || strings.HasPrefix(n, "_") || n == "testdata") {
				return filepath.SkipDir
			}
			return nil
		}
		if !strings.HasSuffix(p, ".go") || strings.HasSuffix(p, "_test.go") {
			return nil
		}
		af, err := parser.ParseFile(token.NewFileSet(), p, nil, parser.ImportsOnly)
		if err != nil {
			return nil
		}
		for _, im := range af.Imports {
			if im.Path.Value == strconv.Quote(modPath+"/internal/atomic") {
				rel, _ := filepath.Rel(repo, p)
				importers = append(importers, q(filepath.ToSlash(rel)))
			}
		}
		return nil
	})
	sort.Strings(importers)
	b.WriteString("/-- the non-test files of the repository importing internal/atomic -/\n")
	fmt.Fprintf(&b, "def atomicImporters : List String := [%s]\n\n", strings.Join(importers, ", "))
	var fs []string
	for f := range x.fields {
		fs = append(fs, q(f.Name()))
	}
	sort.Strings(fs)
	b.WriteString("/-- struct fields declared in the analysed files that are assigned outside composite literals -/\n")
	fmt.Fprintf(&b, "def writtenFields : List String := [%s]\n\n", strings.Join(fs, ", "))
	b.WriteString("end FpVerif.Gen.Atom\n")
	if err := os.MkdirAll(filepath.Dir(out), 0755); err != nil {
		fmt.Fprintln(os.Stderr, err)
		os.Exit(1)
	}
	if err := os.WriteFile(out, []byte(b.String()), 0644); err != nil {
		fmt.Fprintln(os.Stderr, err)
		os.Exit(1)
	}
	for _, w := range x.warnings {
		fmt.Fprintln(os.Stderr, "atomfacts: warning:", w)
	}
	keys := make([]string, 0, len(hist))
	for k := range hist {
		keys = append(keys, k)
	}
	sort.Strings(keys)
	hs := make([]string, len(keys))
	for i, k := range keys {
		hs[i] = fmt.Sprintf("%q: %d", k, hist[k])
	}
	fmt.Printf("{\"functions\": %d, \"events\": %d, \"warnings\": %d, \"histogram\": {%s}}\n", len(x.out), nev, len(x.warnings), strings.Join(hs, ", "))
}
