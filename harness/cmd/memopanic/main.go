// Correspondence + direct harness for memoised / deferred computations whose thunk PANICS or has effects (C16, work
// package ONCEPANIC): lazy.Memoize, fp.Memoize, fn1.Memoize, lazy.Call, lazy.TailCall, lazy.TailCall1..9 (and their
// compositions with Map / FlatMap / Map2), memoised list cells (fp.MakeList, list.Generate / GenerateFrom / Recurrence1).
//
// Every thunk counts its executions and logs `<tag><id>#<k>` (k = number of the execution): "executed at most once" is part
// of every compared line.  The discriminating inputs are thunks whose second execution would behave differently from the
// first (panic then value, value then another value): run-at-most-once means the second behaviour is never seen.
//
// op lines (oracle: lean/Oracle/MemoPanic.lean):
//
//	(memo lazy|fp TH n)            n recovered calls of lazy.Memoize(th) / fp.Memoize(th)
//	(memo1 TH a1 … an)             fn1.Memoize(f)(a1) … (an), recovered
//	(conc KIND TH m0 m1 …)         REAL goroutines: goroutine i makes m_i calls; the answer is the schedule-independent summary
//	(evalp CMD …)                  CMD = (def P) | (get j): Eval expressions with memo cells, Get repeated
//	(listp CMD …)                  CMD = (def LP) | (isEmpty j) | (head j) | (tail j) | (toSeq j)
//
// TH = (th id b0 b1 …) | (thnil), b = (v n) | (p n): the k-th execution shows behaviour b_k (the last one from then on).
package main

import (
	"flag"
	"fmt"
	"os"
	"runtime"
	"sort"
	"strconv"
	"strings"
	"sync"
	"sync/atomic"
	"time"

	"github.com/csgura/fp"
	"github.com/csgura/fp/fn1"
	"github.com/csgura/fp/lazy"
	"github.com/csgura/fp/list"
	. "verifharness/common"
)

type Ev = lazy.Eval[int]
type Lst = fp.List[int]

var hist = map[string]int{}

// ------------------------------------------------------------------------------------ outcomes

func showPanic(p any) string {
	if e, ok := p.(runtime.Error); ok && strings.Contains(e.Error(), "nil pointer dereference") {
		return "nil-deref"
	}
	return ShowPanic(p)
}

// recovered runs f; the answer is its rendering or panic(<p>)
func recovered(f func() string) (s string) {
	defer func() {
		if p := recover(); p != nil {
			s = "panic(" + showPanic(p) + ")"
		}
	}()
	return f()
}

func line(vals []string) string {
	return "[" + strings.Join(vals, ",") + "] | " + strings.Join(Log, ",")
}

// ------------------------------------------------------------------------------------ behaviours

type beh struct {
	kind string // v | p | some | none
	n    int
}

func behs(xs []*Sx) []beh {
	out := []beh{}
	for _, x := range xs {
		b := beh{kind: x.Head()}
		if len(x.List) > 1 {
			b.n = x.List[1].Int()
		}
		out = append(out, b)
	}
	return out
}

func pick(bs []beh, dflt beh, k int) beh {
	if k < len(bs) {
		return bs[k]
	}
	if len(bs) > 0 {
		return bs[len(bs)-1]
	}
	return dflt
}

// (th id b…): the k-th execution logs t<id>#<k>, then returns / panics.  (thnil): a nil func.
func thOf(s *Sx) func() int {
	if s.Head() == "thnil" {
		return nil
	}
	id, bs, k := s.List[1].Int(), behs(s.List[2:]), 0
	return func() int {
		i := k
		k++
		Emit("t%d#%d", id, i)
		b := pick(bs, beh{kind: "v"}, i)
		if b.kind == "p" {
			panic(b.n)
		}
		return b.n
	}
}

func th1Of(s *Sx) func(int) int {
	if s.Head() == "thnil" {
		return nil
	}
	id, bs, k := s.List[1].Int(), behs(s.List[2:]), 0
	return func(a int) int {
		i := k
		k++
		Emit("t%d#%d:%d", id, i, a)
		b := pick(bs, beh{kind: "v"}, i)
		if b.kind == "p" {
			panic(b.n)
		}
		return b.n + a
	}
}

// ------------------------------------------------------------------------------------ Eval programs

func f1Of(s *Sx) func(int) int {
	id := s.List[1].Int()
	switch s.Head() {
	case "lin":
		a, b := s.List[2].Int(), s.List[3].Int()
		return func(x int) int { Emit("f%d:%d", id, x); return a*x + b }
	case "fpanic":
		n := s.List[2].Int()
		return func(x int) int { Emit("f%d:%d", id, x); panic(n) }
	case "fpanicif":
		m, n := s.List[2].Int(), s.List[3].Int()
		return func(x int) int {
			Emit("f%d:%d", id, x)
			if Emod(x, m) == 0 {
				panic(n)
			}
			return x + 1
		}
	}
	panic("bad F1 " + s.String())
}

func f2Of(s *Sx) func(int, int) int {
	id := s.List[1].Int()
	switch s.Head() {
	case "lin2":
		a, b := s.List[2].Int(), s.List[3].Int()
		return func(x, y int) int { Emit("g%d:%d,%d", id, x, y); return a*x + b*y }
	case "g2panic":
		n := s.List[2].Int()
		return func(x, y int) int { Emit("g%d:%d,%d", id, x, y); panic(n) }
	}
	panic("bad F2 " + s.String())
}

type evalEnv struct{ roots []Ev }

// (the id e…), e = (e P) | (p n): a `func(args…) Eval[int]`; its k-th execution logs u<id>#<k>[:args] and evaluates P / panics
func (env *evalEnv) theOf(s *Sx) func(args ...int) Ev {
	id, es, k := s.List[1].Int(), s.List[2:], 0
	return func(args ...int) Ev {
		i := k
		k++
		sfx := ""
		if len(args) > 0 {
			parts := make([]string, len(args))
			for j, a := range args {
				parts[j] = strconv.Itoa(a)
			}
			sfx = ":" + strings.Join(parts, ",")
		}
		Emit("u%d#%d%s", id, i, sfx)
		if len(es) == 0 {
			return Ev{}
		}
		e := es[len(es)-1]
		if i < len(es) {
			e = es[i]
		}
		if e.Head() == "p" {
			panic(e.List[1].Int())
		}
		return env.prog(e.List[1])
	}
}

func (env *evalEnv) kOf(s *Sx) func(int) Ev {
	id := s.List[1].Int()
	switch s.Head() {
	case "klin":
		a, b := s.List[2].Int(), s.List[3].Int()
		return func(v int) Ev { Emit("k%d:%d", id, v); return lazy.Done(a*v + b) }
	case "kprog":
		p := s.List[2]
		return func(v int) Ev { Emit("k%d:%d", id, v); return env.prog(p) }
	case "kpanic":
		n := s.List[2].Int()
		return func(v int) Ev { Emit("k%d:%d", id, v); panic(n) }
	}
	panic("bad K " + s.String())
}

func (env *evalEnv) prog(s *Sx) Ev {
	a := s.List
	switch s.Head() {
	case "done":
		return lazy.Done(a[1].Int())
	case "zero":
		return Ev{}
	case "call":
		return lazy.Call(thOf(a[1]))
	case "tailCall":
		f := env.theOf(a[1])
		return lazy.TailCall(func() Ev { return f() })
	case "tailCallN":
		f := env.theOf(a[1])
		xs := []int{}
		for _, x := range a[2:] {
			xs = append(xs, x.Int())
		}
		switch len(xs) {
		case 1:
			return lazy.TailCall1(func(a1 int) Ev { return f(a1) }, xs[0])
		case 2:
			return lazy.TailCall2(func(a1, a2 int) Ev { return f(a1, a2) }, xs[0], xs[1])
		case 3:
			return lazy.TailCall3(func(a1, a2, a3 int) Ev { return f(a1, a2, a3) }, xs[0], xs[1], xs[2])
		case 4:
			return lazy.TailCall4(func(a1, a2, a3, a4 int) Ev { return f(a1, a2, a3, a4) }, xs[0], xs[1], xs[2], xs[3])
		case 5:
			return lazy.TailCall5(func(a1, a2, a3, a4, a5 int) Ev { return f(a1, a2, a3, a4, a5) }, xs[0], xs[1], xs[2], xs[3], xs[4])
		case 6:
			return lazy.TailCall6(func(a1, a2, a3, a4, a5, a6 int) Ev { return f(a1, a2, a3, a4, a5, a6) }, xs[0], xs[1], xs[2], xs[3], xs[4], xs[5])
		case 7:
			return lazy.TailCall7(func(a1, a2, a3, a4, a5, a6, a7 int) Ev { return f(a1, a2, a3, a4, a5, a6, a7) }, xs[0], xs[1], xs[2], xs[3], xs[4], xs[5], xs[6])
		case 8:
			return lazy.TailCall8(func(a1, a2, a3, a4, a5, a6, a7, a8 int) Ev { return f(a1, a2, a3, a4, a5, a6, a7, a8) }, xs[0], xs[1], xs[2], xs[3], xs[4], xs[5], xs[6], xs[7])
		case 9:
			return lazy.TailCall9(func(a1, a2, a3, a4, a5, a6, a7, a8, a9 int) Ev { return f(a1, a2, a3, a4, a5, a6, a7, a8, a9) }, xs[0], xs[1], xs[2], xs[3], xs[4], xs[5], xs[6], xs[7], xs[8])
		}
		panic("bad arity")
	case "flatMap":
		return env.prog(a[1]).FlatMap(env.kOf(a[2]))
	case "pflatMap":
		return lazy.FlatMap(env.prog(a[1]), env.kOf(a[2]))
	case "map":
		return env.prog(a[1]).Map(f1Of(a[2]))
	case "pmap":
		return lazy.Map(env.prog(a[1]), f1Of(a[2]))
	case "map2":
		x := env.prog(a[1])
		y := env.prog(a[2])
		return lazy.Map2(x, y, f2Of(a[3]))
	case "ref":
		return env.roots[a[1].Int()]
	}
	panic("bad P " + s.String())
}

func runEvalp(op *Sx) string {
	env := &evalEnv{}
	vals := []string{}
	for ci, c := range op.List[1:] {
		switch c.Head() {
		case "def":
			var e Ev
			vals = append(vals, recovered(func() string { e = env.prog(c.List[1]); return "ok" }))
			env.roots = append(env.roots, e)
		case "get":
			j := c.List[1].Int()
			if ci%2 == 0 {
				vals = append(vals, recovered(func() string { return Show(env.roots[j].Get()) }))
			} else {
				vals = append(vals, recovered(func() string { return Show(lazy.Run(env.roots[j])) }))
			}
		default:
			panic("bad cmd")
		}
	}
	return line(vals)
}

// ------------------------------------------------------------------------------------ lists

func optOf(b beh) fp.Option[int] {
	switch b.kind {
	case "some":
		return fp.Some(b.n)
	case "p":
		panic(b.n)
	}
	return fp.None[int]()
}

func hthOf(s *Sx) func() fp.Option[int] {
	id, bs, k := s.List[1].Int(), behs(s.List[2:]), 0
	return func() fp.Option[int] {
		i := k
		k++
		Emit("h%d#%d", id, i)
		return optOf(pick(bs, beh{kind: "none"}, i))
	}
}

// (g id n (i b…) …): the k-th call with index i logs g<id>:<i>#<k>
func genOf(s *Sx) func(int) fp.Option[int] {
	id, n := s.List[1].Int(), s.List[2].Int()
	specs := map[int][]beh{}
	for _, sp := range s.List[3:] {
		specs[sp.List[0].Int()] = behs(sp.List[1:])
	}
	cnt := map[int]int{}
	return func(i int) fp.Option[int] {
		k := cnt[i]
		cnt[i]++
		Emit("g%d:%d#%d", id, i, k)
		dflt := beh{kind: "none"}
		if i < n {
			dflt = beh{kind: "some", n: 10 * i}
		}
		b := dflt
		if bs, ok := specs[i]; ok {
			b = pick(bs, dflt, k)
		}
		return optOf(b)
	}
}

// (r id (x b…) …): the k-th call with argument x logs r<id>:<x>#<k>
func relOf(s *Sx) func(int) int {
	id := s.List[1].Int()
	specs := map[int][]beh{}
	for _, sp := range s.List[2:] {
		specs[sp.List[0].Int()] = behs(sp.List[1:])
	}
	cnt := map[int]int{}
	return func(x int) int {
		k := cnt[x]
		cnt[x]++
		Emit("r%d:%d#%d", id, x, k)
		b := beh{kind: "v", n: x + 1}
		if bs, ok := specs[x]; ok {
			b = pick(bs, b, k)
		}
		if b.kind == "p" {
			panic(b.n)
		}
		return b.n
	}
}

type listEnv struct{ roots []Lst }

func (env *listEnv) tthOf(s *Sx) func() Lst {
	id, es, k := s.List[1].Int(), s.List[2:], 0
	return func() Lst {
		i := k
		k++
		Emit("l%d#%d", id, i)
		if len(es) == 0 {
			return list.Empty[int]()
		}
		e := es[len(es)-1]
		if i < len(es) {
			e = es[i]
		}
		if e.Head() == "p" {
			panic(e.List[1].Int())
		}
		return env.lprog(e.List[1])
	}
}

func (env *listEnv) lprog(s *Sx) Lst {
	a := s.List
	switch s.Head() {
	case "empty":
		return list.Empty[int]()
	case "cons":
		return list.Apply(a[1].Int(), env.lprog(a[2]))
	case "make":
		return fp.MakeList(hthOf(a[1]), env.tthOf(a[2]))
	case "gen":
		return list.GenerateFrom(a[1].Int(), genOf(a[2]))
	case "gen0":
		return list.Generate(genOf(a[1]))
	case "rec1":
		return list.Recurrence1(a[1].Int(), relOf(a[2]))
	case "ref":
		return env.roots[a[1].Int()]
	}
	panic("bad LP " + s.String())
}

func runListp(op *Sx) string {
	env := &listEnv{}
	vals := []string{}
	for _, c := range op.List[1:] {
		j := 0
		if c.Head() != "def" {
			j = c.List[1].Int()
		}
		switch c.Head() {
		case "def":
			var l Lst
			vals = append(vals, recovered(func() string { l = env.lprog(c.List[1]); return "ok" }))
			env.roots = append(env.roots, l)
		case "isEmpty":
			vals = append(vals, recovered(func() string { return Show(env.roots[j].IsEmpty()) }))
		case "head":
			vals = append(vals, recovered(func() string { return Show(env.roots[j].Head()) }))
		case "tail":
			var t Lst
			vals = append(vals, recovered(func() string {
				t = env.roots[j].Tail()
				if t == nil {
					return "nil"
				}
				return "list"
			}))
			env.roots = append(env.roots, t)
		case "toSeq":
			vals = append(vals, recovered(func() string { return Show(env.roots[j].ToSeq()) }))
		default:
			panic("bad cmd")
		}
	}
	return line(vals)
}

// ------------------------------------------------------------------------------------ memo kinds (concurrent runs, direct checks)

// a kind wraps a thunk `func() int` into something memoised and returns the function that requests the result.
// `zeroObs` = what a request observes after the thunk panicked: the int zero value, or (list head) a List.empty panic.
type memoKind struct {
	name string
	mk   func(th func() int) func() int
}

var tailNil = func() Lst { return list.Empty[int]() }

func tailCallKind(ar int) memoKind {
	return memoKind{"tailCall" + strconv.Itoa(ar), func(th func() int) func() int {
		step := func() Ev { return lazy.Done(th()) }
		var e Ev
		switch ar {
		case 1:
			e = lazy.TailCall1(func(int) Ev { return step() }, 0)
		case 2:
			e = lazy.TailCall2(func(_, _ int) Ev { return step() }, 0, 0)
		case 3:
			e = lazy.TailCall3(func(_, _, _ int) Ev { return step() }, 0, 0, 0)
		case 4:
			e = lazy.TailCall4(func(_, _, _, _ int) Ev { return step() }, 0, 0, 0, 0)
		case 5:
			e = lazy.TailCall5(func(_, _, _, _, _ int) Ev { return step() }, 0, 0, 0, 0, 0)
		case 6:
			e = lazy.TailCall6(func(_, _, _, _, _, _ int) Ev { return step() }, 0, 0, 0, 0, 0, 0)
		case 7:
			e = lazy.TailCall7(func(_, _, _, _, _, _, _ int) Ev { return step() }, 0, 0, 0, 0, 0, 0, 0)
		case 8:
			e = lazy.TailCall8(func(_, _, _, _, _, _, _, _ int) Ev { return step() }, 0, 0, 0, 0, 0, 0, 0, 0)
		default:
			e = lazy.TailCall9(func(_, _, _, _, _, _, _, _, _ int) Ev { return step() }, 0, 0, 0, 0, 0, 0, 0, 0, 0)
		}
		return e.Get
	}}
}

// kinds whose requests return the memoised int (zero value 0 after a panic): these share the summary of the concurrent model
var intKinds = func() []memoKind {
	ks := []memoKind{
		{"lazy", func(th func() int) func() int { return lazy.Memoize(th) }},
		{"fp", func(th func() int) func() int { return fp.Memoize(th).Apply }},
		{"fn1", func(th func() int) func() int {
			m := fn1.Memoize(func(int) int { return th() })
			return func() int { return m(0) }
		}},
		{"call", func(th func() int) func() int { return lazy.Call(th).Get }},
		{"callRun", func(th func() int) func() int { e := lazy.Call(th); return func() int { return lazy.Run(e) } }},
		{"tailCall", func(th func() int) func() int {
			return lazy.TailCall(func() Ev { return lazy.Done(th()) }).Get
		}},
		{"tailCallCall", func(th func() int) func() int {
			return lazy.TailCall(func() Ev { return lazy.Call(th) }).Get
		}},
		{"callShared", func(th func() int) func() int {
			c := lazy.Call(th)
			return lazy.Map2(c, c, func(a, b int) int { return (a + b) / 2 }).Get
		}},
		{"listTail", func(th func() int) func() int {
			l := fp.MakeList(func() fp.Option[int] { return fp.Some(1) }, func() Lst { return list.Of(th()) })
			return func() int {
				t := l.Tail()
				if t == nil {
					return 0
				}
				return t.Head()
			}
		}},
		{"recurrence", func(th func() int) func() int {
			l := list.Recurrence1(1, func(int) int { return th() })
			return func() int {
				t := l.Tail()
				if t == nil {
					return 0
				}
				return t.Head()
			}
		}},
	}
	for ar := 1; ar <= 9; ar++ {
		ks = append(ks, tailCallKind(ar))
	}
	return ks
}()

// list head cells: after a panicking thunk the cell holds None, so a request panics with List.empty (which is not the thunk's panic)
var headKinds = []memoKind{
	{"listHead", func(th func() int) func() int {
		l := fp.MakeList(func() fp.Option[int] { return fp.Some(th()) }, tailNil)
		return func() int { return l.Head() }
	}},
	{"generateHead", func(th func() int) func() int {
		l := list.Generate(func(i int) fp.Option[int] {
			if i == 1 {
				return fp.Some(th())
			}
			return fp.Some(i)
		})
		return func() int { return l.Tail().Head() }
	}},
}

// directOnlyKinds: memoised things exercised by the model-free direct checks only (no op lines, the oracle does not know them).
// flatMapHeadTail (seed C16-12 of round 5): the head thunk and the tail thunk of ONE list.FlatMap cell both need fn(x); the
// requests alternate between l.Head() and l.Tail().Head(), so two goroutines force the two thunks of the same fresh cell at once -
// fn must still run once (the shared lazy.Call), whatever MakeList memoises per thunk.
var directOnlyKinds = []memoKind{
	{"flatMapHeadTail", func(th func() int) func() int {
		l := list.FlatMap(list.Of(7), func(int) Lst { v := th(); return list.Of(v, v) })
		var n atomic.Int64
		return func() int {
			if n.Add(1)%2 == 1 {
				return l.Head()
			}
			return l.Tail().Head()
		}
	}},
}

func kindByName(name string) (memoKind, bool) {
	name = strings.TrimSuffix(name, ".s")
	for _, k := range append(append(append([]memoKind{}, intKinds...), headKinds...), directOnlyKinds...) {
		if k.name == name {
			return k, true
		}
	}
	return memoKind{}, false
}

// one REAL concurrent run: goroutine i makes progs[i] requests after a common start signal.
type concResult struct {
	runs      int
	outcomes  [][]string // per goroutine: rendering of every request's outcome
	early     int        // requests that completed although the thunk had not finished
	timedOut  bool
	thunkDone bool
}

func runConc(kind memoKind, bs []beh, slow bool, progs []int) concResult {
	var runs, finished atomic.Int64
	th := func() int {
		k := int(runs.Add(1)) - 1
		if slow {
			time.Sleep(150 * time.Microsecond)
		} else {
			runtime.Gosched()
		}
		b := pick(bs, beh{kind: "v"}, k)
		finished.Add(1)
		if b.kind == "p" {
			panic(b.n)
		}
		return b.n
	}
	get := kind.mk(th)
	res := concResult{outcomes: make([][]string, len(progs))}
	var early atomic.Int64
	start := make(chan struct{})
	var wg sync.WaitGroup
	for i, m := range progs {
		wg.Add(1)
		go func() {
			defer wg.Done()
			<-start
			for c := 0; c < m; c++ {
				o := recovered(func() string { return strconv.Itoa(get()) })
				if finished.Load() == 0 {
					early.Add(1)
				}
				res.outcomes[i] = append(res.outcomes[i], o)
			}
		}()
	}
	close(start)
	doneCh := make(chan struct{})
	go func() { wg.Wait(); close(doneCh) }()
	select {
	case <-doneCh:
	case <-time.After(20 * time.Second):
		res.timedOut = true
		res.outcomes = make([][]string, len(progs)) // the goroutines may still be writing
	}
	res.runs = int(runs.Load())
	res.early = int(early.Load())
	return res
}

func runConcOp(op *Sx) string {
	kindName := op.List[1].Atom
	kind, ok := kindByName(kindName)
	if !ok {
		return "bad-op"
	}
	bs := behs(op.List[2].List[2:])
	progs := []int{}
	for _, x := range op.List[3:] {
		progs = append(progs, x.Int())
	}
	r := runConc(kind, bs, strings.HasSuffix(kindName, ".s"), progs)
	panics := 0
	vals := map[int]bool{}
	answers := []string{}
	for _, os := range r.outcomes {
		answers = append(answers, strconv.Itoa(len(os)))
		for _, o := range os {
			if strings.HasPrefix(o, "panic(") {
				panics++
			} else {
				v, _ := strconv.Atoi(o)
				vals[v] = true
			}
		}
	}
	vs := []int{}
	for v := range vals {
		vs = append(vs, v)
	}
	sort.Ints(vs)
	vss := []string{}
	for _, v := range vs {
		vss = append(vss, strconv.Itoa(v))
	}
	return fmt.Sprintf("runs=%d panics=%d answers=[%s] values=[%s] quiescent=%v", r.runs, panics, strings.Join(answers, ","),
		strings.Join(vss, ","), !r.timedOut)
}

// ------------------------------------------------------------------------------------ one op

func runCase(op *Sx) string {
	Log = Log[:0]
	switch op.Head() {
	case "memo":
		var get func() int
		switch op.List[1].Atom {
		case "lazy":
			get = lazy.Memoize(thOf(op.List[2]))
		case "fp":
			get = fp.Memoize(thOf(op.List[2])).Apply
		default:
			return "bad-op"
		}
		vals := []string{}
		for i, n := 0, op.List[3].Int(); i < n; i++ {
			vals = append(vals, recovered(func() string { return Show(get()) }))
		}
		return line(vals)
	case "memo1":
		m := fn1.Memoize(th1Of(op.List[1]))
		vals := []string{}
		for _, a := range op.List[2:] {
			vals = append(vals, recovered(func() string { return Show(m(a.Int())) }))
		}
		return line(vals)
	case "conc":
		return runConcOp(op)
	case "evalp":
		return runEvalp(op)
	case "listp":
		return runListp(op)
	}
	return "bad-op"
}

// ------------------------------------------------------------------------------------ generators

func genBehs(r *Rng) []*Sx {
	v := func() *Sx { return L(A("v"), I(r.Range(1, 99))) }
	p := func() *Sx { return L(A("p"), I(r.Range(1, 9))) }
	var name string
	var bs []*Sx
	switch r.Intn(10) {
	case 0, 1, 2:
		name, bs = "panic-then-value", []*Sx{p(), v()}
	case 3:
		name, bs = "panic-always", []*Sx{p()}
	case 4:
		name, bs = "panic-then-other-panic", []*Sx{p(), p()}
	case 5, 6:
		name, bs = "value-then-other-value", []*Sx{v(), v()}
	case 7:
		name, bs = "value-then-panic", []*Sx{v(), p()}
	case 8:
		name, bs = "value-zero", []*Sx{L(A("v"), I(0))}
	default:
		name, bs = "value", []*Sx{v()}
	}
	hist["thunk."+name]++
	return bs
}

func genTH(r *Rng) *Sx {
	return L(append([]*Sx{A("th"), I(NewID())}, genBehs(r)...)...)
}

// thunks for the direct-only kinds: the FIRST execution returns a value (what a second execution would do still differs, so a
// re-run is visible); the alternating access paths of those kinds render a panicking first execution differently per path
func genTHValueFirst(r *Rng) *Sx {
	v := func() *Sx { return L(A("v"), I(r.Range(1, 99))) }
	bs := []*Sx{v(), v()}
	if r.Intn(3) == 0 {
		bs = []*Sx{v(), L(A("p"), I(r.Range(1, 9)))}
	}
	return L(append([]*Sx{A("th"), I(NewID())}, bs...)...)
}

func isDirectOnly(kind string) bool {
	for _, k := range directOnlyKinds {
		if k.name == strings.TrimSuffix(kind, ".s") {
			return true
		}
	}
	return false
}

func genF1(r *Rng) *Sx {
	switch r.Intn(8) {
	case 0:
		return L(A("fpanic"), I(NewID()), I(r.Range(1, 9)))
	case 1:
		return L(A("fpanicif"), I(NewID()), I(r.Range(2, 3)), I(r.Range(1, 9)))
	}
	return L(A("lin"), I(NewID()), I(r.Range(-2, 3)), I(r.Range(-3, 5)))
}

func genF2(r *Rng) *Sx {
	if r.Intn(8) == 0 {
		return L(A("g2panic"), I(NewID()), I(r.Range(1, 9)))
	}
	return L(A("lin2"), I(NewID()), I(r.Range(-2, 3)), I(r.Range(-2, 3)))
}

// (the id e…)
func genTHE(r *Rng, d, nroots int) *Sx {
	e := func() *Sx { return L(A("e"), genP(r, d-1, nroots)) }
	p := func() *Sx { return L(A("p"), I(r.Range(1, 9))) }
	xs := []*Sx{A("the"), I(NewID())}
	switch r.Intn(8) {
	case 0, 1, 2:
		hist["evalThunk.panic-then-eval"]++
		xs = append(xs, p(), e())
	case 3:
		hist["evalThunk.panic-always"]++
		xs = append(xs, p())
	case 4:
		hist["evalThunk.eval-then-other"]++
		xs = append(xs, e(), e())
	case 5:
		hist["evalThunk.eval-then-panic"]++
		xs = append(xs, e(), p())
	default:
		hist["evalThunk.eval"]++
		xs = append(xs, e())
	}
	return L(xs...)
}

func genK(r *Rng, d, nroots int) *Sx {
	switch r.Intn(6) {
	case 0:
		return L(A("kpanic"), I(NewID()), I(r.Range(1, 9)))
	case 1, 2:
		return L(A("kprog"), I(NewID()), genP(r, d-1, nroots))
	}
	return L(A("klin"), I(NewID()), I(r.Range(-2, 3)), I(r.Range(-3, 5)))
}

func genP(r *Rng, d, nroots int) *Sx {
	if d <= 0 || r.Intn(4) == 0 {
		switch r.Intn(8) {
		case 0:
			return L(A("zero"))
		case 1:
			return L(A("done"), I(r.Range(-5, 9)))
		case 2:
			if nroots > 0 {
				return L(A("ref"), I(r.Intn(nroots)))
			}
		case 3:
			if d > 0 {
				xs := []*Sx{A("tailCallN"), genTHE(r, d, nroots)}
				for i, n := 0, r.Range(1, 9); i < n; i++ {
					xs = append(xs, I(r.Range(-5, 9)))
				}
				return L(xs...)
			}
		case 4:
			if d > 0 {
				return L(A("tailCall"), genTHE(r, d, nroots))
			}
		}
		return L(A("call"), genTH(r))
	}
	switch r.Intn(10) {
	case 0, 1:
		return L(A(Pick(r, "map", "pmap")), genP(r, d-1, nroots), genF1(r))
	case 2, 3:
		return L(A(Pick(r, "flatMap", "pflatMap")), genP(r, d-1, nroots), genK(r, d, nroots))
	case 4:
		return L(A("map2"), genP(r, d-1, nroots), genP(r, d-1, nroots), genF2(r))
	case 5:
		if nroots > 0 {
			j := r.Intn(nroots)
			return L(A("map2"), L(A("ref"), I(j)), L(A("ref"), I(j)), genF2(r))
		}
	case 6, 7:
		xs := []*Sx{A("tailCallN"), genTHE(r, d, nroots)}
		for i, n := 0, r.Range(1, 9); i < n; i++ {
			xs = append(xs, I(r.Range(-5, 9)))
		}
		return L(xs...)
	}
	return L(A("tailCall"), genTHE(r, d, nroots))
}

func genEvalp(r *Rng) *Sx {
	cmds := []*Sx{A("evalp")}
	nroots := 0
	for i, n := 0, r.Range(1, 3); i < n; i++ {
		cmds = append(cmds, L(A("def"), genP(r, 1+r.Intn(3), nroots)))
		nroots++
		for g, m := 0, r.Range(0, 3); g < m; g++ {
			cmds = append(cmds, L(A("get"), I(r.Intn(nroots))))
		}
	}
	for g, m := 0, r.Range(1, 3); g < m; g++ {
		cmds = append(cmds, L(A("get"), I(r.Intn(nroots))))
	}
	return L(cmds...)
}

func genHBehs(r *Rng) []*Sx {
	s := func() *Sx { return L(A("some"), I(r.Range(1, 99))) }
	p := func() *Sx { return L(A("p"), I(r.Range(1, 9))) }
	switch r.Intn(8) {
	case 0, 1, 2:
		hist["headThunk.panic-then-some"]++
		return []*Sx{p(), s()}
	case 3:
		hist["headThunk.panic-always"]++
		return []*Sx{p()}
	case 4:
		hist["headThunk.some-then-other"]++
		return []*Sx{s(), s()}
	case 5:
		hist["headThunk.none"]++
		return []*Sx{L(A("none"))}
	case 6:
		hist["headThunk.some-then-panic"]++
		return []*Sx{s(), p()}
	}
	hist["headThunk.some"]++
	return []*Sx{s()}
}

// returns the expression and whether it may denote an infinite list
func genLP(r *Rng, d, nroots int, inf []bool) (*Sx, bool) {
	if d <= 0 {
		if nroots > 0 && r.Intn(3) == 0 {
			j := r.Intn(nroots)
			return L(A("ref"), I(j)), inf[j]
		}
		return L(A("empty")), false
	}
	switch r.Intn(10) {
	case 0:
		t, i := genLP(r, d-1, nroots, inf)
		return L(A("cons"), I(r.Range(1, 99)), t), i
	case 1, 2, 3:
		// generator list: some indices misbehave
		n := r.Range(0, 5)
		g := []*Sx{A("g"), I(NewID()), I(n)}
		used := map[int]bool{}
		start := r.Range(-1, 2)
		for k, m := 0, r.Intn(3); k < m; k++ {
			i := start + r.Intn(5)
			if used[i] {
				continue
			}
			used[i] = true
			g = append(g, L(append([]*Sx{I(i)}, genHBehs(r)...)...))
		}
		if start == 0 && r.Bool() {
			return L(A("gen0"), L(g...)), false
		}
		return L(A("gen"), I(start), L(g...)), false
	case 4, 5:
		rel := []*Sx{A("r"), I(NewID())}
		a := r.Range(0, 3)
		usedX := map[int]bool{}
		for k, m := 0, r.Range(0, 2); k < m; k++ {
			x := a + r.Intn(4)
			if usedX[x] {
				continue
			}
			usedX[x] = true
			// values far above every key: the sequence a, rel(a), … never repeats, so "k-th call with argument x" is the
			// k-th execution of ONE cell's thunk
			bs := genBehs(r)
			for _, b := range bs {
				if b.Head() == "v" {
					b.List[1] = I(100 + b.List[1].Int())
				}
			}
			rel = append(rel, L(append([]*Sx{I(x)}, bs...)...))
		}
		return L(A("rec1"), I(a), L(rel...)), true
	}
	// fp.MakeList with explicit thunks
	h := L(append([]*Sx{A("hth"), I(NewID())}, genHBehs(r)...)...)
	tt := []*Sx{A("tth"), I(NewID())}
	anyInf := false
	e := func() *Sx {
		t, i := genLP(r, d-1, nroots, inf)
		anyInf = anyInf || i
		return L(A("e"), t)
	}
	p := func() *Sx { return L(A("p"), I(r.Range(1, 9))) }
	switch r.Intn(8) {
	case 0, 1, 2:
		hist["tailThunk.panic-then-list"]++
		tt = append(tt, p(), e())
	case 3:
		hist["tailThunk.panic-always"]++
		tt = append(tt, p())
	case 4:
		hist["tailThunk.list-then-other"]++
		tt = append(tt, e(), e())
	case 5:
		hist["tailThunk.list-then-panic"]++
		tt = append(tt, e(), p())
	default:
		hist["tailThunk.list"]++
		tt = append(tt, e())
	}
	return L(A("make"), h, L(tt...)), anyInf
}

func genListp(r *Rng) *Sx {
	cmds := []*Sx{A("listp")}
	inf := []bool{}
	anyInf := false
	nroots := 0
	for i, n := 0, r.Range(1, 2); i < n; i++ {
		lp, isInf := genLP(r, 1+r.Intn(3), nroots, inf)
		cmds = append(cmds, L(A("def"), lp))
		inf = append(inf, isInf)
		anyInf = anyInf || isInf
		nroots++
	}
	for k, m := 0, r.Range(2, 9); k < m; k++ {
		j := r.Intn(nroots)
		switch r.Intn(8) {
		case 0:
			cmds = append(cmds, L(A("isEmpty"), I(j)))
		case 1, 2:
			cmds = append(cmds, L(A("head"), I(j)))
		case 3, 4, 5:
			cmds = append(cmds, L(A("tail"), I(j)))
			inf = append(inf, anyInf)
			nroots++
		default:
			if anyInf {
				cmds = append(cmds, L(A("head"), I(j)))
			} else {
				cmds = append(cmds, L(A("toSeq"), I(j)))
			}
		}
	}
	return L(cmds...)
}

func genConc(r *Rng) *Sx {
	kind := intKinds[r.Intn(len(intKinds))].name
	if r.Intn(3) == 0 {
		kind += ".s"
	}
	xs := []*Sx{A("conc"), A(kind), genTH(r)}
	switch r.Intn(8) {
	case 0: // nobody asks
	case 1:
		xs = append(xs, I(0), I(0))
	case 2:
		xs = append(xs, I(1))
	default:
		for i, n := 0, r.Range(2, 8); i < n; i++ {
			xs = append(xs, I(r.Range(0, 4)))
		}
	}
	return L(xs...)
}

func genOp(r *Rng) *Sx {
	ResetIDs()
	switch k := r.Intn(20); {
	case k < 3:
		return L(A("memo"), A(Pick(r, "lazy", "fp")), genTH(r), I(r.Range(0, 5)))
	case k < 5:
		xs := []*Sx{A("memo1"), genTH(r)}
		for i, n := 0, r.Range(0, 5); i < n; i++ {
			xs = append(xs, I(r.Range(-3, 9)))
		}
		return L(xs...)
	case k < 7:
		return genConc(r)
	case k < 14:
		return genEvalp(r)
	}
	return genListp(r)
}

func count(s *Sx) {
	if s.IsL {
		if h := s.Head(); h != "" && h != "v" && h != "p" && h != "e" && h != "some" && h != "none" && (h[0] < '0' || h[0] > '9') && h[0] != '-' {
			hist[h]++
		}
		for _, x := range s.List {
			count(x)
		}
	}
}

// ------------------------------------------------------------------------------------ direct checks (no model)

// (direct seq KIND TH n): n recovered requests, one goroutine.  Property: the thunk was executed at most once (exactly once
// if n >= 1); all requests after the first observe the same thing; if the one execution returned v, every request returns v.
func directSeq(kindName string, th *Sx, n int) string {
	kind, ok := kindByName(kindName)
	if !ok {
		return "bad kind"
	}
	bs := behs(th.List[2:])
	runs := 0
	get := kind.mk(func() int {
		k := runs
		runs++
		b := pick(bs, beh{kind: "v"}, k)
		if b.kind == "p" {
			panic(b.n)
		}
		return b.n
	})
	outs := []string{}
	for i := 0; i < n; i++ {
		outs = append(outs, recovered(func() string { return strconv.Itoa(get()) }))
	}
	want := 0
	if n > 0 {
		want = 1
	}
	if runs != want {
		return fmt.Sprintf("thunk executed %d times for %d requests (outcomes %v)", runs, n, outs)
	}
	for i := 2; i < n; i++ {
		if outs[i] != outs[1] {
			return fmt.Sprintf("requests after the first disagree: %v", outs)
		}
	}
	if b0 := pick(bs, beh{kind: "v"}, 0); b0.kind == "v" {
		for _, o := range outs {
			if o != strconv.Itoa(b0.n) {
				return fmt.Sprintf("thunk returned %d but the requests observed %v", b0.n, outs)
			}
		}
	}
	return ""
}

// (direct conc KIND TH g m): g goroutines x m requests after a common start signal.  Property: one execution; no request
// completes before the thunk has finished; all returning requests return the same value; everybody gets an answer.
func directConc(kindName string, th *Sx, g, m int) string {
	kind, ok := kindByName(kindName)
	if !ok {
		return "bad kind"
	}
	bs := behs(th.List[2:])
	progs := make([]int, g)
	for i := range progs {
		progs[i] = m
	}
	r := runConc(kind, bs, strings.HasSuffix(kindName, ".s"), progs)
	if r.timedOut {
		return "requests still blocked after 20s (deadlock)"
	}
	want := 0
	if g*m > 0 {
		want = 1
	}
	if r.runs != want {
		return fmt.Sprintf("thunk executed %d times for %d goroutines x %d requests", r.runs, g, m)
	}
	if r.early != 0 {
		return fmt.Sprintf("%d requests completed before the thunk had finished", r.early)
	}
	vals := map[string]bool{}
	for _, os := range r.outcomes {
		if len(os) != m {
			return fmt.Sprintf("a goroutine got %d answers for %d requests", len(os), m)
		}
		for _, o := range os {
			if !strings.HasPrefix(o, "panic(") {
				vals[o] = true
			}
		}
	}
	if len(vals) > 1 {
		return fmt.Sprintf("requests returned different values: %v", r.outcomes)
	}
	if b0 := pick(bs, beh{kind: "v"}, 0); b0.kind == "v" {
		for _, os := range r.outcomes {
			for _, o := range os {
				if o != strconv.Itoa(b0.n) {
					return fmt.Sprintf("thunk returned %d but requests observed %v", b0.n, r.outcomes)
				}
			}
		}
	}
	return ""
}

func runDirect(op *Sx) string {
	a := op.List
	switch a[1].Atom {
	case "seq":
		return directSeq(a[2].Atom, a[3], a[4].Int())
	case "conc":
		return directConc(a[2].Atom, a[3], a[4].Int(), a[5].Int())
	}
	return "bad direct op"
}

func direct(r *Rng, sink *Sink, dir string, n int) int {
	checks := 0
	all := append(append(append([]memoKind{}, intKinds...), headKinds...), directOnlyKinds...)
	do := func(op *Sx) {
		checks++
		sink.Probe(dir, "memopanic/direct", op.String())
		what := runDirect(op)
		sink.ProbeDone(dir)
		if what != "" {
			sink.DirectFail("run-once/"+op.List[2].Atom, op.String(), what)
		}
	}
	for i := 0; i < n; i++ {
		ResetIDs()
		kind := all[(i+r.Intn(2))%len(all)].name
		hist["direct.seq."+kind]++
		th := genTH(r)
		if isDirectOnly(kind) {
			th = genTHValueFirst(r)
		}
		do(L(A("direct"), A("seq"), A(kind), th, I(r.Range(0, 5))))
	}
	for i := 0; i < n/4+len(all); i++ {
		ResetIDs()
		kind := all[i%len(all)].name
		if r.Intn(3) == 0 {
			kind += ".s"
		}
		hist["direct.conc."+strings.TrimSuffix(kind, ".s")]++
		th := genTH(r)
		if isDirectOnly(kind) {
			th = genTHValueFirst(r)
		}
		do(L(A("direct"), A("conc"), A(kind), th, I(r.Range(2, 8)), I(r.Range(1, 3))))
	}
	checks += liftedReuse(sink)
	return checks
}

// ------------------------------------------------------------------------------------ main

// hand-written edge cases: no request at all, a single request, nil thunks, zero values, the zero Eval, empty lists,
// every TailCallN arity with a panicking step, a shared Call requested twice in one evaluation
var edgeOps = func() []string {
	ops := []string{
		"(memo lazy (th 1 (p 3) (v 42)) 0)",
		"(memo lazy (th 1 (p 3) (v 42)) 1)",
		"(memo lazy (th 1 (p 3) (v 42)) 3)",
		"(memo fp (th 1 (p 3) (v 42)) 3)",
		"(memo lazy (thnil) 2)",
		"(memo fp (thnil) 2)",
		"(memo lazy (th 1 (v 0)) 2)",
		"(memo1 (th 1 (p 3) (v 42)))",
		"(memo1 (th 1 (p 3) (v 42)) 1 2 3)",
		"(memo1 (th 1 (v 5) (v 6)) 1 2 3)",
		"(memo1 (thnil) 1 2)",
		"(conc lazy (th 1 (p 3) (v 42)))",
		"(conc fp.s (th 1 (p 3) (v 42)) 2 2 2 2)",
		"(conc call.s (th 1 (v 7) (v 8)) 3 3 3)",
		"(evalp (def (zero)) (get 0) (get 0))",
		"(evalp (def (call (thnil))) (get 0) (get 0))",
		"(evalp (def (call (th 1 (p 3) (v 42)))) (get 0) (get 0) (get 0))",
		"(evalp (def (tailCall (the 1 (p 4) (e (done 5))))) (get 0) (get 0))",
		"(evalp (def (tailCall (the 1))) (get 0))",
		"(evalp (def (tailCall (the 1 (e (call (th 2 (p 3) (v 42))))))) (get 0) (get 0))",
		"(evalp (def (map (call (th 1 (p 3) (v 42))) (lin 2 1 100))) (get 0) (get 0))",
		"(evalp (def (call (th 1 (v 3) (v 4)))) (def (map2 (ref 0) (ref 0) (lin2 2 1 1))) (get 1) (get 1) (get 0))",
		"(evalp (def (call (th 1 (p 3) (v 4)))) (def (map2 (ref 0) (ref 0) (lin2 2 1 1))) (get 1) (get 1) (get 0))",
		"(evalp (def (flatMap (call (th 1 (v 3))) (kprog 2 (call (th 3 (p 5) (v 6)))))) (get 0) (get 0))",
		"(evalp (def (flatMap (tailCall (the 1 (e (done 1)))) (kpanic 2 7))) (get 0) (get 0))",
		"(listp (def (empty)) (isEmpty 0) (head 0) (tail 0) (toSeq 0))",
		"(listp (def (make (hth 1 (p 3) (some 42)) (tth 2 (e (empty))))) (head 0) (head 0) (isEmpty 0) (tail 0) (isEmpty 1) (toSeq 0))",
		"(listp (def (make (hth 1 (some 1)) (tth 2 (p 3) (e (cons 7 (empty)))))) (tail 0) (tail 0) (head 2) (isEmpty 2) (tail 2) (toSeq 0))",
		"(listp (def (gen0 (g 1 5 (2 (p 9) (some 20))))) (toSeq 0) (toSeq 0))",
		"(listp (def (gen 3 (g 1 5))) (toSeq 0) (head 0))",
		"(listp (def (rec1 1 (r 1 (3 (p 8) (v 4))))) (head 0) (tail 0) (tail 1) (tail 2) (tail 2) (head 3) (isEmpty 4))",
		"(listp (def (cons 1 (make (hth 1 (p 2) (some 3)) (tth 2 (e (empty)))))) (toSeq 0) (toSeq 0))",
	}
	for ar := 1; ar <= 9; ar++ {
		args := ""
		for i := 1; i <= ar; i++ {
			args += " " + strconv.Itoa(i)
		}
		ops = append(ops, fmt.Sprintf("(evalp (def (tailCallN (the 1 (p 4) (e (done 5)))%s)) (get 0) (get 0))", args))
		ops = append(ops, fmt.Sprintf("(evalp (def (tailCallN (the 1 (e (done 5)) (e (done 6)))%s)) (get 0) (get 0))", args))
	}
	return ops
}()

func main() {
	seed := flag.Uint64("seed", 1, "PRNG seed")
	n := flag.Int("n", 3000, "number of generated cases")
	out := flag.String("out", ".", "output directory")
	replay := flag.String("replay", "", "run one op line (or one direct check) and print the implementation's answer")
	opsFile := flag.String("ops", "", "run the op lines of this file instead of generating")
	flag.Parse()
	safe := func(op *Sx) (res string) {
		defer func() {
			if p := recover(); p != nil {
				res = "bad-op"
			}
		}()
		return runCase(op)
	}
	if *replay != "" {
		op, err := Parse(*replay)
		if err != nil {
			fmt.Println("bad-op")
			os.Exit(2)
		}
		if op.Head() == "direct" {
			if what := runDirect(op); what != "" {
				fmt.Println("FAIL: " + what)
				os.Exit(1)
			}
			fmt.Println("ok")
			return
		}
		fmt.Println(safe(op))
		return
	}
	r := NewRng(*seed)
	sink := NewSink(*out)
	if *opsFile != "" {
		for _, ln := range ReadLines(*opsFile) {
			op, err := Parse(ln)
			if err != nil {
				continue
			}
			if op.Head() == "direct" {
				if what := runDirect(op); what != "" {
					sink.DirectFail("run-once/"+op.List[2].Atom, ln, what)
				}
				continue
			}
			sink.Case(ln, func() string { return safe(op) })
		}
		sink.Close()
		fmt.Printf("{\"cases\": %d, \"direct_failures\": %d}\n", sink.N, sink.DirectFailures)
		return
	}
	for _, ln := range edgeOps {
		op, err := Parse(ln)
		if err != nil {
			panic("bad edge op " + ln)
		}
		count(op)
		sink.Case(ln, func() string { return runCase(op) })
	}
	for i := 0; i < *n; i++ {
		op := genOp(r)
		count(op)
		sink.Case(op.String(), func() string { return runCase(op) })
	}
	nd := direct(r, sink, *out, *n/10+20)
	sink.Close()
	keys := []string{}
	for k := range hist {
		keys = append(keys, k)
	}
	sort.Strings(keys)
	fmt.Printf("{\"cases\": %d, \"direct_checks\": %d, \"direct_failures\": %d, \"histogram\": {", sink.N, nd, sink.DirectFailures)
	for i, k := range keys {
		if i > 0 {
			fmt.Print(", ")
		}
		fmt.Printf("%q: %d", k, hist[k])
	}
	fmt.Println("}}")
}

// liftedReuse (C16 faithfulness; seed C16-13 of round 5): a function lifted with lazy.FuncN is a VALUE that may be applied several
// times; every application is its own deferred call with its own arguments, whatever is built or forced afterwards.  (A lifted
// function that builds its deferred call once and rebinds the captured arguments on every application makes an earlier application,
// forced after a later one was built, compute with the later arguments.)
func liftedReuse(sink *Sink) int {
	checks := 0
	sub := func(a, b int) int { return a*10 - b }
	check := func(name string, got func() int, want int) {
		checks++
		g := recovered(func() string { return strconv.Itoa(got()) })
		if g != strconv.Itoa(want) {
			sink.DirectFail("faithful/lifted-reuse", "(law lifted-function-applied-twice "+name+")", "evaluates to "+g+", strict evaluation gives "+strconv.Itoa(want))
		}
	}
	{
		lf := lazy.Func1(func(a int) int { return a + 1 })
		x, y := lf(10), lf(100)
		check("Func1 second-then-first", func() int { return y.Get()*1000 + x.Get() }, 101*1000+11)
	}
	{
		lf := lazy.Func2(sub)
		x, y := lf(10, 3), lf(100, 1)
		check("Func2 Map2(first, second)", func() int { return lazy.Map2(x, y, func(p, q int) int { return p*10000 + q }).Get() }, 97*10000+999)
		x2, y2 := lf(7, 1), lf(8, 2)
		check("Func2 second-then-first", func() int { return y2.Get()*1000 + x2.Get() }, 78*1000+69)
	}
	{
		lf := lazy.Func3(func(a, b, c int) int { return a*100 + b*10 + c })
		x, y := lf(1, 2, 3), lf(4, 5, 6)
		check("Func3 FlatMap(second, first)", func() int {
			return lazy.FlatMap(y, func(q int) lazy.Eval[int] { return lazy.Map(x, func(p int) int { return q*1000 + p }) }).Get()
		}, 456*1000+123)
	}
	{
		// the same for TailCallN steps applied to different arguments
		var fact func(n, acc int) lazy.Eval[int]
		fact = func(n, acc int) lazy.Eval[int] {
			if n <= 1 {
				return lazy.Done(acc)
			}
			return lazy.TailCall2(fact, n-1, acc*n)
		}
		a, b := lazy.TailCall2(fact, 5, 1), lazy.TailCall2(fact, 3, 1)
		check("TailCall2 second-then-first", func() int { return b.Get()*1000 + a.Get() }, 6*1000+120)
	}
	return checks
}
