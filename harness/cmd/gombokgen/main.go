// gombokgen writes the scratch module of one seed to a directory, without running anything
// (for inspecting what cmd/gombokrun feeds to gombok).
//
//	go run ./cmd/gombokgen -seed 1000 -n 60 -dir /tmp/scratch -repo /path/to/fp
//
// The law driver (zz_driver.go) is written too; it compiles only after gombok has run on the package.
package main

import (
	"flag"
	"fmt"
	"os"
	"path/filepath"

	"verifharness/common"
	"verifharness/gombokgen"
)

func write(path, content string) {
	if err := os.MkdirAll(filepath.Dir(path), 0o755); err != nil {
		panic(err)
	}
	if err := os.WriteFile(path, []byte(content), 0o644); err != nil {
		panic(err)
	}
}

func scramble(seed uint64) uint64 {
	z := seed + 0x9E3779B97F4A7C15
	z = (z ^ (z >> 30)) * 0xBF58476D1CE4E5B9
	z = (z ^ (z >> 27)) * 0x94D049BB133111EB
	return z ^ (z >> 31)
}

func main() {
	seed := flag.Uint64("seed", 1, "PRNG seed (same meaning as gombokrun -seed)")
	n := flag.Int("n", 60, "number of structs")
	perPkg := flag.Int("perpkg", 30, "structs per package")
	dir := flag.String("dir", "", "output directory (must be given)")
	repo := flag.String("repo", "/repo", "path of the csgura/fp working tree (for go.mod's replace)")
	flag.Parse()
	if *dir == "" {
		fmt.Fprintln(os.Stderr, "-dir is required")
		os.Exit(2)
	}
	pkgs := gombokgen.GenPackages(common.NewRng(scramble(*seed)), *n, *perPkg)
	write(filepath.Join(*dir, "go.mod"), gombokgen.GoMod(*repo))
	write(filepath.Join(*dir, "dep", "dep.go"), gombokgen.DepSource())
	for _, pk := range pkgs {
		for _, st := range pk.Structs {
			st.Origin = fmt.Sprintf("%d %d %d 6", *seed, *n, *perPkg)
		}
		d := filepath.Join(*dir, pk.Name)
		write(filepath.Join(d, "types.go"), pk.TypesSource())
		write(filepath.Join(d, "zz_lib.go"), gombokgen.LibSource(pk.Name))
		write(filepath.Join(d, "zz_lib2.go"), gombokgen.Lib2Source(pk.Name))
		write(filepath.Join(d, "zz_lib3.go"), gombokgen.Lib3Source(pk.Name))
		if !pk.Bad {
			write(filepath.Join(d, "zz_driver.go.txt"), pk.DriverSource(6))
			write(filepath.Join(d, "cmd", "main.go.txt"), pk.MainSource())
		}
		fmt.Printf("%s: %d structs (bad=%v)\n", pk.Name, len(pk.Structs), pk.Bad)
	}
}
