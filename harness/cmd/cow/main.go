// Correspondence + direct-property harness for mutable.CopyOnWriteMap (property C19).
//
// A case is 2–4 logical threads, each running a short program of map operations on ONE
// CopyOnWriteMap, and a schedule. common.Coop replays the schedule on the real library at its yield
// points (build tag `verif`: entry of load()/copyOnWrite(), the slow path of load(), the Store in
// copyOnWrite); a thread about to take the mutex is only granted a turn when the mutex is free.
// The answer line is compared with the Lean oracle. Direct (model-free) checks on the
// implementation's own call/return log: brute-force linearizability against a sequential Go map,
// ComputeIfAbsent agreement, no panics. A stress mode with real goroutines adds evidence.
package main

import (
	"flag"
	"fmt"
	"os"
	"reflect"
	"sort"
	"strings"
	"sync"
	"sync/atomic"
	"time"
	"unsafe"

	"github.com/csgura/fp"
	"github.com/csgura/fp/mutable"
	. "verifharness/common"
)

var hist = map[string]int{}

// ------------------------------------------------------------------------------------ operations

type op struct {
	kind  string
	k     int
	v     int
	ks    []int
	id    int // remap id / pred id
	fid   int // f id
	remap *Sx
	pred  *Sx
}

func (o op) sx() *Sx {
	switch o.kind {
	case "get":
		return L(A("get"), I(o.k))
	case "size", "iter":
		return L(A(o.kind))
	case "updated":
		return L(A("updated"), I(o.k), I(o.v))
	case "removed":
		xs := []*Sx{A("removed")}
		for _, k := range o.ks {
			xs = append(xs, I(k))
		}
		return L(xs...)
	case "updatedWith":
		return L(A("updatedWith"), I(o.k), I(o.id), o.remap)
	case "computeIf":
		return L(A("computeIf"), I(o.k), I(o.id), o.pred, I(o.fid), I(o.v))
	}
	return L(A("computeIfAbsent"), I(o.k), I(o.fid), I(o.v))
}

func opOf(s *Sx) op {
	o := op{kind: s.Head()}
	switch o.kind {
	case "get":
		o.k = s.List[1].Int()
	case "updated":
		o.k, o.v = s.List[1].Int(), s.List[2].Int()
	case "removed":
		for _, x := range s.List[1:] {
			o.ks = append(o.ks, x.Int())
		}
	case "updatedWith":
		o.k, o.id, o.remap = s.List[1].Int(), s.List[2].Int(), s.List[3]
	case "computeIf":
		o.k, o.id, o.pred, o.fid, o.v = s.List[1].Int(), s.List[2].Int(), s.List[3], s.List[4].Int(), s.List[5].Int()
	case "computeIfAbsent":
		o.k, o.fid, o.v = s.List[1].Int(), s.List[2].Int(), s.List[3].Int()
	}
	return o
}

func remapOf(s *Sx) func(fp.Option[int]) fp.Option[int] {
	switch s.Head() {
	case "rset":
		v := s.List[1].Int()
		return func(fp.Option[int]) fp.Option[int] { return fp.Some(v) }
	case "rdel":
		return func(fp.Option[int]) fp.Option[int] { return fp.None[int]() }
	case "rinc":
		d := s.List[1].Int()
		return func(o fp.Option[int]) fp.Option[int] { return fp.Some(o.OrElse(0) + d) }
	}
	return func(o fp.Option[int]) fp.Option[int] { return o }
}

func predOf(s *Sx) func(int) bool {
	switch s.Head() {
	case "plt":
		c := s.List[1].Int()
		return func(x int) bool { return x < c }
	case "peven":
		return func(x int) bool { return Emod(x, 2) == 0 }
	case "ptrue":
		return func(int) bool { return true }
	}
	return func(int) bool { return false }
}

func showKVs(m map[int]int) string {
	keys := []int{}
	for k := range m {
		keys = append(keys, k)
	}
	sort.Ints(keys)
	parts := make([]string, len(keys))
	for i, k := range keys {
		parts[i] = fmt.Sprintf("(%d,%d)", k, m[k])
	}
	return "[" + strings.Join(parts, ",") + "]"
}

func snapshot(it fp.Iterator[fp.Tuple2[int, int]]) string {
	m := map[int]int{}
	n := 0
	for it.HasNext() {
		t := it.Next()
		m[t.I1] = t.I2
		n++
	}
	s := showKVs(m)
	if n != len(m) {
		s += fmt.Sprintf("!dup(%d)", n)
	}
	return s
}

// ------------------------------------------------------------------------------------ one case

type event struct {
	call   bool
	thread int
	idx    int
}

type caseResult struct {
	answer string
	rets   [][]string
	events []event // call / return events in real-time order
	final  string
	hung   bool
	points []string
}

func mutexOf(m *mutable.CopyOnWriteMap[int, int]) *sync.Mutex {
	f := reflect.ValueOf(m).Elem().FieldByName("lock")
	return (*sync.Mutex)(unsafe.Pointer(f.UnsafeAddr()))
}

func runCase(progs [][]op, sched []int) caseResult {
	c := NewCoop()
	m := &mutable.CopyOnWriteMap[int, int]{}
	mu := mutexOf(m)
	free := func() bool {
		if mu.TryLock() {
			mu.Unlock()
			return true
		}
		return false
	}
	res := caseResult{rets: make([][]string, len(progs))}
	calls := []string{}
	fp.VerifSetYieldHook(func(point string) {
		if point == "cow.enter" || point == "cow.load.lock" {
			c.Yield(point, free)
		} else {
			c.Yield(point, nil)
		}
	})
	defer fp.VerifSetYieldHook(nil)
	for ti, prog := range progs {
		ti, prog := ti, prog
		c.Spawn(func() (out string) {
			defer func() {
				if p := recover(); p != nil {
					res.rets[ti] = append(res.rets[ti], "panic")
					res.events = append(res.events, event{false, ti, len(res.rets[ti]) - 1})
					out = "panic"
				}
			}()
			for i, o := range prog {
				res.events = append(res.events, event{true, ti, i})
				var r string
				switch o.kind {
				case "get":
					r = Show(m.Get(o.k))
				case "size":
					r = fmt.Sprint(m.Size())
				case "iter":
					it := m.Iterator()
					c.Yield("iter.hold", nil)
					r = snapshot(it)
				case "updated":
					m.Updated(o.k, o.v)
					r = "unit"
				case "removed":
					m.Removed(o.ks...)
					r = "unit"
				case "updatedWith":
					f := remapOf(o.remap)
					m.UpdatedWith(o.k, func(ov fp.Option[int]) fp.Option[int] {
						if ov.IsDefined() {
							calls = append(calls, fmt.Sprintf("c%d:%d", o.id, ov.Get()))
						} else {
							calls = append(calls, fmt.Sprintf("c%d:-", o.id))
						}
						return f(ov)
					})
					r = "unit"
				case "computeIf":
					p := predOf(o.pred)
					r = fmt.Sprint(m.ComputeIf(o.k, func(x int) bool {
						calls = append(calls, fmt.Sprintf("c%d:%d", o.id, x))
						return p(x)
					}, func() int {
						calls = append(calls, fmt.Sprintf("c%d:-", o.fid))
						return o.v
					}))
				case "computeIfAbsent":
					r = fmt.Sprint(m.ComputeIfAbsent(o.k, func() int {
						calls = append(calls, fmt.Sprintf("c%d:-", o.fid))
						return o.v
					}))
				}
				res.rets[ti] = append(res.rets[ti], r)
				res.events = append(res.events, event{false, ti, i})
			}
			return "ret"
		})
	}
	tr := make([]string, 0, len(sched))
	for _, t := range sched {
		tr = append(tr, fmt.Sprintf("%d>%s", t, c.Step(t)))
	}
	tr2 := c.Finish(10000)
	res.hung = c.Hung || !c.AllFinished()
	for _, t := range c.Threads {
		res.points = append(res.points, t.Point)
	}
	c.Mute = true
	res.final = snapshot(m.Iterator())
	c.Mute = false
	rs := make([]string, len(progs))
	for i, r := range res.rets {
		rs[i] = "[" + strings.Join(r, ",") + "]"
	}
	res.answer = fmt.Sprintf("%s ; %s | %s | %s | %s", strings.Join(tr, " "), strings.Join(tr2, " "),
		strings.Join(rs, " "), res.final, strings.Join(calls, ","))
	if res.hung {
		res.answer += " HANG"
	}
	return res
}

func opLine(head string, progs [][]op, sched []int) string {
	ts := []*Sx{A("threads")}
	for _, p := range progs {
		t := []*Sx{A("t")}
		for _, o := range p {
			t = append(t, o.sx())
		}
		ts = append(ts, L(t...))
	}
	ss := []*Sx{A("sched")}
	for _, t := range sched {
		ss = append(ss, I(t))
	}
	return L(A(head), L(ts...), L(ss...)).String()
}

func parseOp(line string) (progs [][]op, sched []int, ok bool) {
	s, err := Parse(line)
	if err != nil || !s.IsL || len(s.List) != 3 {
		return
	}
	for _, t := range s.List[1].List[1:] {
		p := []op{}
		for _, o := range t.List[1:] {
			p = append(p, opOf(o))
		}
		progs = append(progs, p)
	}
	for _, x := range s.List[2].List[1:] {
		sched = append(sched, x.Int())
	}
	ok = true
	return
}

// ------------------------------------------------------------------------------------ direct checks

// the sequential specification: a plain Go map
func applySeq(m map[int]int, o op) (map[int]int, string) {
	cp := func() map[int]int {
		n := map[int]int{}
		for k, v := range m {
			n[k] = v
		}
		return n
	}
	switch o.kind {
	case "get":
		if v, ok := m[o.k]; ok {
			return m, fmt.Sprintf("Some(%d)", v)
		}
		return m, "None"
	case "size":
		return m, fmt.Sprint(len(m))
	case "iter":
		return m, showKVs(m)
	case "updated":
		n := cp()
		n[o.k] = o.v
		return n, "unit"
	case "removed":
		n := cp()
		for _, k := range o.ks {
			delete(n, k)
		}
		return n, "unit"
	case "updatedWith":
		ov := fp.None[int]()
		if v, ok := m[o.k]; ok {
			ov = fp.Some(v)
		}
		nv := remapOf(o.remap)(ov)
		n := cp()
		if nv.IsDefined() {
			n[o.k] = nv.Get()
		} else {
			delete(n, o.k)
		}
		return n, "unit"
	case "computeIf", "computeIfAbsent":
		p := func(int) bool { return false }
		if o.kind == "computeIf" {
			p = predOf(o.pred)
		}
		if v, ok := m[o.k]; ok && !p(v) {
			return m, fmt.Sprint(v)
		}
		n := cp()
		n[o.k] = o.v
		return n, fmt.Sprint(o.v)
	}
	return m, "?"
}

// linearizable: is there a total order of the operations, consistent with the real-time order of
// the history and with every thread's program order, in which a sequential map gives exactly the
// observed return values and the observed final content? Operations of a thread that died are
// dropped after the panicking one (which can never be explained: a sequential map never panics).
func linearizable(progs [][]op, r caseResult) bool {
	type oid struct{ t, i int }
	callAt, retAt := map[oid]int{}, map[oid]int{}
	for n, e := range r.events {
		if e.call {
			callAt[oid{e.thread, e.idx}] = n
		} else {
			retAt[oid{e.thread, e.idx}] = n
		}
	}
	next := make([]int, len(progs)) // next op index per thread
	total := 0
	for t := range progs {
		total += len(r.rets[t])
	}
	var dfs func(m map[int]int, done int) bool
	dfs = func(m map[int]int, done int) bool {
		if done == total {
			return showKVs(m) == r.final
		}
		for t := range progs {
			i := next[t]
			if i >= len(r.rets[t]) {
				continue
			}
			// real-time order: no other pending op may have returned before this one was called
			ok := true
			for u := range progs {
				if u == t {
					continue
				}
				j := next[u]
				if j < len(r.rets[u]) {
					if ra, has := retAt[oid{u, j}]; has && ra < callAt[oid{t, i}] {
						ok = false
						break
					}
				}
			}
			if !ok {
				continue
			}
			nm, want := applySeq(m, progs[t][i])
			if want != r.rets[t][i] {
				continue
			}
			next[t]++
			if dfs(nm, done+1) {
				next[t]--
				return true
			}
			next[t]--
		}
		return false
	}
	return dfs(map[int]int{}, 0)
}

func directCheck(sink *Sink, line string, progs [][]op, r caseResult) int {
	checks := 0
	if r.hung {
		sink.DirectFail("CopyOnWriteMap.hang", line, "a granted thread neither yielded nor finished, or the threads deadlocked: "+strings.Join(r.points, ","))
		return 1
	}
	checks++
	for t := range progs {
		for i, x := range r.rets[t] {
			if x == "panic" {
				sink.DirectFail("CopyOnWriteMap.ComputeIf", line,
					fmt.Sprintf("thread %d op %d %s panicked (Option.empty) because of a concurrent operation", t, i, progs[t][i].sx()))
			}
		}
	}
	checks++
	if !linearizable(progs, r) {
		key := "CopyOnWriteMap.linearizability"
		if strings.Contains(line, "computeIf") {
			key = "CopyOnWriteMap.ComputeIf"
		}
		rs := []string{}
		for _, x := range r.rets {
			rs = append(rs, "["+strings.Join(x, ",")+"]")
		}
		sink.DirectFail(key, line, "no linearization explains returns "+strings.Join(rs, " ")+" final "+r.final)
	}
	// ComputeIfAbsent agreement: for keys touched only by ComputeIfAbsent, all calls return the
	// value that ends up stored
	byKey := map[int][]string{}
	other := map[int]bool{}
	for t, p := range progs {
		for i, o := range p {
			switch o.kind {
			case "computeIfAbsent":
				if i < len(r.rets[t]) {
					byKey[o.k] = append(byKey[o.k], r.rets[t][i])
				}
			case "updated", "updatedWith", "computeIf":
				other[o.k] = true
			case "removed":
				for _, k := range o.ks {
					other[k] = true
				}
			}
		}
	}
	for k, rs := range byKey {
		if other[k] {
			continue
		}
		checks++
		for _, x := range rs {
			if x != rs[0] || !strings.Contains(r.final, fmt.Sprintf("(%d,%s)", k, x)) {
				sink.DirectFail("CopyOnWriteMap.ComputeIfAbsent", line,
					fmt.Sprintf("concurrent ComputeIfAbsent(%d) returned %v, stored %s", k, rs, r.final))
				break
			}
		}
	}
	return checks
}

// ------------------------------------------------------------------------------------ generation

func genOp(r *Rng, keys int, id *int) op {
	k := r.Intn(keys)
	nid := func() int { *id++; return *id }
	switch r.Intn(14) {
	case 0, 1:
		return op{kind: "get", k: k}
	case 2:
		return op{kind: "size"}
	case 3:
		return op{kind: "iter"}
	case 4, 5:
		return op{kind: "updated", k: k, v: r.Range(1, 9)}
	case 6:
		ks := []int{k}
		if r.Intn(3) == 0 {
			ks = append(ks, r.Intn(keys))
		}
		if r.Intn(8) == 0 {
			ks = []int{}
		}
		return op{kind: "removed", ks: ks}
	case 7, 8:
		rm := Pick(r, L(A("rset"), I(r.Range(1, 9))), L(A("rdel")), L(A("rinc"), I(r.Range(1, 3))), L(A("rinc"), I(1)), L(A("rkeep")))
		return op{kind: "updatedWith", k: k, id: nid(), remap: rm}
	case 9, 10:
		pr := Pick(r, L(A("plt"), I(r.Range(2, 8))), L(A("peven")), L(A("ptrue")), L(A("pfalse")))
		return op{kind: "computeIf", k: k, id: nid(), pred: pr, fid: nid(), v: r.Range(10, 19)}
	default:
		return op{kind: "computeIfAbsent", k: k, fid: nid(), v: r.Range(20, 29)}
	}
}

func genProgs(r *Rng) [][]op {
	n := r.Range(2, 4)
	keys := r.Range(1, 3)
	id := 0
	progs := make([][]op, n)
	shape := r.Intn(8)
	for t := range progs {
		len_ := r.Range(1, 3)
		if n == 4 {
			len_ = r.Range(1, 2)
		}
		for i := 0; i < len_; i++ {
			var o op
			switch {
			case shape == 0: // counters: no lost update
				id++
				o = op{kind: "updatedWith", k: 0, id: id, remap: L(A("rinc"), I(1))}
			case shape == 1 && i == 0: // racing ComputeIfAbsent on one key
				id++
				o = op{kind: "computeIfAbsent", k: 0, fid: id, v: 20 + t}
			default:
				o = genOp(r, keys, &id)
			}
			progs[t] = append(progs[t], o)
		}
	}
	if shape == 2 {
		// atomicity of a multi-key Removed: both keys present, one Removed(a, b), readers in between must never
		// observe a half-applied removal (one key gone, the other still there)
		progs[0] = []op{{kind: "updated", k: 0, v: r.Range(1, 9)}, {kind: "updated", k: 1, v: r.Range(1, 9)}, {kind: "removed", ks: []int{0, 1}}}
		for t := 1; t < n; t++ {
			progs[t] = nil
			for i, m := 0, r.Range(1, 3); i < m; i++ {
				progs[t] = append(progs[t], Pick(r, op{kind: "iter"}, op{kind: "size"}, op{kind: "iter"}, op{kind: "get", k: r.Intn(2)}))
			}
		}
		return progs
	}
	if r.Intn(30) == 0 {
		progs[0] = []op{} // an empty program
	}
	return progs
}

func genSched(r *Rng, progs [][]op) ([]int, string) {
	n := len(progs)
	steps := 0
	for _, p := range progs {
		steps += 4 * len(p)
	}
	kind := Pick(r, "uniform", "uniform", "lockstep", "bursty", "sequential", "wild")
	s := []int{}
	switch kind {
	case "uniform":
		for i := 0; i < r.Range(2, steps+2); i++ {
			s = append(s, r.Intn(n))
		}
	case "lockstep":
		order := []int{}
		for i := 0; i < n; i++ {
			order = append(order, i)
		}
		for i := n - 1; i > 0; i-- {
			j := r.Intn(i + 1)
			order[i], order[j] = order[j], order[i]
		}
		for round := 0; round < r.Range(1, 8); round++ {
			s = append(s, order...)
		}
	case "bursty":
		for len(s) < steps {
			t := r.Intn(n)
			for k := r.Range(1, 4); k > 0; k-- {
				s = append(s, t)
			}
		}
	case "sequential": // one thread after the other: no concurrency at all
		for t := 0; t < n; t++ {
			for i := 0; i < 6*len(progs[t])+1; i++ {
				s = append(s, t)
			}
		}
	case "wild":
		for i := 0; i < r.Range(2, steps+2); i++ {
			s = append(s, r.Intn(n+1))
		}
	}
	return s, kind
}

// exhaustive enumeration (stateless DFS on the implementation) of all interleavings
func exhaustive(progs [][]op, limit int, fn func(sched []int)) int {
	stack := [][]int{{}}
	seen := 0
	for len(stack) > 0 && seen < limit {
		prefix := stack[len(stack)-1]
		stack = stack[:len(stack)-1]
		full, alts := explore(progs, prefix)
		for i := len(full) - 1; i >= len(prefix); i-- {
			for _, a := range alts[i] {
				stack = append(stack, append(append([]int{}, full[:i]...), a))
			}
		}
		seen++
		fn(full)
	}
	return seen
}

func explore(progs [][]op, prefix []int) (full []int, alts map[int][]int) {
	// re-runs the case with prefix, then lowest-live-first, recording the alternatives
	c := NewCoop()
	m := &mutable.CopyOnWriteMap[int, int]{}
	mu := mutexOf(m)
	free := func() bool {
		if mu.TryLock() {
			mu.Unlock()
			return true
		}
		return false
	}
	fp.VerifSetYieldHook(func(point string) {
		if point == "cow.enter" || point == "cow.load.lock" {
			c.Yield(point, free)
		} else {
			c.Yield(point, nil)
		}
	})
	defer fp.VerifSetYieldHook(nil)
	for _, prog := range progs {
		prog := prog
		c.Spawn(func() string {
			for _, o := range prog {
				switch o.kind {
				case "get":
					m.Get(o.k)
				case "size":
					m.Size()
				case "iter":
					m.Iterator()
					c.Yield("iter.hold", nil)
				case "updated":
					m.Updated(o.k, o.v)
				case "removed":
					m.Removed(o.ks...)
				case "updatedWith":
					m.UpdatedWith(o.k, remapOf(o.remap))
				case "computeIf":
					m.ComputeIf(o.k, predOf(o.pred), func() int { return o.v })
				case "computeIfAbsent":
					m.ComputeIfAbsent(o.k, func() int { return o.v })
				}
			}
			return "ret"
		})
	}
	alts = map[int][]int{}
	for _, t := range prefix {
		c.Step(t)
		full = append(full, t)
	}
	for !c.AllFinished() && !c.Hung {
		live := c.Live()
		if len(live) == 0 {
			break
		}
		alts[len(full)] = live[1:]
		c.Step(live[0])
		full = append(full, live[0])
	}
	return
}

// ------------------------------------------------------------------------------------ stress

func stress(sink *Sink, r *Rng, iters int) (checks int) {
	fp.VerifSetYieldHook(nil)
	for it := 0; it < iters; it++ {
		m := &mutable.CopyOnWriteMap[int, int]{}
		g := r.Range(2, 6)
		perG := r.Range(1, 20)
		rets := make([]int32, g)
		var panics int32
		start := make(chan struct{})
		var wg sync.WaitGroup
		for i := 0; i < g; i++ {
			i := i
			wg.Add(1)
			go func() {
				defer wg.Done()
				defer func() {
					if recover() != nil {
						atomic.AddInt32(&panics, 1)
					}
				}()
				<-start
				rets[i] = int32(m.ComputeIfAbsent(7, func() int { return 100 + i }))
				for n := 0; n < perG; n++ {
					m.UpdatedWith(0, func(o fp.Option[int]) fp.Option[int] { return fp.Some(o.OrElse(0) + 1) })
				}
			}()
		}
		close(start)
		wg.Wait()
		desc := fmt.Sprintf("(stress goroutines=%d incs=%d)", g, perG)
		checks += 3
		if panics > 0 {
			sink.DirectFail("CopyOnWriteMap.ComputeIf(stress)", desc, fmt.Sprintf("%d goroutines panicked", panics))
		}
		if got := m.Get(0); !got.IsDefined() || got.Get() != g*perG {
			sink.DirectFail("CopyOnWriteMap.lost-update(stress)", desc, fmt.Sprintf("counter %s, want %d", Show(got), g*perG))
		}
		stored := m.Get(7)
		for i := range rets {
			if !stored.IsDefined() || int(rets[i]) != stored.Get() {
				sink.DirectFail("CopyOnWriteMap.ComputeIfAbsent(stress)", desc,
					fmt.Sprintf("concurrent ComputeIfAbsent(7) returned %v, stored %s", rets, Show(stored)))
				hist["stress:violations"]++
				break
			}
		}
		hist["stress:iterations"]++
	}
	return
}

// ------------------------------------------------------------------------------------ main

func main() {
	seed := flag.Uint64("seed", 1, "PRNG seed")
	n := flag.Int("n", 2000, "number of generated cases")
	out := flag.String("out", ".", "output directory")
	replay := flag.String("replay", "", "run one op line and print the implementation's answer")
	opsFile := flag.String("ops", "", "run the op lines of this file instead of generating")
	model := flag.String("model", "fixed", "which Lean model the op lines select: fixed (property) | asis (copyonwrite.go as written)")
	nstress := flag.Int("stress", -1, "stress iterations with real goroutines (default n/10)")
	flag.Parse()
	head := "cow"
	if *model == "asis" {
		head = "cow-asis"
	}
	if strings.HasPrefix(*replay, "(stress") {
		d, _ := os.MkdirTemp("", "stress")
		sink := NewSink(d)
		n := stress(sink, NewRng(SeedMix(*seed)), 20000)
		sink.Close()
		fmt.Printf("stress: %d checks, %d violations\n", n, sink.DirectFailures)
		return
	}
	if *replay != "" {
		progs, sched, ok := parseOp(*replay)
		if !ok {
			fmt.Println("bad-op")
			os.Exit(2)
		}
		fmt.Println(runCase(progs, sched).answer)
		return
	}
	r := NewRng(SeedMix(*seed))
	sink := NewSink(*out)
	checks := 0
	if *opsFile != "" {
		for _, line := range ReadLines(*opsFile) {
			progs, sched, ok := parseOp(line)
			if !ok {
				continue
			}
			var res caseResult
			sink.Case(line, func() string { res = runCase(progs, sched); return res.answer })
			checks += directCheck(sink, line, progs, res)
		}
		sink.Close()
		fmt.Printf("{\"cases\": %d, \"direct_checks\": %d, \"direct_failures\": %d}\n", sink.N, checks, sink.DirectFailures)
		return
	}
	record := func(progs [][]op, kind string, res caseResult) {
		hist["sched:"+kind]++
		hist[fmt.Sprintf("threads:%d", len(progs))]++
		for _, p := range progs {
			for _, o := range p {
				hist["op:"+o.kind]++
			}
		}
		for _, rs := range res.rets {
			for _, x := range rs {
				if x == "panic" {
					hist["ret:panic"]++
				}
			}
		}
		if strings.Contains(res.answer, ">-") {
			hist["skipped-turn(blocked/finished)"]++
		}
	}
	one := func(progs [][]op, sched []int, kind string) {
		line := opLine(head, progs, sched)
		var res caseResult
		sink.Case(line, func() string { res = runCase(progs, sched); return res.answer })
		checks += directCheck(sink, line, progs, res)
		record(progs, kind, res)
	}
	nExh := *n / 5
	for i := 0; i < *n-nExh; i++ {
		progs := genProgs(r)
		sched, kind := genSched(r, progs)
		one(progs, sched, kind)
	}
	for done := 0; done < nExh; {
		// small configurations, every interleaving
		id := 0
		keys := r.Range(1, 2)
		progs := [][]op{{genOp(r, keys, &id)}, {genOp(r, keys, &id)}}
		if r.Bool() {
			w := r.Intn(2)
			progs[w] = append(progs[w], genOp(r, keys, &id))
		}
		if r.Intn(3) == 0 {
			progs = append(progs, []op{genOp(r, keys, &id)})
		}
		limit := nExh - done
		if limit > 300 {
			limit = 300
		}
		done += exhaustive(progs, limit, func(sched []int) { one(progs, sched, "exhaustive") })
	}
	ns := *nstress
	if ns < 0 {
		ns = *n / 10
	}
	checks += stress(sink, r, ns)
	checks += facadeAtomic(sink)
	sink.Close()
	fmt.Printf("{\"cases\": %d, \"direct_checks\": %d, \"direct_failures\": %d, \"histogram\": {", sink.N, checks, sink.DirectFailures)
	keys := []string{}
	for k := range hist {
		keys = append(keys, k)
	}
	sort.Strings(keys)
	for i, k := range keys {
		if i > 0 {
			fmt.Print(", ")
		}
		fmt.Printf("%q: %d", k, hist[k])
	}
	fmt.Println("}}")
}

// facadeAtomic (C19; seed C19-14 of round 5): the operations reach a CopyOnWriteMap also through the fp.Map facade
// (fp.MakeMap(cow)).  fp.Map.UpdatedWith delegates to the base's own atomic UpdatedWith only if the base implements
// fp.MapBaseUpdatedWith; otherwise it falls back to Get, remap, Updated - three separate steps, between which a complete update of
// another goroutine is lost.  Deterministic: thread A's remap function gives thread B 100 ms to perform its whole update.  With
// the atomic implementation B is blocked by the writer lock until A is done (A's wait times out): both increments survive.
func facadeAtomic(sink *Sink) int {
	checks := 0
	inc := func(o fp.Option[int]) fp.Option[int] { return fp.Some(o.OrElse(0) + 1) }
	for rep := 0; rep < 3; rep++ {
		m := &mutable.CopyOnWriteMap[int, int]{}
		fm := fp.MakeMap[int, int](m)
		startB, bDone := make(chan struct{}), make(chan struct{})
		go func() {
			<-startB
			fm.UpdatedWith(0, inc)
			close(bDone)
		}()
		fm.UpdatedWith(0, func(o fp.Option[int]) fp.Option[int] {
			close(startB)
			select {
			case <-bDone:
			case <-time.After(100 * time.Millisecond):
			}
			return inc(o)
		})
		select {
		case <-bDone:
		case <-time.After(5 * time.Second):
			sink.DirectFail("CopyOnWriteMap.facade-lost-update", "(law facade-UpdatedWith-atomic)", "the second UpdatedWith through fp.MakeMap(cow) never returned")
			return checks + 1
		}
		checks++
		if got := m.Get(0); !got.IsDefined() || got.Get() != 2 {
			sink.DirectFail("CopyOnWriteMap.facade-lost-update", "(law facade-UpdatedWith-atomic)",
				fmt.Sprintf("two increments through fp.MakeMap(cow).UpdatedWith, the second performed entirely while the first one's remap function runs: counter %s, want 2 (no sequential order of the two calls explains it)", Show(got)))
		}
	}
	return checks
}
