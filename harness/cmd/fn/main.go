// Correspondence + direct property harness for the function monads fn0 / fn1 (C01), fn1.Memoize (C16)
// and the fn1 arrows First/Second/Split/Merge/Merge2 (C14).
//
// Expression language (Lean side: Oracle/Fn.lean).  X = any for fn1, fp.Unit for fn0.
//
//	E n : fp.Func1[X, Lvl n]      function value over the package's argument type     (Lvl 0 = any, Lvl n+1 = E n)
//	K n : fp.Func1[any, Lvl n]    callback
//	C n : Lvl n                   constant (n = 0: integer literal, else an E (n-1))
//
// Every callback logs; callbacks returning function values log when they CONSTRUCT the function, the
// returned function logs when it is APPLIED, so that the two-stage evaluation of Flatten is observable.
package main

import (
	"flag"
	"fmt"
	"os"
	"runtime"
	"sort"
	"strings"
	"sync"
	"sync/atomic"

	"github.com/csgura/fp"
	"github.com/csgura/fp/fn0"
	"github.com/csgura/fp/fn1"
	. "verifharness/common"
)

// ------------------------------------------------------------------------------------ packages

// pkg is what a package exports, instantiated at result type A (one instance per level).
type pkg[X, A any] struct {
	pure    func(A) fp.Func1[X, A]
	mapK    func(fp.Func1[X, any], fp.Func1[any, A]) fp.Func1[X, A]
	flatMap func(fp.Func1[X, any], fp.Func1[any, fp.Func1[X, A]]) fp.Func1[X, A]
	flatten func(fp.Func1[X, fp.Func1[X, A]]) fp.Func1[X, A]
	withArg func(fp.Func1[X, fp.Func1[X, A]]) fp.Func1[X, A] // nil: not exported
}

func fn1Pkg[A any]() pkg[any, A] {
	return pkg[any, A]{
		pure:    func(a A) fp.Func1[any, A] { return fn1.Pure[any](a) },
		mapK:    func(m fp.Func1[any, any], k fp.Func1[any, A]) fp.Func1[any, A] { return fn1.Map(m, k) },
		flatMap: func(m fp.Func1[any, any], k fp.Func1[any, fp.Func1[any, A]]) fp.Func1[any, A] { return fn1.FlatMap(m, k) },
		flatten: func(m fp.Func1[any, fp.Func1[any, A]]) fp.Func1[any, A] { return fn1.Flatten(m) },
		withArg: func(m fp.Func1[any, fp.Func1[any, A]]) fp.Func1[any, A] { return fn1.WithArg(m) },
	}
}

// fn0 works on the named type fp.Func0[A]; the generic builder uses fp.Func1[fp.Unit, A]. The outer level converts
// directly, nested function results are converted by a transparent wrapper.
func fn0Pkg[A any]() pkg[fp.Unit, A] {
	type U = fp.Unit
	return pkg[U, A]{
		pure: func(a A) fp.Func1[U, A] { return fp.Func1[U, A](fn0.Pure(a)) },
		mapK: func(m fp.Func1[U, any], k fp.Func1[any, A]) fp.Func1[U, A] {
			return fp.Func1[U, A](fn0.Map(fp.Func0[any](m), k))
		},
		flatMap: func(m fp.Func1[U, any], k fp.Func1[any, fp.Func1[U, A]]) fp.Func1[U, A] {
			var kk fp.Func1[any, fp.Func0[A]]
			if k != nil {
				kk = func(v any) fp.Func0[A] { return fp.Func0[A](k(v)) }
			}
			return fp.Func1[U, A](fn0.FlatMap(fp.Func0[any](m), kk))
		},
		flatten: func(m fp.Func1[U, fp.Func1[U, A]]) fp.Func1[U, A] {
			var mm fp.Func0[fp.Func0[A]]
			if m != nil {
				mm = func(u U) fp.Func0[A] { return fp.Func0[A](m(u)) }
			}
			return fp.Func1[U, A](fn0.Flatten(mm))
		},
	}
}

// ------------------------------------------------------------------------------------ builder

// lvl builds the expressions of one level n (A = Lvl n) of one package.
type lvl[X, A any] struct {
	p        pkg[X, A]
	e0       func(*Sx) fp.Func1[X, any]                  // E 0
	c        func(*Sx) A                                  // C n
	upE      func(*Sx) fp.Func1[X, fp.Func1[X, A]]       // E (n+1); nil at the top level
	upK      func(*Sx) fp.Func1[any, fp.Func1[X, A]]     // K (n+1)
	specialE func(*Sx) (fp.Func1[X, A], bool)            // get, memo, arrows (level 0 of fn1)
	specialK func(*Sx) (fp.Func1[any, A], bool)          // cb (level 0), kadd / kmap (level 1)
	ofVal    func(any) X
	toVal    func(X) any
}

func (l *lvl[X, A]) buildE(s *Sx) fp.Func1[X, A] {
	a := s.List
	switch s.Head() {
	case "pure":
		return l.p.pure(l.c(a[1]))
	case "map":
		m := l.e0(a[1])
		k := l.buildK(a[2])
		return l.p.mapK(m, k)
	case "flatMap":
		m := l.e0(a[1])
		k := l.upK(a[2])
		return l.p.flatMap(m, k)
	case "flatten":
		return l.p.flatten(l.upE(a[1]))
	case "withArg":
		return l.p.withArg(l.upE(a[1]))
	case "nilfn":
		return nil
	case "ke":
		k := l.buildK(a[1])
		if _, same := any(k).(fp.Func1[X, A]); same { // fn1: X = any, a callback IS a function value of the package
			return any(k).(fp.Func1[X, A])
		}
		if k == nil {
			return nil
		}
		return func(x X) A { return k(l.toVal(x)) }
	}
	if l.specialE != nil {
		if f, ok := l.specialE(s); ok {
			return f
		}
	}
	panic("bad E " + s.String())
}

func (l *lvl[X, A]) buildK(s *Sx) fp.Func1[any, A] {
	a := s.List
	switch s.Head() {
	case "kconst":
		id := a[1].Int()
		c := l.c(a[2])
		return func(x any) A { Emit("kp%d:%s", id, Show(x)); return c }
	case "kfresh":
		id := a[1].Int()
		return func(x any) A { Emit("kp%d:%s", id, Show(x)); return l.c(a[2]) }
	case "kpanic":
		id, p := a[1].Int(), a[2].Int()
		return func(x any) A { Emit("kp%d:%s", id, Show(x)); panic(p) }
	case "kpanicif":
		id, m, p := a[1].Int(), a[2].Int(), a[3].Int()
		c := l.c(a[4])
		return func(x any) A {
			Emit("kp%d:%s", id, Show(x))
			if Emod(AsInt(x), m) == 0 {
				panic(p)
			}
			return c
		}
	case "nilfn":
		return nil
	case "ek":
		e := l.buildE(a[1])
		if _, same := any(e).(fp.Func1[any, A]); same {
			return any(e).(fp.Func1[any, A])
		}
		if e == nil {
			return nil
		}
		return func(v any) A { return e(l.ofVal(v)) }
	}
	if l.specialK != nil {
		if f, ok := l.specialK(s); ok {
			return f
		}
	}
	panic("bad K " + s.String())
}

// the three levels of a package, tied together
type levels[X any] struct {
	l0 *lvl[X, any]
	l1 *lvl[X, fp.Func1[X, any]]
	l2 *lvl[X, fp.Func1[X, fp.Func1[X, any]]]
}

func newLevels[X any](p0 pkg[X, any], p1 pkg[X, fp.Func1[X, any]], p2 pkg[X, fp.Func1[X, fp.Func1[X, any]]],
	ofVal func(any) X, toVal func(X) any) *levels[X] {
	L := &levels[X]{}
	L.l0 = &lvl[X, any]{p: p0, ofVal: ofVal, toVal: toVal}
	L.l1 = &lvl[X, fp.Func1[X, any]]{p: p1, ofVal: ofVal, toVal: toVal}
	L.l2 = &lvl[X, fp.Func1[X, fp.Func1[X, any]]]{p: p2, ofVal: ofVal, toVal: toVal}
	e0 := func(s *Sx) fp.Func1[X, any] { return L.l0.buildE(s) }
	L.l0.e0, L.l1.e0, L.l2.e0 = e0, e0, e0
	L.l0.c = func(s *Sx) any { return s.Int() }
	L.l1.c = func(s *Sx) fp.Func1[X, any] { return L.l0.buildE(s) }
	L.l2.c = func(s *Sx) fp.Func1[X, fp.Func1[X, any]] { return L.l1.buildE(s) }
	L.l0.upE, L.l0.upK = L.l1.buildE, L.l1.buildK
	L.l1.upE, L.l1.upK = L.l2.buildE, L.l2.buildK
	L.l0.specialK = func(s *Sx) (fp.Func1[any, any], bool) {
		if s.Head() == "cb" {
			return F1Of(s.List[1]), true
		}
		return nil, false
	}
	L.l1.specialK = func(s *Sx) (fp.Func1[any, fp.Func1[X, any]], bool) {
		a := s.List
		switch s.Head() {
		case "kadd":
			id := a[1].Int()
			return func(x any) fp.Func1[X, any] {
				Emit("kp%d:%s", id, Show(x))
				return func(u X) any {
					Emit("h%d:%s", id, Show(toVal(u)))
					return AsInt(x) + AsInt(toVal(u))
				}
			}, true
		case "kmap":
			id := a[1].Int()
			e := L.l0.buildE(a[2])
			return func(x any) fp.Func1[X, any] {
				Emit("kp%d:%s", id, Show(x))
				return p0.mapK(e, func(y any) any {
					Emit("h%d:%s", id, Show(y))
					return AsInt(x) + AsInt(y)
				})
			}, true
		}
		return nil, false
	}
	return L
}

func untup(x any) (any, any) {
	if t, ok := x.(fp.Tuple2[any, any]); ok {
		return t.I1, t.I2
	}
	return x, x
}

type L1 = fp.Func1[any, any]

func newFn1() *levels[any] {
	id := func(v any) any { return v }
	L := newLevels[any](fn1Pkg[any](), fn1Pkg[L1](), fn1Pkg[fp.Func1[any, L1]](), id, id)
	L.l0.specialE = func(s *Sx) (L1, bool) {
		a := s.List
		switch s.Head() {
		case "get":
			return fn1.Get[any](), true
		case "memo":
			var f func(any) any = L.l0.buildE(a[1])
			return fn1.Memoize(f), true
		case "arrow":
			fs := []L1{}
			for _, e := range a[2:] {
				fs = append(fs, L.l0.buildE(e))
			}
			switch a[1].Atom {
			case "first":
				g := fn1.First[any](fs[0])
				return func(x any) any { b, d := untup(x); c, d2 := g(b, d); return fp.Tuple2[any, any]{I1: c, I2: d2} }, true
			case "second":
				g := fn1.Second[any](fs[0])
				return func(x any) any { d, b := untup(x); d2, c := g(d, b); return fp.Tuple2[any, any]{I1: d2, I2: c} }, true
			case "split":
				g := fn1.Split(fs[0], fs[1])
				return func(x any) any { a, c := untup(x); b, d := g(a, c); return fp.Tuple2[any, any]{I1: b, I2: d} }, true
			case "merge":
				g := fn1.Merge(fs[0], fs[1])
				return func(x any) any { b, c := g(x); return fp.Tuple2[any, any]{I1: b, I2: c} }, true
			case "merge2":
				g := fn1.Merge2(fs[0], fs[1])
				return func(x any) any { return g(x) }, true
			}
		}
		return nil, false
	}
	return L
}

func newFn0() *levels[fp.Unit] {
	type U = fp.Unit
	return newLevels[U](fn0Pkg[any](), fn0Pkg[fp.Func1[U, any]](), fn0Pkg[fp.Func1[U, fp.Func1[U, any]]](),
		func(any) U { return U{} }, func(U) any { return U{} })
}

var fn1L = newFn1()
var fn0L = newFn0()

// ------------------------------------------------------------------------------------ running

func argOf(s *Sx) any {
	if s.Head() == "t" {
		return fp.Tuple2[any, any]{I1: argOf(s.List[1]), I2: argOf(s.List[2])}
	}
	if s.Atom == "unit" {
		return fp.Unit{}
	}
	return s.Int()
}

// one recovered call
func attempt(f func() any) (out string) {
	defer func() {
		if p := recover(); p != nil {
			out = "panic(" + ShowPanic(p) + ")"
		}
	}()
	return Show(f())
}

func runCase(op *Sx) string {
	Log = Log[:0]
	outs := []string{}
	// building the expression runs no user code and must not panic; if it does, that is the answer
	var build func()
	var calls []func() any
	switch op.Head() {
	case "run1":
		var f L1
		build = func() { f = fn1L.l0.buildE(op.List[1]) }
		for _, as := range op.List[2:] {
			a := argOf(as)
			calls = append(calls, func() any { Emit("@%s", Show(a)); return f(a) })
		}
	case "run0":
		var f fp.Func0[any]
		build = func() { f = fp.Func0[any](fn0L.l0.buildE(op.List[1])) }
		for i, k := 0, op.List[2].Int(); i < k; i++ {
			calls = append(calls, func() any { Emit("@unit"); return f.Apply() })
		}
	default:
		return "bad-op"
	}
	if b := attempt(func() any { build(); return 0 }); b != "0" {
		if strings.HasPrefix(b, "panic(bad ") {
			return "bad-op"
		}
		return "build-" + b + " | " + strings.Join(Log, ",")
	}
	for _, c := range calls {
		outs = append(outs, attempt(c))
	}
	return strings.Join(outs, ";") + " | " + strings.Join(Log, ",")
}

// ------------------------------------------------------------------------------------ generator

var hist = map[string]int{}

type gen struct {
	r   *Rng
	fn1 bool // get / withArg / memo / arrows available
}

func (g *gen) genC(n, d int) *Sx {
	if n == 0 {
		return I(g.r.Range(-3, 9))
	}
	return g.genE(n-1, d)
}

func (g *gen) genE(n, d int) *Sx {
	r := g.r
	if d <= 0 || r.Intn(6) == 0 {
		if n == 0 {
			switch k := r.Intn(8); {
			case k <= 3:
				return L(A("ke"), L(A("cb"), GenF1(r, true)))
			case k == 4 && g.fn1:
				return L(A("get"))
			case k == 5 && r.Intn(6) == 0:
				return L(A("nilfn"))
			}
			return L(A("pure"), I(r.Range(-3, 9)))
		}
		if r.Bool() {
			return L(A("pure"), g.genC(n, 0))
		}
		return L(A("ke"), g.genK(n, 0))
	}
	for {
		switch r.Intn(16) {
		case 0:
			return L(A("pure"), g.genC(n, d-1))
		case 1, 2:
			return L(A("map"), g.genE(0, d-1), g.genK(n, d-1))
		case 3, 4, 5, 6:
			if n <= 1 {
				return L(A("flatMap"), g.genE(0, d-1), g.genK(n+1, d-1))
			}
		case 7, 8:
			if n <= 1 {
				return L(A("flatten"), g.genE(n+1, d-1))
			}
		case 9:
			if n <= 1 && g.fn1 {
				return L(A("withArg"), g.genE(n+1, d-1))
			}
		case 10:
			return L(A("ke"), g.genK(n, d-1))
		case 11, 12:
			if n == 0 && g.fn1 {
				return L(A("memo"), g.genE(0, d-1))
			}
		case 13, 14:
			if n == 0 && g.fn1 {
				name := Pick(r, "first", "second", "split", "merge", "merge", "merge2")
				if name == "first" || name == "second" {
					return L(A("arrow"), A(name), g.genE(0, d-1))
				}
				return L(A("arrow"), A(name), g.genE(0, d-1), g.genE(0, d-1))
			}
		case 15:
			if n == 0 && g.fn1 {
				return L(A("get"))
			}
		}
	}
}

func (g *gen) genK(n, d int) *Sx {
	r := g.r
	if n == 0 && (d <= 0 || r.Intn(2) == 0) {
		return L(A("cb"), GenF1(r, true))
	}
	for {
		switch r.Intn(14) {
		case 0, 1, 2:
			return L(A("kconst"), I(NewID()), g.genC(n, d-1))
		case 3, 4:
			return L(A("kfresh"), I(NewID()), g.genC(n, d-1))
		case 5:
			if r.Intn(3) == 0 {
				return L(A("kpanic"), I(NewID()), I(r.Range(1, 9)))
			}
		case 6:
			return L(A("kpanicif"), I(NewID()), I(r.Range(2, 3)), I(r.Range(1, 9)), g.genC(n, d-1))
		case 7, 8, 9:
			if n == 1 {
				return L(A("kadd"), I(NewID()))
			}
		case 10, 11:
			if n == 1 {
				return L(A("kmap"), I(NewID()), g.genE(0, d-1))
			}
		case 12:
			if d > 0 {
				return L(A("ek"), g.genE(n, d-1))
			}
		case 13:
			if n >= 1 && r.Intn(8) == 0 {
				return L(A("nilfn"))
			}
		}
	}
}

func (g *gen) genArg() *Sx {
	r := g.r
	if r.Intn(10) < 3 {
		return L(A("t"), I(r.Range(-3, 9)), I(r.Range(-3, 9)))
	}
	return I(r.Range(-3, 9))
}

func count(s *Sx) {
	if s.IsL {
		if h := s.Head(); h != "" {
			if h == "arrow" {
				h = "arrow." + s.List[1].Atom
			}
			hist[h]++
		}
		for _, x := range s.List {
			count(x)
		}
	}
}

// ------------------------------------------------------------------------------------ direct checks
// The property statement evaluated on the implementation itself, no model involved: both sides of every
// law / defining equation are built from fresh copies of the same generated operands (so memo cells are
// fresh on both sides), applied to the same argument, and compared on value / panic AND event log.

func outcome(f func() any) string { return Outcome(func() string { return Show(f()) }) }

type L2 = fp.Func1[any, L1]
type Z1 = fp.Func0[any]

func direct(r *Rng, sink *Sink, n int, dir string) int {
	checks := 0
	g1 := &gen{r: r, fn1: true}
	g0 := &gen{r: r, fn1: false}
	// lhs / rhs BUILD a function value (fresh operands, fresh memo cells); both are then applied to the same
	// arguments one after the other (a combinator that keeps state between calls shows up on the later calls)
	var us []any
	cmp := func(key, law string, in string, lhs, rhs func() func(any) any) {
		checks++
		hist["law."+law]++
		run := func(side func() func(any) any) string {
			outs := []string{}
			var f func(any) any
			outs = append(outs, outcome(func() any { f = side(); return "built" }))
			for _, u := range us {
				outs = append(outs, outcome(func() any { return f(u) }))
			}
			return strings.Join(outs, " ; ")
		}
		got, want := run(lhs), run(rhs)
		if got != want {
			sink.DirectFail(key, "(law "+law+" "+in+" args="+Show(us)+")", "lhs "+got+" rhs "+want)
		}
	}
	type fn = func(any) any
	unit := fp.Unit{}
	for i := 0; i < n; i++ {
		ResetIDs()
		d := 1 + r.Intn(3)
		ms, fs, gs, k0s, mms := g1.genE(0, d), g1.genK(1, d), g1.genK(1, d), g1.genK(0, d), g1.genE(1, d)
		a, u := r.Range(-3, 9), r.Range(10, 19) // a and u are distinguishable
		in := fmt.Sprintf("m=%s f=%s g=%s k=%s mm=%s a=%d u=%d", ms, fs, gs, k0s, mms, a, u)
		B := fn1L
		m := func() L1 { return B.l0.buildE(ms) }
		f := func() L2 { return B.l1.buildK(fs) }
		gg := func() L2 { return B.l1.buildK(gs) }
		k0 := func() L1 { return B.l0.buildK(k0s) }
		mm := func() L2 { return B.l1.buildE(mms) }

		us = []any{u, r.Range(10, 19), u, fp.Tuple2[any, any]{I1: u, I2: 0}}[:2+r.Intn(3)]
		cmp("fn1.FlatMap", "left_id", in,
			func() fn { return fn1.FlatMap(fn1.Pure[any, any](a), f()) },
			func() fn { fv := f(); return func(u any) any { return fv(a)(u) } })
		cmp("fn1.FlatMap", "right_id", in,
			func() fn { return fn1.FlatMap(m(), func(x any) L1 { return fn1.Pure[any](x) }) },
			func() fn { return m() })
		cmp("fn1.FlatMap", "assoc", in,
			func() fn { return fn1.FlatMap(fn1.FlatMap(m(), f()), gg()) },
			func() fn {
				mv, fv, gv := m(), f(), gg()
				return fn1.FlatMap(mv, func(x any) L1 { return fn1.FlatMap(fv(x), gv) })
			})
		cmp("fn1.Map", "map_def", in,
			func() fn { return fn1.Map(m(), k0()) },
			func() fn {
				mv, kv := m(), k0()
				return fn1.FlatMap(mv, func(x any) L1 { return fn1.Pure[any](kv(x)) })
			})
		cmp("fn1.Map", "map_apply", in,
			func() fn { return fn1.Map(m(), k0()) },
			func() fn { mv, kv := m(), k0(); return func(u any) any { x := mv(u); return kv(x) } })
		cmp("fn1.Flatten", "flatten_def", in,
			func() fn { return fn1.Flatten(mm()) },
			func() fn { return fn1.FlatMap(mm(), fp.Id[L1]) })
		cmp("fn1.Flatten", "flatten_apply", in,
			func() fn { return fn1.Flatten(mm()) },
			func() fn { mv := mm(); return func(u any) any { h := mv(u); return h(u) } })
		cmp("fn1.FlatMap", "flatMap_def", in,
			func() fn { return fn1.FlatMap(m(), f()) },
			func() fn { return fn1.Flatten(fn1.Map(m(), f())) })
		cmp("fn1.FlatMap", "flatMap_apply", in,
			func() fn { return fn1.FlatMap(m(), f()) },
			func() fn { mv, fv := m(), f(); return func(u any) any { x := mv(u); h := fv(x); return h(u) } })
		cmp("fn1.WithArg", "withArg_def", in,
			func() fn { return fn1.WithArg(mm()) },
			func() fn { return fn1.FlatMap(fn1.Get[any](), mm()) })
		cmp("fn1.WithArg", "withArg_apply", in,
			func() fn { return fn1.WithArg(mm()) },
			func() fn { mv := mm(); return func(u any) any { h := mv(u); return h(u) } })
		cmp("fn1.Get", "flatMap_get", in,
			func() fn { return fn1.FlatMap(fn1.Get[any](), f()) },
			func() fn { fv := f(); return func(u any) any { h := fv(u); return h(u) } })
		cmp("fn1.Get", "get_apply", in,
			func() fn { return fn1.Get[any]() },
			func() fn { return func(u any) any { return u } })
		cmp("fn1.Pure", "pure_apply", in,
			func() fn { return fn1.Pure[any, any](a) },
			func() fn { return func(any) any { return a } })
		// the environment reaches both stages unchanged
		cmp("fn1.FlatMap", "env", in,
			func() fn {
				return fn1.FlatMap(func(x any) any { return fp.Tuple2[any, any]{I1: "m", I2: x} },
					func(y any) L1 { return func(x any) any { return fp.Tuple2[any, any]{I1: y, I2: x} } })
			},
			func() fn {
				return func(u any) any { return fp.Tuple2[any, any]{I1: fp.Tuple2[any, any]{I1: "m", I2: u}, I2: u} }
			})

		// arrows: the argument of the built function is a pair (b, d) -----------------------------
		f1s, f2s := g1.genE(0, d-1), g1.genE(0, d-1)
		ain := fmt.Sprintf("f1=%s f2=%s", f1s, f2s)
		f1 := func() L1 { return B.l0.buildE(f1s) }
		f2 := func() L1 { return B.l0.buildE(f2s) }
		pair := func(x, y any) any { return fp.Tuple2[any, any]{I1: x, I2: y} }
		us = []any{pair(r.Range(-3, 9), r.Range(20, 29)), pair(r.Range(-3, 9), r.Range(20, 29)), pair(0, 0)}[:1+r.Intn(3)]
		cmp("fn1.First", "first", ain,
			func() fn { g := fn1.First[any](f1()); return func(x any) any { b, d := untup(x); return pair(g(b, d)) } },
			func() fn { fv := f1(); return func(x any) any { b, d := untup(x); c := fv(b); return pair(c, d) } })
		cmp("fn1.Second", "second", ain,
			func() fn { g := fn1.Second[any](f1()); return func(x any) any { d, b := untup(x); return pair(g(d, b)) } },
			func() fn { fv := f1(); return func(x any) any { d, b := untup(x); c := fv(b); return pair(d, c) } })
		cmp("fn1.Split", "split", ain,
			func() fn { g := fn1.Split(f1(), f2()); return func(x any) any { a, c := untup(x); return pair(g(a, c)) } },
			func() fn {
				v1, v2 := f1(), f2()
				return func(x any) any { a, c := untup(x); p := v1(a); q := v2(c); return pair(p, q) }
			})
		cmp("fn1.Merge", "merge", ain,
			func() fn { g := fn1.Merge(f1(), f2()); return func(x any) any { return pair(g(x)) } },
			func() fn { v1, v2 := f1(), f2(); return func(x any) any { p := v1(x); q := v2(x); return pair(p, q) } })
		cmp("fn1.Merge2", "merge2", ain,
			func() fn { g := fn1.Merge2(f1(), f2()); return func(x any) any { return g(x) } },
			func() fn { v1, v2 := f1(), f2(); return func(x any) any { p := v1(x); q := v2(x); return pair(p, q) } })

		// fn0 -----------------------------------------------------------------------------------
		ResetIDs()
		zs, zfs, zgs, zk0s, zzs := g0.genE(0, d), g0.genK(1, d), g0.genK(1, d), g0.genK(0, d), g0.genE(1, d)
		zin := fmt.Sprintf("m=%s f=%s g=%s k=%s mm=%s a=%d", zs, zfs, zgs, zk0s, zzs, a)
		Z := fn0L
		conv := func(k fp.Func1[any, fp.Func1[fp.Unit, any]]) fp.Func1[any, Z1] {
			return func(v any) Z1 { return Z1(k(v)) }
		}
		zm := func() Z1 { return Z1(Z.l0.buildE(zs)) }
		zf := func() fp.Func1[any, Z1] { return conv(Z.l1.buildK(zfs)) }
		zg := func() fp.Func1[any, Z1] { return conv(Z.l1.buildK(zgs)) }
		zk0 := func() L1 { return Z.l0.buildK(zk0s) }
		zmm := func() fp.Func0[Z1] {
			e := Z.l1.buildE(zzs)
			return func(u fp.Unit) Z1 { return Z1(e(u)) }
		}
		ap := func(z Z1) fn { return func(any) any { return z.Apply() } } // the argument list only says how often
		us = []any{unit, unit, unit}[:1+r.Intn(3)]
		cmp("fn0.FlatMap", "fn0.left_id", zin,
			func() fn { return ap(fn0.FlatMap(fn0.Pure[any](a), zf())) },
			func() fn { fv := zf(); return func(any) any { return fv(a).Apply() } })
		cmp("fn0.FlatMap", "fn0.right_id", zin,
			func() fn { return ap(fn0.FlatMap(zm(), func(x any) Z1 { return fn0.Pure(x) })) },
			func() fn { return ap(zm()) })
		cmp("fn0.FlatMap", "fn0.assoc", zin,
			func() fn { return ap(fn0.FlatMap(fn0.FlatMap(zm(), zf()), zg())) },
			func() fn {
				mv, fv, gv := zm(), zf(), zg()
				return ap(fn0.FlatMap(mv, func(x any) Z1 { return fn0.FlatMap(fv(x), gv) }))
			})
		cmp("fn0.Map", "fn0.map_def", zin,
			func() fn { return ap(fn0.Map(zm(), zk0())) },
			func() fn {
				mv, kv := zm(), zk0()
				return ap(fn0.FlatMap(mv, func(x any) Z1 { return fn0.Pure(kv(x)) }))
			})
		cmp("fn0.Flatten", "fn0.flatten_def", zin,
			func() fn { return ap(fn0.Flatten(zmm())) },
			func() fn { return ap(fn0.FlatMap(zmm(), fp.Id[Z1])) })
		cmp("fn0.Flatten", "fn0.flatten_apply", zin,
			func() fn { return ap(fn0.Flatten(zmm())) },
			func() fn { mv := zmm(); return func(any) any { h := mv(unit); return h(unit) } })
		cmp("fn0.FlatMap", "fn0.flatMap_apply", zin,
			func() fn { return ap(fn0.FlatMap(zm(), zf())) },
			func() fn { mv, fv := zm(), zf(); return func(any) any { x := mv(unit); h := fv(x); return h(unit) } })
		// fn0 = fn1 at Unit
		cmp("fn0.FlatMap", "fn0.eq_fn1", zin,
			func() fn { return ap(fn0.FlatMap(zm(), zf())) },
			func() fn {
				mv, k := zm(), Z.l1.buildK(zfs)
				g := fn1.FlatMap(fp.Func1[fp.Unit, any](mv), k)
				return func(any) any { return g(unit) }
			})

		// Memoize: sequential --------------------------------------------------------------------
		ResetIDs()
		es := g1.genE(0, d)
		nargs := 2 + r.Intn(4)
		args := make([]any, nargs)
		for j := range args {
			args[j] = r.Range(-3, 9)
		}
		memoSeq(sink, es, args, &checks)
	}
	// Memoize: concurrent callers, each with its own argument
	for i := 0; i < n/4+4; i++ {
		memoConc(r, sink, dir, &checks)
	}
	return checks
}

// memoSeq: f is wrapped with a run counter; after Memoize(f) was called on args[0], args[1], ...: f ran at
// most once (exactly once, with args[0]); if that run returned, every call returned that same value and
// nothing else was logged.
func memoSeq(sink *Sink, es *Sx, args []any, checks *int) {
	*checks++
	hist["law.memo_seq"]++
	in := fmt.Sprintf("(memo_seq e=%s args=%s)", es, Show(args))
	defer func() {
		if p := recover(); p != nil {
			sink.DirectFail("fn1.Memoize", in, "panic outside any call: "+ShowPanic(p))
		}
	}()
	inner := fn1L.l0.buildE(es)
	runs := 0
	var ranWith any
	g := fn1.Memoize(func(x any) any { runs++; ranWith = x; return inner(x) })
	// reference: the first argument's outcome, from a fresh copy
	ref := fn1L.l0.buildE(es)
	want := outcome(func() any { return ref(args[0]) })
	first := outcome(func() any { return g(args[0]) })
	if first != want {
		sink.DirectFail("fn1.Memoize", in, "first call: got "+first+" want "+want)
	}
	panicked := strings.HasPrefix(first, "panic(")
	val := strings.SplitN(first, " | ", 2)[0]
	for _, a := range args[1:] {
		got := outcome(func() any { return g(a) })
		if !panicked && got != val+" | " {
			sink.DirectFail("fn1.Memoize", in, fmt.Sprintf("later call g(%s): got %s want %s with empty log", Show(a), got, val))
		}
	}
	if runs != 1 || Show(ranWith) != Show(args[0]) {
		sink.DirectFail("fn1.Memoize", in, fmt.Sprintf("f ran %d times (last with %s), want once with %s", runs, Show(ranWith), Show(args[0])))
	}
}

// memoConc: goroutines released together call the same memoised function with different arguments: f runs
// exactly once, everybody gets the same value, and it is f of one of the arguments.
func memoConc(r *Rng, sink *Sink, dir string, checks *int) {
	*checks++
	hist["law.memo_conc"]++
	nth := r.Range(2, 8)
	mul := r.Range(2, 5)
	in := fmt.Sprintf("(memo_conc threads=%d mul=%d)", nth, mul)
	sink.Probe(dir, "fn1.Memoize", in)
	var runs int32
	g := fn1.Memoize(func(x int) int {
		atomic.AddInt32(&runs, 1)
		for i := 0; i < 3; i++ {
			runtime.Gosched() // widen the window in which the others arrive
		}
		return x*mul + 1
	})
	res := make([]int, nth)
	start := make(chan struct{})
	var wg sync.WaitGroup
	for t := 0; t < nth; t++ {
		wg.Add(1)
		go func(t int) {
			defer wg.Done()
			<-start
			res[t] = g(t + 1)
		}(t)
	}
	close(start)
	wg.Wait()
	sink.ProbeDone(dir)
	ok := atomic.LoadInt32(&runs) == 1
	winner := false
	for t := 0; t < nth; t++ {
		if res[t] != res[0] {
			ok = false
		}
		if res[0] == (t+1)*mul+1 {
			winner = true
		}
	}
	if !ok || !winner {
		sink.DirectFail("fn1.Memoize", in, fmt.Sprintf("f ran %d times, results %v", runs, res))
	}
}

// ------------------------------------------------------------------------------------ main

func main() {
	seed := flag.Uint64("seed", 1, "PRNG seed")
	n := flag.Int("n", 2000, "number of generated cases")
	out := flag.String("out", ".", "output directory")
	replay := flag.String("replay", "", "run one op line and print the implementation's answer")
	opsFile := flag.String("ops", "", "run the op lines of this file instead of generating")
	focus := flag.String("focus", "", "memo | arrow | fn0: only generate cases that contain a Memoize / an arrow / use package fn0")
	flag.Parse()
	safe := func(op *Sx) (res string) {
		defer func() {
			if p := recover(); p != nil {
				res = "bad-op"
			}
		}()
		return runCase(op)
	}
	if *replay != "" {
		op, err := Parse(*replay)
		if err != nil {
			fmt.Println("bad-op")
			os.Exit(2)
		}
		fmt.Println(safe(op))
		return
	}
	r := NewRng(*seed)
	sink := NewSink(*out)
	if *opsFile != "" {
		for _, line := range ReadLines(*opsFile) {
			op, err := Parse(line)
			if err != nil {
				continue
			}
			sink.Case(line, func() string { return safe(op) })
		}
		sink.Close()
		fmt.Printf("{\"cases\": %d}\n", sink.N)
		return
	}
	// edge cases first
	for _, line := range edgeOps {
		op, _ := Parse(line)
		count(op)
		sink.Case(line, func() string { return runCase(op) })
	}
	for i := 0; i < *n; i++ {
		var op *Sx
		for try := 0; ; try++ {
			ResetIDs()
			depth := 1 + r.Intn(4)
			if *focus == "fn0" || (*focus == "" && r.Intn(4) == 0) {
				g := &gen{r: r, fn1: false}
				op = L(A("run0"), g.genE(0, depth), I(r.Range(0, 3)))
			} else {
				g := &gen{r: r, fn1: true}
				xs := []*Sx{A("run1"), g.genE(0, depth)}
				for j, k := 0, r.Range(0, 4); j < k; j++ {
					xs = append(xs, g.genArg())
				}
				op = L(xs...)
			}
			if *focus == "" || *focus == "fn0" || try > 200 || strings.Contains(op.String(), "("+*focus+" ") {
				break
			}
		}
		count(op)
		sink.Case(op.String(), func() string { return runCase(op) })
	}
	nd := direct(r, sink, *n/8+10, *out)
	sink.Close()
	keys := []string{}
	for k := range hist {
		keys = append(keys, k)
	}
	sort.Strings(keys)
	fmt.Printf("{\"cases\": %d, \"direct_checks\": %d, \"direct_failures\": %d, \"histogram\": {", sink.N, nd, sink.DirectFailures)
	for i, k := range keys {
		if i > 0 {
			fmt.Print(", ")
		}
		fmt.Printf("%q: %d", k, hist[k])
	}
	fmt.Println("}}")
}

// hand-written edge cases: zero calls, nil functions at every position, memo of a panicking function,
// memo constructed at build time vs at call time, zero / tuple arguments
var edgeOps = []string{
	"(run1 (get))",
	"(run1 (get) 0 (t 0 0))",
	"(run1 (pure 0) 0 1)",
	"(run1 (nilfn) 1)",
	"(run1 (map (nilfn) (cb (lin 1 1 0))) 1)",
	"(run1 (map (get) (nilfn)) 1)",
	"(run1 (flatMap (get) (nilfn)) 1)",
	"(run1 (flatMap (get) (kconst 1 (nilfn))) 1)",
	"(run1 (flatten (nilfn)) 1)",
	"(run1 (flatten (pure (nilfn))) 1)",
	"(run1 (withArg (nilfn)) 1)",
	"(run1 (memo (nilfn)) 1 2)",
	"(run1 (memo (ke (cb (fpanic 1 7)))) 3 4 5)",
	"(run1 (memo (ke (cb (fpanicif 1 2 7)))) 3 4 5)",
	"(run1 (memo (ke (cb (fpanicif 1 2 7)))) 4 3 5)",
	"(run1 (memo (memo (ke (cb (lin 1 2 1))))) 3 4 5)",
	"(run1 (flatMap (get) (kfresh 1 (memo (ke (cb (lin 2 1 1)))))) 5 6)",
	"(run1 (flatMap (get) (kconst 1 (memo (ke (cb (lin 2 1 1)))))) 5 6)",
	"(run1 (arrow merge (memo (ke (cb (lin 1 2 1)))) (get)) 3 4)",
	"(run1 (arrow first (nilfn)) (t 1 2))",
	"(run1 (arrow split (ke (cb (fpanic 1 3))) (ke (cb (lin 2 1 1)))) (t 1 2))",
	"(run1 (arrow merge (ke (cb (lin 1 1 1))) (ke (cb (fpanic 2 3)))) 1)",
	"(run0 (pure 0) 0)",
	"(run0 (pure 0) 2)",
	"(run0 (nilfn) 1)",
	"(run0 (flatten (pure (nilfn))) 1)",
	"(run0 (flatMap (pure 3) (kadd 1)) 2)",
	"(run0 (flatMap (ke (cb (lin 1 1 1))) (kpanic 2 5)) 2)",
}
