package common

import (
	"fmt"
	"time"
)

// Coop is a cooperative scheduler: every logical thread is a goroutine parked on its own channel;
// Step grants one turn, the thread runs until its next yield point (it reports the point and
// parks again) or until it finishes. Exactly one logical thread runs at any time, so a schedule
// (a list of thread ids) replays exactly, on the real code and on the Lean model alike.
type Coop struct {
	Threads []*CoopThread
	cur     *CoopThread
	Mute    bool // yields are ignored (used while the harness itself inspects the object)
	Timeout time.Duration
	Hung    bool
	timer   *time.Timer
}

type CoopThread struct {
	ID       int
	grant    chan struct{}
	report   chan string
	Finished bool
	Point    string // last reported yield point, or the final "ret…" / "panic(…)"
	// Enabled, when non-nil, is asked before granting a turn (a thread about to take a mutex).
	Enabled func() bool
}

// SeedMix decorrelates consecutive seeds: common.NewRng(seed) and NewRng(seed+1) produce the same
// stream shifted by one position (the state is seed*G+c and every step adds G), so shards with
// consecutive seeds re-synchronise and generate mostly identical cases. NewRng(SeedMix(seed)) does not.
func SeedMix(seed uint64) uint64 {
	z := seed + 0x9E3779B97F4A7C15
	z = (z ^ (z >> 30)) * 0xBF58476D1CE4E5B9
	z = (z ^ (z >> 27)) * 0x94D049BB133111EB
	return z ^ (z >> 31)
}

func NewCoop() *Coop {
	return &Coop{Timeout: 20 * time.Second, timer: time.NewTimer(time.Hour)}
}

// Yield is what the library's hooks call. enabled may be nil.
func (c *Coop) Yield(point string, enabled func() bool) {
	t := c.cur
	if t == nil || c.Mute {
		return
	}
	t.Enabled = enabled
	t.report <- point
	<-t.grant
	t.Enabled = nil
}

// Spawn adds a logical thread and runs it up to its first yield point. body returns the final
// report ("ret…"); a panic is reported as "panic(<value>)".
func (c *Coop) Spawn(body func() string) *CoopThread {
	t := &CoopThread{ID: len(c.Threads), grant: make(chan struct{}), report: make(chan string)}
	c.Threads = append(c.Threads, t)
	go func() {
		<-t.grant
		res := func() (s string) {
			defer func() {
				if p := recover(); p != nil {
					s = "panic(" + ShowPanic(p) + ")"
				}
			}()
			return body()
		}()
		t.Finished = true
		t.report <- res
	}()
	c.turn(t)
	return t
}

func (c *Coop) turn(t *CoopThread) string {
	c.cur = t
	t.grant <- struct{}{}
	if !c.timer.Stop() {
		select {
		case <-c.timer.C:
		default:
		}
	}
	c.timer.Reset(c.Timeout)
	select {
	case p := <-t.report:
		c.cur = nil
		t.Point = p
		return p
	case <-c.timer.C:
		c.cur = nil
		c.Hung = true
		t.Finished = true
		t.Point = "HANG"
		return "HANG"
	}
}

// Step gives thread tid one turn. It returns "-" when the entry is skipped (no such thread,
// finished, or not enabled).
func (c *Coop) Step(tid int) string {
	if tid < 0 || tid >= len(c.Threads) {
		return "-"
	}
	t := c.Threads[tid]
	if t.Finished || c.Hung {
		return "-"
	}
	if t.Enabled != nil && !t.Enabled() {
		return "-"
	}
	return c.turn(t)
}

// Live returns the ids of the threads that can take a turn now.
func (c *Coop) Live() []int {
	out := []int{}
	for _, t := range c.Threads {
		if !t.Finished && (t.Enabled == nil || t.Enabled()) {
			out = append(out, t.ID)
		}
	}
	return out
}

func (c *Coop) AllFinished() bool {
	for _, t := range c.Threads {
		if !t.Finished {
			return false
		}
	}
	return true
}

// Finish drives all unfinished threads round-robin until quiescence; returns the trace.
func (c *Coop) Finish(maxRounds int) []string {
	tr := []string{}
	for round := 0; round < maxRounds && !c.AllFinished() && !c.Hung; round++ {
		progressed := false
		for _, t := range c.Threads {
			if p := c.Step(t.ID); p != "-" {
				tr = append(tr, fmt.Sprintf("%d>%s", t.ID, p))
				progressed = true
			}
		}
		if !progressed {
			break // deadlock
		}
	}
	return tr
}
