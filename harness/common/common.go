// Package common: PRNG, S-expression printing, canonical value rendering, event log and the
// callback table shared by all correspondence harnesses. The Lean side is FpVerif/Funcs.lean
// and FpVerif/Base.lean; the two must render identically.
package common

import (
	"bufio"
	"fmt"
	"os"
	"reflect"
	"runtime/debug"
	"strconv"
	"strings"

	"github.com/csgura/fp"
)

// ---------------------------------------------------------------------------------- PRNG

type Rng struct{ s uint64 }

// NewRng scrambles the seed first: with a plain linear seeding consecutive seeds would yield the same
// stream shifted by one draw, and the shards of one check (seeds VERIF_SEED*1000+i) would repeat each other.
func NewRng(seed uint64) *Rng {
	z := seed + 0x9E3779B97F4A7C15
	z = (z ^ (z >> 30)) * 0xBF58476D1CE4E5B9
	z = (z ^ (z >> 27)) * 0x94D049BB133111EB
	return &Rng{s: z ^ (z >> 31)}
}

func (r *Rng) Next() uint64 {
	r.s += 0x9E3779B97F4A7C15
	z := r.s
	z = (z ^ (z >> 30)) * 0xBF58476D1CE4E5B9
	z = (z ^ (z >> 27)) * 0x94D049BB133111EB
	return z ^ (z >> 31)
}

// Intn returns a number in [0,n).
func (r *Rng) Intn(n int) int {
	if n <= 0 {
		return 0
	}
	return int(r.Next() % uint64(n))
}

// Range returns a number in [lo,hi].
func (r *Rng) Range(lo, hi int) int { return lo + r.Intn(hi-lo+1) }

func (r *Rng) Bool() bool { return r.Next()&1 == 1 }

func Pick[T any](r *Rng, xs ...T) T { return xs[r.Intn(len(xs))] }

// ---------------------------------------------------------------------------------- errors

type CodeErr int

func (e CodeErr) Error() string { return "e" + strconv.Itoa(int(e)) }

func E(n int) error { return CodeErr(n) }

type panicker interface {
	error
	Panic() any
}

// ShowErr renders an error the way Err.toStr does in Lean.
func ShowErr(err error) string {
	if err == nil {
		return "nil"
	}
	if err == fp.ErrOptionEmpty {
		return "ErrOptionEmpty"
	}
	if err == fp.ErrTryNotFailed {
		return "ErrTryNotFailed"
	}
	if err == fp.ErrFutureNotFailed {
		return "ErrFutureNotFailed"
	}
	if c, ok := err.(CodeErr); ok {
		return c.Error()
	}
	if p, ok := err.(panicker); ok {
		return "panicErr(" + ShowPanic(p.Panic()) + ")"
	}
	if strings.Contains(err.Error(), "Try not initialized correctly") {
		return "ErrNotInit"
	}
	return "err<" + err.Error() + ">"
}

// ShowPanic renders a recovered panic value.
func ShowPanic(p any) string {
	switch v := p.(type) {
	case int:
		return strconv.Itoa(v)
	case string:
		return v
	case error:
		if re, ok := p.(interface{ RuntimeError() }); ok {
			_ = re
			return "runtime:" + v.Error()
		}
		return ShowErr(v)
	}
	return fmt.Sprintf("%v", p)
}

// ---------------------------------------------------------------------------------- values

// AsInt mirrors Val.asInt.
func AsInt(v any) int {
	if i, ok := v.(int); ok {
		return i
	}
	return 0
}

// Emod is Lean's Int.emod with x % 0 = 0.
func Emod(x, m int) int {
	if m == 0 {
		return 0
	}
	r := x % m
	if r < 0 {
		if m < 0 {
			r -= m
		} else {
			r += m
		}
	}
	return r
}

// Show renders a value the way Val.toStr does.
func Show(v any) string {
	if v == nil {
		return "nil"
	}
	switch x := v.(type) {
	case int:
		return strconv.Itoa(x)
	case int64:
		return strconv.FormatInt(x, 10)
	case uint32:
		return strconv.FormatUint(uint64(x), 10)
	case bool:
		if x {
			return "true"
		}
		return "false"
	case string:
		return "\"" + x + "\""
	case fp.Unit:
		return "unit"
	case error:
		return ShowErr(x)
	}
	rv := reflect.ValueOf(v)
	rt := rv.Type()
	name := rt.Name()
	switch {
	case strings.HasPrefix(name, "Option["):
		if rv.MethodByName("IsDefined").Call(nil)[0].Bool() {
			return "Some(" + Show(rv.MethodByName("Get").Call(nil)[0].Interface()) + ")"
		}
		return "None"
	case strings.HasPrefix(name, "Try["):
		if rv.MethodByName("IsSuccess").Call(nil)[0].Bool() {
			return "Success(" + Show(rv.MethodByName("Get").Call(nil)[0].Interface()) + ")"
		}
		failed := rv.MethodByName("Failed").Call(nil)[0]
		if !failed.MethodByName("IsSuccess").Call(nil)[0].Bool() {
			return "Failure(ErrNotInit)" // zero value Try{} / Failure(nil)
		}
		e := failed.MethodByName("Get").Call(nil)[0].Interface()
		return "Failure(" + ShowErr(e.(error)) + ")"
	case strings.HasPrefix(name, "Tuple") || strings.HasPrefix(name, "Labelled"):
		parts := make([]string, rv.NumField())
		for i := range parts {
			parts[i] = Show(rv.Field(i).Interface())
		}
		return "(" + strings.Join(parts, ",") + ")"
	case strings.HasPrefix(name, "left["):
		return "Left(" + Show(rv.MethodByName("Left").Call(nil)[0].Interface()) + ")"
	case strings.HasPrefix(name, "right["):
		return "Right(" + Show(rv.MethodByName("Get").Call(nil)[0].Interface()) + ")"
	}
	switch rt.Kind() {
	case reflect.Slice, reflect.Array:
		parts := make([]string, rv.Len())
		for i := range parts {
			parts[i] = Show(rv.Index(i).Interface())
		}
		return "[" + strings.Join(parts, ",") + "]"
	case reflect.Int, reflect.Int8, reflect.Int16, reflect.Int32, reflect.Int64:
		return strconv.FormatInt(rv.Int(), 10)
	case reflect.Uint, reflect.Uint8, reflect.Uint16, reflect.Uint32, reflect.Uint64:
		return strconv.FormatUint(rv.Uint(), 10)
	case reflect.Ptr:
		if rv.IsNil() {
			return "nil"
		}
		return "&" + Show(rv.Elem().Interface())
	}
	return fmt.Sprintf("?%T", v)
}

// ---------------------------------------------------------------------------------- event log

var Log []string

func Emit(format string, a ...any) { Log = append(Log, fmt.Sprintf(format, a...)) }

// Outcome runs f, recovering panics, and renders "<value or panic(p)> | <events>" as
// renderOutcome does in Lean.
func Outcome(f func() string) (out string) {
	Log = Log[:0]
	res := func() (s string) {
		defer func() {
			if p := recover(); p != nil {
				s = "panic(" + ShowPanic(p) + ")"
			}
		}()
		return f()
	}()
	return res + " | " + strings.Join(Log, ",")
}

// ---------------------------------------------------------------------------------- S-expressions

type Sx struct {
	Atom string
	List []*Sx
	IsL  bool
}

func A(s string) *Sx  { return &Sx{Atom: s} }
func I(n int) *Sx     { return &Sx{Atom: strconv.Itoa(n)} }
func L(xs ...*Sx) *Sx { return &Sx{List: xs, IsL: true} }
func (s *Sx) Head() string {
	if s.IsL && len(s.List) > 0 && !s.List[0].IsL {
		return s.List[0].Atom
	}
	return ""
}
func (s *Sx) Int() int {
	n, _ := strconv.Atoi(s.Atom)
	return n
}
func (s *Sx) String() string {
	if !s.IsL {
		return s.Atom
	}
	parts := make([]string, len(s.List))
	for i, x := range s.List {
		parts[i] = x.String()
	}
	return "(" + strings.Join(parts, " ") + ")"
}

// Parse parses one S-expression (used by replay).
func Parse(src string) (*Sx, error) {
	toks := []string{}
	cur := ""
	flush := func() {
		if cur != "" {
			toks = append(toks, cur)
			cur = ""
		}
	}
	for _, c := range src {
		switch c {
		case '(', ')':
			flush()
			toks = append(toks, string(c))
		case ' ', '\t', '\n', '\r':
			flush()
		default:
			cur += string(c)
		}
	}
	flush()
	pos := 0
	var rec func() (*Sx, error)
	rec = func() (*Sx, error) {
		if pos >= len(toks) {
			return nil, fmt.Errorf("unexpected end")
		}
		t := toks[pos]
		pos++
		if t == "(" {
			l := &Sx{IsL: true}
			for {
				if pos >= len(toks) {
					return nil, fmt.Errorf("unclosed (")
				}
				if toks[pos] == ")" {
					pos++
					return l, nil
				}
				e, err := rec()
				if err != nil {
					return nil, err
				}
				l.List = append(l.List, e)
			}
		}
		if t == ")" {
			return nil, fmt.Errorf("unexpected )")
		}
		return A(t), nil
	}
	e, err := rec()
	if err != nil {
		return nil, err
	}
	if pos != len(toks) {
		return nil, fmt.Errorf("trailing tokens")
	}
	return e, nil
}

// ---------------------------------------------------------------------------------- callback table
// Each generator returns the S-expression and the Go function with identical behaviour to the
// Lean interpretation in FpVerif/Funcs.lean.

var nextID int

func NewID() int { nextID++; return nextID }
func ResetIDs()  { nextID = 0 }

func F1Of(s *Sx) func(any) any {
	switch s.Head() {
	case "lin":
		id, a, b := s.List[1].Int(), s.List[2].Int(), s.List[3].Int()
		return func(x any) any { Emit("f%d:%s", id, Show(x)); return a*AsInt(x) + b }
	case "fpanic":
		id, p := s.List[1].Int(), s.List[2].Int()
		return func(x any) any { Emit("f%d:%s", id, Show(x)); panic(p) }
	case "fpanicif":
		id, m, p := s.List[1].Int(), s.List[2].Int(), s.List[3].Int()
		return func(x any) any {
			Emit("f%d:%s", id, Show(x))
			if Emod(AsInt(x), m) == 0 {
				panic(p)
			}
			return AsInt(x) + 1
		}
	case "wrap":
		id := s.List[1].Int()
		return func(x any) any { Emit("f%d:%s", id, Show(x)); return fp.Tuple1[any]{I1: x} }
	}
	panic("bad F1 " + s.String())
}

func GenF1(r *Rng, allowPanic bool) *Sx {
	id := NewID()
	k := r.Intn(10)
	switch {
	case k == 0 && allowPanic:
		return L(A("fpanic"), I(id), I(r.Range(1, 9)))
	case k == 1 && allowPanic:
		return L(A("fpanicif"), I(id), I(r.Range(2, 3)), I(r.Range(1, 9)))
	case k == 2:
		return L(A("wrap"), I(id))
	}
	return L(A("lin"), I(id), I(r.Range(-2, 3)), I(r.Range(-3, 5)))
}

func P1Of(s *Sx) func(any) bool {
	switch s.Head() {
	case "modeq":
		id, m, rr := s.List[1].Int(), s.List[2].Int(), s.List[3].Int()
		return func(x any) bool { Emit("p%d:%s", id, Show(x)); return Emod(AsInt(x), m) == rr }
	case "lt":
		id, c := s.List[1].Int(), s.List[2].Int()
		return func(x any) bool { Emit("p%d:%s", id, Show(x)); return AsInt(x) < c }
	case "ppanicif":
		id, m, p := s.List[1].Int(), s.List[2].Int(), s.List[3].Int()
		return func(x any) bool {
			Emit("p%d:%s", id, Show(x))
			if Emod(AsInt(x), m) == 0 {
				panic(p)
			}
			return true
		}
	}
	panic("bad P1 " + s.String())
}

func GenP1(r *Rng, allowPanic bool) *Sx {
	id := NewID()
	k := r.Intn(8)
	switch {
	case k == 0 && allowPanic:
		return L(A("ppanicif"), I(id), I(r.Range(3, 5)), I(r.Range(1, 9)))
	case k <= 3:
		return L(A("lt"), I(id), I(r.Range(-2, 8)))
	}
	m := r.Range(2, 3)
	return L(A("modeq"), I(id), I(m), I(r.Intn(m)))
}

func F2Of(s *Sx) func(any, any) any {
	switch s.Head() {
	case "add":
		id := s.List[1].Int()
		return func(x, y any) any { Emit("g%d:%s,%s", id, Show(x), Show(y)); return AsInt(x) + AsInt(y) }
	case "lin2":
		id, a, b := s.List[1].Int(), s.List[2].Int(), s.List[3].Int()
		return func(x, y any) any {
			Emit("g%d:%s,%s", id, Show(x), Show(y))
			return a*AsInt(x) + b*AsInt(y)
		}
	case "pair":
		id := s.List[1].Int()
		return func(x, y any) any {
			Emit("g%d:%s,%s", id, Show(x), Show(y))
			return fp.Tuple2[any, any]{I1: x, I2: y}
		}
	case "g2panic":
		id, p := s.List[1].Int(), s.List[2].Int()
		return func(x, y any) any { Emit("g%d:%s,%s", id, Show(x), Show(y)); panic(p) }
	}
	panic("bad F2 " + s.String())
}

func GenF2(r *Rng, allowPanic bool) *Sx {
	id := NewID()
	k := r.Intn(10)
	switch {
	case k == 0 && allowPanic:
		return L(A("g2panic"), I(id), I(r.Range(1, 9)))
	case k <= 2:
		return L(A("pair"), I(id))
	case k <= 5:
		return L(A("add"), I(id))
	}
	return L(A("lin2"), I(id), I(r.Range(-2, 3)), I(r.Range(-2, 3)))
}

func KTOf(s *Sx) func(any) fp.Try[any] {
	switch s.Head() {
	case "ksucc":
		id, a, b := s.List[1].Int(), s.List[2].Int(), s.List[3].Int()
		return func(x any) fp.Try[any] { Emit("k%d:%s", id, Show(x)); return fp.Success[any](a*AsInt(x) + b) }
	case "kfail":
		id, e := s.List[1].Int(), s.List[2].Int()
		return func(x any) fp.Try[any] { Emit("k%d:%s", id, Show(x)); return fp.Failure[any](E(e)) }
	case "kfailif":
		id, m, e := s.List[1].Int(), s.List[2].Int(), s.List[3].Int()
		return func(x any) fp.Try[any] {
			Emit("k%d:%s", id, Show(x))
			if Emod(AsInt(x), m) == 0 {
				return fp.Failure[any](E(e))
			}
			return fp.Success[any](AsInt(x) + 1)
		}
	case "kpanic":
		id, p := s.List[1].Int(), s.List[2].Int()
		return func(x any) fp.Try[any] { Emit("k%d:%s", id, Show(x)); panic(p) }
	case "kfailsent": // fails with the library's own sentinel error
		id := s.List[1].Int()
		return func(x any) fp.Try[any] { Emit("k%d:%s", id, Show(x)); return fp.Failure[any](fp.ErrOptionEmpty) }
	case "kfailifsent":
		id, m := s.List[1].Int(), s.List[2].Int()
		return func(x any) fp.Try[any] {
			Emit("k%d:%s", id, Show(x))
			if Emod(AsInt(x), m) == 0 {
				return fp.Failure[any](fp.ErrOptionEmpty)
			}
			return fp.Success[any](AsInt(x) + 1)
		}
	case "ksuccnil":
		id := s.List[1].Int()
		return func(x any) fp.Try[any] { Emit("k%d:%s", id, Show(x)); return fp.Success[any](nil) }
	}
	panic("bad KT " + s.String())
}

func GenKT(r *Rng, allowPanic bool) *Sx {
	id := NewID()
	k := r.Intn(10)
	switch {
	case k == 0 && allowPanic:
		return L(A("kpanic"), I(id), I(r.Range(1, 9)))
	case k <= 2:
		if r.Intn(5) == 0 {
			return L(A("kfailsent"), I(id))
		}
		return L(A("kfail"), I(id), I(r.Range(1, 9)))
	case k <= 5:
		if r.Intn(6) == 0 {
			return L(A("kfailifsent"), I(id), I(r.Range(2, 3)))
		}
		return L(A("kfailif"), I(id), I(r.Range(2, 3)), I(r.Range(1, 9)))
	case k == 6 && r.Intn(3) == 0:
		return L(A("ksuccnil"), I(id))
	}
	return L(A("ksucc"), I(id), I(r.Range(-2, 3)), I(r.Range(-3, 5)))
}

// ---------------------------------------------------------------------------------- output files

// Sink writes the three streams of a correspondence run: the operation lines (input of the Lean
// oracle), the implementation's answers, and the results of the direct property checks.
type Sink struct {
	ops, impl, direct *bufio.Writer
	files             []*os.File
	N                 int
	DirectFailures    int
}

func NewSink(dir string) *Sink {
	s := &Sink{}
	mk := func(name string) *bufio.Writer {
		f, err := os.Create(dir + "/" + name)
		if err != nil {
			panic(err)
		}
		s.files = append(s.files, f)
		return bufio.NewWriterSize(f, 1<<20)
	}
	s.ops, s.impl, s.direct = mk("ops.txt"), mk("impl.txt"), mk("direct.txt")
	debug.SetMaxStack(256 << 20)
	return s
}

// Case records one operation line, then runs the implementation on it and records its canonical
// answer. The operation is flushed to disk before it is run, so that if the implementation dies
// with an unrecoverable fault (stack overflow, deadlock) the driver finds the culprit as the one
// line of ops.txt that has no answer in impl.txt.
func (s *Sink) Case(op string, run func() string) {
	s.N++
	fmt.Fprintln(s.ops, op)
	s.ops.Flush()
	impl := run()
	fmt.Fprintln(s.impl, strings.ReplaceAll(impl, "\n", "\\n"))
	s.impl.Flush()
}

// Probe announces a direct (model-free) evaluation that may kill the process (stack overflow,
// deadlock): the description is written to probe.txt before it runs and cleared by ProbeDone, so that
// the driver can name the culprit of a fatal crash that happens outside any Case.
func (s *Sink) Probe(dir string, key string, input string) {
	os.WriteFile(dir+"/probe.txt", []byte(key+"\t"+input+"\n"), 0o644)
}

func (s *Sink) ProbeDone(dir string) { os.Remove(dir + "/probe.txt") }

// DirectFail records an input on which the property itself fails on the implementation.
func (s *Sink) DirectFail(key string, input string, what string) {
	s.DirectFailures++
	fmt.Fprintf(s.direct, "%s\t%s\t%s\n", key, input, strings.ReplaceAll(what, "\n", "\\n"))
	s.direct.Flush() // a later fatal crash of the implementation must not lose this finding
}

func (s *Sink) Close() {
	s.ops.Flush()
	s.impl.Flush()
	s.direct.Flush()
	for _, f := range s.files {
		f.Close()
	}
}

// ReadLines returns the non-empty, non-comment lines of a file.
func ReadLines(path string) []string {
	b, err := os.ReadFile(path)
	if err != nil {
		return nil
	}
	out := []string{}
	for _, l := range strings.Split(string(b), "\n") {
		l = strings.TrimSpace(l)
		if l != "" && !strings.HasPrefix(l, "#") {
			out = append(out, l)
		}
	}
	return out
}
