#!/usr/bin/env python3
"""Hand mutations for the long-tail frame check (C04): apply one single-site aliasing mutation to WS/repo,
rebuild the frame and seqheap harnesses, run them, report, revert."""
import subprocess, os, sys, json, shutil

WS = '/tmp/ws-frame'
REPO = WS + '/repo'
ENV = dict(os.environ, GOFLAGS='-mod=mod', GOPROXY='off', GOSUMDB='off', GOTOOLCHAIN='local')

MUTANTS = [
    ('M1 monoid.MergeSeq/MergeSlice Combine = append(a, b...)', 'monoid/monoid_op.go',
     '\t\t\treturn a.Concat(b)\n\t\t},\n\t)\n}\n\nfunc MergeSlice',
     '\t\t\treturn append(a, b...)\n\t\t},\n\t)\n}\n\nfunc MergeSlice'),
    ('M2 seq.FlatMap starts from the first chunk', 'seq/seq_op.go',
     '''	ret := make(fp.Seq[U], 0, len(opt))

	for _, v := range opt {
		ret = append(ret, fn(v)...)
	}

	return ret
}''',
     '''	var ret fp.Seq[U]

	for i, v := range opt {
		if i == 0 {
			ret = fn(v)
		} else {
			ret = append(ret, fn(v)...)
		}
	}

	return ret
}'''),
    ('M3 list.ReverseSeq reverses its argument in place first', 'list/list_op.go',
     '''func ReverseSeq[T any](seq fp.Seq[T]) fp.List[T] {
	return fp.MakeList(''',
     '''func ReverseSeq[T any](seq fp.Seq[T]) fp.List[T] {
	for i, j := 0, len(seq)-1; i < j; i, j = i+1, j-1 {
		seq[i], seq[j] = seq[j], seq[i]
	}
	return FromSeq(seq)
}

func reverseSeqOrig[T any](seq fp.Seq[T]) fp.List[T] {
	return fp.MakeList('''),
    ('M4 option.Sequence clears the consumed inputs (short-circuit marker written into its argument)', 'option/option_traverse.go',
     '''	return Map(ret, fp.Seq[A].Widen)
}

func SequenceIterator''',
     '''	if !ret.IsDefined() {
		for i := range tsa {
			tsa[i] = fp.None[A]()
		}
	}
	return Map(ret, fp.Seq[A].Widen)
}

func SequenceIterator'''),
    ('M5 try.AppendSeqT = append(insideValue, items)', 'try/try_seqt.go',
     '\t\treturn fp.Seq[A].Append(insideValue, items)',
     '\t\treturn append(insideValue, items)'),
    ('M6 Iterator.ToSeq sorts nothing but returns a buffer carved from its source when the source is a slice iterator: IteratorOfSeq hands out r[idx:] and ToSeq appends into it',
     'iterator.go',
     '''func (r Iterator[T]) ToSeq() []T {
	ret := []T{}
	for r.HasNext() {
		ret = append(ret, r.Next())
	}
	return ret
}''',
     '''var toSeqBuf = map[string]any{}

func (r Iterator[T]) ToSeq() []T {
	// reuse one internal buffer per element type
	key := TypeName[T]()
	ret, _ := toSeqBuf[key].([]T)
	ret = ret[:0]
	for r.HasNext() {
		ret = append(ret, r.Next())
	}
	toSeqBuf[key] = ret
	return ret
}'''),
    ('M7 clone.Slice shallow (returns its argument)', 'clone/clone.go',
     '\t\treturn seq.Map(s, tclone.Clone)\n\t})\n}\n\nfunc Option',
     '\t\t_ = seq.Map(s, tclone.Clone)\n\t\treturn s\n\t})\n}\n\nfunc Option'),
    ('M8 monoid.MergeGoMap merges into its left map', 'monoid/monoid_op.go',
     '''		ret := map[K]V{}

		for k, v := range a {
			ret[k] = v
		}
''',
     '''		ret := a
		if ret == nil {
			ret = map[K]V{}
		}
'''),
    ('M9 Seq.Filter filters in place (ret := r[:0])', 'seq.go',
     '''func (r Seq[T]) Filter(p func(v T) bool) Seq[T] {
	ret := make([]T, 0, len(r))''',
     '''func (r Seq[T]) Filter(p func(v T) bool) Seq[T] {
	ret := r[:0]'''),
    ('M10 semigroup.Ptr combines into its left pointee', 'semigroup/semigroup.go',
     '''			ret := sgT.Get().Combine(*a, *b)
			return &ret''',
     '''			*a = sgT.Get().Combine(*a, *b)
			return a'''),
    ('M11 seq.Distinct dedups in place (acc := s[:0])', 'seq/seq_op.go',
     'return Fold(s, make(fp.Seq[V], 0, s.Size()), func(acc fp.Seq[V], a V) fp.Seq[V] {',
     'return Fold(s, s[:0], func(acc fp.Seq[V], a V) fp.Seq[V] {'),
    ('M12 list.Seq.ToSeq returns its storage (no copy): list.Sort then sorts the slice of the caller', 'list/list_op.go',
     """	if len(r) > 0 {
		ret := make([]T, len(r))
		copy(ret, r)
		return ret
	}
	return nil
}""",
     """	if len(r) > 0 {
		return r
	}
	return nil
}"""),
    ('M13 clone.GoMap returns the same map (values cloned in place)', 'clone/clone.go',
     """		ret := map[K]V{}
		for k, v := range s {""",
     """		ret := s
		for k, v := range s {"""),
    ('M14 clone.Seq copies the slice but not the elements (element cloner dropped)', 'clone/clone.go',
     """	return New(func(s fp.Seq[T]) fp.Seq[T] {
		return seq.Map(s, tclone.Clone)""",
     """	return New(func(s fp.Seq[T]) fp.Seq[T] {
		return seq.Map(s, fp.Id[T])"""),
    ('M15 seq.Sort sorts its argument (copy dropped)', 'seq/seq_op.go',
     """	ns := make(fp.Seq[T], len(r))
	copy(ns, r)
""",
     """	ns := r
"""),
    ('M16 Seq.Append = append(r, items...)', 'seq.go',
     """	if len(items) > 0 {
		tail := Seq[T](items)
		ret := make(Seq[T], r.Size()+tail.Size())

		copy(ret, r)

		for i := range tail {
			ret[i+r.Size()] = tail[i]
		}

		return ret
	}
	return r
}""",
     """	return append(r, items...)
}"""),
]


def sh(cmd, cwd=None, timeout=900):
    p = subprocess.run(cmd, cwd=cwd, env=ENV, stdout=subprocess.PIPE, stderr=subprocess.STDOUT, text=True, timeout=timeout)
    return p.returncode, p.stdout


def run(which):
    for name, f, old, new in MUTANTS:
        if old is None or (which and not any(name.startswith(w + ' ') for w in which)):
            continue
        path = os.path.join(REPO, f)
        src = open(path).read()
        if src.count(old) != 1:
            print(f'{name}: PATTERN NOT UNIQUE ({src.count(old)})')
            continue
        open(path, 'w').write(src.replace(old, new))
        try:
            rc, out = sh(['go', 'build', './...'], cwd=REPO)
            if rc != 0:
                print(f'{name}: mutant does not compile: {out[-400:]}')
                continue
            rc, out = sh(['go', 'build', '-tags', 'verif', '-o', WS + '/h_frame_m', './cmd/frame'], cwd=WS + '/harness')
            rc2, out2 = sh(['go', 'build', '-tags', 'verif', '-o', WS + '/h_seqheap_m', './cmd/seqheap'], cwd=WS + '/harness')
            if rc != 0 or rc2 != 0:
                print(f'{name}: harness build failed: {(out + out2)[-600:]}')
                continue
            d = WS + '/out/mut'
            shutil.rmtree(d, ignore_errors=True)
            os.makedirs(d)
            rc, out = sh([WS + '/h_frame_m', '-seed', '1000', '-n', '15000', '-out', d], timeout=300)
            direct = [l.rstrip('\n').split('\t') for l in open(d + '/direct.txt')]
            keys = {}
            for k in direct:
                keys[k[0]] = keys.get(k[0], 0) + 1
            shortest = min(direct, key=lambda k: len(k[1])) if direct else None
            print(f'{name}\n   frame: rc={rc} direct_failures={len(direct)} keys={dict(sorted(keys.items(), key=lambda kv: -kv[1])[:6])}')
            if shortest:
                print(f'   minimal replay: {shortest[1]}\n   what: {shortest[2][:300]}')
            # seqheap correspondence
            d2 = WS + '/out/mut2'
            shutil.rmtree(d2, ignore_errors=True)
            os.makedirs(d2)
            rc, out = sh([WS + '/h_seqheap_m', '-seed', '1000', '-n', '3000', '-out', d2], timeout=300)
            with open(d2 + '/ops.txt') as fin:
                p = subprocess.run([WS + '/lean/.lake/build/bin/oracle_seqheap'], stdin=fin, stdout=subprocess.PIPE, text=True)
            model = p.stdout.split('\n')
            impl = open(d2 + '/impl.txt').read().split('\n')
            mism = sum(1 for a, b in zip(impl, model) if a != b)
            nd = sum(1 for _ in open(d2 + '/direct.txt'))
            print(f'   seqheap: rc={rc} mismatches={mism} direct_failures={nd}')
        finally:
            open(path, 'w').write(src)


if __name__ == '__main__':
    run(sys.argv[1:])
