package gombokgen

import (
	"fmt"
	"strings"

	"verifharness/common"
)

type Rng = common.Rng

// Package is one scratch package.
type Package struct {
	Name          string
	Structs       []*Struct
	Bad           bool   // holds the structs whose generated code is predicted not to compile
	OverrideMyInt bool   // local EqMyInt/OrdMyInt/HashableMyInt/MonoidMyInt (mod-10 semantics)
	OverrideMoney string // "", "EqMoney" or "EqDepMoney": local instance for dep.Money
	UsesDep       bool
}

type weighted struct {
	k string
	w int
}

func pickW(r *Rng, ws []weighted) string {
	tot := 0
	for _, w := range ws {
		tot += w.w
	}
	x := r.Intn(tot)
	for _, w := range ws {
		if x < w.w {
			return w.k
		}
		x -= w.w
	}
	return ws[0].k
}

var allKinds = []weighted{
	{"int", 10}, {"string", 10}, {"bool", 3}, {"int8", 2}, {"int64", 3}, {"uint64", 2}, {"myint", 4}, {"mystr", 2},
	{"time", 2}, {"bytes", 2}, {"ptr", 5}, {"slice", 6}, {"seq", 2}, {"array", 2}, {"map", 4}, {"func", 2}, {"chan", 2},
	{"any", 3}, {"iface", 2}, {"ifacelit", 1}, {"opt", 12}, {"tuple2", 1}, {"money", 1}, {"pt", 1}, {"struct", 4}, {"tparam", 8},
	{"dur", 3}, {"amoney", 2}, {"err", 3}, {"chanr", 1}, {"chans", 1},
}

// kinds whose encoding/json encoding is faithful (with the Faithful value generator)
var jsonKinds = map[string]bool{"int": true, "string": true, "bool": true, "int8": true, "int64": true, "uint64": true, "myint": true,
	"mystr": true, "time": true, "bytes": true, "ptr": true, "slice": true, "seq": true, "array": true, "map": true, "any": true,
	"opt": true, "tuple2": true, "struct": true, "tparam": true, "money": true, "dur": true, "amoney": true}

// kinds for which the typeclass packages provide (or gombok derives) instances
var classKinds = map[string]map[string]bool{
	"eq":     set("int", "int8", "int64", "uint64", "bool", "string", "myint", "mystr", "time", "dur", "bytes", "money", "pt", "opt", "slice", "seq", "map", "ptr", "tuple2", "struct", "tparam", "index", "mid"),
	"ord":    set("int", "int8", "int64", "uint64", "string", "myint", "mystr", "time", "dur", "money", "opt", "slice", "seq", "ptr", "tuple2", "struct", "tparam"),
	"hash":   set("int", "int8", "int64", "uint64", "string", "myint", "dur", "bytes", "money", "opt", "slice", "seq", "ptr", "tuple2", "struct", "tparam"),
	"monoid": set("int", "int8", "int64", "uint64", "string", "mystr", "myint", "dur", "money", "opt", "slice", "seq", "map", "tuple2", "struct", "tparam"),
	"clone":  set("int", "int8", "int64", "uint64", "bool", "string", "myint", "mystr", "time", "dur", "bytes", "money", "opt", "slice", "seq", "map", "ptr", "tuple2", "struct", "tparam", "any", "index", "mid"),
	"show":   set("int", "int8", "int64", "uint64", "bool", "string", "myint", "time", "opt", "slice", "seq", "ptr", "tuple2", "struct"),
}

var Classes = []string{"eq", "ord", "hash", "monoid", "clone", "show"}

func set(xs ...string) map[string]bool {
	m := map[string]bool{}
	for _, x := range xs {
		m[x] = true
	}
	return m
}

type genCtx struct {
	r       *Rng
	pkg     *Package
	st      *Struct
	allow   func(k string) bool
	depth   int
	classes []string // the struct is meant to be derivable for these classes
	embOK   bool     // embedded ZzEmb fields are fine although allow restricts the kinds (JSON shapes)
}

// supports: the type (and all its components) is supported for the class.
func supports(class string, t *Ty, st *Struct) bool {
	ks := classKinds[class]
	if !ks[t.K] {
		return false
	}
	switch t.K {
	case "struct":
		if t.Ref == st {
			return true // recursion: decided by the struct itself
		}
		return t.Ref.HasDerive(class)
	case "tparam":
		it := t.inst(st)
		if it == t {
			return true
		}
		return supports(class, it, st)
	case "ptr":
		if class == "monoid" {
			return false
		}
	case "map":
		if class == "clone" || class == "eq" || class == "monoid" {
			return supports(class, t.Elem, st)
		}
		return false
	}
	if t.Elem != nil {
		return supports(class, t.Elem, st)
	}
	return true
}

func (s *Struct) HasDerive(class string) bool {
	for _, d := range s.Derives {
		if d.Class == class {
			return true
		}
	}
	return false
}

func jsonFaithful(t *Ty, st *Struct) bool {
	if t.K == "emb" {
		// an embedded ZzEmb{Y int} / *ZzEmb comes back exactly (seed C15-7: an embedded struct with exactly one field dropped from
		// AsMutable / AsImmutable); the empty embedded structs are not applicable fields and never get here
		return strings.TrimPrefix(t.Name, "*") == "ZzEmb"
	}
	if !jsonKinds[t.K] {
		return false
	}
	switch t.K {
	case "tparam":
		it := t.inst(st)
		return it != t && jsonFaithful(it, st)
	case "struct":
		if t.Ref == st {
			return true
		}
		// as a component the struct must come back exactly (no field that the Mutable detour resets)
		for _, f := range t.Ref.Fields {
			if !f.Applicable() {
				return false
			}
		}
		return t.Ref.JSONRoundTrips()
	}
	if t.Elem != nil {
		return jsonFaithful(t.Elem, st)
	}
	return true
}

// JSONRoundTrips: every applicable field has a faithful encoding and no tag hides it.
func (s *Struct) JSONRoundTrips() bool {
	if s.Plain {
		for _, f := range s.Fields {
			if !jsonFaithful(f.Ty, s) || f.Name[0] < 'A' || f.Name[0] > 'Z' || strings.Contains(f.Tag, `json:"-`) {
				return false
			}
		}
		return true
	}
	if !(s.ValueRuns() && s.Ann.Json) || contains(s.UserT, "MarshalJSON") {
		return false
	}
	for _, f := range s.Fields {
		if !f.Applicable() {
			continue
		}
		if !jsonFaithful(f.Ty, s) || strings.Contains(f.Tag, `json:"-`) {
			return false
		}
	}
	return true
}

func (c *genCtx) ty() *Ty {
	r := c.r
	for tries := 0; tries < 50; tries++ {
		k := pickW(r, allKinds)
		if c.depth > 0 && (k == "struct" || k == "func" || k == "chan" || k == "chanr" || k == "chans" || k == "ifacelit" || k == "pt" || k == "money" || k == "time") && r.Intn(3) > 0 {
			continue
		}
		if c.allow != nil && !c.allow(k) {
			continue
		}
		t := &Ty{K: k}
		switch k {
		case "tparam":
			if len(c.st.TParams) == 0 {
				continue
			}
			t.Name = c.st.TParams[r.Intn(len(c.st.TParams))].Name
		case "struct":
			cands := []*Struct{}
			for _, o := range c.pkg.Structs {
				if o != c.st && !o.Recur && len(o.Fields) > 0 && len(o.Fields) < 8 && c.structOK(o) {
					cands = append(cands, o)
				}
			}
			if len(cands) == 0 {
				continue
			}
			// generic structs with several type parameters are the interesting field types (argument order of the
			// instance function): three times the weight
			for _, o := range append([]*Struct{}, cands...) {
				if len(o.TParams) >= 2 {
					cands = append(cands, o, o)
				}
			}
			o := cands[r.Intn(len(cands))]
			t = structTy(o, instArgs(o))
		case "money", "pt":
			c.pkg.UsesDep = true
		case "ptr", "slice", "seq", "array", "map", "opt", "tuple2":
			if c.depth >= 2 {
				continue
			}
			c.depth++
			t.Elem = c.ty()
			c.depth--
			if k == "array" && t.Elem.K != "int" && t.Elem.K != "string" {
				t.Elem = T("int")
			}
			if k == "tuple2" && (t.Elem.K == "func" || t.Elem.K == "chan" || t.Elem.K == "chanr" || t.Elem.K == "chans") {
				t.Elem = T("int")
			}
		}
		if !c.typeOK(t) {
			continue
		}
		return t
	}
	return T("int")
}

func instArgs(o *Struct) []string {
	out := []string{}
	for _, p := range o.TParams {
		out = append(out, p.Inst)
	}
	return out
}

// structOK: an earlier struct may be used as a field type of the struct being generated
func (c *genCtx) structOK(o *Struct) bool {
	if o.Plain && len(c.classes) == 0 {
		return false
	}
	for _, cl := range c.classes {
		if !o.HasDerive(cl) {
			return false
		}
	}
	if len(c.classes) > 0 {
		// as a component of a derived instance the struct must not have fields the Builder{} detour resets
		for _, f := range o.Fields {
			if !f.Applicable() {
				return false
			}
		}
	}
	if c.allow != nil && c.st.Ann.Json && !o.JSONRoundTrips() {
		return false
	}
	return true
}

func (c *genCtx) typeOK(t *Ty) bool {
	for _, cl := range c.classes {
		if !supports(cl, t, c.st) {
			return false
		}
	}
	return true
}

var fieldNames = []string{"name", "age", "email", "addr", "val", "cnt", "data", "items", "left", "right", "key", "size", "flag", "note",
	"a", "b", "t", "v", "m", "x1", "my_field", "userName", "typ", "id", "ok", "err", "str", "num", "list", "opt", "ptr", "next", "prev", "zz9",
	"string", "len", "w", "h", "q", "label", "unit", "price", "tags", "owner", "state", "kind", "code", "msg", "ref", "tmp"}
var pubNames = []string{"Pub", "Name2", "ID", "URL", "X", "Y2", "Exported", "P1", "Q_", "Zed"}

func (c *genCtx) freshName(used map[string]bool, pool []string, prefix string) string {
	for tries := 0; tries < 20; tries++ {
		n := pool[c.r.Intn(len(pool))]
		if !used[strings.ToLower(n)] {
			used[strings.ToLower(n)] = true
			return n
		}
	}
	for i := 0; ; i++ {
		n := fmt.Sprintf("%s%d", prefix, i)
		if !used[strings.ToLower(n)] {
			used[strings.ToLower(n)] = true
			return n
		}
	}
}

func (c *genCtx) tag(name string, idx int) string {
	r := c.r
	switch r.Intn(14) {
	case 0:
		return fmt.Sprintf(`json:"j%d"`, idx)
	case 1:
		return fmt.Sprintf(`json:"j%d,omitempty"`, idx)
	case 2:
		return `json:"-"`
	case 3:
		return fmt.Sprintf(`xml:"x%d"`, idx)
	case 4:
		return `fp:"String.Exclude"`
	case 5:
		return fmt.Sprintf(`yaml:"y%d" json:"jj%d"`, idx, idx)
	}
	return ""
}

// fields appends n fields.  vis controls the visibility mix.
func (c *genCtx) fields(n int, onlyPrivate bool, onlyPublic bool) {
	r := c.r
	used := map[string]bool{}
	for _, f := range c.st.Fields {
		used[strings.ToLower(f.Name)] = true
	}
	for i := 0; i < n; i++ {
		f := Field{}
		x := r.Intn(100)
		idx := len(c.st.Fields)
		switch {
		case onlyPublic:
			f.Name = c.freshName(used, pubNames, "F")
			f.Ty = c.ty()
		case onlyPrivate || x < 62:
			f.Name = c.freshName(used, fieldNames, "f")
			f.Ty = c.ty()
		case x < 80:
			f.Name = c.freshName(used, pubNames, "F")
			f.Ty = c.ty()
		case x < 88:
			f.Name = "_" + c.freshName(used, fieldNames, "u")
			f.Ty = c.ty()
		case x < 90:
			f.Name = "_"
			f.Ty = T(common.Pick(r, "int", "string", "bool"))
			if c.st.Ann.GetterPub || c.st.Ann.WithPub || r.Intn(3) > 0 {
				// (a blank field under @fp.GetterPubField/@fp.WithPubField is one of the clash shapes)
				f.Name = "_" + c.freshName(used, fieldNames, "u")
			}
		default:
			// embedded field (only when nothing restricts the field kinds)
			if (c.allow != nil && !c.embOK) || len(c.classes) > 0 {
				f.Name = c.freshName(used, fieldNames, "f")
				f.Ty = c.ty()
				break
			}
			e := common.Pick(r, "ZzEmb", "*ZzEmb", "ZzEmpty", "zzPrivEmpty")
			base := strings.TrimPrefix(e, "*")
			if used[strings.ToLower(base)] {
				f.Name = c.freshName(used, fieldNames, "f")
				f.Ty = c.ty()
				break
			}
			used[strings.ToLower(base)] = true
			f.Name = base
			f.Embedded = true
			f.Empty = base == "ZzEmpty" || base == "zzPrivEmpty"
			f.Ty = &Ty{K: "emb", Name: e}
		}
		if f.Name != "_" && r.Intn(3) == 0 {
			f.Tag = c.tag(f.Name, idx)
		}
		c.st.Fields = append(c.st.Fields, f)
		// now and then declare a second field together with this one (`a, b T`): gombok then sees the type of `b` only through
		// go/types, not through the source text of the field
		if !f.Embedded && f.Tag == "" && f.Name != "_" && f.Ty.K != "tparam" && i+1 < n && r.Intn(8) == 0 {
			names := fieldNames
			if !isLowerFirst(f.Name) {
				names = pubNames
			}
			g := Field{Name: c.freshName(used, names, "f"), Ty: f.Ty}
			if !isLowerFirst(f.Name) {
				g.Name = PublicName(g.Name)
			}
			c.st.Fields[len(c.st.Fields)-1].JoinNext = true
			c.st.Fields = append(c.st.Fields, g)
			i++
		}
	}
}

func nFields(r *Rng) int {
	x := r.Intn(100)
	switch {
	case x < 2:
		return 0
	case x < 10:
		return 1
	case x < 60:
		return 2 + r.Intn(5)
	case x < 80:
		return 7 + r.Intn(9)
	}
	return 19 + r.Intn(5)
}

func tparams(r *Rng, n int) []TParam {
	names := []string{"T", "K", "V", "U", "A"}
	out := []TParam{}
	for i := 0; i < n; i++ {
		p := TParam{Name: names[i]}
		switch r.Intn(6) {
		case 0:
			p.Constraint = "comparable"
			p.Inst = common.Pick(r, "string", "int", "MyInt")
		case 1:
			p.Constraint = "ZzOrdered"
			p.Inst = common.Pick(r, "int", "string", "MyStr")
		case 2:
			p.Constraint = "any"
			p.Inst = common.Pick(r, "any", "ZzIface")
		default:
			p.Constraint = "any"
			p.Inst = common.Pick(r, "int", "string", "MyInt", "[]int", "fp.Option[int]", "*int")
		}
		p.InstTy = instTy(p.Inst)
		out = append(out, p)
	}
	return out
}

func instTy(src string) *Ty {
	switch src {
	case "int", "string":
		return T(src)
	case "MyInt":
		return T("myint")
	case "MyStr":
		return T("mystr")
	case "any":
		return T("any")
	case "ZzIface":
		return T("iface")
	case "[]int":
		return TE("slice", T("int"))
	case "fp.Option[int]":
		return TE("opt", T("int"))
	case "*int":
		return TE("ptr", T("int"))
	}
	panic("instTy " + src)
}

// GenStruct draws one struct for the package.
func GenStruct(r *Rng, pkg *Package, name string) *Struct {
	st := &Struct{Name: name}
	c := &genCtx{r: r, pkg: pkg, st: st}
	shape := pickW(r, []weighted{{"value", 22}, {"json", 14}, {"derive", 22}, {"generic", 10}, {"recursive", 5}, {"plain", 6},
		{"big", 8}, {"annmix", 6}, {"user", 5}, {"clash", 2}, {"recclone", 4}})
	st.Shape = shape
	valueAnn := func() {
		st.Ann.Value = true
		st.Ann.Json = r.Intn(100) < 45
		st.Ann.GenLabelled = r.Intn(100) < 40
		st.Ann.GetterPub = r.Intn(100) < 12
		st.Ann.WithPub = r.Intn(100) < 12
		st.Ann.AllArgs = r.Intn(100) < 10
		if r.Intn(100) < 5 {
			st.Ann.Getter = true
		}
		if r.Intn(100) < 5 {
			st.Ann.With = true
		}
	}
	pickClasses := func() {
		// a random non-empty subset, biased to several classes at once
		for _, cl := range Classes {
			if r.Intn(100) < 45 {
				c.classes = append(c.classes, cl)
			}
		}
		if len(c.classes) == 0 {
			c.classes = []string{common.Pick(r, Classes...)}
		}
		// Hashable needs nothing else; Ord without Eq is fine too
	}
	switch shape {
	case "value":
		valueAnn()
		if r.Intn(4) == 0 {
			st.TParams = tparams(r, 1+r.Intn(2))
		}
		c.fields(nFields(r), false, false)
	case "json":
		valueAnn()
		st.Ann.Json = true
		if r.Intn(5) > 0 {
			c.allow = func(k string) bool { return jsonKinds[k] && k != "tparam" }
			c.embOK = true
		}
		nf := nFields(r)
		if r.Intn(6) == 0 {
			// beyond the tuple limit: the JSON methods go through AsMutable / AsImmutable, which must carry EVERY field also when
			// the struct is too wide for AsTuple (seed C15-8: the AsImmutable emitter clamped its field list like the tuple emitters)
			nf = 22 + r.Intn(3)
		}
		c.fields(nf, false, false)
	case "derive":
		valueAnn()
		pickClasses()
		// the USER of an earlier phantom-parameter generic struct: derive (a subset of) the classes it derives and hold it as a field
		for _, o := range pkg.Structs {
			if o.Phantom && len(o.Derives) > 0 && r.Intn(3) > 0 {
				keep := []string{}
				for _, cl := range c.classes {
					if o.HasDerive(cl) {
						keep = append(keep, cl)
					}
				}
				if len(keep) == 0 {
					keep = []string{o.Derives[r.Intn(len(o.Derives))].Class}
				}
				c.classes = keep
				if c.structOK(o) {
					st.Fields = append(st.Fields, Field{Name: "phv", Ty: structTy(o, instArgs(o))})
				}
				break
			}
		}
		n := 1 + r.Intn(6)
		if r.Intn(8) == 0 {
			n = 19 + r.Intn(5)
		}
		c.fields(n, false, false)
	case "generic":
		valueAnn()
		st.TParams = tparams(r, 1+r.Intn(3))
		for i := range st.TParams {
			// derivable generic structs are instantiated at types every class supports
			st.TParams[i].Constraint = common.Pick(r, "any", "any", "comparable")
			st.TParams[i].Inst = common.Pick(r, "int", "string", "MyInt")
			st.TParams[i].InstTy = instTy(st.TParams[i].Inst)
		}
		pickClasses()
		if len(st.TParams) == 3 && r.Intn(2) == 0 {
			// a PHANTOM type parameter (one of the three is used by no field) while the other two are used in an order different
			// from their declaration: the instance function takes "one instance per type parameter actually used", in
			// declaration order, also at the call sites inside OTHER derived types that have this struct as a field (seed C08-10)
			ph := r.Intn(3)
			st.Phantom = true
			used := []int{}
			for i := 2; i >= 0; i-- {
				if i != ph {
					used = append(used, i)
				}
			}
			st.Fields = append(st.Fields,
				Field{Name: "rvb", Ty: &Ty{K: "tparam", Name: st.TParams[used[0]].Name}},
				Field{Name: "rva", Ty: &Ty{K: "tparam", Name: st.TParams[used[1]].Name}})
			prev := c.allow
			c.allow = func(k string) bool { return k != "tparam" && (prev == nil || prev(k)) }
			c.fields(r.Intn(3), false, false)
			c.allow = prev
			break
		}
		if len(st.TParams) >= 2 && r.Intn(2) == 0 {
			// the fields mention the type parameters in an order different from their declaration (instance
			// arguments of a derived generic instance function must still follow the declaration)
			st.Fields = append(st.Fields,
				Field{Name: "rvb", Ty: &Ty{K: "tparam", Name: st.TParams[len(st.TParams)-1].Name}},
				Field{Name: "rva", Ty: &Ty{K: "tparam", Name: st.TParams[0].Name}})
		}
		c.fields(1+r.Intn(5), false, false)
	case "recursive":
		valueAnn()
		st.Recur = true
		pickClasses()
		c.classes = without(c.classes, "monoid", "show")
		if len(c.classes) == 0 {
			c.classes = []string{"eq"}
		}
		c.fields(1+r.Intn(3), true, false)
		self := structTy(st, nil)
		st.Fields = append(st.Fields, Field{Name: "next", Ty: TE("ptr", self)})
		switch r.Intn(5) {
		case 0:
			st.Fields = append(st.Fields, Field{Name: "kids", Ty: TE("slice", self)})
		case 1, 2:
			st.Fields = append(st.Fields, Field{Name: "kids", Ty: TE("slice", TE("ptr", self))})
		}
		if r.Intn(3) == 0 {
			st.Fields = append(st.Fields, Field{Name: "optKid", Ty: TE("opt", TE("ptr", self))})
		}
		st.Ann.Json = false
	case "plain":
		st.Plain = true
		pickClasses()
		c.classes = without(c.classes, "show")
		if len(c.classes) == 0 {
			c.classes = []string{"eq"}
		}
		c.fields(1+r.Intn(5), false, true)
	case "recclone":
		// @fp.Derive(recursive=true) over a nested named struct that has NO annotation and NO declared
		// instance (ZzIndex: exported and unexported fields, all holding mutable storage): gombok must
		// derive a deep instance for it too (CloneZzIndex / EqZzIndex)
		st.Plain = true
		c.classes = []string{"clone"}
		if r.Intn(2) == 0 {
			c.classes = append(c.classes, "eq")
		}
		c.allow = func(k string) bool {
			return k == "int" || k == "string" || k == "bool" || k == "int64" || k == "opt" || k == "slice" || k == "ptr" || k == "map" || k == "myint" || k == "mystr"
		}
		c.fields(1+r.Intn(3), false, true)
		if r.Intn(2) == 0 {
			// three levels (Root -> ZzMid -> ZzIndex) with ZzMid FIRST met as the element of a container field; a direct field
			// only afterwards, if at all (seed C08-8: the derive scheduled for a nested type met inside a container lost the
			// directive's tags, so recursive=true stopped one level below a slice / pointer / option / map field)
			switch r.Intn(4) {
			case 0:
				st.Fields = append(st.Fields, Field{Name: "Mids", Ty: TE("slice", T("mid"))})
			case 1:
				st.Fields = append(st.Fields, Field{Name: "PMid", Ty: TE("ptr", T("mid"))})
			case 2:
				st.Fields = append(st.Fields, Field{Name: "OMid", Ty: TE("opt", T("mid"))})
			default:
				st.Fields = append(st.Fields, Field{Name: "MMid", Ty: TE("map", T("mid"))})
			}
			if r.Intn(3) == 0 {
				st.Fields = append(st.Fields, Field{Name: "Mid", Ty: T("mid")})
			}
			break
		}
		st.Fields = append(st.Fields, Field{Name: "Idx", Ty: T("index")})
		switch r.Intn(3) {
		case 0:
			st.Fields = append(st.Fields, Field{Name: "PIdx", Ty: TE("ptr", T("index"))})
		case 1:
			st.Fields = append(st.Fields, Field{Name: "Idxs", Ty: TE("slice", T("index"))})
		}
	case "big":
		valueAnn()
		if r.Intn(2) == 0 {
			c.classes = []string{common.Pick(r, "eq", "ord", "hash", "monoid", "clone")}
			if r.Intn(2) == 0 {
				c.classes = append(c.classes, "eq")
			}
		}
		c.allow = func(k string) bool {
			return k == "int" || k == "string" || k == "opt" || k == "myint" || k == "slice" || k == "int64"
		}
		c.fields(19+r.Intn(5), false, false)
	case "annmix":
		for st.Ann == (Ann{}) {
			st.Ann.Getter = r.Intn(2) == 0
			st.Ann.With = r.Intn(2) == 0
			st.Ann.Builder = r.Intn(2) == 0
			st.Ann.GetterPub = r.Intn(3) == 0
			st.Ann.WithPub = r.Intn(3) == 0
			st.Ann.AllArgs = r.Intn(3) == 0
		}
		if r.Intn(4) == 0 {
			st.TParams = tparams(r, 1)
		}
		c.fields(1+r.Intn(7), false, false)
	case "user":
		valueAnn()
		c.fields(2+r.Intn(4), false, false)
		userMethods(r, st)
	case "clash":
		valueAnn()
		c.fields(r.Intn(4), false, false)
		clashFields(r, st)
	}
	// instance-resolution probes: a field whose type has an instance in its own package (dep.Money) or a
	// local overriding instance (MyInt), so that the precedence is observable in the derived instance
	if len(c.classes) > 0 && !st.Plain && shape != "clash" {
		if r.Intn(100) < 45 && supportsAll(c.classes, T("money"), st) {
			st.Fields = append(st.Fields, Field{Name: "amt", Ty: T("money")})
			pkg.UsesDep = true
		}
		if r.Intn(100) < 35 && supportsAll(c.classes, T("myint"), st) {
			st.Fields = append(st.Fields, Field{Name: "mi", Ty: T("myint")})
		}
	}
	// derive directives
	if len(c.classes) > 0 {
		uniq := map[string]bool{}
		for _, cl := range c.classes {
			if uniq[cl] {
				continue
			}
			uniq[cl] = true
			ok := st.NApp() > 0 && (st.Plain || st.ValueRuns())
			for _, f := range st.Fields {
				if f.Applicable() && !supports(cl, f.Ty, st) {
					ok = false
				}
			}
			if ok {
				st.Derives = append(st.Derives, Derive{Class: cl, Recursive: shape == "recclone" || (st.Plain && r.Intn(2) == 0)})
			}
		}
	}
	return st
}

func without(xs []string, drop ...string) []string {
	out := []string{}
	for _, x := range xs {
		if !contains(drop, x) {
			out = append(out, x)
		}
	}
	return out
}

// userMethods: the user already wrote some of the methods gombok would generate
func userMethods(r *Rng, st *Struct) {
	recv := st.Name + st.TypeParamUse()
	var sb strings.Builder
	priv := []int{}
	for i, f := range st.Fields {
		if f.Private() && !f.Embedded {
			priv = append(priv, i)
		}
	}
	if len(priv) == 0 {
		return
	}
	if st.Ann.Json && st.ValueRuns() && r.Intn(2) == 0 {
		// the user wrote ONE of the two JSON methods by hand: gombok must skip exactly that one and still generate the other
		// (seed C15-10 of round 5: the guard in front of the generated UnmarshalJSON looked for a user-written MarshalJSON)
		if r.Intn(2) == 0 {
			fmt.Fprintf(&sb, "func (r %s) MarshalJSON() ([]byte, error) { return zzJSONMarshal(r.AsMutable()) }\n", recv)
			st.UserT = append(st.UserT, "MarshalJSON")
		} else {
			fmt.Fprintf(&sb, "func (r *%s) UnmarshalJSON(b []byte) error { m := r.AsMutable(); if err := zzJSONUnmarshal(b, &m); err != nil { return err }; *r = m.AsImmutable(); return nil }\n", recv)
			st.UserT = append(st.UserT, "UnmarshalJSON")
		}
		st.UserSrc = sb.String()
		return
	}
	i := priv[r.Intn(len(priv))]
	f := st.Fields[i]
	u := PublicName(f.Name)
	switch r.Intn(3) {
	case 0:
		fmt.Fprintf(&sb, "func (r %s) %s() %s { return r.%s }\n", recv, u, f.Ty.Src(nil), f.Name)
		st.UserT = append(st.UserT, u)
	case 1:
		fmt.Fprintf(&sb, "func (r %s) With%s(v %s) %s { r.%s = v; return r }\n", recv, u, f.Ty.Src(nil), recv, f.Name)
		st.UserT = append(st.UserT, "With"+u)
	case 2:
		fmt.Fprintf(&sb, "type %sBuilder%s %s\n", st.Name, st.TypeParamDecl(), recv)
		fmt.Fprintf(&sb, "func (r %sBuilder%s) %s(v %s) %sBuilder%s { r.%s = v; return r }\n", st.Name, st.TypeParamUse(), u, f.Ty.Src(nil), st.Name, st.TypeParamUse(), f.Name)
		st.BDef = true
		st.UserB = append(st.UserB, u)
	}
	st.UserSrc = sb.String()
}

// clashFields: field-name shapes that collide with names gombok derives
func clashFields(r *Rng, st *Struct) {
	has := func(n string) bool {
		for _, f := range st.Fields {
			if strings.EqualFold(f.Name, n) {
				return true
			}
		}
		return false
	}
	add := func(f Field) {
		if !has(f.Name) {
			st.Fields = append(st.Fields, f)
		}
	}
	switch r.Intn(7) {
	case 0: // email fp.Option[string] next to someEmail
		o, p := Field{Name: "email", Ty: TE("opt", T("string"))}, Field{Name: "someEmail", Ty: T(common.Pick(r, "string", "int"))}
		if r.Intn(2) == 0 {
			add(o)
			add(p)
		} else {
			add(p)
			add(o)
		}
	case 1: // a colour
		add(Field{Name: "r", Ty: T("int")})
		add(Field{Name: "g", Ty: T("int")})
	case 2: // private embedded struct with fields
		st.Fields = append(st.Fields, Field{Name: "zzPriv", Embedded: true, Ty: &Ty{K: "emb", Name: "zzPriv"}})
	case 3: // x next to X
		add(Field{Name: "count", Ty: T("int")})
		add(Field{Name: "Count", Ty: T("int")})
	case 4: // a private field named like a generated method
		add(Field{Name: common.Pick(r, "asMap", "builder", "asMutable"), Ty: T("int")})
	case 5: // none next to noneX
		add(Field{Name: "addr", Ty: TE("opt", T("int"))})
		add(Field{Name: "noneAddr", Ty: T("bool")})
	case 6: // blank field with public-field accessors
		st.Fields = append(st.Fields, Field{Name: "_", Ty: T("int")})
		if r.Intn(2) == 0 {
			st.Ann.GetterPub = true
		} else {
			st.Ann.WithPub = true
		}
	}
}

// GenPackages draws nStructs structs and distributes them over packages of about perPkg structs.
// Structs whose generated code is predicted not to compile go to one extra package (Bad).
func GenPackages(r *Rng, nStructs int, perPkg int) []*Package {
	pkgs := []*Package{}
	bad := &Package{Name: "bad0", Bad: true}
	nPk := (nStructs + perPkg - 1) / perPkg
	if nPk < 1 {
		nPk = 1
	}
	id := 0
	for p := 0; p < nPk; p++ {
		pkg := &Package{Name: fmt.Sprintf("pk%d", p)}
		pkg.OverrideMyInt = r.Intn(2) == 0
		pkg.OverrideMoney = common.Pick(r, "", "", "EqMoney", "EqDepMoney")
		cnt := perPkg
		if p == nPk-1 {
			cnt = nStructs - perPkg*(nPk-1)
		}
		for i := 0; i < cnt; i++ {
			st := GenStruct(r, pkg, fmt.Sprintf("S%d", id))
			id++
			if len(st.Clashes()) > 0 || st.KnownBad() != "" {
				// references to other structs of pkg are not portable
				portable := true
				for _, f := range st.Fields {
					if tyMentionsStruct(f.Ty) {
						portable = false
					}
				}
				if portable {
					if st.KnownBad() == "" {
						st.Derives = nil
					}
					bad.Structs = append(bad.Structs, st)
				}
				continue
			}
			pkg.Structs = append(pkg.Structs, st)
		}
		pkgs = append(pkgs, pkg)
	}
	if len(bad.Structs) > 0 {
		for _, st := range bad.Structs {
			for _, f := range st.Fields {
				if tyMentionsDep(f.Ty) {
					bad.UsesDep = true
				}
			}
		}
		pkgs = append(pkgs, bad)
	}
	return pkgs
}

func tyMentionsStruct(t *Ty) bool {
	if t.K == "struct" {
		return true
	}
	return t.Elem != nil && tyMentionsStruct(t.Elem)
}

func tyMentionsDep(t *Ty) bool {
	if t.K == "money" || t.K == "pt" {
		return true
	}
	return t.Elem != nil && tyMentionsDep(t.Elem)
}

// KnownBad: shapes outside the record model whose generated code is known not to compile (they are
// kept apart so that they do not take the other structs of their package down with them).
func (s *Struct) KnownBad() string {
	rec := false
	for _, d := range s.Derives {
		if d.Recursive {
			rec = true
		}
	}
	if rec {
		for _, f := range s.Fields {
			for t := f.Ty; t != nil; t = t.Elem {
				if t.K == "seq" {
					return "C08.compile:recursive-derive-of-fp.Seq"
				}
			}
		}
	}
	return ""
}

func supportsAll(classes []string, t *Ty, st *Struct) bool {
	for _, cl := range classes {
		if !supports(cl, t, st) {
			return false
		}
	}
	return true
}
